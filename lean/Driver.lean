import MwVerif.Driver.C15
import MwVerif.Driver.Qs
import MwVerif.Driver.C19
import MwVerif.Driver.C12
import MwVerif.Driver.C14
import MwVerif.Driver.C13
import MwVerif.Driver.C10
import MwVerif.Driver.C20
import MwVerif.Driver.Templ
import MwVerif.Driver.Expr
import MwVerif.Driver.Uniq
import MwVerif.Driver.Tree
import MwVerif.Driver.Entity
import MwVerif.Driver.Sections
import MwVerif.Driver.Fetch
import MwVerif.Driver.Style
import MwVerif.Driver.Lists
import MwVerif.Driver.Braces
import MwVerif.Driver.SplitRow
import MwVerif.Driver.Table
import MwVerif.Driver.Spans
import MwVerif.Driver.Merge

open MwVerif.Driver

def main (args : List String) : IO UInt32 := do
  let stdin ← IO.getStdin
  let stdout ← IO.getStdout
  match args with
  | ["c15"] => loop stdin stdout C15.step; return 0
  | ["templ"] => loop stdin stdout Templ.step; return 0
  | ["expr"] => loop stdin stdout Expr.step; return 0
  | ["uniq"] => loop stdin stdout Uniq.step; return 0
  | ["tree"] => loop stdin stdout Tree.step; return 0
  | ["entity"] => loop stdin stdout Entity.step; return 0
  | ["sect"] => loop stdin stdout Sections.step; return 0
  | ["fetch"] => loop stdin stdout Fetch.step; return 0
  | ["style"] => loop stdin stdout Style.step; return 0
  | ["lists"] => loop stdin stdout Lists.step; return 0
  | ["braces"] => loop stdin stdout Braces.step; return 0
  | ["splitrow"] => loop stdin stdout SplitRow.step; return 0
  | ["table"] => loop stdin stdout Table.step; return 0
  | ["spans"] => loop stdin stdout Spans.step; return 0
  | ["merge"] => loop stdin stdout Merge.step; return 0
  | ["c20"] => loop stdin stdout C20.step; return 0
  | ["c10"] => loop stdin stdout C10.step; return 0
  | ["c13"] => loop stdin stdout C13.step; return 0
  | ["c14"] => loop stdin stdout C14.step; return 0
  | ["c12"] => loop stdin stdout C12.step; return 0
  | ["c19"] => loop stdin stdout C19.step; return 0
  | ["qs"] => Qs.loop stdin stdout MwVerif.Qs.init; return 0
  | _ => IO.eprintln "usage: driver <model>"; return 2
