/-
Model of the section nesting of `mwlib/parser/refine/core.py: ParseSections` (`create` with its
stack of open sections): a heading of level `l` closes every open section of level ≥ `l` and
becomes a child of the innermost section still open, or a top-level section.  The model is the
equivalent recursive description: a section contains the maximal run of following sections that
are strictly deeper.  Core Lean only.
-/
namespace MwVerif.Sections

inductive Sec (α : Type) where
  | node (level : Nat) (payload : α) (subs : List (Sec α))
  deriving Repr

variable {α : Type}

def deeper (l : Nat) (x : Nat × α) : Bool := decide (l < x.1)

/-- nest a sequence of (level, payload) headings. -/
def nest : List (Nat × α) → List (Sec α)
  | [] => []
  | (l, a) :: rest =>
    .node l a (nest (rest.takeWhile (deeper l))) :: nest (rest.dropWhile (deeper l))
termination_by xs => xs.length
decreasing_by
  · simp only [List.length_cons]
    have := (List.takeWhile_sublist (l := rest) (deeper l)).length_le
    omega
  · simp only [List.length_cons]
    have := (List.dropWhile_sublist (l := rest) (deeper l)).length_le
    omega

mutual
  /-- the headings in document order (pre-order) -/
  def Sec.flat : Sec α → List (Nat × α)
    | .node l a subs => (l, a) :: flatL subs
  def flatL : List (Sec α) → List (Nat × α)
    | [] => []
    | s :: ss => s.flat ++ flatL ss
end

def Sec.level : Sec α → Nat
  | .node l _ _ => l
def Sec.subs : Sec α → List (Sec α)
  | .node _ _ ss => ss

mutual
  /-- every sub-section is strictly deeper than its parent, recursively -/
  def Sec.wellNested : Sec α → Bool
    | .node l _ subs => allDeeper l subs
  def allDeeper (l : Nat) : List (Sec α) → Bool
    | [] => true
    | s :: ss => decide (l < s.level) && s.wellNested && allDeeper l ss
end

end MwVerif.Sections
