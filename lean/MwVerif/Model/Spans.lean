/-
Model of `mwlib/writers/rl/rltables.py: check_spans` (with `check_spans_in_row`, `get_empty_cell`): before a
table is laid out, every cell that spans columns or rows gets filler cells for the positions it covers, and all rows
are padded to the same number of cells.

* pass 1, row by row, cell by cell (the loop also visits the fillers it has just inserted): a cell with `colspan > 1`
  gets a filler with `colspan - 1` and the same `rowspan` behind it; a `rowspan` reaching below the table is clipped;
* pass 2, row by row from the top: a cell with `rowspan > 1` puts a filler with the same `colspan` and `rowspan - 1`
  into the next row, before the cell that stands at its own index there, or behind the last cell if that row is
  shorter (the fillers are met again when the next row is processed);
* pass 3: rows shorter than the longest get 1x1 fillers at the end.

The span styles (`("SPAN", …)`) are not modelled.  Core Lean only.
-/
namespace MwVerif.Spans

structure Cell where
  cs : Nat        -- colspan (>= 1)
  rs : Nat        -- rowspan (>= 1)
  id : Nat        -- 0 for a filler, the cell's identity otherwise
  deriving Repr, DecidableEq

def filler (cs rs : Nat) : Cell := ⟨max 1 cs, max 1 rs, 0⟩

/-- pass 1 on one row; `left` = rows from this one to the end of the table (for the clipping).  The fuel is the sum
of the colspans: every filler pushed back has a smaller colspan than the cell it follows. -/
def clip (left : Nat) (c : Cell) : Cell := { c with rs := if left < c.rs then left else c.rs }

def pass1Row (left : Nat) : Nat → List Cell → List Cell
  | _, [] => []
  | 0, cs => cs
  | fuel + 1, c :: rest =>
    if 1 < c.cs then clip left c :: pass1Row left fuel (filler (c.cs - 1) c.rs :: rest)
    else clip left c :: pass1Row left fuel rest

def spanSum : List Cell → Nat
  | [] => 0
  | c :: cs => c.cs + 1 + spanSum cs

def pass1 : List (List Cell) → List (List Cell)
  | [] => []
  | row :: rows => pass1Row (rows.length + 1) (spanSum row) row :: pass1 rows

/-- insert `x` before the element at index `i`, or at the end if the row is not that long. -/
def insertAt (x : Cell) : Nat → List Cell → List Cell
  | _, [] => [x]
  | 0, c :: cs => x :: c :: cs
  | _ + 1, [c] => [c, x]
  | i + 1, c :: d :: cs => c :: insertAt x i (d :: cs)

/-- the fillers the cells of `row` (from index `i` on) put into the next row. -/
def pushDown : Nat → List Cell → List Cell → List Cell
  | _, [], next => next
  | i, c :: row, next =>
    if 1 < c.rs then pushDown (i + 1) row (insertAt (filler c.cs (c.rs - 1)) i next)
    else pushDown (i + 1) row next

/-- pass 2 from the row `row` (already holding what the rows above pushed into it) downwards. -/
def pass2From (row : List Cell) : List (List Cell) → List (List Cell)
  | [] => [row]
  | next :: rows => row :: pass2From (pushDown 0 row next) rows

def pass2 : List (List Cell) → List (List Cell)
  | [] => []
  | row :: rows => pass2From row rows

def maxLen : List (List Cell) → Nat
  | [] => 0
  | r :: rs => max r.length (maxLen rs)

def pad (n : Nat) (row : List Cell) : List Cell := row ++ List.replicate (n - row.length) (filler 1 1)

def pass3 (rows : List (List Cell)) : List (List Cell) := rows.map (pad (maxLen rows))

def checkSpans (rows : List (List Cell)) : List (List Cell) := pass3 (pass2 (pass1 rows))

end MwVerif.Spans
