/-
Model of the job-queue server: `qs/jobs.py` (`job`, `workq`), `qs/qserve.py` (`QPlugin`,
save/load) and the part of gevent / `qs/rpcserver.py` they depend on (FIFO hub callbacks,
`AsyncResult` hand-off, `Event` wake-up, killing a connection's greenlet).

Small-step, total, computable; imports nothing outside core Lean.

Representation choices (DESIGN.md §5 C16, §8.1):
* a job's identity is its serial; `jobs` holds every job ever created, serial `j` at index
  `j` (0-based here, printed 1-based).  Jobs are never removed from `jobs`; whether a job is
  still *known to the server* is `id2job`.
* the per-channel heaps are one list `queued` (a job is always pushed on the heap of its
  own channel, so the heap of channel `c` is `queued.filter (channel = c)`); heap shape is
  irrelevant because `(priority, serial)` keys are distinct.
* `_waiters`, the `AsyncResult`s that have been set but not yet consumed (`mail`) and all
  connections' `running_jobs` (`running`) are global association lists.
* `hubq` is the FIFO of gevent hub callbacks that matter: notification of a set
  `AsyncResult`, notification of a set `Event`, a queued kill of a connection greenlet.
* `random.choice` reads `tape` (head, or 0 when empty); the op `seed` sets the tape, so
  quantifying over histories quantifies over every choice sequence.
-/
namespace MwVerif.Qs

abbrev Serial := Nat
abbrev Wid := Nat
abbrev Chan := Nat

inductive JobId where
  | num (n : Nat)        -- default id: the (1-based) serial
  | name (n : Nat)       -- client-chosen string id
  deriving DecidableEq, Repr, Inhabited

/-- the `error` attribute: `None`, `"timeout"`, `"killed"`, or another string
(`str 0` is the empty string, every other `str n` is truthy). -/
inductive Err where
  | none | timeout | killed | str (n : Nat)
  deriving DecidableEq, Repr, Inhabited

def Err.truthy : Err → Bool
  | .none => false
  | .str 0 => false
  | _ => true

inductive Kind where
  | success | error | timeout | killed
  deriving DecidableEq, Repr

/-- counter bumped by `_mark_finished` (as repaired: falsy error counts as success). -/
def Err.kind : Err → Kind
  | .timeout => .timeout
  | .killed => .killed
  | e => if e.truthy then .error else .success

structure Job where
  id : JobId
  channel : Chan
  prio : Int
  payload : Nat
  timeout : Nat                 -- absolute time
  done : Bool := false
  error : Err := .none
  result : Option Nat := none
  info : List (Nat × Nat) := []
  ttl : Nat := 3600
  deadline : Option Nat := none
  deriving Repr, Inhabited, DecidableEq

inductive HubEv where
  | notifyMail (w : Wid)        -- AsyncResult.set → switch into the blocked puller
  | notifyEvent (j : Serial)    -- Event.set → switch into the greenlets waiting on job j
  | kill (w : Wid)              -- Greenlet.kill(block=False) of connection w
  deriving DecidableEq, Repr

structure Mail where
  w : Wid
  chans : List Chan
  job : Serial
  deriving DecidableEq, Repr

/-- ghost record of a hand-out (a `pop` that returned). -/
structure HandOut where
  job : Serial
  w : Wid
  chans : List Chan
  chan : Chan
  doneAtHandout : Bool
  direct : Bool                -- through a blocked puller's mailbox
  deriving DecidableEq, Repr

/-- a connection blocked in `waitjobs`. -/
structure JWait where
  w : Wid
  all : List Serial            -- the jobs it asked for
  rem : List Serial            -- still to wait for; head = the event it is linked to
  deriving DecidableEq, Repr

structure St where
  now : Nat := 1000
  jobs : List Job := []
  id2job : List (JobId × Serial) := []
  queued : List Serial := []
  waiters : List (Wid × List Chan) := []
  mail : List Mail := []
  running : List (Wid × Serial) := []
  jwait : List JWait := []
  hubq : List HubEv := []
  dying : List Wid := []
  dead : List Wid := []                -- connections that are gone (ids are not reused)
  tape : List Nat := []
  counts : List (Chan × Kind) := []
  handed : List HandOut := []          -- ghost
  requeued : List Serial := []         -- ghost: re-enqueued because the holder's connection dropped
  deriving Repr

def init : St := {}

def St.mailJobs (s : St) : List Serial := s.mail.map (·.job)
def St.runJobs (s : St) : List Serial := s.running.map (·.2)

/-- in how many places job `j` is: channel heaps + mailboxes in flight + workers' running sets. -/
def St.loc (s : St) (j : Serial) : Nat :=
  s.queued.count j + s.mailJobs.count j + s.runJobs.count j

/-! ### dictionaries (Python `dict`, insertion ordered) -/

def dictGet {α β} [DecidableEq α] (d : List (α × β)) (k : α) : Option β :=
  (d.find? (·.1 = k)).map (·.2)

def dictSet {α β} [DecidableEq α] : List (α × β) → α → β → List (α × β)
  | [], k, v => [(k, v)]
  | (k', v') :: rest, k, v => if k' = k then (k', v) :: rest else (k', v') :: dictSet rest k v

def dictDel {α β} [DecidableEq α] (d : List (α × β)) (k : α) : List (α × β) :=
  d.filter (·.1 ≠ k)

/-! ### jobs -/

def St.job? (s : St) (j : Serial) : Option Job := s.jobs[j]?

/-- a serial that is not a job at all is treated as finished (inert). -/
def St.done (s : St) (j : Serial) : Bool :=
  match s.jobs[j]? with
  | some x => x.done
  | none => true

def St.chan (s : St) (j : Serial) : Chan :=
  match s.jobs[j]? with
  | some x => x.channel
  | none => 0

def St.prio (s : St) (j : Serial) : Int :=
  match s.jobs[j]? with
  | some x => x.prio
  | none => 0

def St.jid (s : St) (j : Serial) : JobId :=
  match s.jobs[j]? with
  | some x => x.id
  | none => .num 0

def St.modJob (s : St) (j : Serial) (f : Job → Job) : St :=
  { s with jobs := s.jobs.modify j f }

/-- `channel in watching or not watching` -/
def eligible (chans : List Chan) (c : Chan) : Bool := chans.isEmpty || chans.contains c

/-- job ordering: `(priority, serial)` lexicographic. -/
def St.keyLt (s : St) (a b : Serial) : Bool :=
  s.prio a < s.prio b || (s.prio a == s.prio b && a < b)

/-- minimum by key of a list of serials (`min(jobs)` over the heap heads). -/
def St.minKey (s : St) : List Serial → Option Serial
  | [] => none
  | j :: js =>
    match s.minKey js with
    | none => some j
    | some m => if s.keyLt m j then some m else some j

/-- next value of the choice tape (0 when exhausted). -/
def St.choice (s : St) : Nat := s.tape.headD 0

/-- the blocked puller `pushjob` hands the job to (`random.choice(alternatives)`), if any. -/
def pushTarget (s : St) (j : Serial) : Option (Wid × List Chan) :=
  match s.waiters.filter (fun wc => eligible wc.2 (s.chan j)) with
  | [] => none
  | a :: as => some ((a :: as).getD (s.choice % (a :: as).length) a)

/-- `workq.pushjob` for a job that already has its serial (as repaired: the chosen waiter is
unregistered at hand-off). -/
def pushJob (s : St) (j : Serial) : St :=
  match pushTarget s j with
  | none => { s with id2job := dictSet s.id2job (s.jid j) j, queued := s.queued ++ [j] }
  | some wc =>
    { s with
      id2job := dictSet s.id2job (s.jid j) j
      tape := s.tape.tail
      waiters := s.waiters.filter (·.1 ≠ wc.1)
      mail := s.mail ++ [⟨wc.1, wc.2, j⟩]
      hubq := s.hubq ++ [.notifyMail wc.1] }

/-- `_mark_finished(job, **kw)`.  The keyword arguments the code uses are `error` (always),
`result` (only `finishjob`) and the capped `ttl` (only `finishjob` with a truthy error). -/
def markFinished (s : St) (j : Serial) (res : Option (Option Nat)) (err : Err) (capTtl : Bool) : St :=
  match s.jobs[j]? with
  | none => s
  | some x =>
    if x.done then s
    else
      let x' := { x with
        done := true
        error := err
        result := res.getD x.result
        ttl := if capTtl then min 10 x.ttl else x.ttl }
      let s := { s with jobs := s.jobs.set j x', counts := s.counts ++ [(x.channel, err.kind)] }
      -- Event.set(): a notifier is scheduled only if some greenlet is linked to the event
      if s.jwait.any (fun jw => jw.rem.head? = some j) then
        { s with hubq := s.hubq ++ [.notifyEvent j] }
      else s

/-- `_preenall` up to observation: finished jobs are ignored by every reader of the heaps;
the model drops all of them (the code drops those that reach a heap head). -/
def preenAll (s : St) : St := { s with queued := s.queued.filter (fun j => !s.done j) }

inductive Out where
  | none
  | busy                                  -- the connection cannot take a command now
  | retId (id : JobId)                    -- rpc_qadd
  | pulled (w : Wid) (j : Serial)         -- rpc_qpull returned job j to w
  | blocked (w : Wid)                     -- rpc_qpull / rpc_qwait is blocked
  | keyError
  | ok
  | waited (w : Wid) (js : List Serial)   -- rpc_qwait returned
  | infoOf (j : Option Serial)            -- rpc_qinfo
  deriving Repr, DecidableEq

/-- `self.running_jobs[j.jobid] = j` on connection `w`: a dict keyed by job id, so an entry
of `w` with the same id is overwritten in place (it can only be a finished namesake). -/
def runInsert (s : St) (w : Wid) (j : Serial) : List (Wid × Serial) :=
  match s.running.findIdx? (fun e => e.1 = w && s.jid e.2 = s.jid j) with
  | some i => s.running.set i (w, j)
  | none => s.running ++ [(w, j)]

/-- the body of `workq.pop` + the bookkeeping of `rpc_qpull`, for connection `w`. -/
def pullCore (s : St) (w : Wid) (chans : List Chan) : St × List Out :=
  let s := preenAll s
  let cands := s.queued.filter (fun j => eligible chans (s.chan j))
  match s.minKey cands with
  | some j =>
    ({ s with
        queued := s.queued.erase j
        running := runInsert s w j
        handed := s.handed ++ [⟨j, w, chans, s.chan j, s.done j, false⟩] },
     [.pulled w j])
  | none => ({ s with waiters := s.waiters ++ [(w, chans)] }, [.blocked w])

def St.busy (s : St) (w : Wid) : Bool :=
  s.waiters.any (·.1 = w) || s.mail.any (·.w = w) || s.jwait.any (·.w = w) ||
    s.dying.contains w || s.dead.contains w

/-- `shutdown()` of connection `w` (as repaired: finished jobs are not re-queued). -/
def shutdownConn (s : St) (w : Wid) : St :=
  let mine := (s.running.filter (·.1 = w)).map (·.2)
  let s := { s with running := s.running.filter (·.1 ≠ w) }
  mine.foldl (fun s j => if s.done j then s else pushJob { s with requeued := s.requeued ++ [j] } j) s

/-- one greenlet woken by `Event.set` of job `j` continues `waitjobs`. -/
def advanceWait (s : St) (jw : JWait) : St × List Out :=
  let rem := jw.rem.tail.dropWhile (fun j => s.done j)
  let others := s.jwait.filter (·.w ≠ jw.w)
  match rem with
  | [] => ({ s with jwait := others }, [.waited jw.w jw.all])
  | _ => ({ s with jwait := others ++ [{ jw with rem := rem }] }, [])

/-- the hub switches into puller `w` whose `AsyncResult` was set. -/
def deliverMail (s : St) (w : Wid) : St × List Out :=
  match s.mail.find? (·.w = w) with
  | none => (s, [])                               -- the link was removed by a kill
  | some m =>
    let s := { s with mail := s.mail.erase m }
    if s.done m.job then pullCore s w m.chans    -- finished in flight: pop() goes round again
    else
      ({ s with
          running := runInsert s w m.job
          handed := s.handed ++ [⟨m.job, w, m.chans, s.chan m.job, s.done m.job, true⟩] },
       [.pulled w m.job])

/-- `Event.set` of job `j` reaches the hub: every greenlet linked to it continues. -/
def wakeEvent (s : St) (j : Serial) : St × List Out :=
  (s.jwait.filter (fun jw => jw.rem.head? = some j)).foldl (fun (acc : St × List Out) jw =>
    let (s', o) := advanceWait acc.1 jw
    (s', acc.2 ++ o)) (s, [])

/-- killed while blocked in `pop()`: a job already in the mailbox is re-queued (the repaired
`except` branch). -/
def killMail (s : St) (w : Wid) : St :=
  match s.mail.find? (·.w = w) with
  | none => s
  | some m =>
    let s := { s with mail := s.mail.erase m }
    if s.done m.job then s else pushJob s m.job

/-- the connection greenlet of `w` receives `GreenletExit`. -/
def killConn (s : St) (w : Wid) : St :=
  let s := killMail { s with dying := s.dying.filter (· ≠ w), dead := s.dead ++ [w] } w
  shutdownConn { s with waiters := s.waiters.filter (·.1 ≠ w), jwait := s.jwait.filter (·.w ≠ w) } w

/-- run one hub callback. -/
def runOne (s : St) : St × List Out :=
  match s.hubq with
  | [] => (s, [])
  | .notifyMail w :: rest => deliverMail { s with hubq := rest } w
  | .notifyEvent j :: rest => wakeEvent { s with hubq := rest } j
  | .kill w :: rest => (killConn { s with hubq := rest } w, [])

/-- let the event loop run until no callback is pending (fuel = a bound that is never
reached by the harness; `runOne` is the real step). -/
def runAll : Nat → St → St × List Out
  | 0, s => (s, [])
  | n + 1, s =>
    if s.hubq.isEmpty then (s, [])
    else
      let (s1, o1) := runOne s
      let (s2, o2) := runAll n s1
      (s2, o1 ++ o2)

def infoUpdate (d : List (Nat × Nat)) (u : List (Nat × Nat)) : List (Nat × Nat) :=
  u.foldl (fun d kv => dictSet d kv.1 kv.2) d

inductive Op where
  | add (ch : Chan) (prio : Int) (id : Option Nat) (timeout : Nat) (payload : Nat)
  | pull (w : Wid) (chans : List Chan)
  | runOne
  | run
  | finish (w : Wid) (id : JobId) (result : Option Nat) (error : Err)
  | kill (w : Wid) (ids : List JobId)
  | tick (dt : Nat)
  | disconnect (w : Wid)
  | wait (w : Wid) (ids : List JobId)
  | info (id : JobId)
  | setinfo (id : JobId) (kv : List (Nat × Nat))
  | watchdog
  | restart
  | seed (tape : List Nat)
  deriving Repr, DecidableEq

/-- `handletimeouts`: every unfinished job whose timeout has passed, in heap order
`(timeout, priority, serial)`. -/
def insertBy (lt : Nat → Nat → Bool) (x : Nat) : List Nat → List Nat
  | [] => [x]
  | y :: ys => if lt x y then x :: y :: ys else y :: insertBy lt x ys

def St.timeoutOf (s : St) (j : Serial) : Nat :=
  match s.jobs[j]? with
  | some x => x.timeout
  | none => 0

def St.expired (s : St) : List Serial :=
  let due := (List.range s.jobs.length).filter (fun j => !s.done j && s.timeoutOf j ≤ s.now)
  due.foldr (insertBy (fun a b => s.timeoutOf a < s.timeoutOf b ||
      (s.timeoutOf a == s.timeoutOf b && s.keyLt a b))) []

def handleTimeouts (s : St) : St :=
  preenAll (s.expired.foldl (fun s j => markFinished s j none .timeout false) s)

def deadlineSet (d : Option Nat) : Bool :=
  match d with
  | some n => n != 0
  | none => false

/-- one iteration of `dropdead` for the entry `e` of the `id2job` snapshot. -/
def dropStep (s : St) (e : JobId × Serial) : St :=
  match s.jobs[e.2]? with
  | none => s
  | some x =>
    if deadlineSet x.deadline && x.deadline.getD 0 < s.now then
      { s with id2job := dictDel s.id2job e.1 }
    else if x.done && !deadlineSet x.deadline then
      s.modJob e.2 (fun x => { x with deadline := some (s.now + x.ttl) })
    else s

/-- `dropdead` (the watchdog). -/
def dropDead (s : St) : St := s.id2job.foldl dropStep s

/-- stop the server and start it again from its pickled state:
`__getstate__` = (count, jobs reachable from id2job); `__setstate__` rebuilds the heaps and
the timeout queue from the unfinished jobs; every connection is gone. -/
def restart (s : St) : St :=
  let held := (s.running.map (·.2)).filter (fun j => !s.done j)
  let undone := (s.id2job.map (·.2)).filter (fun j => !s.done j)
  { s with
    queued := undone
    waiters := []
    mail := []
    running := []
    jwait := []
    hubq := []
    dead := []                 -- a new server process: every connection id is free again
    dying := []
    counts := []
    requeued := s.requeued ++ held }

def resolveIds (s : St) (ids : List JobId) : Option (List Serial) :=
  ids.mapM (dictGet s.id2job)

def step (s : St) : Op → St × List Out
  | .add ch prio id timeout payload =>
    let existing :=
      match id with
      | some n =>
        match dictGet s.id2job (.name n) with
        | some j => if (s.job? j).map (·.error) != some .killed then some (JobId.name n) else none
        | none => none
      | none => none
    match existing with
    | some jid => (s, [.retId jid])
    | none =>
      let j := s.jobs.length
      let jid := match id with
        | some n => JobId.name n
        | none => JobId.num (j + 1)
      let job : Job := { id := jid, channel := ch, prio := prio, payload := payload, timeout := s.now + timeout }
      (pushJob { s with jobs := s.jobs ++ [job] } j, [.retId jid])
  | .pull w chans => if s.busy w then (s, [.busy]) else pullCore s w chans
  | .runOne => runOne s
  | .run => runAll ((s.hubq.length + 1) * (s.jobs.length + 2) + 8) s
  | .finish w id result error =>
    if s.busy w then (s, [.busy]) else
    match dictGet s.id2job id with
    | none => (s, [.keyError])
    | some j =>
      let s := markFinished s j (some result) error error.truthy
      ({ s with running := s.running.filter (fun e => !(e.1 = w && s.jid e.2 = id)) }, [.ok])
  | .kill w ids =>
    if s.busy w then (s, [.busy]) else
    let s := ids.foldl (fun s id =>
      match dictGet s.id2job id with
      | none => s
      | some j => markFinished s j none .killed false) s
    ({ s with running := s.running.filter (fun e => !(e.1 = w && ids.contains (s.jid e.2))) }, [.ok])
  | .tick dt => (handleTimeouts { s with now := s.now + dt }, [])
  | .disconnect w =>
    if s.dying.contains w || s.dead.contains w then (s, [.busy])
    else ({ s with hubq := s.hubq ++ [.kill w], dying := s.dying ++ [w] }, [])
  | .wait w ids =>
    if s.busy w then (s, [.busy]) else
    match resolveIds s ids with
    | none => (s, [.keyError])
    | some js =>
      match js.dropWhile (fun j => s.done j) with
      | [] => (s, [.waited w js])
      | rem => ({ s with jwait := s.jwait ++ [⟨w, js, rem⟩] }, [.blocked w])
  | .info id => (s, [.infoOf (dictGet s.id2job id)])
  | .setinfo id kv =>
    match dictGet s.id2job id with
    | none => (s, [.keyError])
    | some j => (s.modJob j (fun x => { x with info := infoUpdate x.info kv }), [.ok])
  | .watchdog => (dropDead s, [])
  | .restart => (restart s, [])
  | .seed t => ({ s with tape := t }, [])

def runOps (s : St) (ops : List Op) : St := ops.foldl (fun s op => (step s op).1) s

/-- every state the server can be in. -/
def Reach (s : St) : Prop := ∃ ops, s = runOps init ops

end MwVerif.Qs
