/-
Model of the document-tree primitives of `mwlib/parser/advtree.py` through which the cleaning
passes re-parent nodes: `replace_child` (incl. the "dissolve a wrapper" idiom
`parent.replace_child(n, n.children)`), `remove_child`, `append_child`, `move_to`.
Trees are values; a node is addressed by its identity (a number the harness assigns).  Parent
links are *derived* in the model, so the correspondence check compares them with the real
`parent` attributes.  Core Lean only.
-/
namespace MwVerif.Tree

inductive T where
  | node (id : Nat) (kind : Nat) (words : List String) (children : List T)
  deriving Repr, Inhabited

mutual
  def T.ids : T → List Nat
    | .node i _ _ cs => i :: idsL cs
  def idsL : List T → List Nat
    | [] => []
    | c :: cs => c.ids ++ idsL cs
end

mutual
  /-- the visible words in reading order -/
  def T.words : T → List String
    | .node _ _ ws cs => ws ++ wordsL cs
  def wordsL : List T → List String
    | [] => []
    | c :: cs => c.words ++ wordsL cs
end

def T.id : T → Nat
  | .node i _ _ _ => i
def T.children : T → List T
  | .node _ _ _ cs => cs
def T.own : T → List String
  | .node _ _ ws _ => ws

mutual
  /-- `parent.replace_child(x, f x)` wherever `x` is: every child with identity `x` is replaced by
  the list `f child`. -/
  def T.replace (x : Nat) (f : T → List T) : T → T
    | .node i k ws cs => .node i k ws (replaceL x f cs)
  def replaceL (x : Nat) (f : T → List T) : List T → List T
    | [] => []
    | c :: cs => (if c.id = x then f c else [c.replace x f]) ++ replaceL x f cs
end

/-- `parent.replace_child(x, x.children)`: dissolve a wrapper. -/
def T.dissolve (x : Nat) (t : T) : T := t.replace x T.children

/-- `parent.remove_child(x)` -/
def T.remove (x : Nat) (t : T) : T := t.replace x (fun _ => [])

mutual
  /-- the subtree with identity `x`, if any -/
  def T.find (x : Nat) : T → Option T
    | .node i k ws cs => if i = x then some (.node i k ws cs) else findL x cs
  def findL (x : Nat) : List T → Option T
    | [] => none
    | c :: cs => match c.find x with
      | some r => some r
      | none => findL x cs
end

mutual
  /-- insert `n` right behind (or before) the child with identity `target` -/
  def T.insertAt (target : Nat) (before : Bool) (n : T) : T → T
    | .node i k ws cs => .node i k ws (insertAtL target before n cs)
  termination_by structural t => t
  def insertAtL (target : Nat) (before : Bool) (n : T) : List T → List T
    | [] => []
    | c :: cs =>
      if c.id = target then (if before then n :: c :: cs else c :: n :: cs)
      else T.insertAt target before n c :: insertAtL target before n cs
  termination_by structural l => l
end

/-- `x.move_to(target, prefix)`: detach `x`, then insert it next to `target`. -/
def T.moveTo (x target : Nat) (before : Bool) (t : T) : T :=
  match t.find x with
  | none => t
  | some n => T.insertAt target before n (t.remove x)

mutual
  /-- `parent.append_child(n)` for the node with identity `p` -/
  def T.appendTo (p : Nat) (n : T) : T → T
    | .node i k ws cs => if i = p then .node i k ws (cs ++ [n]) else .node i k ws (appendToL p n cs)
  termination_by structural t => t
  def appendToL (p : Nat) (n : T) : List T → List T
    | [] => []
    | c :: cs => T.appendTo p n c :: appendToL p n cs
  termination_by structural l => l
end

end MwVerif.Tree
