import MwVerif.Model.Tree

/-
Model of the cleaning pass `TreeCleaner.fix_paragraphs` (`treecleaner.py:747-769`) over the tree
model: the loop `while self._fix_paragraphs(node): pass`, where one call finds — in document
order, a node before its children — the first Paragraph whose previous sibling is a Section and
moves it behind that section's last child (`node.move_to(prev.get_last_child())`), i.e. makes it
the section's last child.  Core Lean only.

Kinds (assigned by the harness): 1 = Paragraph, 2 = Section, anything else = other.
A Section without children makes the real code raise (`None.parent`); the parser gives every
section its caption child, the model states this as `SectionsNonEmpty`.
-/
namespace MwVerif.Tree

def T.kind : T → Nat
  | .node _ k _ _ => k

def kPara : Nat := 1
def kSection : Nat := 2

/-- `n` becomes the last child. -/
def T.appendChild : T → T → T
  | .node i k ws cs, n => .node i k ws (cs ++ [n])

mutual
  /-- one call of `_fix_paragraphs`: `some` = changed (returned True). -/
  def T.fixParaStep : T → Option T
    | .node i k ws cs => (fixParaStepL cs).map (.node i k ws)
  /-- the children of a node; the head has been checked against *its* previous sibling already. -/
  def fixParaStepL : List T → Option (List T)
    | [] => none
    | [a] => a.fixParaStep.map ([·])
    | a :: b :: rest =>
      match a.fixParaStep with
      | some a' => some (a' :: b :: rest)
      | none =>
        if b.kind = kPara ∧ a.kind = kSection then some (a.appendChild b :: rest)
        else (fixParaStepL (b :: rest)).map (a :: ·)
end

/-- `fix_paragraphs`: repeat while something changed (fuel: see `fixParagraphs_fixed`). -/
def fixParagraphs : Nat → T → T
  | 0, t => t
  | n + 1, t =>
    match t.fixParaStep with
    | none => t
    | some t' => fixParagraphs n t'

mutual
  def T.size : T → Nat
    | .node _ _ _ cs => 1 + sizeL cs
  def sizeL : List T → Nat
    | [] => 0
    | c :: cs => c.size + sizeL cs
end

mutual
  /-- the sum of the depths of all nodes, the root at depth `d`. -/
  def T.depthSum (d : Nat) : T → Nat
    | .node _ _ _ cs => d + depthSumL (d + 1) cs
  def depthSumL (d : Nat) : List T → Nat
    | [] => 0
    | c :: cs => c.depthSum d + depthSumL d cs
end

end MwVerif.Tree
