/-
Model of the work-list at the heart of `mwlib/network/fetch.py` (`Fetcher`): items (article
revisions, templates, images, description pages) are discovered from the answers to earlier
requests and fetched in batches; `scheduled` guards against fetching an item twice.  The model
abstracts the API as a graph `succ` (what an item's answer makes necessary) and lets the batches be
chosen arbitrarily (any batch size, any order in which answers arrive).
Core Lean only.
-/
namespace MwVerif.Fetch

variable {α : Type} [DecidableEq α]

structure St (α : Type) where
  seen : List α          -- `scheduled`: everything ever queued
  todo : List α          -- queued, answer not yet processed
  deriving Repr

/-- insert the items of `xs` that were never seen -/
def addNew (xs : List α) (s : St α) : St α :=
  xs.foldl (fun s x => if x ∈ s.seen then s else { seen := s.seen ++ [x], todo := s.todo ++ [x] }) s

/-- start: the items the metabook lists, each queued once -/
def init (roots : List α) : St α := addNew roots { seen := [], todo := [] }

/-- the answer for item `x` arrives: `x` leaves the queue, what it needs is queued unless seen. -/
def answer (succ : α → List α) (x : α) (s : St α) : St α :=
  addNew (succ x) { s with todo := s.todo.erase x }

/-- a schedule: in which order the queued items are answered (items not queued are ignored) -/
def run (succ : α → List α) (s : St α) : List α → St α
  | [] => s
  | x :: xs => if x ∈ s.todo then run succ (answer succ x s) xs else run succ s xs

/-- reachability from the roots in the "needs" graph -/
inductive Reach (succ : α → List α) (roots : List α) : α → Prop
  | root {x} : x ∈ roots → Reach succ roots x
  | step {x y} : Reach succ roots x → y ∈ succ x → Reach succ roots y

end MwVerif.Fetch
