/-
Model of the argument splitting of the template parser (`templ/parser.py: Parser._parse_args`):
the children of a template call are split at every `|` that is not inside `[[ … ]]`, and every `=`
that is not inside `[[ … ]]` becomes the name/value mark.  Core Lean only.
-/
namespace MwVerif.Args

inductive Ch where
  | lopen | lclose | pipe | eq
  | other (id : Nat)            -- any other string or node
  deriving Repr, DecidableEq

inductive Item where
  | ch (c : Ch)
  | eqmark
  deriving Repr, DecidableEq

/-- the loop of `_parse_args`: link depth, the argument being collected, the arguments so far (in order). -/
def go (lc : Nat) (arg : List Item) (args : List (List Item)) (app : Bool) : List Ch → List (List Item)
  | [] => if app || !arg.isEmpty then args ++ [arg] else args
  | .lopen :: cs => go (lc + 1) (arg ++ [.ch .lopen]) args app cs
  | .lclose :: cs => go (lc - 1) (arg ++ [.ch .lclose]) args app cs
  | .pipe :: cs => if lc = 0 then go lc [] (args ++ [arg]) true cs else go lc (arg ++ [.ch .pipe]) args app cs
  | .eq :: cs => if lc = 0 then go lc (arg ++ [.eqmark]) args app cs else go lc (arg ++ [.ch .eq]) args app cs
  | .other i :: cs => go lc (arg ++ [.ch (.other i)]) args app cs

def parseArgs (appendArg : Bool) (children : List Ch) : List (List Item) := go 0 [] [] appendArg children

def Item.toCh : Item → Ch
  | .ch c => c
  | .eqmark => .eq

/-- the arguments written back: joined by `|`. -/
def join : List (List Item) → List Ch
  | [] => []
  | [a] => a.map Item.toCh
  | a :: b :: rest => a.map Item.toCh ++ .pipe :: join (b :: rest)

/-- link depth after reading `cs` starting at depth `lc` (a `]]` at depth 0 is ignored). -/
def depth (lc : Nat) : List Ch → Nat
  | [] => lc
  | .lopen :: cs => depth (lc + 1) cs
  | .lclose :: cs => depth (lc - 1) cs
  | _ :: cs => depth lc cs

/-- does `cs`, read from link depth `lc`, contain a `|` or `=` at depth 0? -/
def hasTop (lc : Nat) : List Ch → Bool
  | [] => false
  | .lopen :: cs => hasTop (lc + 1) cs
  | .lclose :: cs => hasTop (lc - 1) cs
  | .pipe :: cs => lc == 0 || hasTop lc cs
  | .eq :: cs => hasTop lc cs
  | .other _ :: cs => hasTop lc cs

end MwVerif.Args
