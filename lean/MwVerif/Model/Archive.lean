import MwVerif.Model.Qs
/-
Model of the collection-archive text format shared by the writer
(`mwlib.network.fetch.FsOutput.write_pages`, fetch.py:177-213) and the reader
(`mwlib.core.nuwiki.NuWiki._read_revisions/_get_page`, nuwiki.py:144-204), and of
`mwlib.utils.unorganized.fs_escape`.  Core Lean only.

The JSON text of a record's meta line is opaque here (`metaLine : Str`); the JSON codec stays
on the Python side (trusted).  What is modelled is the framing, the `seen` de-duplication,
the index the reader builds and the lookups.
-/

namespace MwVerif.Archive
open MwVerif.Qs (dictGet dictSet)

abbrev Str := List Char

/-- the record separator `"\n\x0c --page-- "`. -/
def sep : Str := ['\n', Char.ofNat 12, ' ', '-', '-', 'p', 'a', 'g', 'e', '-', '-', ' ']

/-! ### the stream -/

/-- one record as written: header line and text. -/
def writeRecord (metaLine text : Str) : Str := sep ++ metaLine ++ '\n' :: text

def writeStream : List (Str × Str) → Str
  | [] => []
  | r :: rs => writeRecord r.1 r.2 ++ writeStream rs

/-- Python `s.split(sep)` for a non-empty `sep`: left to right, non-overlapping.
`skip` = characters of a matched separator still to be consumed. -/
def splitAux (sp : Str) : Nat → Str → Str → List Str
  | _, [], acc => [acc.reverse]
  | skip + 1, _ :: cs, acc => splitAux sp skip cs acc
  | 0, c :: cs, acc =>
    if sp.isPrefixOf (c :: cs) then acc.reverse :: splitAux sp (sp.length - 1) cs []
    else splitAux sp 0 cs (c :: acc)

def splitOn (sp s : Str) : List Str := splitAux sp 0 s []

/-- `page.split("\n", 1)`; `none` when there is no newline (the reader raises). -/
def splitLine : Str → Option (Str × Str)
  | [] => none
  | c :: cs =>
    if c = '\n' then some ([], cs)
    else (splitLine cs).map (fun p => (c :: p.1, p.2))

/-- `_read_revisions`, framing part: the records of a stream, `none` if a part has no
newline (`ValueError` in the code). -/
def readStream (s : Str) : Option (List (Str × Str)) :=
  ((splitOn sep s).drop 1).mapM splitLine

/-! ### records, de-duplication on write, index on read -/

structure Rec where
  title : Nat              -- titles are opaque here (an index into the harness's title table)
  ns : Int
  revid : Option Nat
  text : Nat               -- texts likewise
  deriving Repr, DecidableEq

/-- `write_pages`: a revision is written unless its revid is already in `seen`
(`seen` holds revids and titles; a `None` revid is never "seen"). -/
def writePages : List Nat → List Rec → List Rec
  | _, [] => []
  | seen, r :: rs =>
    match r.revid with
    | none => r :: writePages seen rs
    | some v => if seen.contains v then writePages seen rs else r :: writePages (v :: seen) rs

/-- the reader's `revisions` dict, split by key type. -/
structure Index where
  byRevid : List (Nat × Rec)          -- dict revid -> page (insertion ordered)
  byTitle : List (Nat × Rec)          -- dict title -> page
  deriving Repr

/-- first loop of `_read_revisions`. -/
def indexFirst (rs : List Rec) : Index :=
  rs.foldl (fun ix r =>
    match r.revid with
    | none => { ix with byTitle := dictSet ix.byTitle r.title r }
    | some v => { ix with byRevid := dictSet ix.byRevid v r }) ⟨[], []⟩

def insertDesc (x : Nat × Rec) : List (Nat × Rec) → List (Nat × Rec)
  | [] => [x]
  | y :: ys => if x.1 ≥ y.1 then x :: y :: ys else y :: insertDesc x ys

/-- second loop (as repaired): walk the pages by descending revid; a title that has no page
yet gets the first page seen. -/
def fillTitles (bt : List (Nat × Rec)) (es : List (Nat × Rec)) : List (Nat × Rec) :=
  es.foldl (fun bt e => if (dictGet bt e.2.title).isSome then bt else dictSet bt e.2.title e.2) bt

def sortDesc (l : List (Nat × Rec)) : List (Nat × Rec) := l.foldr insertDesc []

def buildIndex (rs : List Rec) : Index :=
  let ix := indexFirst rs
  { ix with byTitle := fillTitles ix.byTitle (sortDesc ix.byRevid) }

def lookupRevid (ix : Index) (v : Nat) : Option Rec := dictGet ix.byRevid v
def lookupTitle (ix : Index) (t : Nat) : Option Rec := dictGet ix.byTitle t

/-- `_get_page(name, revision=None)` with `redirects.json`. -/
def getPageByName (ix : Index) (redirects : List (Nat × Nat)) (name : Nat) : Option Rec :=
  let target := (dictGet redirects name).getD name
  match lookupTitle ix target with
  | some p => some p
  | none => lookupTitle ix name

/-! ### fs_escape -/

def digits (n : Nat) : Str := (Nat.toDigits 10 n)

/-- `fs_escape` on characters; `isWord` is Python's `\w` (Unicode) restricted to what can
reach the final filter, `isWs` is `str.isspace` for the final `strip()`. -/
def fsEscapeChars (s : Str) : Str :=
  if s.all (fun c => c.toNat < 128) && !s.any (fun c => c = '~' || c = '/' || c = '\\') then s
  else s.flatMap (fun c =>
    if c.toNat < 128 && !(c = '~' || c = '/' || c = '\\') then [c]
    else if c = '~' then ['~', '~']
    else '~' :: digits c.toNat ++ ['~'])

def stripWs (isWs : Char → Bool) (s : Str) : Str :=
  ((s.dropWhile isWs).reverse.dropWhile isWs).reverse

def fsEscape (isWs isWord : Char → Bool) (s : Str) : Str :=
  ((stripWs isWs (fsEscapeChars s)).map (fun c => if c = ' ' then '_' else c)).filter
    (fun c => c = '-' || c = '.' || c = '~' || isWord c)

end MwVerif.Archive
