/-
Model of how `TreeCleaner.transform_single_col_tables` takes a one-column table apart
(`mwlib/parser/treecleaner.py`: `_wrap_or_append_cell_items`, `_replace_child_based_on_div_wrapper`):
every cell becomes a `Div` holding the cell's children (`div_wrapper`) or its children are put where the
table was; a child of the table that is not a row (its caption) is kept like a cell of its own.
Children are abstract ids.  Core Lean only.
-/
namespace MwVerif.SingleCol

/-- a child of the table: its caption with the caption's children, or a row with the children of each cell. -/
inductive Child where
  | caption (items : List Nat)
  | row (cells : List (List Nat))
  deriving Repr, DecidableEq

/-- `cells = row.children if row.__class__ == Row else [row]` -/
def Child.cells : Child → List (List Nat)
  | .caption items => [items]
  | .row cells => cells

/-- what replaces the table: a `Div` with children, or a bare child. -/
inductive Out where
  | div (items : List Nat)
  | item (x : Nat)
  deriving Repr, DecidableEq

def unpackCell (wrap : Bool) (cell : List Nat) : List Out :=
  if wrap then [.div cell] else cell.map .item

/-- `_wrap_or_append_cell_items` followed by `parent.replace_child(node, divs | items)`. -/
def unpack (wrap : Bool) (table : List Child) : List Out :=
  (table.flatMap Child.cells).flatMap (unpackCell wrap)

def Out.leaves : Out → List Nat
  | .div items => items
  | .item x => [x]

/-- the children below the table in document order. -/
def leaves (table : List Child) : List Nat := (table.flatMap Child.cells).flatten

/-! `_remove_table_and_linearize_columns` (the helper of `split_table_to_columns`): the same table, laid out column by column. -/

/-- the content of the captions, in order. -/
def captionItems : List Child → List Nat
  | [] => []
  | .caption items :: rest => items ++ captionItems rest
  | .row _ :: rest => captionItems rest

/-- the rows (the cells of each with their children). -/
def rowsOf : List Child → List (List (List Nat))
  | [] => []
  | .caption _ :: rest => rowsOf rest
  | .row cells :: rest => cells :: rowsOf rest

/-- column `c`, top to bottom. -/
def columnOf (rows : List (List (List Nat))) (c : Nat) : List Nat := (rows.map fun r => r.getD c []).flatten

/-- `_remove_table_and_linearize_columns`: the captions' content, then column after column. -/
def linearize (numcols : Nat) (table : List Child) : List Nat :=
  captionItems table ++ (List.range numcols).flatMap (columnOf (rowsOf table))

end MwVerif.SingleCol
