import MwVerif.Model.Scan

/-
The rule sets of `_uscan.re`, transcribed by hand (re2c is not available in the sandbox, so the
running code is the checked-in `_uscan.cc`; the correspondence check compares this model with
the module compiled from it).  Order matters: re2c prefers the earlier rule on ties.
-/
namespace MwVerif.Scan
open Re

def rng (a b : Char) : Nat × Nat := (a.toNat, b.toNat)
def one (c : Char) : Nat × Nat := (c.toNat, c.toNat)
def setOf (s : String) : List (Nat × Nat) := s.toList.map one

def alnum : List (Nat × Nat) := [rng 'a' 'z', rng 'A' 'Z', rng '0' '9']
def blanks : Re := star (cls false (setOf " \t"))

def reMailto : Re :=
  seq (str "mailto:") (seq (plus (cls false (alnum ++ setOf "-_!#$%*./?|^{}`~&'+=")))
    (seq (chr '@') (plus (cls false (alnum ++ setOf "-_.")))))
def reIrc : Re := seq (str "irc://") (plus (cls false (alnum ++ setOf "./")))
/-- `[a-ZA-Z0-9.]`: the reversed range `a-Z` is read by re2c as `Z-a`. -/
def reNews : Re := seq (str "news:") (plus (cls false ([rng 'Z' 'a', rng 'A' 'Z', rng '0' '9'] ++ setOf ".")))
def reFtp : Re := seq (str "ftp://") (plus (cls false (alnum ++ setOf "-_+${}~?=/@#&*(),:.'")))
def urlChars : Re := plus (cls true ([one ']', one '[', one '<', one '>', one '"', (0, 0x20), (0x7F, 0x7F)]))
def reUrl : Re := seq (str "http") (seq (opt (chr 's')) (seq (str "://") urlChars))
def reRelUrl : Re := seq (str "//") urlChars
def reEntity : Re :=
  anyOf [
    seq (chr '&') (seq (plus (cls false alnum)) (chr ';')),
    seq (str "&#") (seq (ichr 'x') (seq (plus (cls false [rng 'a' 'f', rng 'A' 'F', rng '0' '9'])) (chr ';'))),
    seq (str "&#") (seq (plus (cls false [rng '0' '9'])) (chr ';'))]
def reMagic : Re := anyOf (["__TOC__", "__NOTOC__", "__NOINDEX__", "__FORCETOC__", "__NOEDITSECTION__",
  "__NEWSECTIONLINK__", "__NOCONTENTCONVERT__", "__NOCC__", "__NOGALLERY__", "__NOTITLECONVERT__",
  "__NOTC__", "__END__", "__START__", "__NUMBEREDHEADINGS__", "__NOTOCNUM__", "__NONUMBEREDHEADINGS__",
  "__NOGLOSSARY__"].map str)
def reUniq : Re :=
  seq (chr (Char.ofNat 0x7F)) (seq (str "UNIQ-") (seq (plus (cls false [rng 'a' 'z', rng '0' '9']))
    (seq (chr '-') (seq (plus (cls false [rng '0' '9'])) (seq (chr '-')
      (seq (plus (cls false [rng '0' '9', rng 'a' 'f'])) (seq (str "-QINU") (chr (Char.ofNat 0x7F)))))))))
def notNulAngle : Re := star (cls true [(0, 0), one '<', one '>'])
def reHtmlTag : Re :=
  seq (chr '<') (seq (opt (chr '/')) (seq (plus (cls false [rng 'a' 'z', rng 'A' 'Z']))
    (seq notNulAngle (seq (opt (chr '/')) (chr '>')))))
def reComment : Re := seq (str "<!--") (seq notNulAngle (str "-->"))

def bolRules : List Rule := [
  ⟨seq blanks (seq (star (chr ':')) (str "{|")), .beginTable⟩,
  ⟨seq blanks (str "|}"), .endTable⟩,
  ⟨seq blanks (seq (chr '|') (plus (chr '-'))), .tableOrPre t_row⟩,
  ⟨seq blanks (cls false (setOf "|!")), .columnOrPre⟩,
  ⟨seq blanks (seq (chr '|') (plus (chr '+'))), .tableOrPre t_tablecaption⟩,
  ⟨chr ' ', .ret t_pre⟩,
  ⟨seq (plus (chr '=')) blanks, .sectionOpen⟩,
  ⟨plus (cls false (setOf ":;#*")), .ret t_item⟩,
  ⟨atLeast 4 (chr '-'), .ret t_hrule⟩,
  ⟨cls true [], .gotoNotBol⟩]

def notBolRules : List Rule := [
  ⟨chr ebadChar, .ebad⟩,
  ⟨seq (chr '[') reMailto, .ret t_urllink⟩,
  ⟨reMailto, .ret t_http_url⟩,
  ⟨seq (chr '[') reIrc, .ret t_urllink⟩,
  ⟨reIrc, .ret t_http_url⟩,
  ⟨seq (chr '[') reNews, .ret t_urllink⟩,
  ⟨reNews, .ret t_http_url⟩,
  ⟨seq (chr '[') reFtp, .ret t_urllink⟩,
  ⟨reFtp, .ret t_http_url⟩,
  ⟨seq (chr '[') reUrl, .ret t_urllink⟩,
  ⟨seq (chr '[') reRelUrl, .ret t_urllink⟩,
  ⟨reUrl, .ret t_http_url⟩,
  ⟨reMagic, .ret t_magicword⟩,
  ⟨reUniq, .ret t_uniq⟩,
  ⟨plus (cls false alnum), .ret t_text⟩,
  ⟨plus (chr '_'), .ret t_text⟩,
  ⟨str "[[", .ret t_2box_open⟩,
  ⟨str "]]", .ret t_2box_close⟩,
  ⟨seq (plus (chr '=')) blanks, .sectionEndOrText⟩,
  ⟨seq (chr '\n') (seq (star (cls false (setOf "\n "))) (chr '\n')), .breakSplit⟩,
  ⟨chr '\n', .newlineTok⟩,
  ⟨anyOf [str "||", str "|!", str "!!"], .colSpecial⟩,
  ⟨str "|+", .captionSpecial⟩,
  ⟨cls false (setOf ":|[]"), .ret t_special⟩,
  ⟨seq (chr '\'') (plus (chr '\'')), .ret t_singlequote⟩,
  ⟨reHtmlTag, .ret t_html_tag⟩,
  ⟨reComment, .ret t_comment⟩,
  ⟨reEntity, .ret t_entity⟩,
  ⟨chr (Char.ofNat 0), .stop⟩,
  ⟨cls true [one '\n'], .ret t_text⟩]

def mwRules : Rules := ⟨bolRules, notBolRules⟩

end MwVerif.Scan
