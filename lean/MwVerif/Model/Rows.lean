import MwVerif.Model.Cells

/-
Model of `mwlib/parser/refine/parse_table.py: TableRowParser` (`run`, `_handle_table_row_tokens`,
`extract_complex_table_row`, `find_modifier`): the tokens of a table are grouped into rows.  A row
starts at `|-` or `<tr>`, or — when no row is open — at the first cell start (that token then stays
in the row); it runs to the next row start, to `</tr>` (dropped with it) or to the end.  A row opened
by `|-` loses the tokens before its first line end to its attributes (if it has a line end at all).
Core Lean only.
-/
namespace MwVerif.Rows

inductive Tok where
  | rowWiki | trOpen | trClose
  | cellStart (id : Nat)
  | nl
  | other (id : Nat)
  deriving Repr, DecidableEq

def Tok.isRowStart : Tok → Bool
  | .rowWiki => true
  | .trOpen => true
  | _ => false

def Tok.isCellStart : Tok → Bool
  | .cellStart _ => true
  | _ => false

/-- the token can sit inside an open row. -/
def inRow (t : Tok) : Bool :=
  match t with
  | .rowWiki => false
  | .trOpen => false
  | .trClose => false
  | _ => true

inductive Out where
  | loose (t : Tok)
  | row (attrs : List Tok) (children : List Tok)
  deriving Repr, DecidableEq

/-- `find_modifier` of a `|-` row: everything before the first line end, if there is one. -/
def splitAttrs (l : List Tok) : List Tok × List Tok :=
  if l.any (· == .nl) then (l.takeWhile (· != .nl), l.dropWhile (· != .nl)) else ([], l)

def afterRow (ts : List Tok) : List Tok :=
  match ts.dropWhile inRow with
  | .trClose :: rest => rest
  | rest => rest

theorem afterRow_length (ts : List Tok) : (afterRow ts).length ≤ ts.length := by
  have h := (List.dropWhile_sublist (l := ts) inRow).length_le
  unfold afterRow
  split
  · rename_i rest heq
    rw [heq] at h
    simp only [List.length_cons] at h
    omega
  · exact h

/-- `TableRowParser.run` on the children of a table. -/
def rows : List Tok → List Out
  | [] => []
  | t :: ts =>
    match t with
    | .rowWiki => .row (splitAttrs (ts.takeWhile inRow)).1 (splitAttrs (ts.takeWhile inRow)).2 :: rows (afterRow ts)
    | .trOpen => .row [] (ts.takeWhile inRow) :: rows (afterRow ts)
    | .cellStart i => .row [] (.cellStart i :: ts.takeWhile inRow) :: rows (afterRow ts)
    | _ => .loose t :: rows ts
termination_by ts => ts.length
decreasing_by
  all_goals simp_wf
  all_goals first
    | (have := afterRow_length ts; omega)
    | omega

def contents : Out → List Tok
  | .loose t => [t]
  | .row a c => a ++ c

theorem splitAttrs_append (l : List Tok) : (splitAttrs l).1 ++ (splitAttrs l).2 = l := by
  unfold splitAttrs
  split
  · exact List.takeWhile_append_dropWhile
  · rfl

theorem filter_takeWhile_self (ts : List Tok) : (ts.takeWhile inRow).filter inRow = ts.takeWhile inRow := by
  apply List.filter_eq_self.mpr
  intro a ha
  induction ts with
  | nil => simp at ha
  | cons t ts ih =>
    rw [List.takeWhile_cons] at ha
    split at ha
    · rename_i h
      rcases List.mem_cons.mp ha with rfl | h'
      · exact h
      · exact ih h'
    · simp at ha

theorem filter_afterRow (ts : List Tok) : (afterRow ts).filter inRow = (ts.dropWhile inRow).filter inRow := by
  unfold afterRow
  split
  · rename_i rest heq
    rw [heq]
    simp [inRow]
  · rfl

/-- **every token that is not a row marker ends up exactly once, in order**, in a row (attributes or
children) or as a loose token of the table. -/
theorem rows_lossless : ∀ (n : Nat) (ts : List Tok), ts.length ≤ n →
    ((rows ts).flatMap contents).filter inRow = ts.filter inRow
  | 0, ts, h => by
    have : ts = [] := List.eq_nil_of_length_eq_zero (by omega)
    subst this
    rw [rows]; rfl
  | n + 1, [], _ => by rw [rows]; rfl
  | n + 1, t :: ts, h => by
    simp only [List.length_cons] at h
    have hlen := afterRow_length ts
    have hsplit : ts.filter inRow = ts.takeWhile inRow ++ (ts.dropWhile inRow).filter inRow := by
      conv => lhs; rw [← List.takeWhile_append_dropWhile (p := inRow) (l := ts), List.filter_append, filter_takeWhile_self]
    cases t with
    | rowWiki =>
      rw [rows]
      simp only [List.flatMap_cons, List.filter_append, contents, splitAttrs_append, filter_takeWhile_self,
        rows_lossless n (afterRow ts) (by omega), filter_afterRow, List.filter_cons, inRow]
      simpa using hsplit.symm
    | trOpen =>
      rw [rows]
      simp only [List.flatMap_cons, List.filter_append, contents, List.nil_append, filter_takeWhile_self,
        rows_lossless n (afterRow ts) (by omega), filter_afterRow, List.filter_cons, inRow]
      simpa using hsplit.symm
    | cellStart i =>
      rw [rows]
      simp only [List.flatMap_cons, List.filter_append, contents, List.nil_append, filter_takeWhile_self,
        rows_lossless n (afterRow ts) (by omega), filter_afterRow, List.filter_cons, inRow]
      simp [hsplit]
    | trClose =>
      rw [rows]
      · simp only [List.flatMap_cons, List.filter_append, contents, rows_lossless n ts (by omega), List.filter_cons, inRow]
        simp
      all_goals (intros; simp_all)
    | nl =>
      rw [rows]
      · simp only [List.flatMap_cons, List.filter_append, contents, rows_lossless n ts (by omega), List.filter_cons, inRow]
        simp
      all_goals (intros; simp_all)
    | other i =>
      rw [rows]
      · simp only [List.flatMap_cons, List.filter_append, contents, rows_lossless n ts (by omega), List.filter_cons, inRow]
        simp
      all_goals (intros; simp_all)

end MwVerif.Rows
