/-
Model of the `#expr` parser `mwlib/parser/expr.py` (`Expr.parse_expr` with
`_process_expression_elements`, `_convert_to_unary_operator`, `_handle_closing_parenthesis`):
the shunting-yard loop that turns the token list into reverse Polish order.  The real code
applies each operator to its operand stack the moment it is output; the model records the
output sequence instead, so that "the evaluation order is the post-order of the expression
tree" can be stated for *any* operator semantics.  The operator table (precedences, which
operators are unary) is a parameter; `Gen/ExprOps.lean` instantiates it from the live module.
Not modelled: the tokenizer regex, number conversion, the `e` notation swap, the constants
`e`/`pi` (they are operands), float arithmetic and result formatting.
Core Lean only.
-/
namespace MwVerif.Expr

inductive Tok where
  | num (v : Nat)            -- an operand (index of the literal)
  | op (name : String)       -- any operator word or symbol, `-`/`+` not yet disambiguated
  | lp
  | rp
  deriving Repr, DecidableEq

/-- operator table: precedence of every operator name (`u-`/`u+` are the unary minus/plus
classes `UMinus`/`UPlus`), and which of them take one argument. -/
structure Tbl where
  prec : String → Option Nat
  unary : String → Bool

inductive Out where
  | num (v : Nat)
  | op (name : String)
  deriving Repr, DecidableEq

inductive Err where
  | expectedOperator
  | unbalanced
  | unknownOperator
  deriving Repr, DecidableEq

/-- the operator stack holds operator names and `none` for "(" (precedence -1: nothing pops it
but ")"). -/
abbrev Stack := List (Option String)     -- top first

structure St where
  out : List Out := []                   -- in output order
  stk : Stack := []
  prevOperand : Bool := false            -- `last_operand` is truthy
  prevOp : Bool := true                  -- `last_operator` is truthy and not ")"
  deriving Repr

/-- `_convert_to_unary_operator` -/
def convertUnary (prevOp : Bool) (name : String) : String :=
  if prevOp then (if name = "-" then "u-" else if name = "+" then "u+" else name) else name

/-- `while not is_unary and operator_stack and prec <= precedence[operator_stack[-1]]: pop, output` -/
def popWhile (t : Tbl) (p : Nat) : Stack → List Out → Stack × List Out
  | [], out => ([], out)
  | none :: rest, out => (none :: rest, out)                    -- "(" has precedence -1
  | some o :: rest, out =>
    match t.prec o with
    | some q => if p ≤ q then popWhile t p rest (out ++ [.op o]) else (some o :: rest, out)
    | none => (some o :: rest, out)                              -- cannot happen: only table ops are pushed

/-- `_handle_closing_parenthesis` -/
def closeParen : Stack → List Out → Except Err (Stack × List Out)
  | [], _ => .error .unbalanced
  | none :: rest, out => .ok (rest, out)
  | some o :: rest, out => closeParen rest (out ++ [.op o])

/-- one token of `_process_expression_elements`. -/
def step (t : Tbl) (s : St) : Tok → Except Err St
  | .num v =>
    if s.prevOperand then .error .expectedOperator
    else .ok { s with out := s.out ++ [.num v], prevOperand := true, prevOp := false }
  | .lp => .ok { s with stk := none :: s.stk, prevOperand := false, prevOp := true }
  | .rp =>
    match closeParen s.stk s.out with
    | .error e => .error e
    | .ok (stk, out) => .ok { s with stk := stk, out := out, prevOperand := false, prevOp := false }
  | .op name =>
    match t.prec name with
    | none => .error .unknownOperator
    | some _ =>
      let o := convertUnary s.prevOp name
      match t.prec o with
      | none => .error .unknownOperator
      | some p =>
        if t.unary o then
          .ok { s with stk := some o :: s.stk, prevOperand := false, prevOp := true }
        else
          let (stk, out) := popWhile t p s.stk s.out
          .ok { s with stk := some o :: stk, out := out, prevOperand := false, prevOp := true }

def run (t : Tbl) : St → List Tok → Except Err St
  | s, [] => .ok s
  | s, tok :: rest =>
    match step t s tok with
    | .error e => .error e
    | .ok s' => run t s' rest

/-- the final `while operator_stack: pop` loop. -/
def flush : Stack → List Out → Except Err (List Out)
  | [], out => .ok out
  | none :: _, _ => .error .unbalanced
  | some o :: rest, out => flush rest (out ++ [.op o])

/-- `parse_expr` up to the final stack check: the reverse Polish output. -/
def rpn (t : Tbl) (toks : List Tok) : Except Err (List Out) :=
  match run t {} toks with
  | .error e => .error e
  | .ok s => flush s.stk s.out

/-! ### expression trees and their printing -/

/-- expression trees with explicit parentheses (any amount of redundant ones). -/
inductive Ast where
  | num (v : Nat)
  | un (op : String) (e : Ast)             -- `op` as written: "-", "+", "abs", "not", …
  | bin (op : String) (l r : Ast)
  | paren (e : Ast)
  deriving Repr, Inhabited

def Ast.toks : Ast → List Tok
  | .num v => [.num v]
  | .un op e => .op op :: e.toks
  | .bin op l r => l.toks ++ .op op :: r.toks
  | .paren e => .lp :: e.toks ++ [.rp]

/-- the name under which a prefix operator is looked up (what `convertUnary` makes of it). -/
def unaryName (op : String) : String := convertUnary true op

/-- the evaluation order the tree denotes: operands, then the operator. -/
def Ast.postorder : Ast → List Out
  | .num v => [.num v]
  | .un op e => e.postorder ++ [.op (unaryName op)]
  | .bin op l r => l.postorder ++ r.postorder ++ [.op op]
  | .paren e => e.postorder


/-! ### which parenthesisations denote the tree (a decidable sufficient condition) -/

def precOf (t : Tbl) (o : String) : Nat := (t.prec o).getD 0

/-- the operators still pending on the stack when the tokens of `e` have been read (bottom
first): the right spine of the unparenthesised part. -/
def Ast.spine : Ast → List String
  | .num _ => []
  | .paren _ => []
  | .un op e => unaryName op :: e.spine
  | .bin op _ r => op :: r.spine

/-- may stand directly after a prefix operator -/
def Ast.prefixOperand : Ast → Bool
  | .bin .. => false
  | _ => true

/-- a right operand that is itself a binary operation must bind tighter than `p`. -/
def Ast.headOk (t : Tbl) (p : Nat) : Ast → Bool
  | .bin q _ _ => p < precOf t q
  | _ => true

/-- parentheses are where the grammar needs them (there may be more): the left operand of an
operator of precedence `p` has no pending operator weaker than `p` (equal is fine: left to right),
the right operand, if a bare binary operation, binds strictly tighter; the operand of a prefix
operator is a number, a parenthesis or another prefix operation. -/
def Ast.ok (t : Tbl) : Ast → Bool
  | .num _ => true
  | .paren e => e.ok t
  | .un op e =>
    (t.prec op).isSome && (t.prec (unaryName op)).isSome && t.unary (unaryName op) &&
      e.ok t && e.prefixOperand
  | .bin op l r =>
    (t.prec op).isSome && !t.unary op && l.ok t && r.ok t &&
      l.spine.all (fun o => precOf t op ≤ precOf t o) && r.headOk t (precOf t op)

end MwVerif.Expr
