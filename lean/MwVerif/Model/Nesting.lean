import MwVerif.Model.Passes

/-
Model of the cleaning pass `TreeCleaner.fix_nesting` in its default ("loose") mode
(`treecleaner.py:786-905`): the loop `while self._fix_nesting(node): pass`.  One call looks, in
document order (a node before its children), for the first node one of whose *visible* ancestors
has a class that is forbidden for it (`forbidden_parents`; the ancestors are visible up to the
first Table/Section/Reference, `outside_parents_invisible`), not descending into nodes with an
explicit text direction (`_is_exception`).  The nearest such ancestor `bad_parent` is cut in three
along the path to the problem node — the part before the path ("top"), the path itself with the
problem node ("middle", of which the child of `bad_parent` is kept) and the part after it
("bottom") — and the three pieces replace `bad_parent` in its parent.  The nodes on the path are
copied into all three pieces.

The model is parametric in the class tables (regenerated from the cleaner on every run).
Core Lean only.
-/
namespace MwVerif.Tree

structure NCfg where
  forb : Nat → Nat → Bool      -- `forb k a`: a node of kind `k` must not sit below an ancestor of kind `a`
  invis : Nat → Bool           -- `outside_parents_invisible`
  exc : Nat → Bool             -- kinds the harness gives to nodes with `style.direction` (`_is_exception`)

/-- the ancestors (nearest first) that are visible from a node. -/
def cleanChain (c : NCfg) (anc : List Nat) : List Nat := anc.takeWhile (fun a => !c.invis a)

/-- how many levels above the parent the nearest forbidden visible ancestor sits. -/
def badIdx (c : NCfg) (k : Nat) (anc : List Nat) : Option Nat := (cleanChain c anc).findIdx? (c.forb k)

mutual
  /-- the first node with a forbidden visible ancestor: the child indices leading to it, and `badIdx`. -/
  def T.findBroken (c : NCfg) (anc : List Nat) : T → Option (List Nat × Nat)
    | .node _ k _ cs =>
      if c.exc k then none
      else match badIdx c k anc with
        | some j => some ([], j)
        | none => findBrokenL c (k :: anc) 0 cs
  def findBrokenL (c : NCfg) (anc : List Nat) (idx : Nat) : List T → Option (List Nat × Nat)
    | [] => none
    | t :: ts =>
      match t.findBroken c anc with
      | some (p, j) => some (idx :: p, j)
      | none => findBrokenL c anc (idx + 1) ts
end

/-- cut a node along the path to the problem node: the copies that go to the top, middle and bottom piece. -/
def T.cut : T → List Nat → Option (T × T × T)
  | _, [] => none
  | .node i k ws cs, idx :: rest =>
    match cs[idx]? with
    | none => none
    | some ch =>
      match rest with
      | [] => some (.node i k ws (cs.take idx), .node i k ws [ch], .node i k ws (cs.drop (idx + 1)))
      | _ :: _ =>
        match ch.cut rest with
        | none => none
        | some (ct, cm, cb) =>
          some (.node i k ws (cs.take idx ++ [ct]), .node i k ws [cm], .node i k ws (cb :: cs.drop (idx + 1)))

/-- what replaces `bad_parent`: top piece, the middle piece's child, bottom piece. -/
def T.split (bp : T) (path : List Nat) : Option (List T) :=
  match bp.cut path with
  | some (top, .node _ _ _ [m], bot) => some [top, m, bot]
  | _ => none

/-- replace the node at `path` (non-empty) by a list of nodes computed from it. -/
def T.replaceAt : T → List Nat → (T → Option (List T)) → Option T
  | _, [], _ => none
  | .node i k ws cs, idx :: rest, f =>
    match cs[idx]? with
    | none => none
    | some ch =>
      match rest with
      | [] => (f ch).map fun new => .node i k ws (cs.take idx ++ new ++ cs.drop (idx + 1))
      | _ :: _ => (ch.replaceAt rest f).map fun ch' => .node i k ws (cs.take idx ++ [ch'] ++ cs.drop (idx + 1))

/-- one call of `_fix_nesting` on the root: `some` = changed.  (`bad_parent` is never the root: the
root's class is in no forbidden list — a generated obligation; the model answers `none` there.) -/
def T.fixNestingStep (c : NCfg) (t : T) : Option T :=
  match t.findBroken c [] with
  | none => none
  | some (p, j) =>
    let n := p.length - 1 - j            -- depth of `bad_parent`
    t.replaceAt (p.take n) (fun bp => bp.split (p.drop n))

def fixNesting (c : NCfg) : Nat → T → T
  | 0, t => t
  | n + 1, t =>
    match t.fixNestingStep c with
    | none => t
    | some t' => fixNesting c n t'

mutual
  /-- the termination measure: over all nodes the pass looks at, the number of forbidden visible ancestors. -/
  def T.pairs (c : NCfg) (anc : List Nat) : T → Nat
    | .node _ k _ cs =>
      if c.exc k then 0 else ((cleanChain c anc).filter (c.forb k)).length + pairsL c (k :: anc) cs
  def pairsL (c : NCfg) (anc : List Nat) : List T → Nat
    | [] => 0
    | t :: ts => t.pairs c anc + pairsL c anc ts
end

end MwVerif.Tree
