/-
Model of the brace matching of the template parser (`mwlib/parser/templ/parser.py`:
`Parser.parse`, `parse_open_brace`, `_handle_closing_braces_for_template_or_variable`,
`_consume_closing_braces`, `_handle_wiki_links`): how runs of `{` and `}` are paired into
templates `{{…}}` and parameters `{{{…}}}`, and how what cannot be paired degrades to text.

The recursive descent of the real parser is written as the machine it is: a stack of open
`parse_open_brace` calls (braces still to close, link depth, nodes collected so far) over the
token list; `_consume_closing_braces` shortens the closing token in place.  What a template or
a parameter is made of (`template_from_children`, `variable_from_children`) is kept abstract: a
node holding its children.  Core Lean only.
-/
namespace MwVerif.Braces

abbrev Str := List Char

inductive Tok where
  | bopen (n : Nat)        -- `{{+`
  | bclose (n : Nat)       -- `}}+`
  | noi                    -- `<noinclude>…</noinclude>`, `<includeonly>`: skipped
  | lopen                  -- `[[`
  | lclose                 -- `]]`
  | txt (s : Str)
  deriving Repr, DecidableEq

inductive Node where
  | str (s : Str)
  | tmpl (cs : List Node)        -- `template_from_children(children)`
  | var (cs : List Node)         -- `variable_from_children(children)`
  | group (cs : List Node)       -- the list a `parse_open_brace` call returns, appended to its caller's list
  deriving Repr

/-- one open `parse_open_brace` call. -/
structure Frame where
  nb : Nat                 -- `numbraces`
  lc : Nat                 -- `linkcount`
  acc : List Node          -- `parsed_nodes`
  deriving Repr

def braces (ch : Char) (n : Nat) : Str := List.replicate n ch

/-- what a call returns when it ends: left-over opening braces become text in front. -/
def Frame.result (f : Frame) : List Node :=
  if f.nb = 0 then f.acc else .str (braces '{' f.nb) :: f.acc

/-- append to the list of the innermost open call, or to the top-level list. -/
def emit (stack : List Frame) (top : List Node) (n : Node) : List Frame × List Node :=
  match stack with
  | [] => ([], top ++ [n])
  | f :: fs => ({ f with acc := f.acc ++ [n] } :: fs, top)

/-- `_consume_closing_braces(num)` on a closing token of length `n`: the tokens afterwards, or the
`ValueError`. -/
def consume (num n : Nat) (rest : List Tok) : Option (List Tok) :=
  if n < num then none
  else if n - num = 0 then some rest
  else if n - num = 1 then some (.txt (braces '}' 1) :: rest)
  else some (.bclose (n - num) :: rest)

def Tok.size : Tok → Nat
  | .bopen n => n + 1
  | .bclose n => n + 1
  | _ => 1

def size : List Tok → Nat
  | [] => 0
  | t :: ts => t.size + size ts

theorem size_consume {num n : Nat} {rest ts : List Tok} (hn : 0 < num) (h : consume num n rest = some ts) :
    size ts < size (.bclose n :: rest) := by
  unfold consume at h
  split at h
  · cases h
  · split at h
    · cases h; simp [size, Tok.size]
    · split at h
      · cases h; simp only [size, Tok.size]; omega
      · cases h; simp only [size, Tok.size]; omega

theorem emit_length (stack : List Frame) (top : List Node) (n : Node) : (emit stack top n).1.length = stack.length := by
  unfold emit; split <;> simp

/-- a template closes with two braces: when the closing run is exactly two long or only two are open. -/
def isTmpl (n nb : Nat) : Bool := n == 2 || nb == 2

def need (n nb : Nat) : Nat := if isTmpl n nb then 2 else 3

theorem need_pos (n nb : Nat) : 0 < need n nb := by unfold need; split <;> decide

/-- the call's state after `_handle_closing_braces_for_template_or_variable`. -/
def closeFrame (f : Frame) (n : Nat) : Frame :=
  ⟨f.nb - need n f.nb, 0, [if isTmpl n f.nb then .tmpl f.acc else .var f.acc]⟩

/-- the parser: `none` = a `ValueError` escapes. -/
def run (stack : List Frame) (top : List Node) : List Tok → Option (List Node)
  | [] =>
    match stack with
    | [] => some top
    | f :: fs =>                                   -- token type None: the innermost call breaks and returns
      run (emit fs top (.group f.result)).1 (emit fs top (.group f.result)).2 []
  | t :: ts =>
    match stack with
    | [] =>                                        -- `Parser.parse`
      match t with
      | .bopen n => run [⟨n, 0, []⟩] top ts
      | .noi => run [] top ts
      | .bclose n => run [] (top ++ [.str (braces '}' n)]) ts
      | .lopen => run [] (top ++ [.str ['[', '[']]) ts
      | .lclose => run [] (top ++ [.str [']', ']']]) ts
      | .txt s => run [] (top ++ [.str s]) ts
    | f :: fs =>                                   -- `parse_open_brace`
      match t with
      | .bopen n => run (⟨n, 0, []⟩ :: f :: fs) top ts
      | .noi => run (f :: fs) top ts
      | .lopen => run ({ f with lc := f.lc + 1, acc := f.acc ++ [.str ['[', '[']] } :: fs) top ts
      | .lclose => run ({ f with lc := f.lc - 1, acc := f.acc ++ [.str [']', ']']] } :: fs) top ts
      | .txt s => run ({ f with acc := f.acc ++ [.str s] } :: fs) top ts
      | .bclose n =>
        if f.lc ≠ 0 then run ({ f with acc := f.acc ++ [.str (braces '}' n)] } :: fs) top ts
        else
          match h : consume (need n f.nb) n ts with
          | none => none
          | some ts' =>
            if (closeFrame f n).nb < 2 then
              run (emit fs top (.group (closeFrame f n).result)).1 (emit fs top (.group (closeFrame f n).result)).2 ts'
            else run (closeFrame f n :: fs) top ts'
termination_by ts => (size ts, stack.length)
decreasing_by
  all_goals simp_wf
  all_goals first
    | (apply Prod.Lex.right; simp [emit_length]; done)
    | (apply Prod.Lex.left; simp only [size, Tok.size]; omega)
    | (apply Prod.Lex.left
       have := size_consume (need_pos _ _) h
       simpa [size, Tok.size] using this)

def parse (ts : List Tok) : Option (List Node) := run [] [] ts

end MwVerif.Braces
