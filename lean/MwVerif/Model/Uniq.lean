/-
Model of `mwlib/utils/uniq.py`: `Uniquifier.replace_tags` (the verbose regular expression with
the comment alternative and the tag alternative, `re.sub` scanning left to right) and
`Uniquifier.replace_uniq`.  The regular expression engine is not modelled in general: the two
alternatives are written out as the deterministic scanners they denote (every repetition in the
pattern is followed by a character outside its class, so greedy/lazy matching is determined).
Parameters: the registered tag names, regex `\s`, the case-insensitive match of a character
against an ASCII pattern character, and the random string of the process.
Core Lean only.
-/
namespace MwVerif.Uniq

abbrev Str := List Char

structure Cfg where
  names : List Str                 -- lower-case tag names, in the order the alternation tries them
  isSpace : Char → Bool            -- `\s`
  fold : Char → Char               -- c matches pattern character p (lower case) iff fold c = p
  lower : Char → Char              -- simple lower-case mapping: a back-reference compares `lower`s
  rand : Str

structure Rec where
  tagname : Str
  inner : Str
  vlist : Str
  complete : Str
  deriving Repr, DecidableEq

def del : Char := Char.ofNat 0x7f

def natToStr (n : Nat) : Str := (toString n).toList

/-- `get_uniq`: the marker of the `count`-th protected region. -/
def marker (rand name : Str) (count : Nat) : Str :=
  [del] ++ "UNIQ-".toList ++ name ++ ['-'] ++ natToStr count ++ ['-'] ++ rand ++ "-QINU".toList ++ [del]

/-- `s` starts with `pat` (exact). -/
def stripPrefix : Str → Str → Option Str
  | [], s => some s
  | _ :: _, [] => none
  | p :: ps, c :: cs => if p = c then stripPrefix ps cs else none

/-- `s` starts with `pat` case-insensitively: the matched text and the rest. -/
def ciPrefix (cfg : Cfg) : Str → Str → Option (Str × Str)
  | [], s => some ([], s)
  | _ :: _, [] => none
  | p :: ps, c :: cs =>
    if cfg.fold c = p then (ciPrefix cfg ps cs).map fun r => (c :: r.1, r.2) else none

/-- `s` starts with the text `m` of a group, compared as the case-insensitive back-reference
`(?P=tagname)` does (character by character, simple lower case): the matched text and the rest. -/
def brPrefix (cfg : Cfg) : Str → Str → Option (Str × Str)
  | [], s => some ([], s)
  | _ :: _, [] => none
  | p :: ps, c :: cs =>
    if cfg.lower c = cfg.lower p then (brPrefix cfg ps cs).map fun r => (c :: r.1, r.2) else none

/-- first occurrence of `pat` in `s`: (text before, text after). -/
def findSub (pat : Str) : Str → Option (Str × Str)
  | [] => if pat.isEmpty then some ([], []) else none
  | c :: cs =>
    match stripPrefix pat (c :: cs) with
    | some rest => some ([], rest)
    | none => (findSub pat cs).map fun r => (c :: r.1, r.2)

def isSp (c : Char) : Bool := c = ' '

/-- `(\n[ ]*)?<!--`: the optional leading newline + blanks, and the text after `<!--`. -/
def commentStart (s : Str) : Option (Str × Str) :=
  match s with
  | '\n' :: t =>
    match stripPrefix "<!--".toList (t.dropWhile isSp) with
    | some body => some ('\n' :: t.takeWhile isSp, body)
    | none => none
  | _ => (stripPrefix "<!--".toList s).map fun body => ([], body)

/-- `([ ]*\n)?` after the comment: (what it matched, rest). -/
def commentTrail (after : Str) : Str × Str :=
  match after.dropWhile isSp with
  | '\n' :: r => (after.takeWhile isSp ++ ['\n'], r)
  | _ => ([], after)

/-- the comment alternative `(\n[ ]*)?<!--.*?-->([ ]*\n)?` at the start of `s`:
(replacement text, rest). -/
def matchComment (s : Str) : Option (Str × Str) :=
  match commentStart s with
  | none => none
  | some (lead, body) =>
    match findSub "-->".toList body with
    | none => none
    | some (_, after) =>
      some (if !lead.isEmpty && !(commentTrail after).1.isEmpty then ['\n'] else lead ++ (commentTrail after).1,
            (commentTrail after).2)

/-- a closing tag `</(?P=tagname)\s*>` at the start of `s`, `name` being the opening tag's name
as written: (its text, rest). -/
def closeAt (cfg : Cfg) (name : Str) (s : Str) : Option (Str × Str) :=
  match stripPrefix ['<', '/'] s with
  | none => none
  | some s1 =>
    match brPrefix cfg name s1 with
    | none => none
    | some (m, s2) =>
      match s2.dropWhile cfg.isSpace with
      | '>' :: rest => some (['<', '/'] ++ m ++ s2.takeWhile cfg.isSpace ++ ['>'], rest)
      | _ => none

/-- the lazy `.*?` up to the first closing tag: (inner, closing tag text, rest). -/
def findClose (cfg : Cfg) (name : Str) : Str → Option (Str × Str × Str)
  | [] => none
  | c :: cs =>
    match closeAt cfg name (c :: cs) with
    | some (ct, rest) => some ([], ct, rest)
    | none => (findClose cfg name cs).map fun r => (c :: r.1, r.2.1, r.2.2)

def notAngle (c : Char) : Bool := c != '<' && c != '>'

/-- `> inner </name\s*>` after the attribute list `vl`: (vlist, inner, text matched, rest) -/
def openForm (cfg : Cfg) (name vl afterGt : Str) : Option (Str × Str × Str × Str) :=
  match findClose cfg name afterGt with
  | none => none
  | some (inner, ct, rest) => some (vl, inner, vl ++ ['>'] ++ inner ++ ct, rest)

/-- the attribute list after a whitespace character `c`: `[^<>]*` up to the `>` -/
def attrForm (cfg : Cfg) (name : Str) (c : Char) (r' : Str) : Option (Str × Str × Str × Str) :=
  match r'.dropWhile notAngle with
  | '>' :: rest =>
    if (r'.takeWhile notAngle).getLast? = some '/' then
      some (c :: (r'.takeWhile notAngle).dropLast, [], c :: r'.takeWhile notAngle ++ ['>'], rest)
    else openForm cfg name (c :: r'.takeWhile notAngle) rest
  | _ => none

/-- what follows the tag name: `(vlist)? (/> | > inner </name\s*>)`; returns (vlist, inner, text
matched after the name, rest). -/
def matchTagRest (cfg : Cfg) (name : Str) (r : Str) : Option (Str × Str × Str × Str) :=
  match r with
  | '/' :: '>' :: rest => some ([], [], ['/', '>'], rest)
  | '>' :: rest => openForm cfg name [] rest
  | c :: r' => if cfg.isSpace c then attrForm cfg name c r' else none
  | [] => none

def isAscii (s : Str) : Bool := s.all fun c => c.toNat < 128

def lowerAscii (c : Char) : Char := if 'A' ≤ c && c ≤ 'Z' then Char.ofNat (c.toNat + 32) else c

/-- the tag alternative at the start of `s`: the record, the matched text length is implicit in
`complete`; the flag says whether the name as written is ASCII (else the match is left alone). -/
def matchTag (cfg : Cfg) (s : Str) : Option (Rec × Bool × Str) :=
  match s with
  | '<' :: t =>
    cfg.names.findSome? fun name =>
      match ciPrefix cfg name t with
      | none => none
      | some (m, r) =>
        match matchTagRest cfg m r with
        | none => none
        | some (vl, inner, tail, rest) =>
          let complete := '<' :: m ++ tail
          some ({ tagname := m.map lowerAscii, inner := inner, vlist := vl, complete := complete }, isAscii m, rest)
  | _ => none

structure Out where
  text : Str := []
  table : List (Str × Rec) := []       -- marker ↦ record, in creation order
  deriving Repr

/-- what `re.sub` does with the input, piece by piece: a character kept, a replacement text (comment
handling; a match left alone because its tag name is not ASCII), or a protected region. -/
inductive Seg where
  | plain (c : Char)
  | repl (t : Str) (raw : Str)        -- `raw`: the input text this piece stands for
  | region (r : Rec) (raw : Str)
  deriving Repr

/-- `regex.sub(self._repl_to_uniq, txt)` as a list of pieces; fuel ≥ length of `s`. -/
def segs (cfg : Cfg) : Nat → Str → List Seg
  | 0, _ => []
  | _, [] => []
  | fuel + 1, c :: cs =>
    match matchComment (c :: cs) with
    | some (repl, rest) => .repl repl ((c :: cs).take ((c :: cs).length - rest.length)) :: segs cfg fuel rest
    | none =>
      match matchTag cfg (c :: cs) with
      | some (r, ascii, rest) =>
        if !ascii then                                      -- not a tag: 'ſ' 'ı' 'K' only fold to s i k
          .repl r.complete r.complete :: segs cfg fuel rest
        else
          .region (if r.tagname = "nowiki".toList then { r with complete := r.inner } else r) r.complete :: segs cfg fuel rest
      | none => .plain c :: segs cfg fuel cs

/-- write the pieces out: regions become markers numbered in order of appearance. -/
def emit (rand : Str) : List Seg → Out → Out
  | [], o => o
  | .plain c :: ss, o => emit rand ss { o with text := o.text ++ [c] }
  | .repl t _ :: ss, o => emit rand ss { o with text := o.text ++ t }
  | .region r _ :: ss, o =>
    let m := marker rand r.tagname o.table.length
    emit rand ss { text := o.text ++ m, table := o.table ++ [(m, r)] }

def replaceTags (cfg : Cfg) (s : Str) : Out := emit cfg.rand (segs cfg s.length s) {}

/-- the text with every region written back in place (what protect-then-restore should give). -/
def direct : List Seg → Str
  | [] => []
  | .plain c :: ss => c :: direct ss
  | .repl t _ :: ss => t ++ direct ss
  | .region r _ :: ss => r.complete ++ direct ss

/-- the input text the pieces stand for -/
def consumed : List Seg → Str
  | [] => []
  | .plain c :: ss => c :: consumed ss
  | .repl _ raw :: ss => raw ++ consumed ss
  | .region _ raw :: ss => raw ++ consumed ss

/-! ### `replace_uniq` -/

def isLowerAlnum (c : Char) : Bool := ('a' ≤ c && c ≤ 'z') || ('0' ≤ c && c ≤ '9')
def isDigit (c : Char) : Bool := '0' ≤ c && c ≤ '9'
def isHex (c : Char) : Bool := ('a' ≤ c && c ≤ 'f') || ('0' ≤ c && c ≤ '9')

/-- a run of at least one character of class `p` followed by `sep`: (run, rest after `sep`). -/
def runThen (p : Char → Bool) (sep : Str) (s : Str) : Option (Str × Str) :=
  let run := s.takeWhile p
  if run.isEmpty then none else (stripPrefix sep (s.dropWhile p)).map fun r => (run, r)

/-- `\x7fUNIQ-[a-z0-9]+-\d+-[a-f0-9]+-QINU\x7f` at the start of `s`: (matched text, rest). -/
def matchMarker (s : Str) : Option (Str × Str) :=
  match stripPrefix ([del] ++ "UNIQ-".toList) s with
  | none => none
  | some s1 =>
    match runThen isLowerAlnum ['-'] s1 with
    | none => none
    | some (name, s2) =>
      match runThen isDigit ['-'] s2 with
      | none => none
      | some (cnt, s3) =>
        match runThen isHex ("-QINU".toList ++ [del]) s3 with
        | none => none
        | some (hex, rest) =>
          some ([del] ++ "UNIQ-".toList ++ name ++ ['-'] ++ cnt ++ ['-'] ++ hex ++ "-QINU".toList ++ [del], rest)

def lookupMarker (table : List (Str × Rec)) (m : Str) : Option Rec :=
  (table.find? fun kv => kv.1 = m).map (·.2)

def restore (table : List (Str × Rec)) : Nat → Str → Str
  | 0, _ => []
  | _, [] => []
  | fuel + 1, c :: cs =>
    match matchMarker (c :: cs) with
    | some (m, rest) =>
      (match lookupMarker table m with
       | some r => r.complete
       | none => m) ++ restore table fuel rest
    | none => c :: restore table fuel cs

def replaceUniq (table : List (Str × Rec)) (s : Str) : Str := restore table s.length s

end MwVerif.Uniq
