/-
Model of `mwlib/utils/uniq.py`: `Uniquifier.replace_tags` (the verbose regular expression with
the comment alternative and the tag alternative, `re.sub` scanning left to right) and
`Uniquifier.replace_uniq`.  The regular expression engine is not modelled in general: the two
alternatives are written out as the deterministic scanners they denote (every repetition in the
pattern is followed by a character outside its class, so greedy/lazy matching is determined).
Parameters: the registered tag names, regex `\s`, the case-insensitive match of a character
against an ASCII pattern character, and the random string of the process.
Core Lean only.
-/
namespace MwVerif.Uniq

abbrev Str := List Char

structure Cfg where
  names : List Str                 -- lower-case tag names, in the order the alternation tries them
  isSpace : Char → Bool            -- `\s`
  fold : Char → Char               -- c matches pattern character p (lower case) iff fold c = p
  lower : Char → Char              -- simple lower-case mapping: a back-reference compares `lower`s
  rand : Str

structure Rec where
  tagname : Str
  inner : Str
  vlist : Str
  complete : Str
  deriving Repr, DecidableEq

def del : Char := Char.ofNat 0x7f

def natToStr (n : Nat) : Str := (toString n).toList

/-- `get_uniq`: the marker of the `count`-th protected region. -/
def marker (rand name : Str) (count : Nat) : Str :=
  [del] ++ "UNIQ-".toList ++ name ++ ['-'] ++ natToStr count ++ ['-'] ++ rand ++ "-QINU".toList ++ [del]

/-- `s` starts with `pat` (exact). -/
def stripPrefix : Str → Str → Option Str
  | [], s => some s
  | _ :: _, [] => none
  | p :: ps, c :: cs => if p = c then stripPrefix ps cs else none

/-- `s` starts with `pat` case-insensitively: the matched text and the rest. -/
def ciPrefix (cfg : Cfg) : Str → Str → Option (Str × Str)
  | [], s => some ([], s)
  | _ :: _, [] => none
  | p :: ps, c :: cs =>
    if cfg.fold c = p then (ciPrefix cfg ps cs).map fun r => (c :: r.1, r.2) else none

/-- `s` starts with the text `m` of a group, compared as the case-insensitive back-reference
`(?P=tagname)` does (character by character, simple lower case): the matched text and the rest. -/
def brPrefix (cfg : Cfg) : Str → Str → Option (Str × Str)
  | [], s => some ([], s)
  | _ :: _, [] => none
  | p :: ps, c :: cs =>
    if cfg.lower c = cfg.lower p then (brPrefix cfg ps cs).map fun r => (c :: r.1, r.2) else none

/-- first occurrence of `pat` in `s`: (text before, text after). -/
def findSub (pat : Str) : Str → Option (Str × Str)
  | [] => if pat.isEmpty then some ([], []) else none
  | c :: cs =>
    match stripPrefix pat (c :: cs) with
    | some rest => some ([], rest)
    | none => (findSub pat cs).map fun r => (c :: r.1, r.2)

def isSp (c : Char) : Bool := c = ' '

/-- the comment alternative `(\n[ ]*)?<!--.*?-->([ ]*\n)?` at the start of `s`:
(replacement text, rest). -/
def matchComment (s : Str) : Option (Str × Str) :=
  let start : Option (Str × Str) :=
    match s with
    | '\n' :: t =>
      match stripPrefix "<!--".toList (t.dropWhile isSp) with
      | some body => some ('\n' :: t.takeWhile isSp, body)
      | none => none
    | _ => (stripPrefix "<!--".toList s).map fun body => ([], body)
  match start with
  | none => none
  | some (lead, body) =>
    match findSub "-->".toList body with
    | none => none
    | some (_, after) =>
      let (trail, rest) :=
        match after.dropWhile isSp with
        | '\n' :: r => (after.takeWhile isSp ++ ['\n'], r)
        | _ => ([], after)
      some (if !lead.isEmpty && !trail.isEmpty then ['\n'] else lead ++ trail, rest)

/-- a closing tag `</(?P=tagname)\s*>` at the start of `s`, `name` being the opening tag's name
as written: (its text, rest). -/
def closeAt (cfg : Cfg) (name : Str) (s : Str) : Option (Str × Str) :=
  match stripPrefix ['<', '/'] s with
  | none => none
  | some s1 =>
    match brPrefix cfg name s1 with
    | none => none
    | some (m, s2) =>
      match s2.dropWhile cfg.isSpace with
      | '>' :: rest => some (['<', '/'] ++ m ++ s2.takeWhile cfg.isSpace ++ ['>'], rest)
      | _ => none

/-- the lazy `.*?` up to the first closing tag: (inner, closing tag text, rest). -/
def findClose (cfg : Cfg) (name : Str) : Str → Option (Str × Str × Str)
  | [] => none
  | c :: cs =>
    match closeAt cfg name (c :: cs) with
    | some (ct, rest) => some ([], ct, rest)
    | none => (findClose cfg name cs).map fun r => (c :: r.1, r.2.1, r.2.2)

def notAngle (c : Char) : Bool := c != '<' && c != '>'

/-- what follows the tag name: `(vlist)? (/> | > inner </name\s*>)`; returns (vlist, inner, text
matched after the name, rest). -/
def matchTagRest (cfg : Cfg) (name : Str) (r : Str) : Option (Str × Str × Str × Str) :=
  let openForm (vl : Str) (afterGt : Str) : Option (Str × Str × Str × Str) :=
    match findClose cfg name afterGt with
    | none => none
    | some (inner, ct, rest) => some (vl, inner, vl ++ ['>'] ++ inner ++ ct, rest)
  match r with
  | '/' :: '>' :: rest => some ([], [], ['/', '>'], rest)
  | '>' :: rest => openForm [] rest
  | c :: r' =>
    if cfg.isSpace c then
      let v := r'.takeWhile notAngle
      match r'.dropWhile notAngle with
      | '>' :: rest =>
        if v.getLast? = some '/' then
          some (c :: v.dropLast, [], c :: v ++ ['>'], rest)
        else openForm (c :: v) rest
      | _ => none
    else none
  | [] => none

def isAscii (s : Str) : Bool := s.all fun c => c.toNat < 128

def lowerAscii (c : Char) : Char := if 'A' ≤ c && c ≤ 'Z' then Char.ofNat (c.toNat + 32) else c

/-- the tag alternative at the start of `s`: the record, the matched text length is implicit in
`complete`; the flag says whether the name as written is ASCII (else the match is left alone). -/
def matchTag (cfg : Cfg) (s : Str) : Option (Rec × Bool × Str) :=
  match s with
  | '<' :: t =>
    cfg.names.findSome? fun name =>
      match ciPrefix cfg name t with
      | none => none
      | some (m, r) =>
        match matchTagRest cfg m r with
        | none => none
        | some (vl, inner, tail, rest) =>
          let complete := '<' :: m ++ tail
          some ({ tagname := m.map lowerAscii, inner := inner, vlist := vl, complete := complete }, isAscii m, rest)
  | _ => none

structure Out where
  text : Str := []
  table : List (Str × Rec) := []       -- marker ↦ record, in creation order
  deriving Repr

/-- `regex.sub(self._repl_to_uniq, txt)`; fuel ≥ length of `s`. -/
def scan (cfg : Cfg) : Nat → Str → Out → Out
  | 0, _, o => o
  | _, [], o => o
  | fuel + 1, c :: cs, o =>
    match matchComment (c :: cs) with
    | some (repl, rest) => scan cfg fuel rest { o with text := o.text ++ repl }
    | none =>
      match matchTag cfg (c :: cs) with
      | some (r, ascii, rest) =>
        if !ascii then                                      -- not a tag: 'ſ' 'ı' 'K' only fold to s i k
          scan cfg fuel rest { o with text := o.text ++ r.complete }
        else
          let r := if r.tagname = "nowiki".toList then { r with complete := r.inner } else r
          let m := marker cfg.rand r.tagname o.table.length
          scan cfg fuel rest { text := o.text ++ m, table := o.table ++ [(m, r)] }
      | none => scan cfg fuel cs { o with text := o.text ++ [c] }

def replaceTags (cfg : Cfg) (s : Str) : Out := scan cfg s.length s {}

/-! ### `replace_uniq` -/

def isLowerAlnum (c : Char) : Bool := ('a' ≤ c && c ≤ 'z') || ('0' ≤ c && c ≤ '9')
def isDigit (c : Char) : Bool := '0' ≤ c && c ≤ '9'
def isHex (c : Char) : Bool := ('a' ≤ c && c ≤ 'f') || ('0' ≤ c && c ≤ '9')

/-- a run of at least one character of class `p` followed by `sep`: (run, rest after `sep`). -/
def runThen (p : Char → Bool) (sep : Str) (s : Str) : Option (Str × Str) :=
  let run := s.takeWhile p
  if run.isEmpty then none else (stripPrefix sep (s.dropWhile p)).map fun r => (run, r)

/-- `\x7fUNIQ-[a-z0-9]+-\d+-[a-f0-9]+-QINU\x7f` at the start of `s`: (matched text, rest). -/
def matchMarker (s : Str) : Option (Str × Str) :=
  match stripPrefix ([del] ++ "UNIQ-".toList) s with
  | none => none
  | some s1 =>
    match runThen isLowerAlnum ['-'] s1 with
    | none => none
    | some (name, s2) =>
      match runThen isDigit ['-'] s2 with
      | none => none
      | some (cnt, s3) =>
        match runThen isHex ("-QINU".toList ++ [del]) s3 with
        | none => none
        | some (hex, rest) =>
          some ([del] ++ "UNIQ-".toList ++ name ++ ['-'] ++ cnt ++ ['-'] ++ hex ++ "-QINU".toList ++ [del], rest)

def lookupMarker (table : List (Str × Rec)) (m : Str) : Option Rec :=
  (table.find? fun kv => kv.1 = m).map (·.2)

def restore (table : List (Str × Rec)) : Nat → Str → Str
  | 0, _ => []
  | _, [] => []
  | fuel + 1, c :: cs =>
    match matchMarker (c :: cs) with
    | some (m, rest) =>
      (match lookupMarker table m with
       | some r => r.complete
       | none => m) ++ restore table fuel rest
    | none => c :: restore table fuel cs

def replaceUniq (table : List (Str × Rec)) (s : Str) : Str := restore table s.length s

end MwVerif.Uniq
