/-
Model of `mwlib.core.nshandling.NsHandler.splitname` / `_find_namespace` /
`maybe_capitalize` (nshandling.py:102-160, as repaired: whitespace and direction marks are
stripped together).  Strings are `List Char`; the Unicode-dependent primitives of Python are
a parameter `CharOps` (the harness checks their laws over all code points).
-/
namespace MwVerif.Title

abbrev Str := List Char

/-- the Python primitives the code relies on. -/
structure CharOps where
  isWs : Char → Bool              -- `str.isspace` (what `str.strip()` removes)
  lower : Str → Str               -- `str.lower` (context sensitive, hence on strings)
  upper1 : Char → Str             -- `c.upper()` of a single character

structure Namespace where
  id : Int
  name : Str                      -- "*": the local name
  canonical : Option Str
  deriving Repr, DecidableEq

structure Site where
  capitalize : Bool               -- general.case == 'first-letter'
  namespaces : List Namespace     -- in the order of the siteinfo file
  aliases : List (Str × Int)
  deriving Repr, DecidableEq

def lrm : Char := Char.ofNat 0x200E
def rlm : Char := Char.ofNat 0x200F

/-- characters removed at the edges by the repaired `_strip`. -/
def CharOps.edge (ops : CharOps) (c : Char) : Bool := ops.isWs c || c = lrm || c = rlm

def stripEdges (ops : CharOps) (s : Str) : Str :=
  ((s.dropWhile ops.edge).reverse.dropWhile ops.edge).reverse

/-- `str.strip()` (whitespace only), used inside `_find_namespace`. -/
def stripWs (ops : CharOps) (s : Str) : Str :=
  ((s.dropWhile ops.isWs).reverse.dropWhile ops.isWs).reverse

def replUnderscore (s : Str) : Str := s.map (fun c => if c = '_' then ' ' else c)

/-- put one space in front of an already collapsed string. -/
def consSpace : Str → Str
  | ' ' :: rest => ' ' :: rest
  | r => ' ' :: r

/-- `re.sub(r' +', ' ', s)`. -/
def collapseSpaces : Str → Str
  | [] => []
  | c :: cs => if c = ' ' then consSpace (collapseSpaces cs) else c :: collapseSpaces cs

/-- `s.split(':', 1)` when `':' in s`. -/
def splitColon : Str → Option (Str × Str)
  | [] => none
  | c :: cs =>
    if c = ':' then some ([], cs)
    else (splitColon cs).map (fun p => (c :: p.1, p.2))

def Site.nsName (site : Site) (id : Int) : Option Str :=
  (site.namespaces.find? (·.id = id)).map (·.name)

/-- `_find_namespace`: `(found, id, local name)`; `none` = the default namespace does not exist
(`KeyError` in the code). -/
def findNamespace (site : Site) (ops : CharOps) (name : Str) (defaultns : Int) :
    Option (Bool × Int × Str) :=
  let key := stripWs ops (ops.lower name)
  match site.namespaces.find? (fun ns => ops.lower ns.name = key ||
      ops.lower (ns.canonical.getD []) = key) with
  | some ns => some (true, ns.id, ns.name)
  | none =>
    match site.aliases.find? (fun a => ops.lower a.1 = key) with
    | some a => (site.nsName a.2).map (fun n => (true, a.2, n))
    | none => (site.nsName defaultns).map (fun n => (false, defaultns, n))

def upperFirst (ops : CharOps) : Str → Str
  | [] => []
  | c :: cs => ops.upper1 c ++ cs

structure Result where
  ns : Int
  partialName : Str
  full : Str
  deriving Repr, DecidableEq

def assemble (site : Site) (ops : CharOps) (ns : Int) (prefixName suffix : Str) : Result :=
  let suffix := if site.capitalize then upperFirst ops suffix else suffix
  ⟨ns, suffix, if prefixName.isEmpty then suffix else prefixName ++ ':' :: suffix⟩

/-- `if name.startswith(":"): name = _strip(name[1:]); defaultns = 0` -/
def leadingColon (ops : CharOps) (name : Str) (defaultns : Int) : Str × Int :=
  match name with
  | ':' :: rest => (stripEdges ops rest, 0)
  | _ => (name, defaultns)

/-- the namespace split on the cleaned name. -/
def splitCore (site : Site) (ops : CharOps) (name : Str) (defaultns : Int) : Option Result :=
  match splitColon name with
  | some (nsPart, partialName) =>
    match findNamespace site ops nsPart defaultns with
    | none => none
    | some (found, nsnum, pfx) =>
      some (assemble site ops nsnum pfx (if found then stripEdges ops partialName else name))
  | none =>
    match site.nsName defaultns with
    | none => none
    | some pfx => some (assemble site ops defaultns pfx name)

/-- `splitname(title, defaultns)`; `none` = `KeyError` (unknown default namespace). -/
def splitname (site : Site) (ops : CharOps) (title : Str) (defaultns : Int) : Option Result :=
  let p := leadingColon ops (collapseSpaces (stripEdges ops (replUnderscore title))) defaultns
  splitCore site ops p.1 p.2

/-! ### table-driven `CharOps` for the driver (rows are generated from the running Python) -/

structure CharRow where
  cp : Nat
  isWs : Bool
  upper : List Char
  lower : List Char
  cased : Bool
  ignorable : Bool
  deriving Repr

def rowOf (rows : List CharRow) (c : Char) : Option CharRow := rows.find? (·.cp = c.toNat)

def sigma : Char := Char.ofNat 0x3A3

/-- CPython `handle_capital_sigma`: Σ lowers to ς when preceded by a cased letter and not
followed by one (case-ignorable characters skipped), else to σ. -/
def finalSigma (rows : List CharRow) (revBefore after : Str) : Bool :=
  let ign (c : Char) := ((rowOf rows c).map (·.ignorable)).getD false
  let cas (c : Char) := ((rowOf rows c).map (·.cased)).getD false
  let b := match revBefore.dropWhile ign with
    | [] => false
    | c :: _ => cas c
  let a := match after.dropWhile ign with
    | [] => true
    | c :: _ => !cas c
  b && a

def lowerAux (rows : List CharRow) : Str → Str → Str
  | _, [] => []
  | rev, c :: cs =>
    let l :=
      if c = sigma then [Char.ofNat (if finalSigma rows rev cs then 0x3C2 else 0x3C3)]
      else ((rowOf rows c).map (·.lower)).getD [c]
    l ++ lowerAux rows (c :: rev) cs

def tableOps (rows : List CharRow) : CharOps where
  isWs c := ((rowOf rows c).map (·.isWs)).getD false
  lower s := lowerAux rows [] s
  upper1 c := ((rowOf rows c).map (·.upper)).getD [c]

end MwVerif.Title
