/-
Model of `mwlib/parser/styleanalyzer.py`: `State.get_next` (how a run of `count` apostrophes can
be read: italic, bold, both, with surplus apostrophes kept as text) and the candidate-state loop of
`compute_path`.  The tie-break of `sort_states` compares `id()`s, i.e. is not determined by the
input: the model takes the selection of the surviving candidates as a parameter and the theorems
hold for every selection that keeps at most 32 of the offered candidates and at least one.
Core Lean only.
-/
namespace MwVerif.Style

structure State where
  apo : Nat              -- apostrophes kept as text so far
  bold : Bool
  italic : Bool
  path : List (Nat × Bool × Bool)   -- the chain of `previous` links, newest first (as (apo, bold, italic))
  deriving Repr, DecidableEq

def State.tag (s : State) : Nat × Bool × Bool := (s.apo, s.bold, s.italic)

/-- a candidate after this run: linked to `prev`, the state the run started from. -/
def mk (prev : State) (apo : Nat) (bold italic : Bool) : State :=
  { apo := apo, bold := bold, italic := italic, path := (apo, bold, italic) :: prev.path }

/-- `get_next(2)` from a working copy `(apo, bold, italic)` -/
def next2 (prev : State) (apo : Nat) (b i : Bool) : List State := [mk prev apo b (!i)]

/-- `get_next(3)` -/
def next3 (prev : State) (apo : Nat) (b i : Bool) : List State :=
  mk prev apo (!b) i :: next2 prev (apo + 1) b i

/-- `get_next(4)` -/
def next4 (prev : State) (apo : Nat) (b i : Bool) : List State := next3 prev (apo + 1) b i

/-- `get_next(5)`: italic then bold, bold then italic, or one apostrophe kept and a run of four -/
def next5 (prev : State) (apo : Nat) (b i : Bool) : List State :=
  next3 prev apo b (!i) ++                         -- via get_next(2): italic toggled, then 3
  (next2 prev apo (!b) i ++ next2 prev (apo + 1) b (!i)) ++   -- via get_next(3): two states, then 2 each
  next4 prev apo b i

/-- `state.get_next(count, res, previous=prev)` -/
def getNext (prev : State) (count : Nat) : List State :=
  if count < 2 then []                              -- ValueError in the code
  else if count = 2 then next2 prev prev.apo prev.bold prev.italic
  else if count = 3 then next3 prev prev.apo prev.bold prev.italic
  else if count = 4 then next4 prev prev.apo prev.bold prev.italic
  else next5 prev (prev.apo + (count - 5)) prev.bold prev.italic

def init : State := { apo := 0, bold := false, italic := false, path := [] }

/-- one iteration of the loop of `compute_path`: all successors, then the selection. -/
def stepStates (sel : List State → List State) (states : List State) (count : Nat) : List State :=
  sel (states.flatMap fun s => getNext s count)

def runStates (sel : List State → List State) : List State → List Nat → List State
  | states, [] => states
  | states, c :: cs => runStates sel (stepStates sel states c) cs

/-- `compute_path(counts)`: the chain of the first surviving state, oldest first; `none` stands for
`InconsistentPathLengthException` (or an empty candidate list). -/
def computePath (sel : List State → List State) (counts : List Nat) : Option (List (Nat × Bool × Bool)) :=
  match runStates sel [init] counts with
  | [] => none
  | s :: _ => if s.path.length = counts.length then some s.path.reverse else none

end MwVerif.Style
