/-
Model of `mwlib/parser/refine/util.py: resolve_entity` on the entity lexemes the scanner produces
(`&name;`, `&#digits;`, `&#xhex;`): the code point it decodes to, or `none` when the text is kept
(unknown name, no such code point).  Python raises `ValueError` (number > 0x10FFFF) or
`OverflowError` (number that does not fit a C int) inside `chr`; the code catches both.
Core Lean only.
-/
namespace MwVerif.Entity

abbrev Str := List Char

def isDigit (c : Char) : Bool := '0' ≤ c && c ≤ '9'
def isHexDigit (c : Char) : Bool := isDigit c || ('a' ≤ c && c ≤ 'f') || ('A' ≤ c && c ≤ 'F')

def hexVal (c : Char) : Nat :=
  if isDigit c then c.toNat - '0'.toNat
  else if 'a' ≤ c && c ≤ 'f' then c.toNat - 'a'.toNat + 10
  else c.toNat - 'A'.toNat + 10

def decVal (ds : Str) : Nat := ds.foldl (fun a c => a * 10 + (c.toNat - '0'.toNat)) 0
def hexNum (ds : Str) : Nat := ds.foldl (fun a c => a * 16 + hexVal c) 0

def maxCodePoint : Nat := 0x10FFFF

/-- `chr(n)` succeeds exactly for `n ≤ 0x10FFFF` -/
def chrOk (n : Nat) : Option Nat := if n ≤ maxCodePoint then some n else none

/-- the number after `&#` / `&#x` (terminating `;` already dropped) -/
def resolveNum (hex : Bool) (ds : Str) : Option Nat :=
  if hex then (if !ds.isEmpty && ds.all isHexDigit then chrOk (hexNum ds) else none)
  else (if !ds.isEmpty && ds.all isDigit then chrOk (decVal ds) else none)

def resolveName (names : List (Str × Nat)) (n : Str) : Option Nat :=
  (names.find? (fun kv => kv.1 == n)).map (·.2)

/-- `resolve_entity(entity)`; `names` = `html.entities.name2codepoint`. -/
def resolve (names : List (Str × Nat)) (e : Str) : Option Nat :=
  match e with
  | '&' :: '#' :: x :: rest =>
    if x = 'x' || x = 'X' then resolveNum true rest.dropLast else resolveNum false (x :: rest).dropLast
  | '&' :: rest => resolveName names rest.dropLast
  | _ => none

end MwVerif.Entity
