/-
Model of `mwlib/parser/treecleanerhelper.py: split_row` (used by `TreeCleaner.split_big_table_cells`):
every cell of a table row is cut into chunks of children whose estimated heights add up to less
than the page height, and the i-th chunks of all cells form the i-th new row (a cell that has
fewer chunks contributes an empty cell).  Heights are abstract numbers attached to the children
(`get_node_height` is not modelled).  Core Lean only.
-/
namespace MwVerif.SplitRow

/-- the loop over the children of one cell: `cur` = `items`, `h` = `cell_height`; children come with their heights. -/
def chunkGo (mx : Nat) (h : Nat) (cur : List Nat) : List (Nat × Nat) → List (List Nat)
  | [] => if cur.isEmpty then [] else [cur]
  | (hi, x) :: rest =>
    if cur.isEmpty || h + hi < mx then chunkGo mx (h + hi) (cur ++ [x]) rest
    else cur :: chunkGo mx 0 [x] rest

def chunks (mx : Nat) (cell : List (Nat × Nat)) : List (List Nat) := chunkGo mx 0 [] cell

/-- `_create_and_append_new_rows_based_on_columns`: row `r` takes chunk `r` of every column, or nothing. -/
def newRows (cols : List (List (List Nat))) : List (List (List Nat)) :=
  (List.range ((cols.map List.length).foldl max 0)).map fun r => cols.map fun col => col.getD r []

def splitRow (mx : Nat) (row : List (List (Nat × Nat))) : List (List (List Nat)) :=
  newRows (row.map (chunks mx))

/-- the children of column `c` over the new rows, top to bottom. -/
def column (rows : List (List (List Nat))) (c : Nat) : List Nat := (rows.map fun r => r.getD c []).flatten

end MwVerif.SplitRow
