/-
Model of the list nesting of `mwlib/parser/refine/core.py: ParseLines.analyze / collect_items /
splitdl` (core.py:384-636): the lines of a block, each with its prefix over `* # : ;`, are grouped
by the first prefix character and the group is analysed again with that character removed.

* `*`/`#`: one list node takes every following line that starts with the same character; a line
  whose prefix is longer than one character continues the current item, a line with the bare
  character starts the next item;
* `:`/`;`: one node per item (the loop breaks after the first item);
* `; term : description`: a bare `;` line that contains a colon is an item of its own; the part
  after the colon is moved out into a `:` node placed after the `;` node (`splitdl`,
  `is_term_with_description`).

Core Lean only.  Not modelled: `</ul>`/`</ol>` end tags cutting a line (`append_line`), the
splitting of the token stream into lines (`run`).
-/
namespace MwVerif.Lists

inductive Kind where
  | ul | ol | dd | dt      -- `*`  `#`  `:`  `;`
  deriving DecidableEq, Repr

structure Line where
  pre : List Kind
  id : Nat
  colon : Bool             -- the line contains a `:` special token (matters for a bare `;` line only)
  deriving DecidableEq, Repr

inductive LT where
  | leaf (id : Nat) (colon : Bool)      -- a line without (remaining) prefix, with or without its description part
  | term (id : Nat)                     -- a bare `;` line whose description part was moved out
  | desc (id : Nat)                     -- the description part: `:` node placed after the `;` node
  | node (k : Kind) (items : List (List LT))
  deriving Repr

def strip (l : Line) : Line := { l with pre := l.pre.tail }

/-- the line continues the current item of a `k` node. -/
def cont (k : Kind) (l : Line) : Bool := l.pre.head? = some k && decide (1 < l.pre.length)

def starts (k : Kind) (l : Line) : Bool := l.pre.head? = some k

/-- total size: lines plus prefix characters (the recursion measure). -/
def size : List Line → Nat
  | [] => 0
  | l :: ls => l.pre.length + 1 + size ls

theorem size_strip_le : ∀ (ls : List Line), size (ls.map strip) ≤ size ls
  | [] => Nat.le_refl _
  | l :: ls => by
    simp only [List.map_cons, size, strip, List.length_tail]
    have := size_strip_le ls
    omega

theorem size_sublist {a b : List Line} (h : a.Sublist b) : size a ≤ size b := by
  induction h with
  | slnil => exact Nat.le_refl _
  | cons x _ ih => simp only [size]; omega
  | cons_cons x _ ih => simp only [size]; omega

theorem size_takeWhile_le (p : Line → Bool) (ls : List Line) : size (ls.takeWhile p) ≤ size ls :=
  size_sublist (List.takeWhile_sublist p)

theorem size_dropWhile_le (p : Line → Bool) (ls : List Line) : size (ls.dropWhile p) ≤ size ls :=
  size_sublist (List.dropWhile_sublist p)

/-- the lines of the item that starts with `l` (a line with a non-empty prefix), prefix character removed. -/
def itemLines (k : Kind) (l : Line) (ls : List Line) : List Line := (l :: ls.takeWhile (cont k)).map strip

theorem size_itemLines_lt (k : Kind) (l : Line) (ls : List Line) (h : l.pre ≠ []) :
    size (itemLines k l ls) < size (l :: ls) := by
  unfold itemLines
  simp only [List.map_cons, size, strip, List.length_tail]
  have h1 := size_strip_le (ls.takeWhile (cont k))
  have h2 := size_takeWhile_le (cont k) ls
  have : 0 < l.pre.length := List.length_pos_iff.mpr h
  omega

theorem size_lt_of_sublist_tail {l : Line} {ls ls' : List Line} (h : ls'.Sublist ls) : size ls' < size (l :: ls) := by
  have := size_sublist h
  simp only [size]; omega

mutual
  /-- `ParseLines.analyze` on the lines of one block. -/
  def analyze : List Line → List LT
    | [] => []
    | l :: ls =>
      match h : l.pre with
      | [] => .leaf l.id l.colon :: analyze ls
      | .ul :: _ => .node .ul (items .ul (l :: ls.takeWhile (starts .ul))) :: analyze (ls.dropWhile (starts .ul))
      | .ol :: _ => .node .ol (items .ol (l :: ls.takeWhile (starts .ol))) :: analyze (ls.dropWhile (starts .ol))
      | .dd :: _ => .node .dd [analyze (itemLines .dd l ls)] :: analyze (ls.dropWhile (cont .dd))
      | .dt :: r =>
        if r = [] ∧ l.colon = true then .node .dt [[.term l.id]] :: .desc l.id :: analyze ls
        else .node .dt [analyze (itemLines .dt l ls)] :: analyze (ls.dropWhile (cont .dt))
  termination_by ls => (size ls, 1)
  decreasing_by
    all_goals simp_wf
    all_goals first
      | exact Prod.Lex.left _ _ (size_lt_of_sublist_tail (List.Sublist.refl _))
      | exact Prod.Lex.left _ _ (size_lt_of_sublist_tail (List.dropWhile_sublist _))
      | exact Prod.Lex.left _ _ (size_itemLines_lt _ l ls (by rw [h]; exact List.cons_ne_nil _ _))
      | (refine Prod.lex_def.mpr ?_
         have := size_takeWhile_le (starts .ul) ls
         have := size_takeWhile_le (starts .ol) ls
         simp only [size] at *
         omega)
  /-- the items of a `*`/`#` node: the argument is the maximal run of lines starting with `k`
  (a line without prefix cannot occur there; the branch only makes the definition total). -/
  def items (k : Kind) : List Line → List (List LT)
    | [] => []
    | l :: ls =>
      if h : l.pre = [] then []
      else analyze (itemLines k l ls) :: items k (ls.dropWhile (cont k))
  termination_by ls => (size ls, 0)
  decreasing_by
    all_goals simp_wf
    · exact Prod.Lex.left _ _ (size_itemLines_lt k l ls h)
    · exact Prod.Lex.left _ _ (size_lt_of_sublist_tail (List.dropWhile_sublist _))
end

end MwVerif.Lists
