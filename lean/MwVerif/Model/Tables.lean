/-
Model of `mwlib/parser/refine/parse_table.py: TableParser.run` — how `{|` … `|}` (and `<table>` … `</table>`) are paired:
a stack of open tables; an end marker closes the innermost open table, an end marker without an open table stays where it
is, tables still open at the end are closed there, innermost first.  What happens inside a table afterwards (attributes,
caption, rows, cells) is modelled in Rows.lean / Cells.lean or not at all.  Core Lean only.
-/
namespace MwVerif.Tables

inductive Tok where
  | topen | tclose
  | other (id : Nat)
  deriving Repr, DecidableEq

inductive Out where
  | leaf (id : Nat)
  | looseClose                  -- an end marker with no table open
  | table (children : List Out)
  deriving Repr

/-- close every table still open: the innermost becomes the last child of the one around it. -/
def unwind : List (List Out) → List Out → List Out
  | [], cur => cur
  | outer :: rest, cur => unwind rest (outer ++ [.table cur])

/-- `stack`: the collected children of the enclosing open tables (innermost first) *and* of the top level (last);
`cur`: the children collected at the current level. -/
def run : List (List Out) → List Out → List Tok → List Out
  | stack, cur, [] => unwind stack cur
  | stack, cur, .topen :: ts => run (cur :: stack) [] ts
  | [], cur, .tclose :: ts => run [] (cur ++ [.looseClose]) ts
  | outer :: stack, cur, .tclose :: ts => run stack (outer ++ [.table cur]) ts
  | stack, cur, .other i :: ts => run stack (cur ++ [.leaf i]) ts

def parse (ts : List Tok) : List Out := run [] [] ts

mutual
  /-- the tokens the result stands for (a table closed at the end of the input prints its end marker too: the
  statement below is therefore about the non-marker tokens). -/
  def Out.leaves : Out → List Nat
    | .leaf i => [i]
    | .looseClose => []
    | .table cs => leavesL cs
  def leavesL : List Out → List Nat
    | [] => []
    | o :: os => o.leaves ++ leavesL os
end

def tokLeaves : List Tok → List Nat
  | [] => []
  | .other i :: ts => i :: tokLeaves ts
  | _ :: ts => tokLeaves ts

end MwVerif.Tables
