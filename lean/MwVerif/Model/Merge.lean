/-
Model of `mwlib/network/sapi.py: merge_data` — how the answers to a continued API query are merged into one result:
lists are concatenated, dictionaries are merged key by key (recursively where both sides have the key, the value is
added where only the new answer has it), scalars keep the value of the first answer; a list meeting a dictionary
(or a scalar of another type) raises `ValueError`.  Core Lean only.
-/
namespace MwVerif.Merge

inductive J where
  | scalar (ty : Nat) (v : Nat)        -- str / int / …: a type tag and a value
  | list (xs : List J)
  | dict (kv : List (Nat × J))         -- keys as numbers, in insertion order
  deriving Repr

def lookup (k : Nat) : List (Nat × J) → Option J
  | [] => none
  | (k', v) :: rest => if k' = k then some v else lookup k rest

def setKey (k : Nat) (v : J) : List (Nat × J) → List (Nat × J)
  | [] => []
  | (k', v') :: rest => if k' = k then (k', v) :: rest else (k', v') :: setKey k v rest

mutual
  /-- `merge dst src`; `none` = `ValueError`. -/
  def merge : J → J → Option J
    | .list a, .list b => some (.list (a ++ b))
    | .dict a, .dict b => (mergeKV a b).map .dict
    | .scalar t v, .scalar t' _ => if t = t' then some (.scalar t v) else none
    | _, _ => none
  /-- the loop `for k, val in src.items()`. -/
  def mergeKV : List (Nat × J) → List (Nat × J) → Option (List (Nat × J))
    | a, [] => some a
    | a, (k, v) :: rest =>
      match lookup k a with
      | none => mergeKV (a ++ [(k, v)]) rest
      | some d =>
        match merge d v with
        | none => none
        | some m => mergeKV (setKey k m a) rest
end

end MwVerif.Merge
