/-
Model of the template evaluator: `mwlib/parser/templ/evaluate.pyx` (`flatten` with the
recursion counter, `ArgumentList.get`, `insert_implicit_newlines`, `Expander._expand`) and
`nodes.pyx` (`Template`, `Variable`, `IfNode`, `IfEqNode`, `SwitchNode`, base `Node`).  The parser
(`templ/parser.py`) is not modelled: the harness hands the *real* parse trees of the page
and of every template to this model.  Magic words and parser functions other than `#if`, `#ifeq`, `#switch` are outside (`Node.opaque`; the correspondence stream does not generate them).
Core Lean only.
-/
namespace MwVerif.Templ

abbrev Str := List Char

inductive Node where
  | text (s : Str)
  | eq                                        -- the `eqmark` inside an argument
  | seq (xs : List Node)                      -- list / tuple / base `Node`
  | template (name : Node) (args : List Node)
  | variable (name : Node) (dflt : Option Node)
  | ifNode (args : List Node)
  | ifeqNode (args : List Node)
  | switchNode (value : Node) (cases : List Node)
  | opaque                                    -- anything the model does not cover
  deriving Repr, Inhabited

/-- what `res` collects: strings and (empty) marks. -/
inductive Piece where
  | str (s : Str)
  | maybeNl
  | mark                                      -- dummy_mark, MarkStart, MarkEnd
  deriving Repr, DecidableEq

inductive Err where
  | recursion                                 -- TemplateRecursion
  | opaque                                    -- the model does not cover this input
  deriving Repr, DecidableEq

def Piece.text : Piece → Str
  | .str s => s
  | _ => []

def joinPieces (ps : List Piece) : Str := (ps.map Piece.text).flatten

/-! ### strings -/

def isWs (c : Char) : Bool := c = ' ' || c = '\n' || c = '\t' || c = '\r' || c.toNat = 11 || c.toNat = 12

/-- `str.strip()` for the whitespace the generator uses (ASCII). -/
def strip (s : Str) : Str := ((s.dropWhile isWs).reverse.dropWhile isWs).reverse

def startsWith (p s : Str) : Bool := p.isPrefixOf s

/-- `is_implicit_newline` -/
def isImplicitNewline (raw : Str) : Bool :=
  startsWith ['*'] raw || startsWith ['#'] raw || startsWith [':'] raw || startsWith [';'] raw ||
    startsWith ['{', '|'] raw

/-- `insert_implicit_newlines(res)`, left to right (`prev` = the already processed part,
reversed). -/
def insertNewlinesAux : List Piece → List Piece → List Piece
  | prev, [] => prev.reverse
  | prev, .maybeNl :: rest =>
    let afterNl := match prev with
      | p :: _ => (p.text.getLast? = some '\n')
      | [] => false
    let s1 := rest.head?
    let s2 := (rest.drop 1).head?
    let replace :=
      if !prev.isEmpty && afterNl then false
      else match s1 with
        | some (.str t1) =>
          if t1.length ≥ 2 then isImplicitNewline t1
          else isImplicitNewline (t1 ++ ((s2.map Piece.text).getD []))
        | some _ => false                      -- a Mark follows
        | none => false                        -- the appended dummy mark follows
    insertNewlinesAux ((if replace then .str ['\n'] else .maybeNl) :: prev) rest
  | prev, p :: rest => insertNewlinesAux (p :: prev) rest

def insertNewlines (ps : List Piece) : List Piece := insertNewlinesAux [] ps

/-! ### the evaluator -/

/-- an `ArgumentList`: the argument nodes of a call and the environment of the caller, in
which they are evaluated lazily. -/
inductive Env where
  | top
  | call (args : List Node) (caller : Env)
  deriving Inhabited

structure Cfg where
  limit : Nat := 100
  db : Str → Option Node                      -- parsed template by (stripped) name
  isMagic : Str → Bool := fun _ => false      -- names the magic resolver answers (opaque here)

/-- `equal_split`: split an argument at its first `eqmark`. -/
def equalSplit : Node → Option (List Node) × Node
  | .seq xs =>
    match xs.span (fun n => match n with | .eq => false | _ => true) with
    | (_, []) => (none, .seq xs)
    | (pre, _ :: post) => (some pre, .seq post)
  | n => (none, n)

def natToStr (n : Nat) : Str := (toString n).toList

/-! ### numbers (`maybe_numeric`, restricted to plain decimal literals) -/

def isDigit (c : Char) : Bool := '0' ≤ c && c ≤ '9'

def digitsVal (ds : Str) : Nat := ds.foldl (fun a c => a * 10 + (c.toNat - '0'.toNat)) 0

/-- drop trailing zeros of the fraction digits. -/
def trimZeros (ds : Str) : Str := (ds.reverse.dropWhile (· = '0')).reverse

/-- `[+-]? digits [. digits*]` or `[+-]? . digits+` as (mantissa, scale): value = m / 10^scale,
normalised (no trailing fraction zeros), so equal values have equal representations.
Exponents, `inf`/`nan`, underscores and non-ASCII digits are *not* recognised (Python's
`int`/`float` accept them; the correspondence stream keeps clear of them). -/
def parseNum (s : Str) : Option (Int × Nat) :=
  let (neg, body) := match s with
    | '-' :: r => (true, r)
    | '+' :: r => (false, r)
    | r => (false, r)
  let ip := body.takeWhile isDigit
  let rest := body.dropWhile isDigit
  let mk (fr : Str) : Option (Int × Nat) :=
    let fr := trimZeros fr
    let m : Int := Int.ofNat (digitsVal (ip ++ fr))
    some (if neg then -m else m, fr.length)
  match rest with
  | [] => if ip.isEmpty then none else mk []
  | '.' :: fr => if fr.all isDigit && !(ip.isEmpty && fr.isEmpty) then mk fr else none
  | _ => none

/-- `maybe_numeric_compare` / the comparison of `#switch`. -/
def numEq (a b : Str) : Bool :=
  match parseNum a, parseNum b with
  | some x, some y => x == y
  | _, _ => false

def sameValue (a b : Str) : Bool := a == b || numEq a b

/-! ### `#switch` case list -/

/-- the string a key is when all its parts are plain strings (a "fast" key). -/
def staticParts : List Node → Option Str
  | [] => some []
  | .text s :: rest => (staticParts rest).map (s ++ ·)
  | _ => none

def staticKey : Node → Option Str
  | .text s => some s
  | .seq xs => staticParts xs
  | _ => none

/-- `SwitchNode._init`: (key, value) pairs in source order, a run of key-less arguments
falling through to the next keyed value; the second component is what is left pending at the
end (its last element is the implicit default). -/
def switchPairs : List Node → List Node → List (Node × Node) × List Node
  | [], pending => ([], pending)
  | a :: rest, pending =>
    match equalSplit a with
    | (none, v) => switchPairs rest (pending ++ [v])
    | (some kparts, v) =>
      let (ps, pend) := switchPairs rest []
      (pending.map (fun k => (k, v)) ++ (.seq kparts, v) :: ps, pend)

def defaultKey : Str := "#default".toList

/-- the value of the first case whose *static* key is `#default`, else the last pending one. -/
def switchDefault (pairs : List (Node × Node)) (pending : List Node) : Option Node :=
  match pairs.find? (fun kv => (staticKey kv.1).map strip == some defaultKey) with
  | some kv => some kv.2
  | none => pending.getLast?

def nodeFalsy : Node → Bool
  | .text [] => true
  | .seq [] => true
  | _ => false

mutual
  /-- `flatten(node, expander, variables, res)`; `fuel` bounds the nesting (`limit + 2 - count`
  is always enough), `count` is `expander.recursion_count`. Returns the pieces appended. -/
  def flatten (cfg : Cfg) : Nat → Nat → Node → Env → Except Err (List Piece)
    | _, _, .text s, _ => .ok [.str s]
    | 0, _, _, _ => .error .recursion
    | fuel + 1, count, node, env =>
      if count > cfg.limit then .error .recursion
      else
        match flattenNode cfg fuel (count + 1) node env with
        | .ok ps => .ok ps
        | .error .recursion => if count + 1 > 2 then .error .recursion else .ok []
        | .error e => .error e
  termination_by fuel _ _ _ => (fuel, 0, 0)
  /-- dispatch on the node class (`node.flatten(...)` or the list loop). -/
  def flattenNode (cfg : Cfg) : Nat → Nat → Node → Env → Except Err (List Piece)
    | _, _, .text s, _ => .ok [.str s]
    | _, _, .eq, _ => .ok [.str ['=']]
    | _, _, .opaque, _ => .error .opaque
    | fuel, count, .seq xs, env => flattenList cfg fuel count xs env
    | fuel, count, .variable name dflt, env =>
      match flatten cfg fuel count name env with
      | .error e => .error e
      | .ok nps =>
        let n := strip (joinPieces nps)
        match lookup cfg fuel count env n with
        | .error e => .error e
        | .ok (some v) => .ok [.str v]
        | .ok none =>
          match dflt with
          | some d => flatten cfg fuel count d env
          | none => .ok [.str (['{', '{', '{'] ++ n ++ ['}', '}', '}'])]
    | fuel, count, .ifNode args, env =>
      match args with
      | [] => .error .opaque
      | c :: rest =>
        match flatten cfg fuel count c env with
        | .error e => .error e
        | .ok cps =>
          let cond := strip (joinPieces cps)
          let branch := if !cond.isEmpty then rest.head? else (rest.drop 1).head?
          match branch with
          | none => .ok [.maybeNl, .str [], .mark]
          | some b =>
            match flatten cfg fuel count b env with
            | .error e => .error e
            | .ok bps => .ok [.maybeNl, .str (strip (joinPieces (insertNewlines bps))), .mark]
    | fuel, count, .ifeqNode args, env =>
      match args with
      | [] => .error .opaque
      | a :: rest =>
        match flatten cfg fuel count a env with
        | .error e => .error e
        | .ok aps =>
          match (match rest.head? with
                 | some b => flatten cfg fuel count b env
                 | none => .ok []) with
          | .error e => .error e
          | .ok bps =>
            let branch := if sameValue (strip (joinPieces aps)) (strip (joinPieces bps))
              then (rest.drop 1).head? else (rest.drop 2).head?
            match branch with
            | none => .ok [.maybeNl, .str [], .mark]
            | some b =>
              match flatten cfg fuel count b env with
              | .error e => .error e
              | .ok rps => .ok [.maybeNl, .str (strip (joinPieces (insertNewlines rps))), .mark]
    | fuel, count, .switchNode value cases, env =>
      match flatten cfg fuel count value env with
      | .error e => .error e
      | .ok vps =>
        let val := strip (joinPieces vps)
        let (pairs, pending) := switchPairs cases []
        match switchScan cfg fuel count pairs env val with
        | .error e => .error e
        | .ok found =>
          let chosen := match found with
            | some v => some v
            | none => switchDefault pairs pending
          match chosen with
          | none => .ok [.maybeNl, .str [], .mark]
          | some r =>
            if nodeFalsy r then .ok [.maybeNl, .str [], .mark]
            else
              match flatten cfg fuel count r env with
              | .error e => .error e
              | .ok rps => .ok [.maybeNl, .str (strip (joinPieces (insertNewlines rps))), .mark]
    | fuel, count, .template name args, env =>
      match flatten cfg fuel count name env with
      | .error e => .error e
      | .ok nps =>
        let n := strip (joinPieces nps)
        if n.contains ':' || cfg.isMagic n then .error .opaque
        else if n.isEmpty || startsWith ['[', '['] n || n.contains '|' || startsWith ['/'] n then .ok []
        else
          match cfg.db n with
          | none => .ok []
          | some (.seq []) => .ok []                              -- `if p:` — an empty parse is falsy
          | some (.text []) => .ok []
          | some body =>
            match flatten cfg fuel count body (.call args env) with
            | .error e => .error e
            | .ok bps => .ok ([.mark, .maybeNl] ++ bps ++ [.mark])
  termination_by fuel _ _ _ => (fuel, 5, 0)
  def flattenList (cfg : Cfg) : Nat → Nat → List Node → Env → Except Err (List Piece)
    | _, _, [], _ => .ok []
    | fuel, count, x :: xs, env =>
      match flatten cfg fuel count x env with
      | .error e => .error e
      | .ok ps =>
        match flattenList cfg fuel count xs env with
        | .error e => .error e
        | .ok qs => .ok (ps ++ qs)
  termination_by fuel _ xs _ => (fuel, 1, xs.length)
  /-- the first case, in source order, whose key has the value `val` (as a string or as a
  number); computed keys are evaluated on the way. -/
  def switchScan (cfg : Cfg) : Nat → Nat → List (Node × Node) → Env → Str → Except Err (Option Node)
    | _, _, [], _, _ => .ok none
    | fuel, count, (k, v) :: rest, env, val =>
      match staticKey k with
      | some ks =>
        if sameValue (strip ks) val then .ok (some v) else switchScan cfg fuel count rest env val
      | none =>
        match flatten cfg fuel count k env with
        | .error e => .error e
        | .ok kps =>
          if sameValue (strip (joinPieces kps)) val then .ok (some v)
          else switchScan cfg fuel count rest env val
  termination_by fuel _ ps _ _ => (fuel, 2, ps.length)
  /-- `variables.get(name, None)` for a string key: every argument is named (positional ones
  "1", "2", …, counted over the positional ones only); the *last* argument whose name is `n`
  is the value. -/
  def lookup (cfg : Cfg) : Nat → Nat → Env → Str → Except Err (Option Str)
    | _, _, .top, _ => .ok none
    | fuel, count, .call args caller, n => lookupArgs cfg fuel count args caller 1 n none
  termination_by fuel _ _ _ => (fuel, 4, 0)
  /-- the scan loop of `ArgumentList.get`; `best` = (named?, value node) of the last match. -/
  def lookupArgs (cfg : Cfg) : Nat → Nat → List Node → Env → Nat → Str → Option (Bool × Node) →
      Except Err (Option Str)
    | _, _, [], _, _, _, none => .ok none
    | fuel, count, [], caller, _, _, some (named, val) =>
      if named then
        match flatten cfg fuel count val caller with
        | .error e => .error e
        | .ok vps => .ok (some (strip (joinPieces (insertNewlines vps))))
      else
        match val with
        | .text s => .ok (some s)                                 -- a plain string is not stripped
        | _ =>
          match flatten cfg fuel count val caller with
          | .error e => .error e
          | .ok vps => .ok (some (joinPieces (insertNewlines vps)))
    | fuel, count, a :: rest, caller, pos, n, best =>
      match equalSplit a with
      | (some namePart, val) =>
        match flatten cfg fuel count (.seq namePart) caller with   -- flatten(name) on a plain tuple
        | .error e => .error e
        | .ok nps =>
          let name := strip (joinPieces (insertNewlines nps))
          lookupArgs cfg fuel count rest caller pos n (if name = n then some (true, val) else best)
      | (none, val) =>
        lookupArgs cfg fuel count rest caller (pos + 1) n
          (if natToStr pos = n then some (false, val) else best)
  termination_by fuel _ args _ _ _ _ => (fuel, 3, args.length)
end
/-- `Expander._expand(parsed)`: a leading newline guards against an implicit newline at the
start; the outermost `flatten` runs with `recursion_count = 0`. -/
def expand (cfg : Cfg) (page : Node) : Except Err Str :=
  match flatten cfg (cfg.limit + 3) 0 page .top with
  | .error e => .error e
  | .ok ps =>
    match insertNewlines (.str ['\n'] :: ps) with
    | _ :: rest => .ok (joinPieces rest)
    | [] => .ok []

end MwVerif.Templ
