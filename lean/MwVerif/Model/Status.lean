import MwVerif.Model.Qs

/-
Model of `mwlib.core.nserve.Application.do_render_status`,
`_process_and_return_finished_state`, `get_content_disposition(_values)` and of the job
ids the render server uses.  Core Lean only.
-/
namespace MwVerif.Status
open MwVerif.Qs

abbrev Str := List Char

/-- what `qinfo` returns for a job (the fields the status command reads). -/
structure Snap where
  done : Bool
  error : Err
  result : Option Nat
  info : List (Nat × Nat)
  deriving Repr, DecidableEq

/-- the `result` dictionaries a render worker may report, indexed by the small integers the
queue model carries: `{}` (falsy), complete, complete with a suggested filename, and one with
`url` but no `size` (the `KeyError` path). -/
structure ResultRec where
  url : Option Nat
  size : Option Nat
  sfn : Option Nat      -- index into the filename table of the harness
  deriving Repr, DecidableEq

def decodeResult : Nat → ResultRec
  | 0 => ⟨none, none, none⟩                    -- {}
  | 1 => ⟨some 1, some 10, none⟩
  | 2 => ⟨some 2, some 20, some 1⟩
  | 3 => ⟨some 3, none, none⟩                   -- no "size": KeyError after url was copied
  | n + 4 => ⟨some (n + 4), some (n + 4), some ((n % 3) + 1)⟩

/-- Python truthiness of the result dict. -/
def ResultRec.truthy (r : ResultRec) : Bool := r.url.isSome || r.size.isSome || r.sfn.isSome

structure Writer where
  name : Str
  ext : Str
  contentType : Str
  deriving Repr, DecidableEq

structure Finished where
  url : Option Nat
  size : Option Nat
  sfn : Option Nat            -- `suggested_filename` copied into the reply (none = not copied)
  sfnEmpty : Bool             -- copied as "" (result had no suggested_filename)
  deriving Repr, DecidableEq

inductive InfoVal where
  | dict (kv : List (Nat × Nat))
  | dataFetched                -- {"status": "data fetched. waiting for render process.."}
  deriving Repr, DecidableEq

inductive Status where
  | failed (e : Err)
  | finished (f : Finished)
  | progress (i : InfoVal)
  deriving Repr, DecidableEq

/-- `_process_and_return_finished_state`: which fields of `result` reach the reply. -/
def finishedOf (result : Option Nat) : Finished :=
  match result with
  | none => ⟨none, none, none, false⟩                -- res["result"] is None → falsy
  | some n =>
    let r := decodeResult n
    if !r.truthy then ⟨none, none, none, false⟩
    else
      match r.url with
      | none => ⟨none, none, none, false⟩             -- KeyError at once
      | some u =>
        match r.size with
        | none => ⟨some u, none, none, false⟩         -- KeyError after url
        | some sz => ⟨some u, some sz, r.sfn, r.sfn.isNone⟩

/-- `do_render_status`: `render`/`zip` are `qinfo(...)` of the two jobs (`none` = unknown id). -/
def renderStatus (render zip : Option Snap) : Status :=
  let error := (render.map (·.error)).getD .none
  let done := (render.map (·.done)).getD false
  let info := (render.map (·.info)).getD []
  if error.truthy then .failed error
  else if done then .finished (finishedOf (render.bind (·.result)))
  else if !info.isEmpty then .progress (.dict info)
  else
    match zip with
    | none => .progress (.dict [])
    | some z => if z.done then .progress .dataFetched else .progress (.dict z.info)

/-! ### job ids -/

def renderTag : Str := [':', 'r', 'e', 'n', 'd', 'e', 'r', '-']
def zipTag : Str := [':', 'm', 'a', 'k', 'e', 'z', 'i', 'p']

def renderId (cid : Str) (w : Str) : Str := cid ++ renderTag ++ w
def zipId (cid : Str) : Str := cid ++ zipTag

/-! ### Content-Disposition -/

/-- characters `re.sub("[ ;:\"',]+", " ", …)` collapses. -/
def isSep (c : Char) : Bool := c = ' ' || c = ';' || c = ':' || c = '"' || c = '\'' || c = ','

/-- `re.sub("[ ;:\"',]+", " ", s)`: every maximal run of separator characters becomes one
space (`inRun` = the previous character was a separator). -/
def collapseAux : Bool → Str → Str
  | _, [] => []
  | inRun, c :: cs =>
    if isSep c then (if inRun then collapseAux true cs else ' ' :: collapseAux true cs)
    else c :: collapseAux false cs

def collapse (s : Str) : Str := collapseAux false s

def stripSpaces (s : Str) : Str := ((s.dropWhile (· = ' ')).reverse.dropWhile (· = ' ')).reverse

def collectionName : Str := ['c', 'o', 'l', 'l', 'e', 'c', 't', 'i', 'o', 'n']
def inlinePrefix : Str :=
  ['i', 'n', 'l', 'i', 'n', 'e', ';', ' ', 'f', 'i', 'l', 'e', 'n', 'a', 'm', 'e', '=']
def starPrefix : Str :=
  [';', 'f', 'i', 'l', 'e', 'n', 'a', 'm', 'e', '*', '=', 'U', 'T', 'F', '-', '8', '\'', '\'']

/-- `ascii_fn` of `get_content_disposition_values`, given the NFKD/ASCII-ignore image
`folded` of the (stripped, defaulted) filename.  After `re.sub` the only whitespace-like
separator left is the plain space, so `.strip()` strips spaces (the harness checks that
`folded` contains no other ASCII whitespace for inputs without control characters). -/
def asciiName (folded : Str) : Str :=
  let a := stripSpaces (collapse folded)
  let a := if a.isEmpty then collectionName else a
  a.map (fun c => if c = ' ' then '-' else c)

/-- `get_content_disposition`: `name` is the filename after strip/default, `folded` its
ASCII image, `quoted` = `urllib.parse.quote(name)`. -/
def contentDisposition (name folded quoted ext : Str) : Str :=
  let a := asciiName folded
  let d := inlinePrefix ++ a ++ ['.'] ++ ext
  if !name.isEmpty && name != a then d ++ starPrefix ++ quoted ++ ['.'] ++ ext else d

end MwVerif.Status
