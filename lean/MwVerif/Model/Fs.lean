/-
Model of the file-system protocol behind "output files appear atomically":
`Status.dump` (status.py:94-127), `ZipCreator.create_zip` / `make_zip` (buildzip.py),
`transport.download_with_retries` and the render entry point (render.py:249-256) all write a
temporary file next to the target and publish it with rename/replace.  Core Lean only.

A file is `partial` while it is open for writing (what was written may still sit in
user-space buffers and is lost when the process is killed) and `complete` once it has been
closed without a fault.  Paths are numbers.
-/
namespace MwVerif.Fs

abbrev Path := Nat

inductive Op where
  | creat (p : Path)            -- open(p, 'w'/'wb') / mkstemp: creates or truncates
  | write (p : Path)            -- write()/flush() on the open file
  | close (p : Path)
  | rename (a b : Path)         -- os.rename / os.replace
  | unlink (p : Path)
  | fail                        -- an I/O error was raised to the program (ENOSPC/EIO)
  deriving Repr, DecidableEq

inductive FileState where
  | partialFile                 -- open for writing, or left behind by a fault
  | complete (version : Nat)    -- closed without fault; `version` identifies the content
  deriving Repr, DecidableEq

structure Fs where
  files : List (Path × FileState) := []
  faulted : Bool := false       -- a `fail` has happened since the last creat
  nextVersion : Nat := 1
  deriving Repr

def Fs.get (fs : Fs) (p : Path) : Option FileState := (fs.files.find? (·.1 = p)).map (·.2)

def Fs.set (fs : Fs) (p : Path) (v : Option FileState) : Fs :=
  let rest := fs.files.filter (·.1 ≠ p)
  match v with
  | none => { fs with files := rest }
  | some x => { fs with files := (p, x) :: rest }

def closeOp (fs : Fs) (p : Path) : Fs :=
  match fs.get p with
  | some .partialFile =>
    if fs.faulted then fs
    else { (fs.set p (some (.complete fs.nextVersion))) with nextVersion := fs.nextVersion + 1 }
  | _ => fs

def renameOp (fs : Fs) (a b : Path) : Fs :=
  match fs.get a with
  | some x => (fs.set a none).set b (some x)
  | none => fs

def stepOp (fs : Fs) : Op → Fs
  | .creat p => { (fs.set p (some .partialFile)) with faulted := false }
  | .write p => fs.set p (some .partialFile)
  | .close p => closeOp fs p
  | .rename a b => renameOp fs a b
  | .unlink p => fs.set p none
  | .fail => { fs with faulted := true }

def run (tr : List Op) (fs : Fs) : Fs := tr.foldl stepOp fs

/-- the discipline every producer must follow for the published path `final`: it is never
opened for writing or written; it only ever receives, by rename, a file that is complete at
that moment. (Decidable on a recorded trace.) -/
def publishesFrom (final : Path) : Fs → List Op → Bool
  | _, [] => true
  | fs, op :: rest =>
    (match op with
     | .creat p => p != final
     | .write p => p != final
     | .close _ => true
     | .rename a b =>
       if b = final then
         (match fs.get a with
          | some (.complete _) => true
          | _ => false)
       else a != final        -- moving the published file away is not part of any producer
     | .unlink _ => true
     | .fail => true) && publishesFrom final (stepOp fs op) rest

def publishes (final : Path) (tr : List Op) (fs0 : Fs) : Bool := publishesFrom final fs0 tr

/-- the published path is absent or complete. -/
def okAt (fs : Fs) (final : Path) : Prop :=
  fs.get final = none ∨ ∃ v, fs.get final = some (.complete v)

end MwVerif.Fs
