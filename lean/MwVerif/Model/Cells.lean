/-
Model of `mwlib/parser/refine/parse_table.py: TableCellParser` (`run`, `make_cell`, `find_modifier`):
the tokens of a table row are grouped into cells.  A cell starts at a column token (`|`, `!`, `||`,
`!!`) or an HTML `<td>`/`<th>` and runs to the next start, to an HTML end tag (which is dropped with
it) or to the end of the row; tokens before the first start stay where they are.  A wiki cell that
contains a `|` before any `[[` loses everything up to and including that `|` to its attributes.
`|`/`!` set the header flag for the cells that follow, `||`/`!!` keep it, `<th>`/`<td>` override it for
their own cell.  Core Lean only.  Not modelled: `|+` inside a cell (`replace_tablecaption`), the
parsing of the attribute text.
-/
namespace MwVerif.Cells

inductive Tok where
  | col (header : Option Bool)     -- `!` = some true, `|` = some false, `||`/`!!` = none (keeps the flag)
  | tdOpen (th : Bool)
  | tdClose
  | bar                            -- `|` inside a cell
  | box                            -- `[[`
  | other (id : Nat)
  deriving Repr, DecidableEq

def Tok.isStart : Tok → Bool
  | .col _ => true
  | .tdOpen _ => true
  | _ => false

def Tok.isEnd : Tok → Bool
  | .tdClose => true
  | _ => false

inductive Out where
  | loose (t : Tok)                                                  -- not inside any cell
  | cell (header : Bool) (attrs : List Tok) (body : List Tok)        -- `attrs`: what `find_modifier` took away (with the `|`)
  deriving Repr, DecidableEq

/-- `find_modifier`: the prefix up to and including the first `|`, if no `[[` comes before it. -/
def splitAttrs : List Tok → List Tok × List Tok
  | [] => ([], [])
  | .box :: rest => ([], .box :: rest)
  | .bar :: rest => ([.bar], rest)
  | t :: rest =>
    match splitAttrs rest with
    | ([], _) => ([], t :: rest)
    | (a, b) => (t :: a, b)

def inCell (t : Tok) : Bool := !t.isStart && !t.isEnd

/-- the cell opened by `start`, holding `content`. -/
def mkCell (flag : Bool) (start : Tok) (content : List Tok) : Bool × Out :=
  match start with
  | .col h =>
    let f := h.getD flag
    (f, .cell f (splitAttrs content).1 (splitAttrs content).2)
  | .tdOpen th => (flag, .cell th [] content)
  | _ => (flag, .cell flag [] content)

/-- what follows a cell: the end tag that closed it is dropped with it. -/
def afterCell (ts : List Tok) : List Tok :=
  match ts.dropWhile inCell with
  | .tdClose :: rest => rest
  | rest => rest

theorem afterCell_length (ts : List Tok) : (afterCell ts).length ≤ ts.length := by
  have h := (List.dropWhile_sublist (l := ts) inCell).length_le
  unfold afterCell
  split
  · rename_i rest heq
    rw [heq] at h
    simp only [List.length_cons] at h
    omega
  · exact h

/-- `TableCellParser.run` on the children of a row; `flag` = `self.is_header`. -/
def cells (flag : Bool) : List Tok → List Out
  | [] => []
  | t :: ts =>
    if t.isStart then
      (mkCell flag t (ts.takeWhile inCell)).2 :: cells (mkCell flag t (ts.takeWhile inCell)).1 (afterCell ts)
    else .loose t :: cells flag ts
termination_by ts => ts.length
decreasing_by
  all_goals simp_wf
  · have := afterCell_length ts
    omega

end MwVerif.Cells
