/-
Model of the path logic behind `mwlib.core.nuwiki.extractall` / `extract_member`
(nuwiki.py:282-314) and of the two `posixpath` functions it relies on.

Strings are `List Char`.  Everything here is total and computable and imports nothing
outside core Lean, so the driver can run it.
-/
namespace MwVerif.Path

abbrev Str := List Char

/-- put `c` in front of the first component (the `[]` case is unreachable below and only
keeps the function total). -/
def consHead (c : Char) : List Str → List Str
  | [] => [[c]]
  | x :: xs => (c :: x) :: xs

/-- Python `s.split('/')`: always returns at least one component. -/
def splitSlash : Str → List Str
  | [] => [[]]
  | c :: cs => if c = '/' then [] :: splitSlash cs else consHead c (splitSlash cs)

/-- Python `'/'.join(comps)`. -/
def joinSlash : List Str → Str
  | [] => []
  | [x] => x
  | x :: y :: ys => x ++ '/' :: joinSlash (y :: ys)

/-- `posixpath.join(a, b)` for two arguments. -/
def join (a b : Str) : Str :=
  if b.head? = some '/' then b
  else if a = [] ∨ a.getLast? = some '/' then a ++ b
  else a ++ '/' :: b

def dot : Str := ['.']
def dotdot : Str := ['.', '.']

/-- One iteration of the component loop of `posixpath.normpath`.  `stack` is `new_comps`
(in order); `abs` is `initial_slashes != 0`. -/
def normStep (abs : Bool) (stack : List Str) (comp : Str) : List Str :=
  if comp = [] ∨ comp = dot then stack
  else if comp ≠ dotdot ∨ (!abs ∧ stack = []) ∨ (stack.getLast? = some dotdot) then
    stack ++ [comp]
  else stack.dropLast        -- `elif new_comps: new_comps.pop()`; pop of [] is a no-op

def normComps (abs : Bool) (comps : List Str) : List Str :=
  comps.foldl (normStep abs) []

/-- number of initial slashes kept by `normpath`: 0, 1 or 2 (exactly two are kept). -/
def initialSlashes : Str → Nat
  | '/' :: '/' :: '/' :: _ => 1
  | '/' :: '/' :: _ => 2
  | '/' :: _ => 1
  | _ => 0

/-- `posixpath.normpath`. -/
def normpath (p : Str) : Str :=
  if p = [] then dot
  else
    let k := initialSlashes p
    let comps := normComps (k != 0) (splitSlash p)
    let r := List.replicate k '/' ++ joinSlash comps
    if r = [] then dot else r

inductive Reject where
  | badDestination      -- ValueError: destination does not end with '/'
  | badFilename         -- RuntimeError: target not below the destination
  deriving Repr, DecidableEq

deriving instance DecidableEq for Except

/-- `extract_member`'s target computation: where the member `name` would be written. -/
def extractTarget (dst name : Str) : Except Reject Str :=
  if dst.getLast? ≠ some '/' then .error .badDestination
  else
    let target := normpath (join dst name)
    if dst <+: target then .ok target else .error .badFilename

/-- `posixpath.dirname`. -/
def dirname (p : Str) : Str :=
  -- head = p[:rfind('/')+1]; strip trailing slashes unless head is all slashes
  let comps := splitSlash p
  let headComps := comps.dropLast
  if headComps = [] then []
  else
    let head := joinSlash headComps ++ ['/']
    if head.all (· = '/') then head
    else (head.reverse.dropWhile (· = '/')).reverse

/-- directory that `extract_member` makes sure exists (`upperdirs`). -/
def upperDir (name target : Str) : Str :=
  if name.getLast? = some '/' then target else dirname target

/-- What `extractall` does with a list of member names: the list of files it writes
and directories it ensures, up to (excluding) the first rejected member. -/
structure Outcome where
  files : List Str
  dirs : List Str
  rejected : Bool
  deriving Repr, DecidableEq

def extractAll (dst : Str) : List Str → Outcome
  | [] => ⟨[], [], false⟩
  | n :: ns =>
    match extractTarget dst n with
    | .error _ => ⟨[], [], true⟩
    | .ok t =>
      let r := extractAll dst ns
      let fs := if n.getLast? = some '/' then r.files else t :: r.files
      ⟨fs, upperDir n t :: r.dirs, r.rejected⟩

/-- `os.path.normpath(os.path.abspath(dst)) + os.path.sep` with the current directory
passed in (`abspath` = `normpath(join(cwd, dst))`). -/
def destOf (cwd dst : Str) : Str :=
  normpath (normpath (join cwd dst)) ++ ['/']

end MwVerif.Path
