/-
Model of the wikitext scanner `mwlib/parser/token/_uscan.re` (compiled as `_uscan.cc`) behind
`mwlib.parser.token.utoken.scan`: a regular-expression engine with re2c's semantics
(longest match, first rule wins on ties, backtracking to the last accepting position), the
two rule sets (line start / elsewhere), `found()` with text merging and the U+EBAD gap,
`newline()` re-typing, table mode, and the hand-written cursor adjustments.
Core Lean only.
-/
namespace MwVerif.Scan

/-! ### regular expressions by derivatives -/

inductive Re where
  | empty                                        -- matches nothing
  | eps                                          -- matches the empty string
  | cls (neg : Bool) (ranges : List (Nat × Nat)) -- a character class (code point ranges)
  | seq (a b : Re)
  | alt (a b : Re)
  | star (a : Re)
  deriving Repr, DecidableEq, Inhabited

namespace Re

def nullable : Re → Bool
  | empty => false
  | eps => true
  | cls _ _ => false
  | seq a b => a.nullable && b.nullable
  | alt a b => a.nullable || b.nullable
  | star _ => true

def clsMatch (neg : Bool) (ranges : List (Nat × Nat)) (c : Char) : Bool :=
  (ranges.any (fun r => r.1 ≤ c.toNat && c.toNat ≤ r.2)) != neg

/-- smart constructors keep derivatives small. -/
def mkSeq (a b : Re) : Re :=
  match a, b with
  | empty, _ => empty
  | _, empty => empty
  | eps, b => b
  | a, eps => a
  | a, b => seq a b

def mkAlt (a b : Re) : Re :=
  match a, b with
  | empty, b => b
  | a, empty => a
  | a, b => if a = b then a else alt a b

def deriv : Re → Char → Re
  | empty, _ => empty
  | eps, _ => empty
  | cls neg rs, c => if clsMatch neg rs c then eps else empty
  | seq a b, c =>
    if a.nullable then mkAlt (mkSeq (a.deriv c) b) (b.deriv c) else mkSeq (a.deriv c) b
  | alt a b, c => mkAlt (a.deriv c) (b.deriv c)
  | star a, c => mkSeq (a.deriv c) (star a)

/-- length of the longest prefix of `s` matched by `r` (`k` = characters consumed so far,
`best` = longest accepting length seen). -/
def longestAux : Re → List Char → Nat → Option Nat → Option Nat
  | r, s, k, best =>
    let best := if r.nullable then some k else best
    match s with
    | [] => best
    | c :: cs => if r = empty then best else longestAux (r.deriv c) cs (k + 1) best

def longest (r : Re) (s : List Char) : Option Nat := longestAux r s 0 none

/-! derived forms -/
def chr (c : Char) : Re := cls false [(c.toNat, c.toNat)]
def plus (a : Re) : Re := seq a (star a)
def opt (a : Re) : Re := alt a eps
def str (s : String) : Re := s.toList.foldr (fun c r => seq (chr c) r) eps
def anyOf (rs : List Re) : Re := rs.foldr alt empty
def atLeast : Nat → Re → Re
  | 0, a => star a
  | n + 1, a => seq a (atLeast n a)
/-- case-insensitive single letter -/
def ichr (c : Char) : Re := cls false [(c.toLower.toNat, c.toLower.toNat), (c.toUpper.toNat, c.toUpper.toNat)]

end Re

/-! ### token types (the enum `mwtok`) -/

abbrev TokType := Nat
def t_end : TokType := 0
def t_text : TokType := 1
def t_entity : TokType := 2
def t_special : TokType := 3
def t_magicword : TokType := 4
def t_comment : TokType := 5
def t_2box_open : TokType := 6
def t_2box_close : TokType := 7
def t_http_url : TokType := 8
def t_break : TokType := 9
def t_begin_table : TokType := 10
def t_end_table : TokType := 11
def t_html_tag : TokType := 12
def t_singlequote : TokType := 13
def t_pre : TokType := 14
def t_section : TokType := 15
def t_section_end : TokType := 16
def t_item : TokType := 17
def t_colon : TokType := 18
def t_semicolon : TokType := 19
def t_hrule : TokType := 20
def t_newline : TokType := 21
def t_column : TokType := 22
def t_row : TokType := 23
def t_tablecaption : TokType := 24
def t_urllink : TokType := 25
def t_uniq : TokType := 26

/-- what a rule's C++ block does (closed vocabulary). -/
inductive Action where
  | ret (t : TokType)          -- RET(t)
  | ebad                       -- RET(t_ebad): the character is dropped
  | beginTable | endTable
  | tableOrPre (t : TokType)   -- `|-` and `|+` at line start: t in table mode, else pre/text
  | columnOrPre                -- `|` / `!` at line start
  | sectionOpen                -- `=`+ at line start
  | gotoNotBol                 -- `[^]` of the line-start rule set
  | sectionEndOrText           -- `=`+ elsewhere
  | breakSplit                 -- newline + blank lines: t_newline then t_break
  | newlineTok
  | colSpecial                 -- `||` `|!` `!!`
  | captionSpecial             -- `|+`
  | stop                       -- the NUL sentinel
  deriving Repr, DecidableEq

structure Rule where
  re : Re
  act : Action

structure Tok where
  ty : TokType
  start : Nat
  len : Nat
  deriving Repr, DecidableEq

structure St where
  pos : Nat := 0
  rest : List Char                 -- the input from `pos` on (with the NUL sentinels)
  prev : Option Char := none       -- the character before `pos`
  toks : List Tok := []            -- in order
  lastEbad : Bool := false
  lineSection : Option Nat := none -- index of the t_section token of this line
  tablemode : Nat := 0
  rowchar : Char := Char.ofNat 0
  deriving Repr

def ebadChar : Char := Char.ofNat 0xEBAD

/-- longest match over a rule list; ties go to the earlier rule. -/
def matchRules (rules : List Rule) (s : List Char) : Option (Nat × Action) :=
  rules.foldl (fun best r =>
    match r.re.longest s with
    | none => best
    | some k =>
      match best with
      | none => some (k, r.act)
      | some (kb, _) => if k > kb then some (k, r.act) else best) none

/-- `found(val)` for a token `[start, start+len)`. -/
def found (s : St) (ty : TokType) (start len : Nat) : St :=
  match s.toks.getLast? with
  | some last =>
    if ty = t_text && !s.lastEbad && last.ty = t_text then
      { s with toks := s.toks.dropLast ++ [{ last with len := last.len + len }] }
    else { s with toks := s.toks ++ [⟨ty, start, len⟩], lastEbad := false }
  | none => { s with toks := s.toks ++ [⟨ty, start, len⟩], lastEbad := false }

/-- `newline()`: a section marker that was not closed on its line becomes text. -/
def newlineFix (s : St) : St :=
  match s.lineSection with
  | some i => { s with toks := s.toks.modify i (fun t => { t with ty := t_text }), lineSection := none }
  | none => s

/-- move the cursor `n` characters forward. -/
def advance (s : St) (n : Nat) : St :=
  { s with pos := s.pos + n, rest := s.rest.drop n,
           prev := if n = 0 then s.prev else (s.rest.drop (n - 1)).head? }

/-- `eol()` after a match of length `len`: the next character is a newline or the sentinel. -/
def eolAfter (s : St) (len : Nat) : Bool :=
  match (s.rest.drop len).head? with
  | some c => c = '\n' || c = Char.ofNat 0
  | none => true

/-- execute the action of the winning rule for a match of length `len` at `s.pos`.
Returns the new state and whether scanning goes on. -/
def exec (s : St) (len : Nat) : Action → St × Bool
  | .ret t => (advance (found s t s.pos len) len, true)
  | .ebad => (advance { s with lastEbad := true } len, true)
  | .beginTable => (advance (found { s with tablemode := s.tablemode + 1 } t_begin_table s.pos len) len, true)
  | .endTable => (advance (found { s with tablemode := s.tablemode - 1 } t_end_table s.pos len) len, true)
  | .tableOrPre t =>
    if s.tablemode != 0 then (advance (found s t s.pos len) len, true)
    else if s.rest.head? = some ' ' then (advance (found s t_pre s.pos 1) 1, true)
    else (advance (found s t_text s.pos len) len, true)
  | .columnOrPre =>
    if s.tablemode != 0 then
      (advance (found { s with rowchar := ((s.rest.drop (len - 1)).head?).getD (Char.ofNat 0) } t_column s.pos len) len, true)
    else if s.rest.head? = some ' ' then (advance (found s t_pre s.pos 1) 1, true)
    else (advance (found s t_text s.pos len) len, true)
  | .sectionOpen =>
    let s1 := found s t_section s.pos len
    (advance { s1 with lineSection := some (s1.toks.length - 1) } len, true)
  | .gotoNotBol => (s, true)          -- handled by `step`
  | .sectionEndOrText =>
    if eolAfter s len && s.lineSection.isSome then
      (advance (found { s with lineSection := none } t_section_end s.pos len) len, true)
    else (advance (found s t_text s.pos len) len, true)
  | .breakSplit =>
    let s1 := found (newlineFix s) t_newline s.pos 1
    (advance (found s1 t_break (s.pos + 1) (len - 1)) len, true)
  | .newlineTok => (advance (found (newlineFix s) t_newline s.pos len) len, true)
  | .colSpecial =>
    let c2 := ((s.rest.drop (len - 2)).head?).getD (Char.ofNat 0)
    if s.tablemode != 0 && (c2 != '!' || c2 = s.rowchar) then (advance (found s t_column s.pos len) len, true)
    else (advance (found s t_special s.pos 1) 1, true)
  | .captionSpecial =>
    if s.tablemode != 0 then (advance (found s t_tablecaption s.pos len) len, true)
    else (advance (found s t_special s.pos 1) 1, true)
  | .stop => (newlineFix s, false)

structure Rules where
  bol : List Rule
  notBol : List Rule

/-- one call of `Scanner::scan()`. -/
def step (rules : Rules) (s : St) : St × Bool :=
  let atBol := s.prev.isNone || s.prev = some '\n'
  let s := if atBol then { s with rowchar := Char.ofNat 0 } else s
  let viaBol :=
    if atBol then
      match matchRules rules.bol s.rest with
      | some (_, .gotoNotBol) => none
      | r => r
    else none
  match viaBol with
  | some (len, act) => exec s len act
  | none =>
    match matchRules rules.notBol s.rest with
    | some (len, act) => exec s len act
    | none => (s, false)            -- no rule matches: cannot happen with the real rule set

/-- `while (scanner.scan()) {}` — fuel bounds the number of calls (each consumes ≥ 1 char). -/
def scanLoop (rules : Rules) : Nat → St → St
  | 0, s => s
  | n + 1, s =>
    match step rules s with
    | (s', true) => scanLoop rules n s'
    | (s', false) => s'

/-- `utoken.scan(text)`: 32 NUL sentinels are appended first. -/
def scan (rules : Rules) (text : List Char) : List Tok :=
  let src := text ++ List.replicate 32 (Char.ofNat 0)
  (scanLoop rules (src.length + 1) { rest := src }).toks

end MwVerif.Scan
