import MwVerif.Model.SingleCol
/-! lemmas for `Model/SingleCol.lean` -/
namespace MwVerif.SingleCol

theorem unpackCell_leaves (wrap : Bool) (cell : List Nat) : (unpackCell wrap cell).flatMap Out.leaves = cell := by
  unfold unpackCell
  cases wrap
  · simp only [Bool.false_eq_true, if_false]
    induction cell with
    | nil => rfl
    | cons x xs ih => simpa [List.flatMap_cons, Out.leaves] using ih
  · simp [Out.leaves]

theorem unpack_leaves_aux (wrap : Bool) (cells : List (List Nat)) :
    (cells.flatMap (unpackCell wrap)).flatMap Out.leaves = cells.flatten := by
  induction cells with
  | nil => rfl
  | cons c cs ih => simp [List.flatMap_cons, List.flatMap_append, unpackCell_leaves, ih]

theorem mem_columnOf (rows : List (List (List Nat))) (c x : Nat) :
    x ∈ columnOf rows c ↔ ∃ r ∈ rows, x ∈ r.getD c [] := by
  simp [columnOf, List.mem_flatten]
  constructor
  · rintro ⟨l, ⟨r, hr, rfl⟩, hx⟩; exact ⟨r, hr, hx⟩
  · rintro ⟨r, hr, hx⟩; exact ⟨_, ⟨r, hr, rfl⟩, hx⟩

theorem mem_getD_of_mem (r : List (List Nat)) (cell : List Nat) (x : Nat) (hc : cell ∈ r) (hx : x ∈ cell) :
    ∃ c, c < r.length ∧ x ∈ r.getD c [] := by
  obtain ⟨i, hi, rfl⟩ := List.getElem_of_mem hc
  exact ⟨i, hi, by simpa [List.getD, List.getElem?_eq_getElem hi] using hx⟩

theorem mem_leaves (table : List Child) (x : Nat) :
    x ∈ leaves table ↔ x ∈ captionItems table ∨ ∃ r ∈ rowsOf table, ∃ cell ∈ r, x ∈ cell := by
  induction table with
  | nil => simp [leaves, captionItems, rowsOf]
  | cons ch rest ih =>
    have hl : leaves (ch :: rest) = ch.cells.flatten ++ leaves rest := by simp [leaves]
    rw [hl, List.mem_append, ih]
    cases ch with
    | caption items =>
      simp only [Child.cells, captionItems, rowsOf, List.flatten_cons, List.flatten_nil, List.append_nil, List.mem_append]
      exact or_assoc.symm
    | row cells =>
      simp only [Child.cells, captionItems, rowsOf, List.mem_cons, List.mem_flatten]
      constructor
      · rintro (⟨cell, hc, hx⟩ | h | ⟨r, hr, h⟩)
        · exact Or.inr ⟨cells, Or.inl rfl, cell, hc, hx⟩
        · exact Or.inl h
        · exact Or.inr ⟨r, Or.inr hr, h⟩
      · rintro (h | ⟨r, (rfl | hr), cell, hc, hx⟩)
        · exact Or.inr (Or.inl h)
        · exact Or.inl ⟨cell, hc, hx⟩
        · exact Or.inr (Or.inr ⟨r, hr, cell, hc, hx⟩)

end MwVerif.SingleCol
