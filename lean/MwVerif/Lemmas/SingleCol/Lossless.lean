import MwVerif.Model.SingleCol
/-! lemmas for `Model/SingleCol.lean` -/
namespace MwVerif.SingleCol

theorem unpackCell_leaves (wrap : Bool) (cell : List Nat) : (unpackCell wrap cell).flatMap Out.leaves = cell := by
  unfold unpackCell
  cases wrap
  · simp only [Bool.false_eq_true, if_false]
    induction cell with
    | nil => rfl
    | cons x xs ih => simpa [List.flatMap_cons, Out.leaves] using ih
  · simp [Out.leaves]

theorem unpack_leaves_aux (wrap : Bool) (cells : List (List Nat)) :
    (cells.flatMap (unpackCell wrap)).flatMap Out.leaves = cells.flatten := by
  induction cells with
  | nil => rfl
  | cons c cs ih => simp [List.flatMap_cons, List.flatMap_append, unpackCell_leaves, ih]

end MwVerif.SingleCol
