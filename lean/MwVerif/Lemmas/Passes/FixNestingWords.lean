import MwVerif.Model.Nesting
import MwVerif.Lemmas.Tree.Replace

/-!
`fix_nesting` keeps the words in reading order, on trees whose inner nodes carry no text of their
own (in mwlib text lives in `Text` leaves): the path nodes are copied into the three pieces, the
left part, the problem node and the right part keep their order.
-/
namespace MwVerif.Tree

mutual
  /-- every node that has children has no text of its own. -/
  def T.innerWordless : T → Bool
    | .node _ _ ws cs => (cs.isEmpty || ws.isEmpty) && innerWordlessL cs
  def innerWordlessL : List T → Bool
    | [] => true
    | t :: ts => t.innerWordless && innerWordlessL ts
end

theorem innerWordlessL_append (a b : List T) : innerWordlessL (a ++ b) = (innerWordlessL a && innerWordlessL b) := by
  induction a with
  | nil => simp [innerWordlessL]
  | cons t a ih => simp [innerWordlessL, ih, Bool.and_assoc]

theorem getElem?_split {α} : ∀ (l : List α) (i : Nat) (x : α), l[i]? = some x → l = l.take i ++ x :: l.drop (i + 1)
  | [], i, x, h => by simp at h
  | a :: l, 0, x, h => by simp at h; simp [h]
  | a :: l, i + 1, x, h => by
    simp only [List.getElem?_cons_succ] at h
    simp only [List.take_succ_cons, List.drop_succ_cons, List.cons_append]
    rw [← getElem?_split l i x h]

theorem innerWordlessL_take (l : List T) (i : Nat) (h : innerWordlessL l = true) : innerWordlessL (l.take i) = true := by
  have := innerWordlessL_append (l.take i) (l.drop i)
  rw [List.take_append_drop, h] at this
  simp only [Bool.true_eq, Bool.and_eq_true] at this
  exact this.1

theorem innerWordlessL_drop (l : List T) (i : Nat) (h : innerWordlessL l = true) : innerWordlessL (l.drop i) = true := by
  have := innerWordlessL_append (l.take i) (l.drop i)
  rw [List.take_append_drop, h] at this
  simp only [Bool.true_eq, Bool.and_eq_true] at this
  exact this.2

theorem innerWordlessL_mem {l : List T} {i : Nat} {x : T} (h : innerWordlessL l = true) (hx : l[i]? = some x) :
    x.innerWordless = true := by
  have e := getElem?_split l i x hx
  rw [e, innerWordlessL_append] at h
  simp only [innerWordlessL, Bool.and_eq_true] at h
  exact h.2.1

/-- the three copies of a cut node: words in order, inner nodes still without text. -/
theorem cut_words : ∀ (path : List Nat) (n nt nm nb : T), n.innerWordless = true → n.cut path = some (nt, nm, nb) →
    nt.words ++ nm.words ++ nb.words = n.words ∧
    nt.innerWordless = true ∧ nm.innerWordless = true ∧ nb.innerWordless = true ∧ nm.own = []
  | [], n, _, _, _, _, h => by cases n; simp [T.cut] at h
  | idx :: rest, .node i k ws cs, nt, nm, nb, hw, hc => by
    rw [T.cut] at hc
    cases hget : cs[idx]? with
    | none => simp [hget] at hc
    | some ch =>
      simp only [hget] at hc
      have e := getElem?_split cs idx ch hget
      rw [T.innerWordless, Bool.and_eq_true] at hw
      obtain ⟨hw1, hw2⟩ := hw
      have hne : cs ≠ [] := by intro h0; rw [h0] at hget; simp at hget
      have hws : ws = [] := by
        cases cs with
        | nil => exact absurd rfl hne
        | cons _ _ => simpa using hw1
      subst hws
      have hch := innerWordlessL_mem hw2 hget
      have hpre := innerWordlessL_take cs idx hw2
      have hpost := innerWordlessL_drop cs (idx + 1) hw2
      cases rest with
      | nil =>
        simp only [Option.some.injEq, Prod.mk.injEq] at hc
        obtain ⟨rfl, rfl, rfl⟩ := hc
        refine ⟨?_, ?_, ?_, ?_, rfl⟩
        · conv => rhs; rw [T.words, e]
          simp [T.words, wordsL, wordsL_append]
        · simp [T.innerWordless, hpre]
        · simp [T.innerWordless, innerWordlessL, hch]
        · simp [T.innerWordless, hpost]
      | cons r rs =>
        simp only [] at hc
        cases hcut : ch.cut (r :: rs) with
        | none => simp [hcut] at hc
        | some tr =>
          obtain ⟨ct, cm, cb⟩ := tr
          simp only [hcut, Option.some.injEq, Prod.mk.injEq] at hc
          obtain ⟨rfl, rfl, rfl⟩ := hc
          obtain ⟨hwords, h1, h2, h3, _⟩ := cut_words (r :: rs) ch ct cm cb hch hcut
          refine ⟨?_, ?_, ?_, ?_, rfl⟩
          · conv => rhs; rw [T.words, e]
            simp only [T.words, wordsL, wordsL_append, List.nil_append, List.append_nil, List.append_assoc]
            rw [← hwords]
            simp only [List.append_assoc]
          · simp [T.innerWordless, innerWordlessL_append, innerWordlessL, hpre, h1]
          · simp [T.innerWordless, innerWordlessL, h2]
          · simp [T.innerWordless, innerWordlessL, hpost, h3]

theorem split_words {bp : T} {path : List Nat} {pieces : List T} (hw : bp.innerWordless = true)
    (hs : bp.split path = some pieces) : wordsL pieces = bp.words ∧ innerWordlessL pieces = true := by
  unfold T.split at hs
  cases hcut : bp.cut path with
  | none => simp [hcut] at hs
  | some tr =>
    obtain ⟨top, mid, bot⟩ := tr
    obtain ⟨hwords, h1, h2, h3, hown⟩ := cut_words path bp top mid bot hw hcut
    simp only [hcut] at hs
    cases mid with
    | node mi mk mws mcs =>
      cases mcs with
      | nil => simp at hs
      | cons m rest =>
        cases rest with
        | cons _ _ => simp at hs
        | nil =>
          simp only [Option.some.injEq] at hs
          subst hs
          simp only [T.own] at hown
          subst hown
          simp only [T.innerWordless, innerWordlessL, Bool.and_true, Bool.and_eq_true] at h2
          refine ⟨?_, by simp [innerWordlessL, h1, h2.2, h3]⟩
          simp only [wordsL, List.append_nil]
          rw [← hwords]
          simp [T.words, wordsL]

theorem replaceAt_words : ∀ (path : List Nat) (t t' : T) (f : T → Option (List T)), t.innerWordless = true →
    (∀ (x : T) (ps : List T), x.innerWordless = true → f x = some ps → wordsL ps = x.words ∧ innerWordlessL ps = true) →
    t.replaceAt path f = some t' → t'.words = t.words ∧ t'.innerWordless = true
  | [], t, _, _, _, _, h => by cases t; simp [T.replaceAt] at h
  | idx :: rest, .node i k ws cs, t', f, hw, hf, h => by
    rw [T.replaceAt] at h
    cases hget : cs[idx]? with
    | none => simp [hget] at h
    | some ch =>
      simp only [hget] at h
      have e := getElem?_split cs idx ch hget
      rw [T.innerWordless, Bool.and_eq_true] at hw
      obtain ⟨hw1, hw2⟩ := hw
      have hne : cs ≠ [] := by intro h0; rw [h0] at hget; simp at hget
      have hws : ws = [] := by
        cases cs with
        | nil => exact absurd rfl hne
        | cons _ _ => simpa using hw1
      subst hws
      have hch := innerWordlessL_mem hw2 hget
      have hpre := innerWordlessL_take cs idx hw2
      have hpost := innerWordlessL_drop cs (idx + 1) hw2
      cases rest with
      | nil =>
        simp only [Option.map_eq_some_iff] at h
        obtain ⟨ps, hps, rfl⟩ := h
        obtain ⟨hwd, hin⟩ := hf ch ps hch hps
        refine ⟨?_, ?_⟩
        · conv => rhs; rw [T.words, e]
          simp [T.words, wordsL, wordsL_append, hwd]
        · simp [T.innerWordless, innerWordlessL_append, hpre, hin, hpost]
      | cons r rs =>
        simp only [Option.map_eq_some_iff] at h
        obtain ⟨ch', hrec, rfl⟩ := h
        obtain ⟨hwd, hin⟩ := replaceAt_words (r :: rs) ch ch' f hch hf hrec
        refine ⟨?_, ?_⟩
        · conv => rhs; rw [T.words, e]
          simp [T.words, wordsL, wordsL_append, hwd]
        · simp [T.innerWordless, innerWordlessL_append, innerWordlessL, hpre, hin, hpost]

/-- **a round of `fix_nesting` keeps every word, in reading order.** -/
theorem fixNestingStep_words (c : NCfg) (t t' : T) (hw : t.innerWordless = true) (h : t.fixNestingStep c = some t') :
    t'.words = t.words ∧ t'.innerWordless = true := by
  unfold T.fixNestingStep at h
  cases hf : t.findBroken c [] with
  | none => simp [hf] at h
  | some pj =>
    obtain ⟨p, j⟩ := pj
    simp only [hf] at h
    exact replaceAt_words _ t t' _ hw (fun x ps hx hps => split_words hx hps) h

theorem fixNesting_words (c : NCfg) : ∀ (n : Nat) (t : T), t.innerWordless = true →
    (fixNesting c n t).words = t.words ∧ (fixNesting c n t).innerWordless = true
  | 0, t, hw => ⟨rfl, hw⟩
  | n + 1, t, hw => by
    simp only [fixNesting]
    cases hs : t.fixNestingStep c with
    | none => exact ⟨rfl, hw⟩
    | some t' =>
      simp only []
      obtain ⟨h1, h2⟩ := fixNestingStep_words c t t' hw hs
      obtain ⟨h3, h4⟩ := fixNesting_words c n t' h2
      exact ⟨h3.trans h1, h4⟩

end MwVerif.Tree
