import MwVerif.Model.Passes
import MwVerif.Lemmas.Tree.Replace

/-!
`fix_paragraphs` reaches its fixed point: a step keeps the number of nodes and increases the sum
of the depths of all nodes, which is bounded by the square of the number of nodes.  A step keeps
the words in reading order and the node identities.
-/
namespace MwVerif.Tree

theorem sizeL_append' (a b : List T) : sizeL (a ++ b) = sizeL a + sizeL b := by
  induction a with
  | nil => simp [sizeL]
  | cons c a ih => simp [sizeL, ih]; omega

theorem depthSumL_append (d : Nat) (a b : List T) : depthSumL d (a ++ b) = depthSumL d a + depthSumL d b := by
  induction a with
  | nil => simp [depthSumL]
  | cons c a ih => simp [depthSumL, ih]; omega

/-- moving a subtree one level down adds its size to the depth sum. -/
theorem depthSum_succ : ∀ (t : T) (d : Nat), t.depthSum (d + 1) = t.depthSum d + t.size
  | .node _ _ _ cs, d => by
    simp only [T.depthSum, T.size]
    have := depthSumL_succ cs (d + 1)
    omega
where
  depthSumL_succ : ∀ (cs : List T) (d : Nat), depthSumL (d + 1) cs = depthSumL d cs + sizeL cs
    | [], _ => rfl
    | c :: cs, d => by
      simp only [depthSumL, sizeL]
      have h1 := depthSum_succ c d
      have h2 := depthSumL_succ cs d
      omega

theorem size_pos (t : T) : 0 < t.size := by cases t; simp [T.size]; omega

theorem size_appendChild (a n : T) : (a.appendChild n).size = a.size + n.size := by
  cases a; simp [T.appendChild, T.size, sizeL_append', sizeL]; omega

theorem depthSum_appendChild (a n : T) (d : Nat) : (a.appendChild n).depthSum d = a.depthSum d + n.depthSum (d + 1) := by
  cases a; simp [T.appendChild, T.depthSum, depthSumL_append, depthSumL]; omega

/-- **a step keeps the number of nodes and strictly increases the depth sum.** -/
theorem fixParaStep_measure : ∀ (t t' : T) (d : Nat), t.fixParaStep = some t' →
    t'.size = t.size ∧ t.depthSum d < t'.depthSum d
  | .node i k ws cs, t', d, h => by
    simp only [T.fixParaStep, Option.map_eq_some_iff] at h
    obtain ⟨cs', hcs, rfl⟩ := h
    have := fixParaStepL_measure cs cs' (d + 1) hcs
    simp only [T.size, T.depthSum]
    omega
where
  fixParaStepL_measure : ∀ (cs cs' : List T) (d : Nat), fixParaStepL cs = some cs' →
      sizeL cs' = sizeL cs ∧ depthSumL d cs < depthSumL d cs'
    | [], _, _, h => by simp [fixParaStepL] at h
    | [a], cs', d, h => by
      simp only [fixParaStepL, Option.map_eq_some_iff] at h
      obtain ⟨a', ha, rfl⟩ := h
      have := fixParaStep_measure a a' d ha
      simp only [sizeL, depthSumL]
      omega
    | a :: b :: rest, cs', d, h => by
      rw [fixParaStepL] at h
      split at h
      · rename_i a' ha
        simp only [Option.some.injEq] at h
        subst h
        have := fixParaStep_measure a a' d ha
        simp only [sizeL, depthSumL]
        omega
      · split at h
        · simp only [Option.some.injEq] at h
          subst h
          simp only [sizeL, depthSumL, size_appendChild, depthSum_appendChild, depthSum_succ]
          have := size_pos b
          omega
        · simp only [Option.map_eq_some_iff] at h
          obtain ⟨r, hr, rfl⟩ := h
          have := fixParaStepL_measure (b :: rest) r d hr
          simp only [sizeL, depthSumL] at this ⊢
          omega

/-- the depth sum is bounded: no node is deeper than the number of nodes. -/
theorem depthSum_le : ∀ (t : T) (d : Nat), t.depthSum d ≤ t.size * (d + t.size)
  | .node _ _ _ cs, d => by
    simp only [T.depthSum, T.size]
    have h := depthSumL_le cs (d + 1)
    have e1 : (1 + sizeL cs) * (d + (1 + sizeL cs)) = d + (1 + sizeL cs) + sizeL cs * (d + (1 + sizeL cs)) := by
      rw [Nat.add_mul, Nat.one_mul]
    have e2 : d + (1 + sizeL cs) = d + 1 + sizeL cs := by omega
    rw [e1, e2]
    omega
where
  depthSumL_le : ∀ (cs : List T) (d : Nat), depthSumL d cs ≤ sizeL cs * (d + sizeL cs)
    | [], _ => by simp [depthSumL, sizeL]
    | c :: cs, d => by
      simp only [depthSumL, sizeL]
      have h1 := depthSum_le c d
      have h2 := depthSumL_le cs d
      have e : (c.size + sizeL cs) * (d + (c.size + sizeL cs))
          = c.size * (d + c.size) + c.size * sizeL cs + (sizeL cs * (d + sizeL cs) + sizeL cs * c.size) := by
        simp only [Nat.add_mul, Nat.mul_add]
        omega
      rw [e]
      omega

/-- **`fix_paragraphs` reaches its fixed point** within (number of nodes)² rounds: after that many
rounds `_fix_paragraphs` finds nothing to move. -/
theorem fixParagraphs_fixed : ∀ (n : Nat) (t : T), t.size * t.size ≤ n + t.depthSum 0 →
    (fixParagraphs n t).fixParaStep = none
  | 0, t, h => by
    simp only [fixParagraphs]
    cases hs : t.fixParaStep with
    | none => rfl
    | some t' =>
      exfalso
      have hm := fixParaStep_measure t t' 0 hs
      have hb := depthSum_le t' 0
      rw [hm.1, Nat.zero_add] at hb
      omega
  | n + 1, t, h => by
    simp only [fixParagraphs]
    cases hs : t.fixParaStep with
    | none => simpa using hs
    | some t' =>
      simp only []
      have hm := fixParaStep_measure t t' 0 hs
      apply fixParagraphs_fixed n t'
      rw [hm.1]
      omega

theorem ids_appendChild (a n : T) : (a.appendChild n).ids = a.ids ++ n.ids := by
  cases a; simp [T.appendChild, T.ids, idsL_append, idsL]

theorem words_appendChild (a n : T) : (a.appendChild n).words = a.words ++ n.words := by
  cases a; simp [T.appendChild, T.words, wordsL_append, wordsL]

/-- **a step keeps the document order**: the node identities in pre-order and the words in reading
order are exactly what they were (the paragraph stays behind the section's content, one level deeper). -/
theorem fixParaStep_order : ∀ (t t' : T), t.fixParaStep = some t' → t'.ids = t.ids ∧ t'.words = t.words
  | .node i k ws cs, t', h => by
    simp only [T.fixParaStep, Option.map_eq_some_iff] at h
    obtain ⟨cs', hcs, rfl⟩ := h
    have := fixParaStepL_order cs cs' hcs
    simp only [T.ids, T.words, this.1, this.2, and_self]
where
  fixParaStepL_order : ∀ (cs cs' : List T), fixParaStepL cs = some cs' → idsL cs' = idsL cs ∧ wordsL cs' = wordsL cs
    | [], _, h => by simp [fixParaStepL] at h
    | [a], cs', h => by
      simp only [fixParaStepL, Option.map_eq_some_iff] at h
      obtain ⟨a', ha, rfl⟩ := h
      have := fixParaStep_order a a' ha
      simp only [idsL, wordsL, this.1, this.2, and_self]
    | a :: b :: rest, cs', h => by
      rw [fixParaStepL] at h
      split at h
      · rename_i a' ha
        simp only [Option.some.injEq] at h
        subst h
        have := fixParaStep_order a a' ha
        simp only [idsL, wordsL, this.1, this.2, and_self]
      · split at h
        · simp only [Option.some.injEq] at h
          subst h
          simp only [idsL, wordsL, ids_appendChild, words_appendChild, List.append_assoc, and_self]
        · simp only [Option.map_eq_some_iff] at h
          obtain ⟨r, hr, rfl⟩ := h
          have := fixParaStepL_order (b :: rest) r hr
          simp only [idsL, wordsL] at this ⊢
          rw [this.1, this.2]
          exact ⟨rfl, rfl⟩

theorem fixParagraphs_order : ∀ (n : Nat) (t : T), (fixParagraphs n t).ids = t.ids ∧ (fixParagraphs n t).words = t.words
  | 0, t => ⟨rfl, rfl⟩
  | n + 1, t => by
    simp only [fixParagraphs]
    cases hs : t.fixParaStep with
    | none => exact ⟨rfl, rfl⟩
    | some t' =>
      simp only []
      have h1 := fixParaStep_order t t' hs
      have h2 := fixParagraphs_order n t'
      exact ⟨h2.1.trans h1.1, h2.2.trans h1.2⟩

end MwVerif.Tree
