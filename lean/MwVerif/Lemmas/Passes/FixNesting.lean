import MwVerif.Model.Nesting

/-!
`fix_nesting` reaches its fixed point: every round strictly decreases `T.pairs`, the number of
(node, forbidden visible ancestor) pairs among the nodes the pass looks at.

The round finds the *first* broken node in document order, so everything before it — its ancestors,
the subtrees to the left of the path — has no such pair.  Cutting `bad_parent` in three copies the
path nodes (no pairs), keeps the left part under the same ancestors (no pairs), keeps the right part
under the same ancestors (same pairs), and moves the problem node with its subtree out of
`bad_parent`: it loses that ancestor (one pair less) and nothing underneath gains a visible
ancestor, because `bad_parent`, being visible from the problem node, hid nothing.
-/
namespace MwVerif.Tree

variable (c : NCfg)

/-- number of forbidden visible ancestors of a node of kind `k` under the chain `anc`. -/
def count (k : Nat) (anc : List Nat) : Nat := ((cleanChain c anc).filter (c.forb k)).length

theorem pairs_node (anc : List Nat) (i k : Nat) (ws : List String) (cs : List T) :
    (T.node i k ws cs).pairs c anc = if c.exc k then 0 else count c k anc + pairsL c (k :: anc) cs := by
  rw [T.pairs]; rfl

theorem pairsL_append (anc : List Nat) (a b : List T) : pairsL c anc (a ++ b) = pairsL c anc a + pairsL c anc b := by
  induction a with
  | nil => simp [pairsL]
  | cons t a ih => simp only [List.cons_append, pairsL, ih]; omega

/-! ### the chain -/

theorem cleanChain_cons (a : Nat) (l : List Nat) :
    cleanChain c (a :: l) = if c.invis a then [] else a :: cleanChain c l := by
  unfold cleanChain
  rw [List.takeWhile_cons]
  cases c.invis a <;> simp

theorem badIdx_none_count {k : Nat} {anc : List Nat} (h : badIdx c k anc = none) : count c k anc = 0 := by
  unfold badIdx at h
  unfold count
  rw [List.findIdx?_eq_none_iff] at h
  rw [List.length_eq_zero_iff, List.filter_eq_nil_iff]
  intro a ha
  simpa using h a ha

/-- removing a visible ancestor from the chain never adds a forbidden visible ancestor. -/
theorem count_remove_le (k b : Nat) (hb : c.invis b = false) : ∀ (X Y : List Nat),
    count c k (X ++ Y) ≤ count c k (X ++ b :: Y)
  | [], Y => by
    unfold count
    rw [List.nil_append, List.nil_append, cleanChain_cons, hb]
    simp only [Bool.false_eq_true, if_false, List.filter_cons]
    split <;> simp
  | x :: X, Y => by
    have ih := count_remove_le k b hb X Y
    unfold count at ih ⊢
    rw [List.cons_append, List.cons_append, cleanChain_cons, cleanChain_cons]
    split
    · exact Nat.le_refl _
    · simp only [List.filter_cons]
      split <;> simp <;> omega

/-- at the problem node: `bad_parent` is visible, forbidden, and removing it removes exactly that pair. -/
theorem count_remove_lt (k b : Nat) : ∀ (X Y : List Nat), badIdx c k (X ++ b :: Y) = some X.length →
    c.invis b = false ∧ count c k (X ++ Y) < count c k (X ++ b :: Y)
  | [], Y, h => by
    unfold badIdx at h
    rw [List.nil_append, cleanChain_cons] at h
    by_cases hb : c.invis b = true
    · simp [hb] at h
    · have hb' : c.invis b = false := by simpa using hb
      simp only [hb', Bool.false_eq_true, if_false, List.length_nil, List.findIdx?_cons] at h
      have hf : c.forb k b = true := by
        by_cases hf : c.forb k b = true
        · exact hf
        · simp [hf] at h
      refine ⟨hb', ?_⟩
      unfold count
      rw [List.nil_append, List.nil_append, cleanChain_cons, hb']
      simp [List.filter_cons, hf]
  | x :: X, Y, h => by
    unfold badIdx at h
    rw [List.cons_append, cleanChain_cons] at h
    by_cases hx : c.invis x = true
    · simp [hx] at h
    · have hx' : c.invis x = false := by simpa using hx
      simp only [hx', Bool.false_eq_true, if_false, List.length_cons, List.findIdx?_cons] at h
      by_cases hf : c.forb k x = true
      · simp [hf] at h
      · simp only [hf, Bool.false_eq_true, if_false, Option.map_eq_some_iff] at h
        obtain ⟨m, hm, hm'⟩ := h
        have hm'' : m = X.length := by omega
        subst hm''
        have ih := count_remove_lt k b X Y (by unfold badIdx; exact hm)
        refine ⟨ih.1, ?_⟩
        have := ih.2
        unfold count at this ⊢
        rw [List.cons_append, List.cons_append, cleanChain_cons, cleanChain_cons, hx']
        simp only [Bool.false_eq_true, if_false, List.filter_cons, hf]
        exact this

/-- `badIdx` lies within the chain. -/
theorem badIdx_lt {k : Nat} {anc : List Nat} {j : Nat} (h : badIdx c k anc = some j) : j < anc.length := by
  unfold badIdx at h
  have h1 := List.findIdx?_eq_some_iff_findIdx_eq.mp h
  have h2 : (cleanChain c anc).length ≤ anc.length := (List.takeWhile_sublist _).length_le
  omega

/-! ### trees under a shortened chain -/

mutual
  theorem pairs_remove_le (b : Nat) (hb : c.invis b = false) : ∀ (t : T) (X Y : List Nat),
      t.pairs c (X ++ Y) ≤ t.pairs c (X ++ b :: Y)
    | .node i k ws cs, X, Y => by
      rw [pairs_node, pairs_node]
      split
      · exact Nat.le_refl _
      · have h1 := count_remove_le c k b hb X Y
        have h2 := pairsL_remove_le b hb cs (k :: X) Y
        simp only [List.cons_append] at h2
        omega
  theorem pairsL_remove_le (b : Nat) (hb : c.invis b = false) : ∀ (ts : List T) (X Y : List Nat),
      pairsL c (X ++ Y) ts ≤ pairsL c (X ++ b :: Y) ts
    | [], _, _ => by simp [pairsL]
    | t :: ts, X, Y => by
      simp only [pairsL]
      have h1 := pairs_remove_le b hb t X Y
      have h2 := pairsL_remove_le b hb ts X Y
      omega
end

/-! ### what `findBroken` tells -/

mutual
  theorem findBroken_none_pairs : ∀ (t : T) (anc : List Nat), t.findBroken c anc = none → t.pairs c anc = 0
    | .node i k ws cs, anc, h => by
      rw [T.findBroken] at h
      rw [pairs_node]
      split
      · rfl
      · rename_i he
        simp only [he, Bool.false_eq_true, if_false] at h
        split at h
        · simp at h
        · rename_i hb
          rw [badIdx_none_count c hb, findBrokenL_none_pairs cs (k :: anc) 0 h]
  theorem findBrokenL_none_pairs : ∀ (ts : List T) (anc : List Nat) (s : Nat), findBrokenL c anc s ts = none →
      pairsL c anc ts = 0
    | [], _, _, _ => by simp [pairsL]
    | t :: ts, anc, s, h => by
      rw [findBrokenL] at h
      split at h
      · simp at h
      · rename_i ht
        simp only [pairsL]
        rw [findBroken_none_pairs t anc ht, findBrokenL_none_pairs ts anc (s + 1) h]
end

/-- the children before the one that contains the first broken node have no pairs. -/
theorem findBrokenL_some : ∀ (ts : List T) (anc : List Nat) (s idx : Nat) (rest : List Nat) (j : Nat),
    findBrokenL c anc s ts = some (idx :: rest, j) →
    ∃ pre ch post, ts = pre ++ ch :: post ∧ idx = s + pre.length ∧ pairsL c anc pre = 0 ∧
      ch.findBroken c anc = some (rest, j)
  | [], _, _, _, _, _, h => by simp [findBrokenL] at h
  | t :: ts, anc, s, idx, rest, j, h => by
    rw [findBrokenL] at h
    split at h
    · rename_i p j' ht
      simp only [Option.some.injEq, Prod.mk.injEq, List.cons.injEq] at h
      obtain ⟨⟨h1, h2⟩, h3⟩ := h
      subst h1 h2 h3
      exact ⟨[], t, ts, rfl, by simp, by simp [pairsL], ht⟩
    · rename_i ht
      obtain ⟨pre, ch, post, e, hi, hp, hc⟩ := findBrokenL_some ts anc (s + 1) idx rest j h
      refine ⟨t :: pre, ch, post, by rw [e]; rfl, by simp only [List.length_cons]; omega, ?_, hc⟩
      simp only [pairsL]
      rw [findBroken_none_pairs c t anc ht, hp]

/-- a node on the path: not an exception, no pair of its own, and the decomposition of its children. -/
theorem findBroken_path {i k : Nat} {ws : List String} {cs : List T} {anc : List Nat} {idx : Nat} {rest : List Nat} {j : Nat}
    (h : (T.node i k ws cs).findBroken c anc = some (idx :: rest, j)) :
    c.exc k = false ∧ count c k anc = 0 ∧
    ∃ pre ch post, cs = pre ++ ch :: post ∧ idx = pre.length ∧ pairsL c (k :: anc) pre = 0 ∧
      ch.findBroken c (k :: anc) = some (rest, j) := by
  rw [T.findBroken] at h
  by_cases he : c.exc k = true
  · simp [he] at h
  · have he' : c.exc k = false := by simpa using he
    simp only [he', Bool.false_eq_true, if_false] at h
    split at h
    · simp at h
    · rename_i hb
      obtain ⟨pre, ch, post, e, hi, hp, hc⟩ := findBrokenL_some c cs (k :: anc) 0 idx rest j h
      exact ⟨he', badIdx_none_count c hb, pre, ch, post, e, by omega, hp, hc⟩

/-- the problem node itself. -/
theorem findBroken_here {i k : Nat} {ws : List String} {cs : List T} {anc : List Nat} {j : Nat}
    (h : (T.node i k ws cs).findBroken c anc = some ([], j)) : c.exc k = false ∧ badIdx c k anc = some j := by
  rw [T.findBroken] at h
  by_cases he : c.exc k = true
  · simp [he] at h
  · have he' : c.exc k = false := by simpa using he
    simp only [he', Bool.false_eq_true, if_false] at h
    split at h
    · rename_i j' hb
      simp only [Option.some.injEq, Prod.mk.injEq, true_and] at h
      subst h
      exact ⟨he', hb⟩
    · rename_i hb
      exfalso
      cases cs with
      | nil => simp [findBrokenL] at h
      | cons t ts =>
        rw [findBrokenL] at h
        split at h
        · simp at h
        · -- the recursion on the tail keeps producing non-empty paths
          have : ∀ (ts : List T) (s : Nat), findBrokenL c (k :: anc) s ts ≠ some ([], j) := by
            intro ts
            induction ts with
            | nil => intro s; simp [findBrokenL]
            | cons t ts ih =>
              intro s
              rw [findBrokenL]
              split
              · simp
              · exact ih (s + 1)
          exact this ts 1 h

/-- `badIdx` of the first broken node lies within its chain. -/
theorem findBroken_lt : ∀ (t : T) (anc : List Nat) (p : List Nat) (j : Nat), t.findBroken c anc = some (p, j) →
    j < p.length + anc.length
  | .node i k ws cs, anc, [], j, h => by
    have := badIdx_lt c (findBroken_here c h).2
    simpa using this
  | .node i k ws cs, anc, idx :: rest, j, h => by
    obtain ⟨_, _, pre, ch, post, e, _, _, hc⟩ := findBroken_path c h
    have := findBroken_lt ch (k :: anc) rest j hc
    simp only [List.length_cons] at this ⊢
    omega
termination_by t _ p => p.length

/-! ### the cut -/

/-- the problem node moved out of `bad_parent` loses a pair, its subtree gains none. -/
theorem pairs_problem_lt {t : T} {b : Nat} {X Y : List Nat} (h : t.findBroken c (X ++ b :: Y) = some ([], X.length)) :
    c.invis b = false ∧ t.pairs c (X ++ Y) < t.pairs c (X ++ b :: Y) := by
  cases t with
  | node i k ws cs =>
    obtain ⟨he, hb⟩ := findBroken_here c h
    have h1 := count_remove_lt c k b X Y hb
    refine ⟨h1.1, ?_⟩
    rw [pairs_node, pairs_node, he]
    simp only [Bool.false_eq_true, if_false]
    have h2 := pairsL_remove_le c b h1.1 cs (k :: X) Y
    simp only [List.cons_append] at h2
    omega

/-- a node on the path strictly below `bad_parent`, cut in three: the top and bottom copies stay
under the old ancestors, the middle copy goes under the ancestors without `bad_parent`. -/
theorem cut_pairs : ∀ (path : List Nat) (n : T) (b : Nat) (X Y : List Nat) (nt nm nb : T), path ≠ [] →
    n.findBroken c (X ++ b :: Y) = some (path, path.length + X.length) →
    n.cut path = some (nt, nm, nb) →
    c.invis b = false ∧
    nt.pairs c (X ++ b :: Y) + nm.pairs c (X ++ Y) + nb.pairs c (X ++ b :: Y) < n.pairs c (X ++ b :: Y)
  | [], _, _, _, _, _, _, _, hp, _, _ => absurd rfl hp
  | idx :: rest, .node i k ws cs, b, X, Y, nt, nm, nb, _, hf, hc => by
    obtain ⟨he, hown, pre, ch, post, e, hi, hpre, hch⟩ := findBroken_path c hf
    subst hi
    subst e
    have hget : (pre ++ ch :: post)[pre.length]? = some ch := by simp
    have htake : (pre ++ ch :: post).take pre.length = pre := by simp
    have hdrop : (pre ++ ch :: post).drop (pre.length + 1) = post := by simp
    rw [T.cut, hget] at hc
    simp only [] at hc
    cases rest with
    | nil =>
      simp only [Option.some.injEq, Prod.mk.injEq] at hc
      obtain ⟨rfl, rfl, rfl⟩ := hc
      have hch' : ch.findBroken c ((k :: X) ++ b :: Y) = some ([], (k :: X).length) := by
        simpa [Nat.add_comm] using hch
      obtain ⟨hb, hlt⟩ := pairs_problem_lt c hch'
      refine ⟨hb, ?_⟩
      have hown' := count_remove_le c k b hb X Y
      simp only [pairs_node, he, Bool.false_eq_true, if_false, htake, hdrop, pairsL, hpre, pairsL_append]
      simp only [List.cons_append] at hlt
      omega
    | cons r rs =>
      simp only [] at hc
      cases hcut : ch.cut (r :: rs) with
      | none => simp [hcut] at hc
      | some tr =>
        obtain ⟨ct, cm, cb⟩ := tr
        simp only [hcut, Option.some.injEq, Prod.mk.injEq] at hc
        obtain ⟨rfl, rfl, rfl⟩ := hc
        have hch' : ch.findBroken c ((k :: X) ++ b :: Y) = some (r :: rs, (r :: rs).length + (k :: X).length) := by
          simp only [List.length_cons] at hch ⊢
          rw [List.cons_append]
          rw [hch]
          congr 2
          omega
        obtain ⟨hb, hlt⟩ := cut_pairs (r :: rs) ch b (k :: X) Y ct cm cb (List.cons_ne_nil _ _) hch' hcut
        refine ⟨hb, ?_⟩
        have hown' := count_remove_le c k b hb X Y
        simp only [pairs_node, he, Bool.false_eq_true, if_false, htake, hdrop, pairsL, hpre, pairsL_append]
        simp only [List.cons_append] at hlt
        omega

/-- at `bad_parent`: the three pieces have fewer pairs than `bad_parent` had. -/
theorem split_pairs {bp : T} {A : List Nat} {path : List Nat} {j : Nat} {pieces : List T}
    (hf : bp.findBroken c A = some (path, j)) (hj : j + 1 = path.length) (hs : bp.split path = some pieces) :
    pairsL c A pieces < bp.pairs c A := by
  cases bp with
  | node i k ws cs =>
    cases path with
    | nil => simp at hj
    | cons idx rest =>
      obtain ⟨he, hown, pre, ch, post, e, hi, hpre, hch⟩ := findBroken_path c hf
      subst hi
      subst e
      have hget : (pre ++ ch :: post)[pre.length]? = some ch := by simp
      have htake : (pre ++ ch :: post).take pre.length = pre := by simp
      have hdrop : (pre ++ ch :: post).drop (pre.length + 1) = post := by simp
      have hjr : j = rest.length := by simpa using hj
      unfold T.split at hs
      rw [T.cut, hget] at hs
      simp only [] at hs
      cases rest with
      | nil =>
        simp only [Option.some.injEq] at hs
        subst hs
        have hch' : ch.findBroken c (([] : List Nat) ++ k :: A) = some ([], ([] : List Nat).length) := by
          simpa [hjr] using hch
        obtain ⟨hb, hlt⟩ := pairs_problem_lt c hch'
        simp only [pairs_node, he, Bool.false_eq_true, if_false, htake, hdrop, pairsL, hpre, pairsL_append, hown]
        simp only [List.nil_append] at hlt
        omega
      | cons r rs =>
        simp only [] at hs
        cases hcut : ch.cut (r :: rs) with
        | none => simp [hcut] at hs
        | some tr =>
          obtain ⟨ct, cm, cb⟩ := tr
          simp only [hcut, Option.some.injEq] at hs
          subst hs
          have hch' : ch.findBroken c (([] : List Nat) ++ k :: A) = some (r :: rs, (r :: rs).length + ([] : List Nat).length) := by
            simpa [hjr] using hch
          obtain ⟨hb, hlt⟩ := cut_pairs c (r :: rs) ch k [] A ct cm cb (List.cons_ne_nil _ _) hch' hcut
          simp only [pairs_node, he, Bool.false_eq_true, if_false, htake, hdrop, pairsL, hpre, pairsL_append, hown]
          simp only [List.nil_append] at hlt
          omega

/-! ### lifting the split to the whole tree -/

/-- replacing `bad_parent`, `n ≥ 1` levels below `t`, by its three pieces. -/
theorem replaceAt_pairs : ∀ (n : Nat) (t : T) (anc : List Nat) (p : List Nat) (j : Nat) (t' : T),
    t.findBroken c anc = some (p, j) → n + 1 + 1 + j = p.length →
    t.replaceAt (p.take (n + 1)) (fun bp => bp.split (p.drop (n + 1))) = some t' →
    t'.pairs c anc < t.pairs c anc
  | n, .node i k ws cs, anc, [], j, t', _, hl, _ => by simp at hl
  | n, .node i k ws cs, anc, idx :: p', j, t', hf, hl, hr => by
    obtain ⟨he, hown, pre, ch, post, e, hi, hpre, hch⟩ := findBroken_path c hf
    subst hi
    subst e
    have hget : (pre ++ ch :: post)[pre.length]? = some ch := by simp
    have htake : (pre ++ ch :: post).take pre.length = pre := by simp
    have hdrop : (pre ++ ch :: post).drop (pre.length + 1) = post := by simp
    simp only [List.length_cons] at hl
    cases n with
    | zero =>
      simp only [Nat.zero_add, List.take_succ_cons, List.take_zero, List.drop_succ_cons, List.drop_zero] at hr
      rw [T.replaceAt, hget] at hr
      simp only [Option.map_eq_some_iff] at hr
      obtain ⟨pieces, hs, rfl⟩ := hr
      have := split_pairs c hch (by omega) hs
      simp only [pairs_node, he, Bool.false_eq_true, if_false, htake, hdrop, pairsL_append, pairsL]
      omega
    | succ m =>
      cases p' with
      | nil => simp only [List.length_nil] at hl; omega
      | cons a p'' =>
        simp only [List.take_succ_cons, List.drop_succ_cons] at hr
        rw [T.replaceAt, hget] at hr
        simp only [Option.map_eq_some_iff] at hr
        obtain ⟨ch', hrec, rfl⟩ := hr
        have hrec' : ch.replaceAt ((a :: p'').take (m + 1)) (fun bp => bp.split ((a :: p'').drop (m + 1))) = some ch' := by
          simpa [List.take_succ_cons, List.drop_succ_cons] using hrec
        have := replaceAt_pairs m ch (k :: anc) (a :: p'') j ch' hch (by simp only [List.length_cons] at hl ⊢; omega) hrec'
        simp only [pairs_node, he, Bool.false_eq_true, if_false, htake, hdrop, pairsL_append, pairsL]
        omega

/-- **a round strictly decreases the measure.** -/
theorem fixNestingStep_pairs (t t' : T) (h : t.fixNestingStep c = some t') : t'.pairs c [] < t.pairs c [] := by
  unfold T.fixNestingStep at h
  cases hf : t.findBroken c [] with
  | none => simp [hf] at h
  | some pj =>
    obtain ⟨p, j⟩ := pj
    simp only [hf] at h
    have hlt := findBroken_lt c t [] p j hf
    simp only [List.length_nil, Nat.add_zero] at hlt
    cases hn : p.length - 1 - j with
    | zero =>
      rw [hn] at h
      cases t with
      | node i k ws cs => simp [T.replaceAt] at h
    | succ n =>
      rw [hn] at h
      exact replaceAt_pairs c n t [] p j t' hf (by omega) h

/-- **`fix_nesting` reaches its fixed point** within `pairs` rounds. -/
theorem fixNesting_fixed : ∀ (n : Nat) (t : T), t.pairs c [] ≤ n → (fixNesting c n t).fixNestingStep c = none
  | 0, t, h => by
    simp only [fixNesting]
    cases hs : t.fixNestingStep c with
    | none => rfl
    | some t' =>
      have := fixNestingStep_pairs c t t' hs
      omega
  | n + 1, t, h => by
    simp only [fixNesting]
    cases hs : t.fixNestingStep c with
    | none => simpa using hs
    | some t' =>
      simp only []
      have := fixNestingStep_pairs c t t' hs
      exact fixNesting_fixed n t' (by omega)

end MwVerif.Tree
