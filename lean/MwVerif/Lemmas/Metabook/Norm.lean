import MwVerif.Lemmas.Metabook.Sort

namespace MwVerif.Metabook

/-- what the proofs need from the class tables (decidable for the generated tables). -/
structure TablesWF (t : Tables) : Prop where
  classStable : ∀ s cls, t.classOf s = some cls → t.classOf (t.className cls) = some cls
  typePublic : t.isPrivate t.typeKey = false
  defaultsNodup : ∀ cls, ((t.defaults cls).map (·.1)).Nodup
  defaultsClean : ∀ cls, ∀ d ∈ t.defaults cls,
    isNull d.2 = false ∧ t.isPrivate d.1 = false ∧ d.1 ≠ t.typeKey
  defaultsNormal : ∀ cls, ∀ d ∈ t.defaults cls, norm t d.2 = d.2

/-- the filter `_json()`/`__init__` apply to given attributes. -/
def keep (t : Tables) (e : Nat × J) : Bool := !isNull e.2 && !t.isPrivate e.1 && e.1 != t.typeKey

theorem objectFields_eq (t : Tables) (cls : Nat) (kw : List (Nat × J)) :
    objectFields t cls kw =
      (t.typeKey, .str (t.className cls)) ::
        ((t.defaults cls).filter (fun d => !(kw.filter (keep t)).any (·.1 = d.1)) ++ kw.filter (keep t)) := rfl

theorem keep_spec {t : Tables} {e : Nat × J} (h : keep t e = true) :
    isNull e.2 = false ∧ t.isPrivate e.1 = false ∧ e.1 ≠ t.typeKey := by
  simp only [keep, Bool.and_eq_true, Bool.not_eq_true', bne_iff_ne] at h
  exact ⟨h.1.1, h.1.2, h.2⟩

theorem filter_keys_nodup {l : List (Nat × J)} (p : Nat × J → Bool) (h : (l.map (·.1)).Nodup) :
    ((l.filter p).map (·.1)).Nodup := (List.filter_sublist.map _).nodup h

/-- keys of `objectFields` are distinct. -/
theorem objectFields_nodup {t : Tables} (hw : TablesWF t) (cls : Nat) {kw : List (Nat × J)}
    (hk : (kw.map (·.1)).Nodup) : ((objectFields t cls kw).map (·.1)).Nodup := by
  rw [objectFields_eq]
  simp only [List.map_cons, List.map_append, List.nodup_cons, List.mem_append, List.mem_map,
    List.mem_filter, not_or, not_exists, not_and]
  refine ⟨⟨?_, ?_⟩, ?_⟩
  · intro d hd hk2
    exact (hw.defaultsClean cls d hd.1).2.2 hk2
  · intro e he hk2
    exact (keep_spec he.2).2.2 hk2
  · refine List.nodup_append.2 ⟨filter_keys_nodup _ (hw.defaultsNodup cls), filter_keys_nodup _ hk, ?_⟩
    intro a ha b hb hab
    subst hab
    obtain ⟨d, hd, rfl⟩ := List.mem_map.1 ha
    obtain ⟨e, he, hed⟩ := List.mem_map.1 hb
    have hd2 := (List.mem_filter.1 hd).2
    simp only [Bool.not_eq_true', List.any_eq_false, decide_eq_false_iff_not] at hd2
    exact hd2 e he (by simpa using hed)

/-- membership in `objectFields`. -/
theorem mem_objectFields {t : Tables} {cls : Nat} {kw : List (Nat × J)} {e : Nat × J}
    (h : e ∈ objectFields t cls kw) :
    e = (t.typeKey, .str (t.className cls)) ∨ (e ∈ t.defaults cls) ∨ (e ∈ kw ∧ keep t e = true) := by
  rw [objectFields_eq] at h
  simp only [List.mem_cons, List.mem_append, List.mem_filter] at h
  rcases h with h | ⟨h, _⟩ | h
  · exact Or.inl h
  · exact Or.inr (Or.inl h)
  · exact Or.inr (Or.inr h)

/-- every default key occurs among the fields (as the default or as the given override). -/
theorem default_key_in_objectFields {t : Tables} (cls : Nat) (kw : List (Nat × J)) {d : Nat × J}
    (hd : d ∈ t.defaults cls) : ∃ e ∈ objectFields t cls kw, e.1 = d.1 := by
  by_cases hov : (kw.filter (keep t)).any (·.1 = d.1) = true
  · rw [List.any_eq_true] at hov
    obtain ⟨e, he, hek⟩ := hov
    refine ⟨e, ?_, by simpa using hek⟩
    rw [objectFields_eq]; simp only [List.mem_cons, List.mem_append]; exact Or.inr (Or.inr he)
  · refine ⟨d, ?_, rfl⟩
    rw [objectFields_eq]; simp only [List.mem_cons, List.mem_append, List.mem_filter]
    exact Or.inr (Or.inl ⟨hd, by simpa using hov⟩)

theorem perm_cons_filter_ne {l : List (Nat × J)} (h : (l.map (·.1)).Nodup) {k : Nat} {v : J}
    (hm : (k, v) ∈ l) : l.Perm ((k, v) :: l.filter (fun e => e.1 != k)) := by
  induction l with
  | nil => simp at hm
  | cons x xs ih =>
    simp only [List.map_cons, List.nodup_cons] at h
    rcases List.mem_cons.1 hm with hx | hx
    · subst hx
      have : xs.filter (fun e => e.1 != k) = xs := by
        rw [List.filter_eq_self]
        intro e he
        simp only [bne_iff_ne]
        intro hek
        exact h.1 (hek ▸ List.mem_map_of_mem (f := (·.1)) he)
      simp [List.filter_cons, this]
    · have hne : x.1 ≠ k := by
        intro hek
        exact h.1 (hek ▸ List.mem_map_of_mem (f := (·.1)) hx)
      have hb : (x.1 != k) = true := by simpa using hne
      simp only [List.filter_cons, hb, if_true]
      exact (List.Perm.cons x (ih h.2 hx)).trans (List.Perm.swap _ _ _)

theorem normPairs_id {t : Tables} : ∀ {kv : List (Nat × J)}, (∀ e ∈ kv, norm t e.2 = e.2) →
    normPairs t kv = kv
  | [], _ => rfl
  | (k, v) :: rest, h => by
    simp only [normPairs]
    rw [h (k, v) (by simp), normPairs_id (fun e he => h e (by simp [he]))]

theorem keep_of_default {t : Tables} (hw : TablesWF t) {cls : Nat} {d : Nat × J} (hd : d ∈ t.defaults cls) :
    keep t d = true := by
  obtain ⟨a, b, c⟩ := hw.defaultsClean cls d hd
  simp [keep, a, b, c]

theorem classFor_perm {t : Tables} {l1 l2 : List (Nat × J)} (hp : l1.Perm l2)
    (h : (l1.map (·.1)).Nodup) : classFor t l1 = classFor t l2 := by
  unfold classFor
  rw [lookupKey_perm hp h]

/-- the result of `finishObj` on a decoded dict with normal values is itself normal. -/
theorem finishObj_fix {t : Tables} (hw : TablesWF t) {kv : List (Nat × J)}
    (hk : (kv.map (·.1)).Nodup) (hv : ∀ e ∈ kv, norm t e.2 = e.2) :
    norm t (finishObj t kv) = finishObj t kv := by
  unfold finishObj
  cases hc : classFor t kv with
  | none =>
    simp only []
    have hYn := sortKeys_keys_nodup hk
    have hYv : ∀ e ∈ sortKeys kv, norm t e.2 = e.2 :=
      fun e he => hv e ((sortKeys_perm kv).mem_iff.1 he)
    show finishObj t (dictOfPairs (normPairs t (sortKeys kv))) = _
    rw [normPairs_id hYv, dictOfPairs_of_nodup hYn]
    unfold finishObj
    rw [classFor_perm (sortKeys_perm kv) hYn, hc]
    simp only []
    rw [sortKeys_idem hk]
  | some cls =>
    simp only []
    have hXn := objectFields_nodup hw cls hk
    have hYn := sortKeys_keys_nodup hXn
    have hperm := sortKeys_perm (objectFields t cls kv)
    -- members of Y
    have hmemY : ∀ e ∈ sortKeys (objectFields t cls kv),
        e = (t.typeKey, .str (t.className cls)) ∨ keep t e = true := by
      intro e he
      rcases mem_objectFields (hperm.mem_iff.1 he) with h | h | h
      · exact Or.inl h
      · exact Or.inr (keep_of_default hw h)
      · exact Or.inr h.2
    have hYv : ∀ e ∈ sortKeys (objectFields t cls kv), norm t e.2 = e.2 := by
      intro e he
      rcases mem_objectFields (hperm.mem_iff.1 he) with h | h | h
      · rw [h]; simp [norm]
      · exact hw.defaultsNormal cls e h
      · exact hv e h.1
    have htypeY : (t.typeKey, J.str (t.className cls)) ∈ sortKeys (objectFields t cls kv) :=
      hperm.mem_iff.2 (by rw [objectFields_eq]; simp)
    show finishObj t (dictOfPairs (normPairs t (sortKeys (objectFields t cls kv)))) = _
    rw [normPairs_id hYv, dictOfPairs_of_nodup hYn]
    -- the class is found again
    have hcls : classFor t (sortKeys (objectFields t cls kv)) = some cls := by
      rw [classFor_perm hperm hYn]
      have : lookupKey (objectFields t cls kv) t.typeKey = some (.str (t.className cls)) := by
        rw [objectFields_eq]; simp [lookupKey]
      unfold classFor
      rw [this]
      simp only []
      unfold classFor at hc
      split at hc
      · rename_i s _; exact hw.classStable s cls hc
      · cases hc
    unfold finishObj
    rw [hcls]
    simp only []
    congr 1
    -- objectFields of Y is a permutation of Y
    generalize hY : sortKeys (objectFields t cls kv) = Y at *
    have hfilt : Y.filter (keep t) = Y.filter (fun e => e.1 != t.typeKey) := by
      apply List.filter_congr
      intro e he
      rcases hmemY e he with h | h
      · subst h
        simp [keep, hw.typePublic, isNull]
      · rw [h]
        have := (keep_spec h).2.2
        simp [this]
    have hdflt : (t.defaults cls).filter (fun d => !(Y.filter (keep t)).any (·.1 = d.1)) = [] := by
      rw [List.filter_eq_nil_iff]
      intro d hd
      simp only [Bool.not_eq_true', Bool.not_eq_false, List.any_eq_true, decide_eq_true_eq]
      obtain ⟨e, he, hek⟩ := default_key_in_objectFields cls kv hd
      have heY : e ∈ Y := hperm.mem_iff.2 he
      refine ⟨e, List.mem_filter.2 ⟨heY, ?_⟩, hek⟩
      rcases hmemY e heY with h | h
      · exfalso
        have : d.1 = t.typeKey := by rw [← hek, h]
        exact (hw.defaultsClean cls d hd).2.2 this
      · exact h
    have hof : objectFields t cls Y = (t.typeKey, .str (t.className cls)) :: Y.filter (fun e => e.1 != t.typeKey) := by
      rw [objectFields_eq, hdflt, hfilt]; rfl
    rw [hof]
    have hp2 := perm_cons_filter_ne hYn htypeY
    rw [← sortKeys_eq_of_perm hp2 hYn]
    rw [← hY]
    exact sortKeys_idem hXn

mutual
  theorem norm_idem (t : Tables) (hw : TablesWF t) : ∀ j : J, norm t (norm t j) = norm t j
    | .null => rfl
    | .bool _ => rfl
    | .num _ => rfl
    | .str _ => rfl
    | .arr xs => by
      simp only [norm]
      rw [normList_idem t hw xs]
    | .obj kv => by
      simp only [norm]
      apply finishObj_fix hw (dictOfPairs_nodup _)
      intro e he
      exact normPairs_normal t hw kv e (dictOfPairs_sub _ e he)
  theorem normList_idem (t : Tables) (hw : TablesWF t) : ∀ xs : List J,
      normList t (normList t xs) = normList t xs
    | [] => rfl
    | x :: xs => by
      simp only [normList]
      rw [norm_idem t hw x, normList_idem t hw xs]
  theorem normPairs_normal (t : Tables) (hw : TablesWF t) : ∀ kv : List (Nat × J),
      ∀ e ∈ normPairs t kv, norm t e.2 = e.2
    | [], e, he => by simp [normPairs] at he
    | (k, v) :: rest, e, he => by
      simp only [normPairs, List.mem_cons] at he
      rcases he with rfl | he
      · exact norm_idem t hw v
      · exact normPairs_normal t hw rest e he
end

/-! ### a decidable check for tables given as lists -/

def simpleValue : J → Bool
  | .null => false
  | .bool _ => true
  | .num _ => true
  | .str _ => true
  | .arr [] => true
  | _ => false

theorem norm_simple (t : Tables) {v : J} (h : simpleValue v = true) : norm t v = v ∧ isNull v = false := by
  cases v with
  | null => simp [simpleValue] at h
  | bool b => exact ⟨rfl, rfl⟩
  | num n => exact ⟨rfl, rfl⟩
  | str s => exact ⟨rfl, rfl⟩
  | arr xs =>
    cases xs with
    | nil => exact ⟨by simp [norm, normList], rfl⟩
    | cons x xs => simp [simpleValue] at h
  | obj kv => simp [simpleValue] at h

def nodupKeysB (l : List (Nat × J)) : Bool :=
  match l with
  | [] => true
  | x :: xs => !xs.any (·.1 = x.1) && nodupKeysB xs

theorem nodupKeysB_sound : ∀ {l : List (Nat × J)}, nodupKeysB l = true → (l.map (·.1)).Nodup
  | [], _ => by simp
  | x :: xs, h => by
    simp only [nodupKeysB, Bool.and_eq_true, Bool.not_eq_true', List.any_eq_false,
      decide_eq_false_iff_not] at h
    simp only [List.map_cons, List.nodup_cons, List.mem_map, not_exists, not_and]
    exact ⟨fun e he heq => h.1 e he (by simpa using heq), nodupKeysB_sound h.2⟩

/-- the check the generated tables must pass. -/
def checkTables (typeKey : Nat) (privateKeys : List Nat) (classOfTable : List (Nat × Nat))
    (classNames : List Nat) (defaults : List (List (Nat × J))) : Bool :=
  let t := Tables.ofLists typeKey privateKeys classOfTable classNames defaults
  classOfTable.all (fun p => t.classOf (t.className p.2) == some p.2) &&
  !privateKeys.contains typeKey &&
  defaults.all (fun ds => nodupKeysB ds &&
    ds.all (fun d => simpleValue d.2 && !privateKeys.contains d.1 && d.1 != typeKey))

theorem checkTables_sound {typeKey : Nat} {privateKeys : List Nat} {classOfTable : List (Nat × Nat)}
    {classNames : List Nat} {defaults : List (List (Nat × J))}
    (h : checkTables typeKey privateKeys classOfTable classNames defaults = true) :
    TablesWF (Tables.ofLists typeKey privateKeys classOfTable classNames defaults) := by
  unfold checkTables at h
  simp only [Bool.and_eq_true, List.all_eq_true, beq_iff_eq, Bool.not_eq_true', bne_iff_ne] at h
  obtain ⟨⟨h1, h2⟩, h3⟩ := h
  have hdef : ∀ cls, ∀ d ∈ (Tables.ofLists typeKey privateKeys classOfTable classNames defaults).defaults cls,
      ∃ ds ∈ defaults, d ∈ ds := by
    intro cls d hd
    simp only [Tables.ofLists] at hd
    rw [List.getD_eq_getElem?_getD] at hd
    cases hg : defaults[cls]? with
    | none => rw [hg] at hd; simp at hd
    | some ds => rw [hg] at hd; exact ⟨ds, List.mem_of_getElem? hg, hd⟩
  refine ⟨?_, ?_, ?_, ?_, ?_⟩
  · intro s cls hs
    simp only [Tables.ofLists] at hs
    cases hf : classOfTable.find? (fun p => p.1 = s) with
    | none => rw [hf] at hs; cases hs
    | some p =>
      rw [hf] at hs
      simp only [Option.map_some, Option.some.injEq] at hs
      have := h1 p (List.mem_of_find?_eq_some hf)
      rw [hs] at this
      exact this
  · simpa [Tables.ofLists] using h2
  · intro cls
    simp only [Tables.ofLists]
    rw [List.getD_eq_getElem?_getD]
    cases hg : defaults[cls]? with
    | none => simp
    | some ds => simp only [Option.getD_some]; exact nodupKeysB_sound (h3 ds (List.mem_of_getElem? hg)).1
  · intro cls d hd
    obtain ⟨ds, hds, hdm⟩ := hdef cls d hd
    have := (h3 ds hds).2 d hdm
    obtain ⟨⟨a, b⟩, c⟩ := this
    exact ⟨(norm_simple (Tables.ofLists typeKey privateKeys classOfTable classNames defaults) a).2,
      by simpa [Tables.ofLists] using b, c⟩
  · intro cls d hd
    obtain ⟨ds, hds, hdm⟩ := hdef cls d hd
    exact (norm_simple _ ((h3 ds hds).2 d hdm).1.1).1

end MwVerif.Metabook
