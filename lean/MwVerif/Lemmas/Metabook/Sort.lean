import MwVerif.Model.Metabook

namespace MwVerif.Metabook

/-! ### insertion sort on keys -/

theorem insertKey_perm (x : Nat × J) (l : List (Nat × J)) : (insertKey x l).Perm (x :: l) := by
  induction l with
  | nil => exact List.Perm.refl _
  | cons y ys ih =>
    unfold insertKey
    split
    · exact List.Perm.refl _
    · exact (List.Perm.cons y ih).trans (List.Perm.swap x y ys)

theorem sortKeys_perm (l : List (Nat × J)) : (sortKeys l).Perm l := by
  unfold sortKeys
  induction l with
  | nil => exact List.Perm.refl _
  | cons x xs ih =>
    simp only [List.foldr_cons]
    exact (insertKey_perm x _).trans (List.Perm.cons x ih)

/-- keys strictly increasing. -/
def StrictSorted (l : List (Nat × J)) : Prop := l.Pairwise (fun a b => a.1 < b.1)

theorem insertKey_sorted {x : Nat × J} {l : List (Nat × J)} (h : StrictSorted l)
    (hx : ∀ e ∈ l, e.1 ≠ x.1) : StrictSorted (insertKey x l) := by
  induction l with
  | nil => simp [insertKey, StrictSorted]
  | cons y ys ih =>
    have hy : ∀ b ∈ ys, y.1 < b.1 := (List.pairwise_cons.1 h).1
    have hys : StrictSorted ys := (List.pairwise_cons.1 h).2
    have hne : y.1 ≠ x.1 := hx y (by simp)
    unfold insertKey
    split
    · rename_i hle
      have hlt : x.1 < y.1 := by omega
      refine List.pairwise_cons.2 ⟨?_, h⟩
      intro b hb
      rcases List.mem_cons.1 hb with rfl | hb
      · exact hlt
      · exact Nat.lt_trans hlt (hy b hb)
    · rename_i hnle
      have hlt : y.1 < x.1 := by omega
      refine List.pairwise_cons.2 ⟨?_, ih hys (fun e he => hx e (by simp [he]))⟩
      intro b hb
      have hb2 : b ∈ x :: ys := (insertKey_perm x ys).mem_iff.1 hb
      rcases List.mem_cons.1 hb2 with rfl | hb'
      · exact hlt
      · exact hy b hb'

theorem sortKeys_sorted {l : List (Nat × J)} (h : (l.map (·.1)).Nodup) : StrictSorted (sortKeys l) := by
  unfold sortKeys
  induction l with
  | nil => simp [StrictSorted]
  | cons x xs ih =>
    simp only [List.map_cons, List.nodup_cons] at h
    simp only [List.foldr_cons]
    apply insertKey_sorted (ih h.2)
    intro e he
    have : e ∈ xs := (sortKeys_perm xs).mem_iff.1 he
    intro heq
    exact h.1 (heq ▸ List.mem_map_of_mem this)

/-- two strictly sorted lists with the same elements are equal. -/
theorem eq_of_perm_of_strictSorted : ∀ {l1 l2 : List (Nat × J)}, l1.Perm l2 → StrictSorted l1 →
    StrictSorted l2 → l1 = l2
  | [], l2, hp, _, _ => (List.Perm.nil_eq hp)
  | x :: xs, [], hp, _, _ => by have := hp.length_eq; simp at this
  | x :: xs, y :: ys, hp, h1, h2 => by
    have hx : ∀ b ∈ xs, x.1 < b.1 := (List.pairwise_cons.1 h1).1
    have hy : ∀ b ∈ ys, y.1 < b.1 := (List.pairwise_cons.1 h2).1
    have hxy : x = y := by
      have hxm : x ∈ y :: ys := hp.mem_iff.1 (by simp)
      have hym : y ∈ x :: xs := hp.mem_iff.2 (by simp)
      rcases List.mem_cons.1 hxm with h | h
      · exact h
      · rcases List.mem_cons.1 hym with h' | h'
        · exact h'.symm
        · have a := hy x h
          have b := hx y h'
          omega
    subst hxy
    have := eq_of_perm_of_strictSorted (List.Perm.cons_inv hp) (List.pairwise_cons.1 h1).2
      (List.pairwise_cons.1 h2).2
    rw [this]

theorem sortKeys_eq_of_perm {l1 l2 : List (Nat × J)} (hp : l1.Perm l2) (h : (l1.map (·.1)).Nodup) :
    sortKeys l1 = sortKeys l2 := by
  have h2 : (l2.map (·.1)).Nodup := (hp.map _).nodup_iff.1 h
  exact eq_of_perm_of_strictSorted ((sortKeys_perm l1).trans (hp.trans (sortKeys_perm l2).symm))
    (sortKeys_sorted h) (sortKeys_sorted h2)

theorem sortKeys_of_sorted {l : List (Nat × J)} (h : StrictSorted l) : sortKeys l = l := by
  have hn : (l.map (·.1)).Nodup := by
    unfold StrictSorted at h
    rw [List.Nodup, List.pairwise_map]
    exact h.imp (fun hlt => Nat.ne_of_lt hlt)
  exact eq_of_perm_of_strictSorted (sortKeys_perm l) (sortKeys_sorted hn) h

theorem sortKeys_idem {l : List (Nat × J)} (h : (l.map (·.1)).Nodup) :
    sortKeys (sortKeys l) = sortKeys l := sortKeys_of_sorted (sortKeys_sorted h)

theorem sortKeys_keys_nodup {l : List (Nat × J)} (h : (l.map (·.1)).Nodup) :
    ((sortKeys l).map (·.1)).Nodup := ((sortKeys_perm l).map _).nodup_iff.2 h

/-! ### lookups and dict-of-pairs -/

theorem lookupKey_perm {l1 l2 : List (Nat × J)} (hp : l1.Perm l2) (h : (l1.map (·.1)).Nodup) (k : Nat) :
    lookupKey l1 k = lookupKey l2 k := by
  induction hp with
  | nil => rfl
  | cons x _ ih =>
    simp only [List.map_cons, List.nodup_cons] at h
    simp only [lookupKey, List.find?_cons]
    split
    · rfl
    · exact ih h.2
  | swap x y l =>
    simp only [List.map_cons, List.nodup_cons, List.mem_cons, not_or] at h
    simp only [lookupKey, List.find?_cons]
    by_cases hx : x.1 = k <;> by_cases hy : y.1 = k
    · exact absurd (hx.trans hy.symm) (fun e => h.1.1 e.symm)
    · simp [hx, hy]
    · simp [hx, hy]
    · simp [hx, hy]
  | trans p1 _ ih1 ih2 =>
    exact (ih1 h).trans (ih2 ((p1.map _).nodup_iff.1 h))

theorem dictOfPairs_of_nodup {l : List (Nat × J)} (h : (l.map (·.1)).Nodup) : dictOfPairs l = l := by
  induction l with
  | nil => rfl
  | cons x xs ih =>
    simp only [List.map_cons, List.nodup_cons] at h
    obtain ⟨k, v⟩ := x
    have : xs.any (fun e => e.1 = k) = false := by
      cases ha : xs.any (fun e => decide (e.1 = k)) with
      | false => rfl
      | true =>
        rw [List.any_eq_true] at ha
        obtain ⟨e, he, hek⟩ := ha
        exact absurd (List.mem_map_of_mem (f := (·.1)) he) (by simp at hek; rw [hek]; exact h.1)
    simp [dictOfPairs, this, ih h.2]

theorem dictOfPairs_sub (l : List (Nat × J)) : ∀ e ∈ dictOfPairs l, e ∈ l := by
  induction l with
  | nil => intro e he; simp [dictOfPairs] at he
  | cons x xs ih =>
    intro e he
    obtain ⟨k, v⟩ := x
    unfold dictOfPairs at he
    split at he
    · exact List.mem_cons_of_mem _ (ih e he)
    · rcases List.mem_cons.1 he with rfl | he
      · simp
      · exact List.mem_cons_of_mem _ (ih e he)

theorem dictOfPairs_nodup (l : List (Nat × J)) : ((dictOfPairs l).map (·.1)).Nodup := by
  induction l with
  | nil => simp [dictOfPairs]
  | cons x xs ih =>
    obtain ⟨k, v⟩ := x
    unfold dictOfPairs
    split
    · exact ih
    · rename_i hany
      simp only [List.map_cons, List.nodup_cons]
      refine ⟨?_, ih⟩
      intro hm
      obtain ⟨e, he, hek⟩ := List.mem_map.1 hm
      have := dictOfPairs_sub xs e he
      apply hany
      rw [List.any_eq_true]
      exact ⟨e, this, by simpa using hek⟩

end MwVerif.Metabook
