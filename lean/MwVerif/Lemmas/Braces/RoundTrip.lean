import MwVerif.Model.Braces

/-!
The brace matcher is total and loses nothing: on token lists as the tokenizer produces them (runs of
braces have length ≥ 2) no `ValueError` escapes, and printing the result back gives the input.
-/
namespace MwVerif.Braces

mutual
  def Node.print : Node → Str
    | .str s => s
    | .tmpl cs => braces '{' 2 ++ printL cs ++ braces '}' 2
    | .var cs => braces '{' 3 ++ printL cs ++ braces '}' 3
    | .group cs => printL cs
  def printL : List Node → Str
    | [] => []
    | n :: ns => n.print ++ printL ns
end

def Tok.print : Tok → Str
  | .bopen n => braces '{' n
  | .bclose n => braces '}' n
  | .noi => []
  | .lopen => ['[', '[']
  | .lclose => [']', ']']
  | .txt s => s

def printToks : List Tok → Str
  | [] => []
  | t :: ts => t.print ++ printToks ts

/-- the open calls, outermost first: the braces still to be closed and what has been collected. -/
def printStack : List Frame → Str
  | [] => []
  | f :: fs => printStack fs ++ braces '{' f.nb ++ printL f.acc

/-- what the tokenizer guarantees: runs of braces are at least two long. -/
def Tok.ok : Tok → Bool
  | .bopen n => decide (2 ≤ n)
  | .bclose n => decide (2 ≤ n)
  | _ => true

theorem printL_append (a b : List Node) : printL (a ++ b) = printL a ++ printL b := by
  induction a with
  | nil => simp [printL]
  | cons n a ih => simp [printL, ih]

theorem printL_single (n : Node) : printL [n] = n.print := by simp [printL]

theorem braces_add (ch : Char) (a b : Nat) : braces ch (a + b) = braces ch a ++ braces ch b := by
  unfold braces
  induction a with
  | zero => simp
  | succ a ih => rw [Nat.add_right_comm, List.replicate_succ, List.replicate_succ, ih]; rfl

theorem braces_zero (ch : Char) : braces ch 0 = [] := rfl

theorem print_result (f : Frame) : printL f.result = braces '{' f.nb ++ printL f.acc := by
  unfold Frame.result
  split
  · rename_i h; rw [h, braces_zero]; rfl
  · simp [printL, Node.print]

theorem print_emit (fs : List Frame) (top : List Node) (n : Node) :
    printL (emit fs top n).2 ++ printStack (emit fs top n).1 = printL top ++ printStack fs ++ n.print := by
  unfold emit
  split
  · simp [printStack, printL_append, printL_single]
  · simp [printStack, printL_append, printL_single]

theorem print_emit' (fs : List Frame) (top : List Node) (n : Node) (x : Str) :
    printL (emit fs top n).2 ++ (printStack (emit fs top n).1 ++ x) = printL top ++ (printStack fs ++ (n.print ++ x)) := by
  have := congrArg (· ++ x) (print_emit fs top n)
  simpa [List.append_assoc] using this

theorem emit_inv (fs : List Frame) (top : List Node) (n : Node) (h : ∀ f ∈ fs, 2 ≤ f.nb) :
    ∀ f ∈ (emit fs top n).1, 2 ≤ f.nb := by
  unfold emit
  split
  · simp
  · rename_i f fs'
    intro g hg
    simp only [List.mem_cons] at hg
    rcases hg with rfl | hg
    · exact h f (List.mem_cons_self)
    · exact h g (List.mem_cons_of_mem _ hg)

theorem consume_spec {num n : Nat} {rest : List Tok} (hle : num ≤ n) (hr : ∀ t ∈ rest, t.ok = true) :
    ∃ ts', consume num n rest = some ts' ∧ printToks ts' = braces '}' (n - num) ++ printToks rest ∧
      ∀ t ∈ ts', t.ok = true := by
  unfold consume
  rw [if_neg (by omega)]
  split
  · rename_i h0
    exact ⟨rest, rfl, by rw [h0, braces_zero]; rfl, hr⟩
  · split
    · rename_i h1
      refine ⟨_, rfl, by rw [h1]; simp [printToks, Tok.print], ?_⟩
      intro t ht
      simp only [List.mem_cons] at ht
      rcases ht with rfl | ht
      · rfl
      · exact hr t ht
    · refine ⟨_, rfl, by simp [printToks, Tok.print], ?_⟩
      intro t ht
      simp only [List.mem_cons] at ht
      rcases ht with rfl | ht
      · simp only [Tok.ok, decide_eq_true_eq]; omega
      · exact hr t ht

theorem need_le {n nb : Nat} (hn : 2 ≤ n) (hb : 2 ≤ nb) : need n nb ≤ n ∧ need n nb ≤ nb := by
  unfold need isTmpl
  by_cases h1 : n = 2 <;> by_cases h2 : nb = 2 <;> simp [h1, h2] <;> omega

theorem print_closeFrame (f : Frame) (n : Nat) :
    printL (closeFrame f n).acc = braces '{' (need n f.nb) ++ printL f.acc ++ braces '}' (need n f.nb) := by
  unfold closeFrame need
  split <;> simp [printL, Node.print]

/-- **the invariant of the machine**: it ends without error, and what it returns prints as what was
collected so far, the open calls and the remaining tokens. -/
theorem run_spec : ∀ (m : Nat) (stack : List Frame) (top : List Node) (ts : List Tok),
    2 * size ts + stack.length ≤ m → (∀ t ∈ ts, t.ok = true) → (∀ f ∈ stack, 2 ≤ f.nb) →
    ∃ r, run stack top ts = some r ∧ printL r = printL top ++ printStack stack ++ printToks ts := by
  intro m
  induction m with
  | zero =>
    intro stack top ts hm _ _
    have hs : stack = [] := List.eq_nil_of_length_eq_zero (by omega)
    have ht : ts = [] := by
      cases ts with
      | nil => rfl
      | cons t ts => simp only [size] at hm; cases t <;> simp only [Tok.size] at hm <;> omega
    subst hs ht
    exact ⟨top, by rw [run], by simp [printStack, printToks]⟩
  | succ m ih =>
    intro stack top ts hm hts hst
    cases ts with
    | nil =>
      cases stack with
      | nil => exact ⟨top, by rw [run], by simp [printStack, printToks]⟩
      | cons f fs =>
        rw [run]
        have hlen := emit_length fs top (.group f.result)
        obtain ⟨r, hr, hp⟩ := ih (emit fs top (.group f.result)).1 (emit fs top (.group f.result)).2 []
          (by simp only [size, List.length_cons] at hm ⊢; omega) (by simp)
          (emit_inv fs top _ (fun g hg => hst g (List.mem_cons_of_mem _ hg)))
        refine ⟨r, hr, ?_⟩
        rw [hp, List.append_assoc, print_emit']
        simp [printStack, printToks, Node.print, print_result]
    | cons t ts =>
      have hts' : ∀ x ∈ ts, x.ok = true := fun x hx => hts x (List.mem_cons_of_mem _ hx)
      have htok := hts t (List.mem_cons_self)
      have hsz : 1 ≤ t.size := by cases t <;> simp [Tok.size]
      simp only [size] at hm
      cases stack with
      | nil =>
        cases t with
        | bopen n =>
          rw [run]
          simp only [Tok.ok, decide_eq_true_eq] at htok
          obtain ⟨r, hr, hp⟩ := ih [⟨n, 0, []⟩] top ts (by simp only [List.length_cons, List.length_nil] at hm ⊢; simp only [Tok.size] at hm; omega) hts'
            (by intro f hf; simp only [List.mem_singleton] at hf; subst hf; exact htok)
          exact ⟨r, hr, by rw [hp]; simp [printStack, printToks, Tok.print, printL]⟩
        | noi =>
          rw [run]
          obtain ⟨r, hr, hp⟩ := ih [] top ts (by simp only [List.length_nil] at hm ⊢; omega) hts' (by simp)
          exact ⟨r, hr, by rw [hp]; simp [printStack, printToks, Tok.print]⟩
        | bclose n =>
          rw [run]
          obtain ⟨r, hr, hp⟩ := ih [] (top ++ [.str (braces '}' n)]) ts (by simp only [List.length_nil] at hm ⊢; omega) hts' (by simp)
          exact ⟨r, hr, by rw [hp]; simp [printStack, printToks, Tok.print, printL_append, printL, Node.print]⟩
        | lopen =>
          rw [run]
          obtain ⟨r, hr, hp⟩ := ih [] (top ++ [.str ['[', '[']]) ts (by simp only [List.length_nil] at hm ⊢; omega) hts' (by simp)
          exact ⟨r, hr, by rw [hp]; simp [printStack, printToks, Tok.print, printL_append, printL, Node.print]⟩
        | lclose =>
          rw [run]
          obtain ⟨r, hr, hp⟩ := ih [] (top ++ [.str [']', ']']]) ts (by simp only [List.length_nil] at hm ⊢; omega) hts' (by simp)
          exact ⟨r, hr, by rw [hp]; simp [printStack, printToks, Tok.print, printL_append, printL, Node.print]⟩
        | txt s =>
          rw [run]
          obtain ⟨r, hr, hp⟩ := ih [] (top ++ [.str s]) ts (by simp only [List.length_nil] at hm ⊢; omega) hts' (by simp)
          exact ⟨r, hr, by rw [hp]; simp [printStack, printToks, Tok.print, printL_append, printL, Node.print]⟩
      | cons f fs =>
        have hf2 := hst f (List.mem_cons_self)
        have hfs : ∀ g ∈ fs, 2 ≤ g.nb := fun g hg => hst g (List.mem_cons_of_mem _ hg)
        have hst' : ∀ (f' : Frame), f'.nb = f.nb → ∀ g ∈ f' :: fs, 2 ≤ g.nb := by
          intro f' he g hg
          simp only [List.mem_cons] at hg
          rcases hg with rfl | hg
          · omega
          · exact hfs g hg
        simp only [List.length_cons] at hm
        cases t with
        | bopen n =>
          rw [run]
          simp only [Tok.ok, decide_eq_true_eq] at htok
          obtain ⟨r, hr, hp⟩ := ih (⟨n, 0, []⟩ :: f :: fs) top ts (by simp only [List.length_cons] at hm ⊢; simp only [Tok.size] at hm; omega) hts'
            (by intro g hg; simp only [List.mem_cons] at hg; rcases hg with rfl | hg; exact htok; exact hst g (List.mem_cons.mpr hg))
          exact ⟨r, hr, by rw [hp]; simp [printStack, printToks, Tok.print, printL]⟩
        | noi =>
          rw [run]
          obtain ⟨r, hr, hp⟩ := ih (f :: fs) top ts (by simp only [List.length_cons] at hm ⊢; omega) hts' hst
          exact ⟨r, hr, by rw [hp]; simp [printStack, printToks, Tok.print]⟩
        | lopen =>
          rw [run]
          obtain ⟨r, hr, hp⟩ := ih ({ f with lc := f.lc + 1, acc := f.acc ++ [.str ['[', '[']] } :: fs) top ts
            (by simp only [List.length_cons] at hm ⊢; omega) hts' (hst' _ rfl)
          exact ⟨r, hr, by rw [hp]; simp [printStack, printToks, Tok.print, printL_append, printL, Node.print]⟩
        | lclose =>
          rw [run]
          obtain ⟨r, hr, hp⟩ := ih ({ f with lc := f.lc - 1, acc := f.acc ++ [.str [']', ']']] } :: fs) top ts
            (by simp only [List.length_cons] at hm ⊢; omega) hts' (hst' _ rfl)
          exact ⟨r, hr, by rw [hp]; simp [printStack, printToks, Tok.print, printL_append, printL, Node.print]⟩
        | txt s =>
          rw [run]
          obtain ⟨r, hr, hp⟩ := ih ({ f with acc := f.acc ++ [.str s] } :: fs) top ts
            (by simp only [List.length_cons] at hm ⊢; omega) hts' (hst' _ rfl)
          exact ⟨r, hr, by rw [hp]; simp [printStack, printToks, Tok.print, printL_append, printL, Node.print]⟩
        | bclose n =>
          simp only [Tok.ok, decide_eq_true_eq] at htok
          simp only [Tok.size] at hm
          rw [run]
          by_cases hlc : f.lc ≠ 0
          · rw [if_pos hlc]
            obtain ⟨r, hr, hp⟩ := ih ({ f with acc := f.acc ++ [.str (braces '}' n)] } :: fs) top ts
              (by simp only [List.length_cons] at hm ⊢; omega) hts' (hst' _ rfl)
            exact ⟨r, hr, by rw [hp]; simp [printStack, printToks, Tok.print, printL_append, printL, Node.print]⟩
          · rw [if_neg hlc]
            obtain ⟨hle1, hle2⟩ := need_le (n := n) (nb := f.nb) htok hf2
            obtain ⟨ts', hc, hpt, hok⟩ := consume_spec (rest := ts) hle1 hts'
            have hsz' : size ts' < size (.bclose n :: ts) := size_consume (need_pos _ _) hc
            simp only [size, Tok.size] at hsz'
            -- the printed form of the closed call
            have hprint : braces '{' f.nb ++ (printL f.acc ++ braces '}' n) =
                braces '{' (closeFrame f n).nb ++ (printL (closeFrame f n).acc ++ braces '}' (n - need n f.nb)) := by
              rw [print_closeFrame]
              have hb1 : braces '{' f.nb = braces '{' (f.nb - need n f.nb) ++ braces '{' (need n f.nb) := by
                rw [← braces_add]; congr 1; omega
              have hb2 : braces '}' n = braces '}' (need n f.nb) ++ braces '}' (n - need n f.nb) := by
                rw [← braces_add]; congr 1; omega
              rw [hb1, hb2]
              simp [closeFrame, List.append_assoc]
            split
            · rename_i heq; rw [hc] at heq; cases heq
            · rename_i ts'' heq
              rw [hc] at heq
              cases heq
              split
              · -- the call returns
                obtain ⟨r, hr, hp⟩ := ih (emit fs top (.group (closeFrame f n).result)).1
                  (emit fs top (.group (closeFrame f n).result)).2 ts'
                  (by rw [emit_length]; omega) hok (emit_inv fs top _ hfs)
                refine ⟨r, hr, ?_⟩
                rw [hp, List.append_assoc, print_emit', hpt]
                simp only [Node.print, print_result, printStack, printToks, Tok.print, List.append_assoc]
                have := congrArg (fun x => printL top ++ (printStack fs ++ (x ++ printToks ts))) hprint
                simp only [List.append_assoc] at this
                exact this.symm
              · rename_i hnb
                obtain ⟨r, hr, hp⟩ := ih (closeFrame f n :: fs) top ts' (by simp only [List.length_cons]; omega) hok
                  (by intro g hg; simp only [List.mem_cons] at hg; rcases hg with rfl | hg; omega; exact hfs g hg)
                refine ⟨r, hr, ?_⟩
                rw [hp, hpt]
                simp only [printStack, printToks, Tok.print, List.append_assoc]
                have := congrArg (fun x => printL top ++ (printStack fs ++ (x ++ printToks ts))) hprint
                simp only [List.append_assoc] at this
                exact this.symm

end MwVerif.Braces
