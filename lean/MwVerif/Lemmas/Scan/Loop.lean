import MwVerif.Lemmas.Scan.Tiles

namespace MwVerif.Scan

/-- the scanner's loop invariant over the source `src` (with sentinels). -/
structure Inv (src : List Char) (s : St) : Prop where
  rest_eq : s.rest = src.drop s.pos
  pos_le : s.pos ≤ src.length
  tiles : TilesFrom src 0 s.toks s.pos
  lastEnd : s.lastEbad = false → ∀ e, endOf s.toks = some e → e = s.pos

/-- `s'` differs from `s` only in flags that do not matter for tiling. -/
structure Same (s s' : St) : Prop where
  pos : s'.pos = s.pos
  rest : s'.rest = s.rest
  toks : s'.toks = s.toks
  lastEbad : s'.lastEbad = s.lastEbad

theorem Same.refl (s : St) : Same s s := ⟨rfl, rfl, rfl, rfl⟩

theorem Inv.of_same {src : List Char} {s s' : St} (h : Inv src s) (hs : Same s s') : Inv src s' := by
  refine ⟨by rw [hs.rest, hs.pos]; exact h.rest_eq, by rw [hs.pos]; exact h.pos_le,
    by rw [hs.toks, hs.pos]; exact h.tiles, ?_⟩
  intro hl e he
  rw [hs.pos]; rw [hs.toks] at he; rw [hs.lastEbad] at hl
  exact h.lastEnd hl e he

theorem rest_length {src : List Char} {s : St} (h : Inv src s) : s.rest.length = src.length - s.pos := by
  rw [h.rest_eq]; simp

/-- emit one token of length `n` at the cursor and move the cursor behind it. -/
theorem emit_inv {src : List Char} {s s' : St} (h : Inv src s) (hs : Same s s') (ty : TokType) {n : Nat}
    (h1 : 1 ≤ n) (h2 : n ≤ s.rest.length) : Inv src (advance (found s' ty s.pos n) n) := by
  have h' := h.of_same hs
  have hp : s'.pos = s.pos := hs.pos
  obtain ⟨a, b, c⟩ := found_tiles (src := src) s' ty s.pos n h1 (by rw [← hp]; exact h'.tiles)
    (by intro hl e he; rw [← hp]; exact h'.lastEnd hl e he)
  have hlen := rest_length h
  refine ⟨?_, ?_, ?_, ?_⟩
  · simp only [advance, found_rest, found_pos, hs.rest, hp, h.rest_eq, List.drop_drop]
  · simp only [advance, found_pos, hp]; have := h.pos_le; omega
  · simp only [advance, found_pos, hp]; exact a
  · intro _ e he
    simp only [advance] at he ⊢
    rw [b] at he; injection he with he; rw [found_pos, hp]; omega

theorem newlineFix_same_spans (s : St) :
    (newlineFix s).pos = s.pos ∧ (newlineFix s).rest = s.rest ∧ (newlineFix s).lastEbad = s.lastEbad ∧
    (newlineFix s).prev = s.prev ∧ endOf (newlineFix s).toks = endOf s.toks ∧
    (∀ src p q, TilesFrom src p s.toks q → TilesFrom src p (newlineFix s).toks q) := by
  unfold newlineFix
  split
  · rename_i i _
    refine ⟨rfl, rfl, rfl, rfl,
      endOf_modify s.toks (fun t => { t with ty := t_text }) (fun t => ⟨rfl, rfl⟩) i, ?_⟩
    intro src p q h; exact h.modify (fun t => { t with ty := t_text }) (fun t => ⟨rfl, rfl⟩) i
  · exact ⟨rfl, rfl, rfl, rfl, rfl, fun _ _ _ h => h⟩

theorem newlineFix_inv {src : List Char} {s : St} (h : Inv src s) : Inv src (newlineFix s) := by
  obtain ⟨a, b, c, _, e, f⟩ := newlineFix_same_spans s
  refine ⟨by rw [b, a]; exact h.rest_eq, by rw [a]; exact h.pos_le, by rw [a]; exact f _ _ _ h.tiles, ?_⟩
  intro hl x hx; rw [a]; rw [c] at hl; rw [e] at hx; exact h.lastEnd hl x hx

/-- what the regular-expression engine guarantees about a winning match. -/
structure MatchOk (s : St) (len : Nat) (act : Action) : Prop where
  pos : 1 ≤ len
  le : len ≤ s.rest.length
  ebad : act = .ebad → len = 1 ∧ s.rest.head? = some ebadChar
  brk : act = .breakSplit → 2 ≤ len

theorem ebad_inv {src : List Char} {s : St} (h : Inv src s) (hh : s.rest.head? = some ebadChar) :
    Inv src (advance { s with lastEbad := true } 1) := by
  have hsrc : src[s.pos]? = some ebadChar := by
    have := h.rest_eq
    rw [this] at hh
    simpa [List.head?_drop] using hh
  have hlt : s.pos < src.length := by
    cases hx : src[s.pos]? with
    | none => rw [hx] at hsrc; cases hsrc
    | some c => exact (List.getElem?_eq_some_iff.1 hx).1
  refine ⟨?_, ?_, ?_, ?_⟩
  · show List.drop 1 s.rest = List.drop (s.pos + 1) src
    rw [h.rest_eq, List.drop_drop]
  · show s.pos + 1 ≤ src.length
    omega
  · show TilesFrom src 0 s.toks (s.pos + 1)
    exact h.tiles.gap (by omega) (by
      intro i hi1 hi2
      have : i = s.pos := by omega
      rw [this]; exact hsrc)
  · intro hl; cases hl

theorem exec_inv {src : List Char} {s : St} (h : Inv src s) {len : Nat} {act : Action}
    (hm : MatchOk s len act) : Inv src (exec s len act).1 := by
  have h1 := hm.pos
  have h2 := hm.le
  have one_le : (1 : Nat) ≤ s.rest.length := by omega
  cases act with
  | ret t => exact emit_inv h (Same.refl s) t h1 h2
  | ebad =>
    obtain ⟨hl, hh⟩ := hm.ebad rfl
    subst hl
    exact ebad_inv h hh
  | beginTable =>
    exact @emit_inv src s { s with tablemode := s.tablemode + 1 } h ⟨rfl, rfl, rfl, rfl⟩ t_begin_table len h1 h2
  | endTable =>
    exact @emit_inv src s { s with tablemode := s.tablemode - 1 } h ⟨rfl, rfl, rfl, rfl⟩ t_end_table len h1 h2
  | tableOrPre t =>
    simp only [exec]
    split
    · exact emit_inv h (Same.refl s) t h1 h2
    · split
      · exact emit_inv h (Same.refl s) _ (Nat.le_refl 1) one_le
      · exact emit_inv h (Same.refl s) _ h1 h2
  | columnOrPre =>
    simp only [exec]
    split
    · exact @emit_inv src s { s with rowchar := ((s.rest.drop (len - 1)).head?).getD (Char.ofNat 0) } h
        ⟨rfl, rfl, rfl, rfl⟩ t_column len h1 h2
    · split
      · exact emit_inv h (Same.refl s) _ (Nat.le_refl 1) one_le
      · exact emit_inv h (Same.refl s) _ h1 h2
  | sectionOpen =>
    simp only [exec]
    have := emit_inv h (Same.refl s) t_section h1 h2
    exact this.of_same ⟨rfl, rfl, rfl, rfl⟩
  | gotoNotBol => exact h
  | sectionEndOrText =>
    simp only [exec]
    split
    · exact @emit_inv src s { s with lineSection := none } h ⟨rfl, rfl, rfl, rfl⟩ t_section_end len h1 h2
    · exact emit_inv h (Same.refl s) _ h1 h2
  | breakSplit =>
    have hb := hm.brk rfl
    simp only [exec]
    -- first the newline token [pos, pos+1), then the break token [pos+1, pos+len)
    have hn := newlineFix_inv h
    obtain ⟨a, b, c, _, _, _⟩ := newlineFix_same_spans s
    obtain ⟨t1, e1, l1⟩ := found_tiles (src := src) (newlineFix s) t_newline s.pos 1 (Nat.le_refl 1)
      (by rw [← a]; exact hn.tiles) (by intro hl e he; rw [← a]; exact hn.lastEnd hl e he)
    obtain ⟨t2, e2, l2⟩ := found_tiles (src := src) (found (newlineFix s) t_newline s.pos 1) t_break
      (s.pos + 1) (len - 1) (by omega) t1 (by intro _ e he; rw [e1] at he; injection he with he; omega)
    have hlen := rest_length h
    refine ⟨?_, ?_, ?_, ?_⟩
    · simp only [advance, found_rest, found_pos, b, a, h.rest_eq, List.drop_drop]
    · simp only [advance, found_pos, a]; have := h.pos_le; omega
    · simp only [advance, found_pos, a]
      have : s.pos + 1 + (len - 1) = s.pos + len := by omega
      rw [← this]; exact t2
    · intro _ e he
      simp only [advance, found_pos, a] at he ⊢
      rw [e2] at he; injection he with he; omega
  | newlineTok =>
    simp only [exec]
    obtain ⟨a, b, c, _, _, _⟩ := newlineFix_same_spans s
    have := emit_inv (newlineFix_inv h) (Same.refl _) t_newline h1 (by rw [b]; exact h2)
    rw [a] at this; exact this
  | colSpecial =>
    simp only [exec]
    split
    · exact emit_inv h (Same.refl s) _ h1 h2
    · exact emit_inv h (Same.refl s) _ (Nat.le_refl 1) one_le
  | captionSpecial =>
    simp only [exec]
    split
    · exact emit_inv h (Same.refl s) _ h1 h2
    · exact emit_inv h (Same.refl s) _ (Nat.le_refl 1) one_le
  | stop => exact newlineFix_inv h

@[simp] theorem newlineFix_pos (s : St) : (newlineFix s).pos = s.pos := (newlineFix_same_spans s).1

/-- every call of `scan()` that goes on consumes at least one character. -/
theorem exec_progress {s : St} {len : Nat} {act : Action} (hm : MatchOk s len act)
    (hc : (exec s len act).2 = true) (hg : act ≠ .gotoNotBol) :
    s.pos < (exec s len act).1.pos := by
  have h1 := hm.pos
  cases act <;> simp only [exec, advance, found_pos] at hc ⊢ <;>
    (try split) <;> (try split) <;> simp_all <;> omega

end MwVerif.Scan
