import MwVerif.Model.Scan

namespace MwVerif.Scan
namespace Re

/-- what `longestAux` can return: the incoming `best`, or a position reached from `k`. -/
theorem longestAux_spec : ∀ (s : List Char) (r : Re) (k : Nat) (best : Option Nat) (m : Nat),
    longestAux r s k best = some m →
      best = some m ∨ (k ≤ m ∧ m ≤ k + s.length ∧ (r.nullable = false → k + 1 ≤ m))
  | [], r, k, best, m, h => by
    unfold longestAux at h
    simp only [] at h
    by_cases hn : r.nullable = true
    · simp only [hn, if_true, Option.some.injEq] at h
      subst h; right; simp [hn]
    · simp only [hn] at h
      exact Or.inl h
  | c :: cs, r, k, best, m, h => by
    unfold longestAux at h
    simp only [] at h
    by_cases hn : r.nullable = true
    · simp only [hn, if_true] at h
      by_cases he : r = empty
      · simp only [he, if_true, Option.some.injEq] at h
        subst h; right; simp [hn]
      · simp only [he, if_false] at h
        rcases longestAux_spec cs (r.deriv c) (k + 1) (some k) m h with h1 | ⟨h1, h2, _⟩
        · injection h1 with h1; subst h1; right; simp [hn]
        · right; refine ⟨by omega, by simp; omega, by simp [hn]⟩
    · have hn' : r.nullable = false := by simpa using hn
      simp only [hn', Bool.false_eq_true, if_false] at h
      by_cases he : r = empty
      · simp only [he, if_true] at h; exact Or.inl h
      · simp only [he, if_false] at h
        rcases longestAux_spec cs (r.deriv c) (k + 1) best m h with h1 | ⟨h1, h2, _⟩
        · exact Or.inl h1
        · right; exact ⟨by omega, by simp; omega, fun _ => by omega⟩

/-- a non-nullable expression matches at least one and at most all characters. -/
theorem longest_bounds {r : Re} {s : List Char} {m : Nat} (h : r.longest s = some m)
    (hn : r.nullable = false) : 1 ≤ m ∧ m ≤ s.length := by
  unfold longest at h
  rcases longestAux_spec s r 0 none m h with h1 | ⟨_, h2, h3⟩
  · cases h1
  · exact ⟨by have := h3 hn; omega, by omega⟩

theorem longestAux_empty (s : List Char) (k : Nat) (best : Option Nat) :
    longestAux empty s k best = best := by
  cases s <;> simp [longestAux, nullable]

theorem longestAux_eps (s : List Char) (k : Nat) (best : Option Nat) :
    longestAux eps s k best = some k := by
  cases s with
  | nil => simp [longestAux, nullable]
  | cons c cs => simp [longestAux, nullable, deriv, longestAux_empty]

/-- a single character class matches exactly one character, which is in the class. -/
theorem longest_cls {neg : Bool} {rs : List (Nat × Nat)} {s : List Char} {m : Nat}
    (h : (cls neg rs).longest s = some m) :
    m = 1 ∧ ∃ c cs, s = c :: cs ∧ clsMatch neg rs c = true := by
  unfold longest at h
  cases s with
  | nil => simp [longestAux, nullable] at h
  | cons c cs =>
    unfold longestAux at h
    simp only [nullable, Bool.false_eq_true, if_false, deriv] at h
    have hne : (cls neg rs = empty) = False := by simp
    simp only [hne, if_false] at h
    by_cases hm : clsMatch neg rs c = true
    · simp only [hm, if_true, longestAux_eps, Option.some.injEq] at h
      exact ⟨by omega, c, cs, rfl, hm⟩
    · have hm' : clsMatch neg rs c = false := by simpa using hm
      simp only [hm', Bool.false_eq_true, if_false] at h
      rw [longestAux_empty] at h; cases h

theorem clsMatch_chr (c d : Char) : clsMatch false [(c.toNat, c.toNat)] d = true ↔ d = c := by
  simp only [clsMatch, List.any_cons, List.any_nil, Bool.or_false, bne_iff_ne, ne_eq,
    Bool.and_eq_true, decide_eq_true_eq, Bool.not_eq_false]
  constructor
  · intro h
    have : d.toNat = c.toNat := by omega
    exact Char.ext (by simpa [Char.toNat] using UInt32.toNat_inj.1 this)
  · intro h; subst h; omega

theorem longest_chr {c : Char} {s : List Char} {m : Nat} (h : (chr c).longest s = some m) :
    m = 1 ∧ s.head? = some c := by
  obtain ⟨h1, d, cs, rfl, hd⟩ := longest_cls h
  exact ⟨h1, by rw [(clsMatch_chr c d).1 hd]; rfl⟩

/-- `[class] X` with `X` not nullable matches at least two characters. -/
theorem longest_seq_cls {neg : Bool} {rs : List (Nat × Nat)} {X : Re} {s : List Char} {m : Nat}
    (h : (seq (cls neg rs) X).longest s = some m) (hn : X.nullable = false) : 2 ≤ m := by
  unfold longest at h
  cases s with
  | nil => simp [longestAux, nullable] at h
  | cons d cs =>
    unfold longestAux at h
    simp only [nullable, Bool.false_and, Bool.false_eq_true, if_false, deriv] at h
    have hne : (seq (cls neg rs) X = empty) = False := by simp
    simp only [hne, if_false] at h
    by_cases hm : clsMatch neg rs d = true
    · simp only [hm, if_true] at h
      have hk : mkSeq eps X = X ∨ mkSeq eps X = empty := by
        cases X <;> simp [mkSeq]
      rcases hk with hk | hk
      · rw [hk] at h
        rcases longestAux_spec cs X 1 none m h with h1 | ⟨_, _, h3⟩
        · cases h1
        · have := h3 hn; omega
      · rw [hk, longestAux_empty] at h; cases h
    · have hm' : clsMatch neg rs d = false := by simpa using hm
      simp only [hm', Bool.false_eq_true, if_false] at h
      have : mkSeq empty X = empty := by cases X <;> simp [mkSeq]
      rw [this, longestAux_empty] at h; cases h

end Re
end MwVerif.Scan
