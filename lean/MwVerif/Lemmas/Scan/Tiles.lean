import MwVerif.Lemmas.Scan.Regex

namespace MwVerif.Scan

/-- all characters of `src` in `[a, b)` are the dropped marker U+EBAD. -/
def AllEbad (src : List Char) (a b : Nat) : Prop := ∀ i, a ≤ i → i < b → src[i]? = some ebadChar

/-- the tokens tile `[p, q)`: in order, non-empty, contiguous except for gaps of U+EBAD. -/
inductive TilesFrom (src : List Char) : Nat → List Tok → Nat → Prop
  | nil {p q : Nat} : p ≤ q → AllEbad src p q → TilesFrom src p [] q
  | cons {p q : Nat} {t : Tok} {ts : List Tok} : p ≤ t.start → AllEbad src p t.start → 1 ≤ t.len →
      TilesFrom src (t.start + t.len) ts q → TilesFrom src p (t :: ts) q

theorem AllEbad.empty (src : List Char) (a : Nat) : AllEbad src a a := by
  intro i h1 h2; omega

theorem AllEbad.append {src : List Char} {a b c : Nat} (h1 : AllEbad src a b) (h2 : AllEbad src b c) :
    AllEbad src a c := by
  intro i hi1 hi2
  by_cases h : i < b
  · exact h1 i hi1 h
  · exact h2 i (by omega) hi2

theorem TilesFrom.le {src : List Char} {p q : Nat} {ts : List Tok} (h : TilesFrom src p ts q) : p ≤ q := by
  induction h with
  | nil h _ => exact h
  | cons h1 _ h3 _ ih => omega

/-- append a token after the tiled part (possibly after a gap of U+EBAD). -/
theorem TilesFrom.snoc {src : List Char} {p q : Nat} {ts : List Tok} (h : TilesFrom src p ts q)
    (t : Tok) (hs : q ≤ t.start) (hg : AllEbad src q t.start) (hl : 1 ≤ t.len) :
    TilesFrom src p (ts ++ [t]) (t.start + t.len) := by
  induction h with
  | nil h1 h2 =>
    exact .cons (by omega) (h2.append hg) hl (.nil (Nat.le_refl _) (AllEbad.empty _ _))
  | cons h1 h2 h3 _ ih => exact .cons h1 h2 h3 (ih hs hg)

/-- widen the trailing gap. -/
theorem TilesFrom.gap {src : List Char} {p q q' : Nat} {ts : List Tok} (h : TilesFrom src p ts q)
    (hq : q ≤ q') (hg : AllEbad src q q') : TilesFrom src p ts q' := by
  induction h with
  | nil h1 h2 => exact .nil (by omega) (h2.append hg)
  | cons h1 h2 h3 _ ih => exact .cons h1 h2 h3 (ih hq hg)

/-- grow the last token (text merging) when it ends exactly where the new text starts. -/
theorem TilesFrom.extendLast {src : List Char} {p q : Nat} {ts : List Tok} (h : TilesFrom src p ts q)
    (last : Tok) (hl : ts.getLast? = some last) (he : last.start + last.len = q) (n : Nat) :
    TilesFrom src p (ts.dropLast ++ [{ last with len := last.len + n }]) (q + n) := by
  induction h with
  | nil _ _ => simp at hl
  | @cons p q t ts h1 h2 h3 h4 ih =>
    cases ts with
    | nil =>
      simp at hl; subst hl
      simp only [List.dropLast_singleton, List.nil_append]
      exact .cons h1 h2 (by simp; omega) (.nil (by simp; omega) (by
        have : t.start + (t.len + n) = q + n := by omega
        simp only [this]; exact AllEbad.empty _ _))
    | cons t2 ts2 =>
      have hl' : (t2 :: ts2).getLast? = some last := by
        rw [List.getLast?_cons_of_ne_nil (by simp)] at hl; exact hl
      have := ih hl' he
      simp only [List.dropLast_cons₂, List.cons_append]
      exact .cons h1 h2 h3 this

/-- re-typing a token (what `newline()` does) does not touch the spans. -/
theorem TilesFrom.modify {src : List Char} {p q : Nat} {ts : List Tok} (h : TilesFrom src p ts q)
    (f : Tok → Tok) (hf : ∀ t, (f t).start = t.start ∧ (f t).len = t.len) (i : Nat) :
    TilesFrom src p (ts.modify i f) q := by
  induction h generalizing i with
  | nil h1 h2 => simpa using TilesFrom.nil h1 h2
  | @cons p q t ts h1 h2 h3 h4 ih =>
    cases i with
    | zero =>
      simp only [List.modify_zero_cons]
      exact .cons (by rw [(hf t).1]; exact h1) (by rw [(hf t).1]; exact h2) (by rw [(hf t).2]; exact h3)
        (by rw [(hf t).1, (hf t).2]; exact h4)
    | succ n =>
      simp only [List.modify_succ_cons]
      exact .cons h1 h2 h3 (ih n)

/-- where the last token ends. -/
def endOf (ts : List Tok) : Option Nat := ts.getLast?.map (fun t => t.start + t.len)

theorem endOf_modify (ts : List Tok) (f : Tok → Tok)
    (hf : ∀ t, (f t).start = t.start ∧ (f t).len = t.len) (i : Nat) :
    endOf (ts.modify i f) = endOf ts := by
  induction ts generalizing i with
  | nil => simp
  | cons t ts ih =>
    cases i with
    | zero =>
      cases ts with
      | nil => simp [endOf, (hf t).1, (hf t).2]
      | cons t2 ts2 => simp [endOf, List.getLast?_cons_of_ne_nil]
    | succ n =>
      cases ts with
      | nil => simp [endOf]
      | cons t2 ts2 =>
        have := ih n
        simp only [List.modify_succ_cons]
        unfold endOf at this ⊢
        have hne : (t2 :: ts2).modify n f ≠ [] := by
          intro e; have := congrArg List.length e; simp at this
        rw [List.getLast?_cons_of_ne_nil hne, List.getLast?_cons_of_ne_nil (by simp)]
        exact this

theorem endOf_snoc (ts : List Tok) (t : Tok) : endOf (ts ++ [t]) = some (t.start + t.len) := by
  simp [endOf]

/-! ### `found` -/

/-- what `found` needs and guarantees, for a token that starts where the tiled part ends. -/
theorem found_tiles {src : List Char} (s : St) (ty : TokType) (q len : Nat) (hl : 1 ≤ len)
    (ht : TilesFrom src 0 s.toks q)
    (he : s.lastEbad = false → ∀ e, endOf s.toks = some e → e = q) :
    TilesFrom src 0 (found s ty q len).toks (q + len) ∧
    endOf (found s ty q len).toks = some (q + len) ∧ (found s ty q len).lastEbad = false := by
  unfold found
  cases hlast : s.toks.getLast? with
  | none =>
    exact ⟨ht.snoc ⟨ty, q, len⟩ (Nat.le_refl _) (AllEbad.empty _ _) hl, endOf_snoc _ _, rfl⟩
  | some last =>
    simp only []
    split
    · rename_i hc
      simp only [Bool.and_eq_true, Bool.not_eq_true', decide_eq_true_eq] at hc
      have hend : last.start + last.len = q := he hc.1.2 _ (by simp [endOf, hlast])
      refine ⟨ht.extendLast last hlast hend len, ?_, hc.1.2⟩
      rw [endOf_snoc]; simp; omega
    · exact ⟨ht.snoc ⟨ty, q, len⟩ (Nat.le_refl _) (AllEbad.empty _ _) hl, endOf_snoc _ _, rfl⟩

@[simp] theorem found_pos (s : St) (ty : TokType) (q len : Nat) : (found s ty q len).pos = s.pos := by
  unfold found; split <;> (try split) <;> rfl
@[simp] theorem found_rest (s : St) (ty : TokType) (q len : Nat) : (found s ty q len).rest = s.rest := by
  unfold found; split <;> (try split) <;> rfl
@[simp] theorem found_prev (s : St) (ty : TokType) (q len : Nat) : (found s ty q len).prev = s.prev := by
  unfold found; split <;> (try split) <;> rfl

end MwVerif.Scan
