import MwVerif.Lemmas.Scan.Loop

namespace MwVerif.Scan

/-- whatever `matchRules` returns comes from one of the rules. -/
theorem matchRules_spec (rules : List Rule) (s : List Char) {k : Nat} {act : Action}
    (h : matchRules rules s = some (k, act)) : ∃ r ∈ rules, r.act = act ∧ r.re.longest s = some k := by
  unfold matchRules at h
  have key : ∀ (rs : List Rule) (best : Option (Nat × Action)),
      (∀ kb ab, best = some (kb, ab) → ∃ r ∈ rules, r.act = ab ∧ r.re.longest s = some kb) →
      (∀ r ∈ rs, r ∈ rules) →
      ∀ kb ab, rs.foldl (fun best r =>
        match r.re.longest s with
        | none => best
        | some k =>
          match best with
          | none => some (k, r.act)
          | some (kb, _) => if k > kb then some (k, r.act) else best) best = some (kb, ab) →
        ∃ r ∈ rules, r.act = ab ∧ r.re.longest s = some kb := by
    intro rs
    induction rs with
    | nil => intro best hb _ kb ab h; exact hb kb ab h
    | cons r rs ih =>
      intro best hb hsub kb ab h
      simp only [List.foldl_cons] at h
      refine ih _ ?_ (fun x hx => hsub x (List.mem_cons_of_mem _ hx)) kb ab h
      intro kb' ab' hbest
      cases hl : r.re.longest s with
      | none => rw [hl] at hbest; exact hb kb' ab' hbest
      | some k' =>
        rw [hl] at hbest
        cases best with
        | none =>
          simp only [Option.some.injEq, Prod.mk.injEq] at hbest
          exact ⟨r, hsub r (by simp), hbest.2, by rw [hl, hbest.1]⟩
        | some b =>
          obtain ⟨kb0, ab0⟩ := b
          simp only [] at hbest
          split at hbest
          · simp only [Option.some.injEq, Prod.mk.injEq] at hbest
            exact ⟨r, hsub r (by simp), hbest.2, by rw [hl, hbest.1]⟩
          · exact hb kb' ab' hbest
  exact key rules none (by intro _ _ h; cases h) (fun _ h => h) k act h

/-- the (decidable) conditions on a rule the tiling proof needs. -/
def ruleOkB (r : Rule) : Bool :=
  !r.re.nullable &&
  (match r.act with
   | .ebad => r.re == Re.chr ebadChar
   | .breakSplit =>
     (match r.re with
      | .seq (.cls _ _) X => !X.nullable
      | _ => false)
   | _ => true)

def rulesOkB (rules : Rules) : Bool := rules.bol.all ruleOkB && rules.notBol.all ruleOkB

theorem matchOk_of_rule {r : Rule} (hr : ruleOkB r = true) {s : St} {k : Nat}
    (hl : r.re.longest s.rest = some k) : MatchOk s k r.act := by
  unfold ruleOkB at hr
  simp only [Bool.and_eq_true, Bool.not_eq_true'] at hr
  obtain ⟨hn, hact⟩ := hr
  obtain ⟨h1, h2⟩ := Re.longest_bounds hl hn
  refine ⟨h1, h2, ?_, ?_⟩
  · intro he
    rw [he] at hact
    simp only [beq_iff_eq] at hact
    rw [hact] at hl
    exact Re.longest_chr hl
  · intro he
    rw [he] at hact
    simp only [] at hact
    cases hre : r.re with
    | seq a X =>
      rw [hre] at hact hl
      cases a with
      | cls neg rs =>
        simp only [Bool.not_eq_true'] at hact
        exact Re.longest_seq_cls hl hact
      | _ => simp at hact
    | _ => rw [hre] at hact; simp at hact

theorem step_inv {src : List Char} {rules : Rules} (hr : rulesOkB rules = true) {s : St}
    (h : Inv src s) : Inv src (step rules s).1 := by
  unfold rulesOkB at hr
  simp only [Bool.and_eq_true, List.all_eq_true] at hr
  unfold step
  simp only []
  have h0 : Inv src (if (s.prev.isNone || s.prev = some '\n') = true then { s with rowchar := Char.ofNat 0 } else s) := by
    split
    · exact h.of_same ⟨rfl, rfl, rfl, rfl⟩
    · exact h
  generalize (if (s.prev.isNone || s.prev = some '\n') = true then { s with rowchar := Char.ofNat 0 } else s) = s0 at h0
  split
  · rename_i len act hv
    -- a line-start rule won
    split at hv
    · split at hv
      · cases hv
      · rename_i r hne
        cases hm : matchRules rules.bol s0.rest with
        | none => rw [hm] at hv; cases hv
        | some p =>
          rw [hm] at hv
          injection hv with hv; subst hv
          obtain ⟨ru, hmem, hact, hl⟩ := matchRules_spec _ _ hm
          have := matchOk_of_rule (hr.1 ru hmem) (s := s0) hl
          rw [hact] at this
          exact exec_inv h0 this
    · cases hv
  · split
    · rename_i len act hm
      obtain ⟨ru, hmem, hact, hl⟩ := matchRules_spec _ _ hm
      have := matchOk_of_rule (hr.2 ru hmem) (s := s0) hl
      rw [hact] at this
      exact exec_inv h0 this
    · exact h0

theorem scanLoop_inv {src : List Char} {rules : Rules} (hr : rulesOkB rules = true) :
    ∀ (n : Nat) {s : St}, Inv src s → Inv src (scanLoop rules n s)
  | 0, _, h => h
  | n + 1, s, h => by
    unfold scanLoop
    have hs := step_inv (src := src) hr h
    cases hst : step rules s with
    | mk s' c =>
      rw [hst] at hs
      cases c with
      | true => exact scanLoop_inv hr n hs
      | false => exact hs

theorem init_inv (src : List Char) : Inv src { rest := src } := by
  refine ⟨by simp, by simp, .nil (Nat.le_refl _) (AllEbad.empty _ _), ?_⟩
  intro _ e he; simp [endOf] at he

end MwVerif.Scan
