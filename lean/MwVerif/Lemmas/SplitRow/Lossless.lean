import MwVerif.Model.SplitRow

namespace MwVerif.SplitRow

theorem chunkGo_flatten (mx : Nat) : ∀ (xs : List (Nat × Nat)) (h : Nat) (cur : List Nat),
    (chunkGo mx h cur xs).flatten = cur ++ xs.map (·.2)
  | [], h, cur => by
    rw [chunkGo]
    split
    · rename_i he; simp at he; simp [he]
    · simp
  | (hi, x) :: rest, h, cur => by
    rw [chunkGo]
    split
    · rw [chunkGo_flatten mx rest]; simp
    · simp only [List.flatten_cons]; rw [chunkGo_flatten mx rest]; simp

theorem chunkGo_nonempty (mx : Nat) : ∀ (xs : List (Nat × Nat)) (h : Nat) (cur : List Nat),
    ∀ ch ∈ chunkGo mx h cur xs, ch ≠ []
  | [], h, cur => by
    rw [chunkGo]
    split
    · simp
    · rename_i he
      intro ch hch
      simp only [List.mem_singleton] at hch
      subst hch
      intro e; rw [e] at he; simp at he
  | (hi, x) :: rest, h, cur => by
    rw [chunkGo]
    split
    · exact chunkGo_nonempty mx rest _ _
    · rename_i hc
      intro ch hch
      simp only [List.mem_cons] at hch
      rcases hch with rfl | hch
      · intro e; rw [e] at hc; simp at hc
      · exact chunkGo_nonempty mx rest _ _ ch hch

/-- **a cell loses nothing**: its chunks, in order, are its children, and no chunk is empty. -/
theorem chunks_flatten (mx : Nat) (cell : List (Nat × Nat)) : (chunks mx cell).flatten = cell.map (·.2) := by
  unfold chunks; rw [chunkGo_flatten]; simp

theorem le_foldl_max : ∀ (l : List Nat) (init x : Nat), (x ∈ l ∨ x ≤ init) → x ≤ l.foldl max init
  | [], init, x, h => by
    rcases h with h | h
    · simp at h
    · simpa using h
  | a :: l, init, x, h => by
    rw [List.foldl_cons]
    apply le_foldl_max l
    rcases h with h | h
    · rcases List.mem_cons.mp h with rfl | h'
      · exact Or.inr (Nat.le_max_right _ _)
      · exact Or.inl h'
    · exact Or.inr (Nat.le_trans h (Nat.le_max_left _ _))

theorem range_getD_flatten {α} : ∀ (l : List (List α)) (n : Nat), l.length ≤ n →
    ((List.range n).map fun r => l.getD r []).flatten = l.flatten
  | [], n, _ => by
    induction n with
    | zero => rfl
    | succ n ih => rw [List.range_succ]; simp [ih]
  | a :: t, 0, h => by simp at h
  | a :: t, n + 1, h => by
    rw [List.range_succ_eq_map]
    simp only [List.map_cons, List.map_map, List.flatten_cons, List.getD_cons_zero]
    have := range_getD_flatten t n (by simpa using h)
    rw [← this]
    congr 2

/-- **the new rows keep every column**: reading column `c` of the new rows from top to bottom gives
the chunks of cell `c` in order. -/
theorem column_newRows (cols : List (List (List Nat))) (c : Nat) (hc : c < cols.length) :
    column (newRows cols) c = (cols[c]).flatten := by
  unfold column newRows
  rw [List.map_map]
  have hfun : ((fun r : List (List Nat) => r.getD c []) ∘ fun r => cols.map fun col => col.getD r [])
      = fun r => (cols[c]).getD r [] := by
    funext r
    simp [List.getD_eq_getElem?_getD, hc]
  rw [hfun]
  apply range_getD_flatten
  apply le_foldl_max
  exact Or.inl (List.mem_map.mpr ⟨cols[c], List.getElem_mem hc, rfl⟩)

end MwVerif.SplitRow
