import MwVerif.Lemmas.Qs.Prim

namespace MwVerif.Qs

/-- the invariant of the queue server: well-formed and every unfinished job in exactly one place. -/
def Inv (s : St) : Prop := WF s ∧ LocInv s []

/-! ### minKey -/

theorem minKey_mem (s : St) : ∀ (l : List Serial) (j : Serial), s.minKey l = some j → j ∈ l
  | [], j, h => by simp [St.minKey] at h
  | a :: l, j, h => by
    unfold St.minKey at h
    cases hm : s.minKey l with
    | none => simp [hm] at h; simp [h]
    | some m =>
      simp only [hm] at h
      split at h
      · injection h with h; subst h; exact List.mem_cons_of_mem _ (minKey_mem s l m hm)
      · injection h with h; simp [h]

theorem minKey_none (s : St) : ∀ (l : List Serial), s.minKey l = none → l = []
  | [], _ => rfl
  | a :: l, h => by
    unfold St.minKey at h
    cases hm : s.minKey l <;> simp [hm] at h
    split at h <;> cases h

/-! ### list helpers -/

theorem count_map_erase {α β : Type} [DecidableEq α] [DecidableEq β] (f : α → β) (l : List α) (a : α)
    (h : a ∈ l) (b : β) :
    ((l.erase a).map f).count b + (if f a = b then 1 else 0) = (l.map f).count b := by
  have hp := (List.perm_cons_erase h).map f
  rw [hp.count_eq]
  simp only [List.map_cons, List.count_cons, beq_iff_eq]

theorem count_filter_partition {α : Type} [DecidableEq α] (p : α → Bool) (l : List α) (a : α) :
    (l.filter p).count a + (l.filter (fun x => !p x)).count a = l.count a := by
  induction l with
  | nil => simp
  | cons x l ih =>
    by_cases hp : p x <;> simp [List.filter_cons, hp, List.count_cons] <;> omega

/-! ### runInsert -/

theorem runInsert_count {s : St} (h : WF s) (w : Wid) (j k : Serial)
    (hj : j < s.jobs.length) (hdj : s.done j = false) (hnot : j ∉ s.runJobs)
    (hk : k < s.jobs.length) (hdk : s.done k = false) :
    ((runInsert s w j).map (·.2)).count k = s.runJobs.count k + (if k = j then 1 else 0) := by
  unfold runInsert
  split
  · rename_i i hi
    rw [List.findIdx?_eq_some_iff_getElem] at hi
    obtain ⟨hlt, hp, _⟩ := hi
    simp only [Bool.and_eq_true, decide_eq_true_eq] at hp
    rw [List.map_set]
    have hlt' : i < (s.running.map (·.2)).length := by simpa using hlt
    rw [List.count_set hlt']
    simp only [List.getElem_map, beq_iff_eq, St.runJobs]
    have hold : s.running[i].2 ∈ s.runJobs := by
      simp only [St.runJobs]; exact List.mem_map_of_mem (List.getElem_mem hlt)
    have hne : s.running[i].2 ≠ j := fun e => hnot (e ▸ hold)
    by_cases hkj : k = j
    · subst hkj
      simp [hne]
    · have hjk : ¬ j = k := fun e => hkj e.symm
      have hc : s.running[i].2 ≠ k := by
        intro e
        -- the replaced entry would be an unfinished namesake of j
        have := h.idUniq hj hk hdj hdk (by rw [← e]; exact hp.2)
        exact hkj this
      simp [hc, hkj, hjk]
  · simp only [List.map_append, List.count_append, St.runJobs, List.map_cons, List.map_nil,
      List.count_singleton, beq_iff_eq]
    by_cases hkj : k = j
    · subst hkj; simp
    · have : ¬ j = k := fun e => hkj e.symm
      simp [hkj, this]

theorem runInsert_mem {s : St} (w : Wid) (j k : Serial) (h : k ∈ (runInsert s w j).map (·.2)) :
    k = j ∨ k ∈ s.runJobs := by
  unfold runInsert at h
  split at h
  · rw [List.map_set] at h
    rcases List.mem_or_eq_of_mem_set h with h | h
    · exact Or.inr h
    · exact Or.inl h
  · simp only [List.map_append, List.mem_append, List.map_cons, List.map_nil, List.mem_singleton] at h
    rcases h with h | h
    · exact Or.inr h
    · exact Or.inl h

/-! ### pullCore -/

theorem pullCore_Inv {s : St} (h : Inv s) (w : Wid) (chans : List Chan) :
    Inv (pullCore s w chans).1 := by
  obtain ⟨hw, hl⟩ := h
  have hw1 := preenAll_WF hw
  have hl1 := preenAll_LocInv hl
  unfold pullCore
  simp only []
  generalize hs1 : preenAll s = s1 at hw1 hl1
  split
  · rename_i j hj
    have hjc := minKey_mem _ _ _ hj
    simp only [List.mem_filter] at hjc
    have hjq : j ∈ s1.queued := hjc.1
    have hjd : s1.done j = false := by
      rw [← hs1] at hjq ⊢; exact (preenAll_queued_mem hjq).2
    have hjlt : j < s1.jobs.length := done_false_lt hjd
    have hloc := hl1 j hjlt hjd
    have hcq : 0 < s1.queued.count j := List.count_pos_iff.2 hjq
    simp only [St.loc, List.count_nil, Nat.add_zero] at hloc
    have hnm : s1.mailJobs.count j = 0 := by omega
    have hnr : s1.runJobs.count j = 0 := by omega
    have hnotr : j ∉ s1.runJobs := List.count_eq_zero.1 hnr
    constructor
    · refine ⟨?_, hw1.idOf, hw1.idKey, hw1.keysNodup, hw1.numId, hw1.errNone, hw1.deadlineDone⟩
      intro k hk
      simp only [St.mailJobs, St.runJobs] at hk
      rcases hk with hk | hk | hk
      · exact hw1.locValid k (Or.inl (List.mem_of_mem_erase hk))
      · exact hw1.locValid k (Or.inr (Or.inl hk))
      · rcases runInsert_mem w j k hk with rfl | hk
        · exact hjlt
        · exact hw1.locValid k (Or.inr (Or.inr hk))
    · intro k hk hd
      have hk' : k < s1.jobs.length := hk
      have hd' : s1.done k = false := hd
      have := hl1 k hk' hd'
      simp only [St.loc, St.mailJobs, St.runJobs, List.count_nil, Nat.add_zero] at this ⊢
      rw [runInsert_count hw1 w j k hjlt hjd hnotr hk' hd', List.count_erase]
      simp only [St.runJobs, beq_iff_eq]
      by_cases e : k = j
      · subst e; simp; omega
      · have e' : ¬ j = k := fun x => e x.symm
        simp [e, e']; omega
  · exact ⟨WF_of_core (s := s1) rfl hw1, LocInv_of_core (s := s1) rfl hl1⟩

/-! ### shutdownConn -/

theorem count_map_filter_partition {α β : Type} [DecidableEq β] (p : α → Bool) (f : α → β)
    (l : List α) (b : β) :
    ((l.filter p).map f).count b + ((l.filter (fun x => !p x)).map f).count b = (l.map f).count b := by
  induction l with
  | nil => simp
  | cons x l ih =>
    by_cases hp : p x <;> simp [hp, List.count_cons] <;> omega

theorem LocInv_skip_done {s : St} {j : Serial} {P : List Serial} (hd : s.done j = true)
    (h : LocInv s (j :: P)) : LocInv s P := by
  intro k hk hdk
  have := h k hk hdk
  have hne : ¬ j = k := by intro e; subst e; rw [hd] at hdk; cases hdk
  simpa [List.count_cons, hne] using this

theorem requeue_fold {mine : List Serial} : ∀ {s : St}, WF s → LocInv s mine →
    (∀ j ∈ mine, j < s.jobs.length) →
    let s' := mine.foldl (fun s j => if s.done j then s else
      pushJob { s with requeued := s.requeued ++ [j] } j) s
    WF s' ∧ LocInv s' [] ∧ s'.jobs = s.jobs := by
  induction mine with
  | nil => intro s hw hl _; exact ⟨hw, hl, rfl⟩
  | cons j rest ih =>
    intro s hw hl hlt
    simp only [List.foldl_cons]
    by_cases hd : s.done j = true
    · simp only [hd, if_true]
      exact ih hw (LocInv_skip_done hd hl) (fun k hk => hlt k (List.mem_cons_of_mem _ hk))
    · have hd' : s.done j = false := by simpa using hd
      simp only [hd', Bool.false_eq_true, if_false]
      have hjlt := hlt j (by simp)
      let s2 : St := { s with requeued := s.requeued ++ [j] }
      have hw2 : WF s2 := WF_of_core (s := s) rfl hw
      have hl2 : LocInv s2 (j :: rest) := LocInv_of_core (s := s) rfl hl
      have hw3 : WF (pushJob s2 j) := pushJob_WF hw2 hjlt hd'
      have hl3 : LocInv (pushJob s2 j) rest := pushJob_LocInv hl2
      have := ih hw3 hl3 (fun k hk => by simpa using hlt k (List.mem_cons_of_mem _ hk))
      obtain ⟨a, b, c⟩ := this
      exact ⟨a, b, by rw [c]; simp [s2]⟩

theorem shutdownConn_Inv {s : St} (h : Inv s) (w : Wid) :
    Inv (shutdownConn s w) ∧ (shutdownConn s w).jobs = s.jobs := by
  obtain ⟨hw, hl⟩ := h
  unfold shutdownConn
  simp only []
  let s0 : St := { s with running := s.running.filter (·.1 ≠ w) }
  have hmem : ∀ k, k ∈ (s.running.filter (·.1 = w)).map (·.2) → k ∈ s.runJobs := by
    intro k hk
    simp only [List.mem_map, List.mem_filter] at hk
    obtain ⟨e, ⟨he, _⟩, rfl⟩ := hk
    exact List.mem_map_of_mem he
  have hw0 : WF s0 := by
    refine ⟨?_, hw.idOf, hw.idKey, hw.keysNodup, hw.numId, hw.errNone, hw.deadlineDone⟩
    intro k hk
    apply hw.locValid
    rcases hk with hk | hk | hk
    · exact Or.inl hk
    · exact Or.inr (Or.inl hk)
    · right; right
      simp only [St.runJobs, List.mem_map, List.mem_filter, s0] at hk ⊢
      obtain ⟨e, ⟨he, _⟩, rfl⟩ := hk
      exact ⟨e, he, rfl⟩
  have hl0 : LocInv s0 ((s.running.filter (·.1 = w)).map (·.2)) := by
    intro k hk hd
    have := hl k hk hd
    have hp := count_map_filter_partition (fun e : Wid × Serial => decide (e.1 = w)) (·.2) s.running k
    simp only [St.loc, St.mailJobs, St.runJobs, List.count_nil, Nat.add_zero, s0] at this ⊢
    have e1 : (List.filter (fun x => !decide (x.1 = w)) s.running) =
        List.filter (fun x => decide (x.1 ≠ w)) s.running := by
      congr 1; funext x; simp
    rw [e1] at hp
    omega
  have := requeue_fold (mine := (s.running.filter (·.1 = w)).map (·.2)) hw0 hl0
    (fun k hk => hw.locValid k (Or.inr (Or.inr (hmem k hk))))
  obtain ⟨a, b, c⟩ := this
  exact ⟨⟨a, b⟩, c⟩

/-! ### runOne -/

theorem mail_erase_Inv {s : St} (h : Inv s) {m : Mail} (hm : m ∈ s.mail) :
    WF { s with mail := s.mail.erase m } ∧ LocInv { s with mail := s.mail.erase m } [m.job] ∧
      m.job < s.jobs.length := by
  obtain ⟨hw, hl⟩ := h
  have hmj : m.job ∈ s.mailJobs := List.mem_map_of_mem hm
  refine ⟨?_, ?_, hw.locValid _ (Or.inr (Or.inl hmj))⟩
  · refine ⟨?_, hw.idOf, hw.idKey, hw.keysNodup, hw.numId, hw.errNone, hw.deadlineDone⟩
    intro k hk
    apply hw.locValid
    rcases hk with hk | hk | hk
    · exact Or.inl hk
    · right; left
      simp only [St.mailJobs, List.mem_map] at hk ⊢
      obtain ⟨e, he, rfl⟩ := hk
      exact ⟨e, List.mem_of_mem_erase he, rfl⟩
    · exact Or.inr (Or.inr hk)
  · intro k hk hd
    have := hl k hk hd
    have hc := count_map_erase (·.job) s.mail m hm k
    simp only [St.loc, St.mailJobs, St.runJobs, List.count_nil, Nat.add_zero, List.count_singleton,
      beq_iff_eq] at this ⊢
    omega

theorem advanceWait_core (s : St) (jw : JWait) : (advanceWait s jw).1.core = s.core := by
  unfold advanceWait
  simp only []
  split <;> rfl

theorem advanceWait_fold_core (l : List JWait) : ∀ (acc : St × List Out),
    (l.foldl (fun (acc : St × List Out) jw =>
      let (s', o) := advanceWait acc.1 jw
      (s', acc.2 ++ o)) acc).1.core = acc.1.core := by
  induction l with
  | nil => intro acc; rfl
  | cons jw l ih =>
    intro acc
    simp only [List.foldl_cons]
    rw [ih]
    exact advanceWait_core _ _

theorem Inv_of_core {s s' : St} (hc : s'.core = s.core) (h : Inv s) : Inv s' :=
  ⟨WF_of_core hc h.1, LocInv_of_core hc h.2⟩

theorem deliverMail_Inv {s : St} (h : Inv s) (w : Wid) : Inv (deliverMail s w).1 := by
  unfold deliverMail
  split
  · exact h
  · rename_i m hm
    have hmem : m ∈ s.mail := List.mem_of_find?_eq_some hm
    obtain ⟨hw2, hl2, hlt⟩ := mail_erase_Inv h hmem
    simp only []
    split
    · rename_i hd
      exact pullCore_Inv ⟨hw2, LocInv_skip_done hd hl2⟩ _ _
    · rename_i hd
      have hd' : St.done { s with mail := s.mail.erase m } m.job = false := by simpa using hd
      have hloc := hl2 m.job hlt hd'
      simp only [St.loc, List.count_singleton, beq_self_eq_true, if_true] at hloc
      have hnr : (St.runJobs { s with mail := s.mail.erase m }).count m.job = 0 := by omega
      have hnotr : m.job ∉ St.runJobs { s with mail := s.mail.erase m } := List.count_eq_zero.1 hnr
      constructor
      · refine ⟨?_, hw2.idOf, hw2.idKey, hw2.keysNodup, hw2.numId, hw2.errNone, hw2.deadlineDone⟩
        intro k hk
        simp only [St.mailJobs, St.runJobs] at hk
        rcases hk with hk | hk | hk
        · exact hw2.locValid k (Or.inl hk)
        · exact hw2.locValid k (Or.inr (Or.inl hk))
        · rcases runInsert_mem w m.job k hk with rfl | hk
          · exact hlt
          · exact hw2.locValid k (Or.inr (Or.inr hk))
      · intro k hk hdk
        have hk' : k < s.jobs.length := hk
        have hdk' : St.done { s with mail := s.mail.erase m } k = false := hdk
        have := hl2 k hk' hdk'
        simp only [St.loc, St.mailJobs, St.runJobs, List.count_nil, Nat.add_zero,
          List.count_singleton, beq_iff_eq] at this ⊢
        rw [runInsert_count hw2 w m.job k hlt hd' hnotr hk' hdk']
        simp only [St.runJobs]
        by_cases e : k = m.job
        · simp [e] at this ⊢; omega
        · have e' : ¬ m.job = k := fun x => e x.symm
          simp [e, e'] at this ⊢; omega

theorem wakeEvent_core (s : St) (j : Serial) : (wakeEvent s j).1.core = s.core := by
  unfold wakeEvent
  rw [advanceWait_fold_core]

theorem killMail_Inv {s : St} (h : Inv s) (w : Wid) :
    Inv (killMail s w) ∧ (killMail s w).jobs = s.jobs := by
  unfold killMail
  split
  · exact ⟨h, rfl⟩
  · rename_i m hm
    have hmem : m ∈ s.mail := List.mem_of_find?_eq_some hm
    obtain ⟨hw2, hl2, hlt⟩ := mail_erase_Inv h hmem
    simp only []
    split
    · rename_i hd
      exact ⟨⟨hw2, LocInv_skip_done hd hl2⟩, rfl⟩
    · rename_i hd
      have hd' : St.done { s with mail := s.mail.erase m } m.job = false := by simpa using hd
      exact ⟨⟨pushJob_WF hw2 hlt hd', pushJob_LocInv hl2⟩, by simp⟩

theorem killConn_Inv {s : St} (h : Inv s) (w : Wid) :
    Inv (killConn s w) ∧ (killConn s w).jobs = s.jobs := by
  unfold killConn
  simp only []
  have h0 : Inv { s with dying := s.dying.filter (· ≠ w), dead := s.dead ++ [w] } :=
    Inv_of_core (s := s) rfl h
  have h1 := killMail_Inv h0 w
  generalize killMail { s with dying := s.dying.filter (· ≠ w), dead := s.dead ++ [w] } w = s2 at h1 ⊢
  have h3 : Inv { s2 with waiters := s2.waiters.filter (·.1 ≠ w), jwait := s2.jwait.filter (·.w ≠ w) } :=
    Inv_of_core (s := s2) rfl h1.1
  have h2 := shutdownConn_Inv h3 w
  exact ⟨h2.1, by rw [h2.2]; exact h1.2⟩

theorem runOne_Inv {s : St} (h : Inv s) : Inv (runOne s).1 := by
  unfold runOne
  split
  · exact h
  · rename_i w rest _
    have h0 : Inv { s with hubq := rest } := Inv_of_core (s := s) rfl h
    exact deliverMail_Inv h0 w
  · rename_i j rest _
    have h0 : Inv { s with hubq := rest } := Inv_of_core (s := s) rfl h
    exact Inv_of_core (wakeEvent_core _ _) h0
  · rename_i w rest _
    have h0 : Inv { s with hubq := rest } := Inv_of_core (s := s) rfl h
    exact (killConn_Inv h0 w).1

theorem runAll_Inv : ∀ (n : Nat) {s : St}, Inv s → Inv (runAll n s).1
  | 0, _, h => h
  | n + 1, s, h => by
    unfold runAll
    split
    · exact h
    · exact runAll_Inv n (runOne_Inv h)

end MwVerif.Qs
