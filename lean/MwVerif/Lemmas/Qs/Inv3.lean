import MwVerif.Lemmas.Qs.Inv2
/-! No lost wake-up: a client blocked in `waitjobs` is blocked on a job that is unfinished, or the
notification that will wake it is already scheduled on the hub. -/
namespace MwVerif.Qs

/-- every blocked waiter has a current job; if that job is finished its event notifier is pending -/
def JWok (s : St) : Prop :=
  ∀ jw ∈ s.jwait, ∃ h, jw.rem.head? = some h ∧ (s.done h = true → HubEv.notifyEvent h ∈ s.hubq)

/-- a step that blocks nobody new, cancels no notification and finishes no job -/
structure Quiet (s s' : St) : Prop where
  jwait : s'.jwait = s.jwait
  hub : ∀ e, e ∈ s.hubq → e ∈ s'.hubq
  done : ∀ j, s'.done j = true → s.done j = true

theorem Quiet.refl (s : St) : Quiet s s := ⟨rfl, fun _ h => h, fun _ h => h⟩

theorem Quiet.trans {a b c : St} (h1 : Quiet a b) (h2 : Quiet b c) : Quiet a c :=
  ⟨h2.jwait.trans h1.jwait, fun e he => h2.hub e (h1.hub e he), fun j hj => h1.done j (h2.done j hj)⟩

theorem JWok_quiet {s s' : St} (h : JWok s) (q : Quiet s s') : JWok s' := by
  intro jw hjw
  rw [q.jwait] at hjw
  obtain ⟨hd, h1, h2⟩ := h jw hjw
  exact ⟨hd, h1, fun hdone => q.hub _ (h2 (q.done _ hdone))⟩

theorem Quiet_of_same {s s' : St} (hj : s'.jwait = s.jwait) (hh : s'.hubq = s.hubq) (hjobs : s'.jobs = s.jobs) :
    Quiet s s' :=
  ⟨hj, fun e he => by rw [hh]; exact he, fun j hd => by rw [← done_eq_of_jobs hjobs]; exact hd⟩

/-! ### the primitives -/

theorem pushJob_jwait (s : St) (j : Serial) : (pushJob s j).jwait = s.jwait := by
  unfold pushJob; split <;> rfl

theorem pushJob_hub (s : St) (j : Serial) (e : HubEv) (he : e ∈ s.hubq) : e ∈ (pushJob s j).hubq := by
  unfold pushJob; split
  · exact he
  · simp [he]

theorem pushJob_quiet (s : St) (j : Serial) : Quiet s (pushJob s j) :=
  ⟨pushJob_jwait s j, pushJob_hub s j, fun k hk => by rw [← done_eq_of_jobs (pushJob_jobs s j)]; exact hk⟩

theorem markFinished_hub (s : St) (j : Serial) (r : Option (Option Nat)) (e : Err) (c : Bool) (ev : HubEv)
    (he : ev ∈ s.hubq) : ev ∈ (markFinished s j r e c).hubq := by
  unfold markFinished
  split
  · exact he
  · split
    · exact he
    · simp only []
      split
      · simp [he]
      · exact he

theorem markFinished_event (s : St) (j : Serial) (r : Option (Option Nat)) (e : Err) (c : Bool)
    (hd : s.done j = false) (hw : s.jwait.any (fun jw => jw.rem.head? = some j) = true) :
    HubEv.notifyEvent j ∈ (markFinished s j r e c).hubq := by
  unfold markFinished
  split
  · rename_i hn; simp [St.done, hn] at hd
  · rename_i x hx
    split
    · rename_i hxd; simp [St.done, hx, hxd] at hd
    · simp only []
      rw [if_pos hw]
      simp

theorem markFinished_JW (s : St) (j : Serial) (r : Option (Option Nat)) (e : Err) (c : Bool) (h : JWok s) :
    JWok (markFinished s j r e c) := by
  intro jw hjw
  rw [markFinished_jwait] at hjw
  obtain ⟨hd, h1, h2⟩ := h jw hjw
  refine ⟨hd, h1, ?_⟩
  intro hdone
  rw [markFinished_done] at hdone
  by_cases hsd : s.done hd = true
  · exact markFinished_hub s j r e c _ (h2 hsd)
  · have hj : hd = j := by simpa [hsd] using hdone
    subst hj
    apply markFinished_event s hd r e c (by simpa using hsd)
    rw [List.any_eq_true]
    exact ⟨jw, hjw, by simpa using h1⟩

theorem fold_markFinished_JW {α : Type} (f : St → α → St) (hf : ∀ s a, JWok s → JWok (f s a)) :
    ∀ (l : List α) (s : St), JWok s → JWok (l.foldl f s)
  | [], _, h => h
  | a :: l, s, h => fold_markFinished_JW f hf l (f s a) (hf s a h)


theorem preenAll_quiet (s : St) : Quiet s (preenAll s) := Quiet_of_same rfl rfl rfl

theorem pullCore_quiet (s : St) (w : Wid) (chans : List Chan) : Quiet s (pullCore s w chans).1 := by
  unfold pullCore
  simp only []
  split <;> exact Quiet_of_same rfl rfl rfl

theorem fold_quiet {α : Type} (f : St → α → St) (hf : ∀ s a, Quiet s (f s a)) :
    ∀ (l : List α) (s : St), Quiet s (l.foldl f s)
  | [], s => Quiet.refl s
  | a :: l, s => (hf s a).trans (fold_quiet f hf l (f s a))

theorem shutdownConn_quiet (s : St) (w : Wid) : Quiet s (shutdownConn s w) := by
  unfold shutdownConn
  simp only []
  refine (Quiet_of_same (s := s) (s' := { s with running := s.running.filter (·.1 ≠ w) }) rfl rfl rfl).trans ?_
  apply fold_quiet
  intro s' j
  split
  · exact Quiet.refl _
  · exact (Quiet_of_same (s := s') (s' := { s' with requeued := s'.requeued ++ [j] }) rfl rfl rfl).trans (pushJob_quiet _ j)

theorem killMail_quiet (s : St) (w : Wid) : Quiet s (killMail s w) := by
  unfold killMail
  split
  · exact Quiet.refl _
  · rename_i m _
    simp only []
    split
    · exact Quiet_of_same rfl rfl rfl
    · exact (Quiet_of_same (s := s) (s' := { s with mail := s.mail.erase m }) rfl rfl rfl).trans (pushJob_quiet _ _)

theorem deliverMail_quiet (s : St) (w : Wid) : Quiet s (deliverMail s w).1 := by
  unfold deliverMail
  split
  · exact Quiet.refl _
  · rename_i m _
    simp only []
    split
    · exact (Quiet_of_same (s := s) (s' := { s with mail := s.mail.erase m }) rfl rfl rfl).trans (pullCore_quiet _ _ _)
    · exact Quiet_of_same rfl rfl rfl

/-- dropping waiters keeps the invariant -/
theorem JWok_filter {s s' : St} (h : JWok s) (hj : ∀ jw, jw ∈ s'.jwait → jw ∈ s.jwait)
    (hh : ∀ e, e ∈ s.hubq → e ∈ s'.hubq) (hd : ∀ j, s'.done j = true → s.done j = true) : JWok s' := by
  intro jw hjw
  obtain ⟨x, h1, h2⟩ := h jw (hj jw hjw)
  exact ⟨x, h1, fun hdone => hh _ (h2 (hd _ hdone))⟩

theorem killConn_JW (s : St) (w : Wid) (h : JWok s) : JWok (killConn s w) := by
  unfold killConn
  simp only []
  generalize hs0 : ({ s with dying := s.dying.filter (· ≠ w), dead := s.dead ++ [w] } : St) = s0
  have h0 : JWok s0 := by
    subst hs0
    exact JWok_quiet h (Quiet_of_same rfl rfl rfl)
  have h1 := JWok_quiet h0 (killMail_quiet s0 w)
  generalize killMail s0 w = s1 at h1 ⊢
  have h2 : JWok { s1 with waiters := s1.waiters.filter (·.1 ≠ w), jwait := s1.jwait.filter (·.w ≠ w) } :=
    JWok_filter h1 (fun jw hjw => (List.mem_filter.mp hjw).1) (fun e he => he) (fun j hj => hj)
  exact JWok_quiet h2 (shutdownConn_quiet _ w)


/-! ### waking waiters -/

theorem advanceWait_done (s : St) (jw : JWait) (j : Serial) : (advanceWait s jw).1.done j = s.done j := by
  have := advanceWait_core s jw
  simp only [St.core, Prod.mk.injEq] at this
  exact done_eq_of_jobs this.1 j

theorem advanceWait_hubq (s : St) (jw : JWait) : (advanceWait s jw).1.hubq = s.hubq := by
  unfold advanceWait; simp only []; split <;> rfl

/-- the waiters after one `advanceWait`: the others, plus (possibly) `jw` moved on to an unfinished job -/
theorem advanceWait_jwait (s : St) (jw : JWait) (x : JWait) (hx : x ∈ (advanceWait s jw).1.jwait) :
    (x ∈ s.jwait ∧ x.w ≠ jw.w) ∨ (∃ h, x.rem.head? = some h ∧ s.done h = false) := by
  unfold advanceWait at hx
  simp only [] at hx
  split at hx
  · simp only [List.mem_filter, decide_eq_true_eq] at hx
    exact .inl hx
  · rename_i hrem
    simp only [List.mem_append, List.mem_filter, decide_eq_true_eq, List.mem_singleton] at hx
    rcases hx with hx | rfl
    · exact .inl hx
    · right
      simp only
      cases hr : jw.rem.tail.dropWhile (fun j => s.done j) with
      | nil => exact absurd hr hrem
      | cons a l =>
        refine ⟨a, rfl, ?_⟩
        have := List.head_dropWhile_not (fun j => s.done j) (l := jw.rem.tail) (by rw [hr]; simp)
        simpa [hr] using this

/-- processing the waiters of job `j` one after the other: afterwards nobody who was waiting in the
processed list with head `j`... the general invariant of the fold. -/
theorem wake_fold (j : Serial) : ∀ (l : List JWait) (acc : St × List Out) (hub : List HubEv),
    acc.1.hubq = hub →
    (∀ x ∈ acc.1.jwait, (∃ h, x.rem.head? = some h ∧ (acc.1.done h = true → (HubEv.notifyEvent h ∈ hub ∨ (h = j ∧ ∃ y ∈ l, y.w = x.w))))) →
    (∀ x ∈ (l.foldl (fun (acc : St × List Out) jw =>
        let (s', o) := advanceWait acc.1 jw
        (s', acc.2 ++ o)) acc).1.jwait,
      ∃ h, x.rem.head? = some h ∧ ((l.foldl (fun (acc : St × List Out) jw =>
        let (s', o) := advanceWait acc.1 jw
        (s', acc.2 ++ o)) acc).1.done h = true → HubEv.notifyEvent h ∈ hub)) ∧
    (l.foldl (fun (acc : St × List Out) jw =>
        let (s', o) := advanceWait acc.1 jw
        (s', acc.2 ++ o)) acc).1.hubq = hub := by
  intro l
  induction l with
  | nil =>
    intro acc hub hh hinv
    refine ⟨?_, hh⟩
    intro x hx
    obtain ⟨h, h1, h2⟩ := hinv x hx
    refine ⟨h, h1, fun hd => ?_⟩
    rcases h2 hd with h3 | ⟨_, y, hy, _⟩
    · exact h3
    · cases hy
  | cons jw l ih =>
    intro acc hub hh hinv
    simp only [List.foldl_cons]
    apply ih
    · simp only; rw [advanceWait_hubq]; exact hh
    · intro x hx
      simp only at hx
      rcases advanceWait_jwait acc.1 jw x hx with ⟨hmem, hne⟩ | ⟨h, h1, h2⟩
      · obtain ⟨h, h1, h2⟩ := hinv x hmem
        refine ⟨h, h1, fun hd => ?_⟩
        simp only at hd
        rw [advanceWait_done] at hd
        rcases h2 hd with h3 | ⟨hj, y, hy, hyw⟩
        · exact .inl h3
        · right
          refine ⟨hj, ?_⟩
          simp only [List.mem_cons] at hy
          rcases hy with rfl | hy
          · exact absurd hyw.symm hne
          · exact ⟨y, hy, hyw⟩
      · refine ⟨h, h1, fun hd => ?_⟩
        simp only at hd
        rw [advanceWait_done] at hd
        rw [h2] at hd; cases hd

theorem wakeEvent_JW (s : St) (j : Serial) (rest : List HubEv)
    (h : ∀ jw ∈ s.jwait, ∃ hd, jw.rem.head? = some hd ∧ (s.done hd = true → HubEv.notifyEvent hd ∈ HubEv.notifyEvent j :: rest))
    (hs : s.hubq = rest) : JWok (wakeEvent s j).1 := by
  unfold wakeEvent
  have := wake_fold j (s.jwait.filter (fun jw => jw.rem.head? = some j)) (s, []) rest hs (by
    intro x hx
    obtain ⟨hd, h1, h2⟩ := h x hx
    refine ⟨hd, h1, fun hdone => ?_⟩
    have := h2 hdone
    simp only [List.mem_cons] at this
    rcases this with he | he
    · right
      have hj : hd = j := by injection he
      refine ⟨hj, x, ?_, rfl⟩
      simp only [List.mem_filter, decide_eq_true_eq]
      exact ⟨hx, by rw [h1, hj]⟩
    · exact .inl he)
  intro jw hjw
  obtain ⟨hd, h1, h2⟩ := this.1 jw hjw
  exact ⟨hd, h1, fun hdone => by rw [this.2]; exact h2 hdone⟩


/-! ### the hub and the operations -/

/-- popping a callback that is not an event notification keeps every pending event notification -/
theorem JWok_pop {s : St} {e : HubEv} {rest : List HubEv} (h : JWok s) (hq : s.hubq = e :: rest)
    (hne : ∀ j, e ≠ .notifyEvent j) : JWok { s with hubq := rest } := by
  intro jw hjw
  obtain ⟨hd, h1, h2⟩ := h jw hjw
  refine ⟨hd, h1, fun hdone => ?_⟩
  have := h2 hdone
  rw [hq] at this
  simp only [List.mem_cons] at this
  rcases this with he | he
  · exact absurd he.symm (hne hd)
  · exact he

theorem runOne_JW {s : St} (h : JWok s) : JWok (runOne s).1 := by
  unfold runOne
  split
  · exact h
  · rename_i w rest hq
    exact JWok_quiet (JWok_pop h hq (by intro j hh; cases hh)) (deliverMail_quiet _ w)
  · rename_i j rest hq
    apply wakeEvent_JW _ j rest _ rfl
    intro jw hjw
    obtain ⟨hd, h1, h2⟩ := h jw hjw
    exact ⟨hd, h1, fun hdone => by rw [← hq]; exact h2 hdone⟩
  · rename_i w rest hq
    exact killConn_JW _ w (JWok_pop h hq (by intro j hh; cases hh))

theorem runAll_JW : ∀ (n : Nat) {s : St}, JWok s → JWok (runAll n s).1
  | 0, _, h => h
  | n + 1, s, h => by
    rw [runAll]
    split
    · exact h
    · simp only []
      exact runAll_JW n (runOne_JW h)

theorem modJob_quiet_of_done (s : St) (j : Serial) (f : Job → Job) (hf : ∀ x, (f x).done = x.done) :
    Quiet s (s.modJob j f) := by
  refine ⟨rfl, fun e he => he, ?_⟩
  intro k hk
  unfold St.modJob St.done at *
  simp only [List.getElem?_modify] at hk
  by_cases hkj : j = k
  · subst hkj
    cases hx : s.jobs[j]? with
    | none => simp [hx]
    | some x => simp [hx] at hk ⊢; rw [hf] at hk; exact hk
  · simp [hkj] at hk; exact hk

theorem dropStep_quiet (s : St) (e : JobId × Serial) : Quiet s (dropStep s e) := by
  unfold dropStep
  split
  · exact Quiet.refl _
  · split
    · exact Quiet_of_same rfl rfl rfl
    · split
      · exact modJob_quiet_of_done s e.2 _ (fun x => rfl)
      · exact Quiet.refl _

theorem handleTimeouts_JW (s : St) (h : JWok s) : JWok (handleTimeouts s) := by
  unfold handleTimeouts
  apply JWok_quiet _ (preenAll_quiet _)
  exact fold_markFinished_JW _ (fun s' j hs' => markFinished_JW s' j none .timeout false hs') _ _ h

theorem restart_JW (s : St) : JWok (restart s) := by
  intro jw hjw
  simp [restart] at hjw

theorem step_JW {s : St} (h : JWok s) (op : Op) : JWok (step s op).1 := by
  cases op with
  | add ch prio id timeout payload =>
    simp only [step]
    split
    · exact h
    · apply JWok_quiet _ (pushJob_quiet _ _)
      -- appending a job finishes nothing
      intro jw hjw
      obtain ⟨hd, h1, h2⟩ := h jw hjw
      refine ⟨hd, h1, fun hdone => h2 ?_⟩
      unfold St.done at hdone ⊢
      simp only at hdone
      by_cases hlt : hd < s.jobs.length
      · rw [List.getElem?_append_left hlt] at hdone; exact hdone
      · have : s.jobs[hd]? = none := List.getElem?_eq_none (Nat.le_of_not_lt hlt)
        simp [this]
  | pull w chans =>
    simp only [step]
    split
    · exact h
    · exact JWok_quiet h (pullCore_quiet s w chans)
  | runOne => exact runOne_JW h
  | run => exact runAll_JW _ h
  | finish w id result error =>
    simp only [step]
    split
    · exact h
    · split
      · exact h
      · rename_i j _
        exact JWok_quiet (markFinished_JW s j (some result) error error.truthy h) (Quiet_of_same rfl rfl rfl)
  | kill w ids =>
    simp only [step]
    split
    · exact h
    · refine JWok_quiet (s := ids.foldl _ s) ?_ (Quiet_of_same rfl rfl rfl)
      apply fold_markFinished_JW _ _ _ _ h
      intro s' id hs'
      split
      · exact hs'
      · exact markFinished_JW _ _ _ _ _ hs'
  | tick dt =>
    simp only [step]
    exact handleTimeouts_JW _ (JWok_quiet h (Quiet_of_same rfl rfl rfl))
  | disconnect w =>
    simp only [step]
    split
    · exact h
    · exact JWok_quiet h ⟨rfl, fun e he => by simp [he], fun j hj => hj⟩
  | wait w ids =>
    simp only [step]
    split
    · exact h
    · split
      · exact h
      · rename_i js _
        split
        · exact h
        · rename_i rem hrem
          intro jw hjw
          simp only [List.mem_append, List.mem_singleton] at hjw
          rcases hjw with hjw | rfl
          · exact h jw hjw
          · cases hr : js.dropWhile (fun j => s.done j) with
            | nil => exact absurd hr (by simpa using hrem)
            | cons a l =>
              refine ⟨a, rfl, fun hd => ?_⟩
              have := List.head_dropWhile_not (fun j => s.done j) (l := js) (by rw [hr]; simp)
              simp [hr] at this
              have hd' : s.done a = true := hd
              rw [this] at hd'; cases hd'
  | info id => exact h
  | setinfo id kv =>
    simp only [step]
    split
    · exact h
    · exact JWok_quiet h (modJob_quiet_of_done s _ _ (fun x => rfl))
  | watchdog =>
    simp only [step]
    exact JWok_quiet h (fold_quiet dropStep dropStep_quiet _ s)
  | restart => exact restart_JW s
  | seed t => exact JWok_quiet h (Quiet_of_same rfl rfl rfl)

theorem Reach.jw {s : St} (h : Reach s) : JWok s := by
  obtain ⟨ops, rfl⟩ := h
  have : ∀ (ops : List Op) {s : St}, JWok s → JWok (runOps s ops) := by
    intro ops
    induction ops with
    | nil => intro s h; exact h
    | cons op ops ih => intro s h; exact ih (step_JW h op)
  exact this ops (by intro jw hjw; simp [init] at hjw)

end MwVerif.Qs
