import MwVerif.Lemmas.Qs.Inv2

namespace MwVerif.Qs

/-- the part of the state that records outcomes: the job table and the outcome counters. -/
def St.jc (s : St) : List Job × List (Chan × Kind) := (s.jobs, s.counts)

/-- how the job table and the counters can change in one step of the server.
`reset = true` additionally allows a restart (counters are not part of the saved state). -/
inductive Evolves (reset : Bool) : List Job × List (Chan × Kind) → List Job × List (Chan × Kind) → Prop
  | refl (a) : Evolves reset a a
  | finish (l c) (j : Nat) (x : Job) (err : Err) (res : Option Nat) (ttl : Nat) :
      l[j]? = some x → x.done = false →
      Evolves reset (l, c)
        (l.set j { x with done := true, error := err, result := res, ttl := ttl },
         c ++ [(x.channel, err.kind)])
  | benign (l c) (j : Nat) (f : Job → Job) : Benign f → Evolves reset (l, c) (l.modify j f, c)
  | append (l c) (x : Job) : x.done = false → Evolves reset (l, c) (l ++ [x], c)
  | resetCounts (l c) : reset = true → Evolves reset (l, c) (l, [])
  | trans {a b c} : Evolves reset a b → Evolves reset b c → Evolves reset a c

theorem Evolves.of_eq {r : Bool} {a b : List Job × List (Chan × Kind)} (h : b = a) : Evolves r a b := by
  subst h; exact .refl _

theorem Evolves.weaken {a b} (h : Evolves false a b) : Evolves true a b := by
  induction h with
  | refl a => exact .refl a
  | finish l c j x err res ttl h1 h2 => exact .finish l c j x err res ttl h1 h2
  | benign l c j f hf => exact .benign l c j f hf
  | append l c x hx => exact .append l c x hx
  | resetCounts l c h => cases h
  | trans _ _ ih1 ih2 => exact .trans ih1 ih2

/-! ### frame lemmas: functions that touch neither jobs nor counters -/

@[simp] theorem pushJob_jc (s : St) (j : Serial) : (pushJob s j).jc = s.jc := by
  unfold pushJob St.jc; split <;> rfl

@[simp] theorem preenAll_jc (s : St) : (preenAll s).jc = s.jc := rfl

@[simp] theorem pullCore_jc (s : St) (w : Wid) (c : List Chan) : (pullCore s w c).1.jc = s.jc := by
  unfold pullCore; simp only []; split <;> rfl

@[simp] theorem deliverMail_jc (s : St) (w : Wid) : (deliverMail s w).1.jc = s.jc := by
  unfold deliverMail
  split
  · rfl
  · simp only []
    split
    · rw [pullCore_jc]; rfl
    · rfl

theorem advanceWait_jc (s : St) (jw : JWait) : (advanceWait s jw).1.jc = s.jc := by
  unfold advanceWait; simp only []; split <;> rfl

@[simp] theorem wakeEvent_jc (s : St) (j : Serial) : (wakeEvent s j).1.jc = s.jc := by
  unfold wakeEvent
  generalize (s.jwait.filter (fun jw => jw.rem.head? = some j)) = l
  have : ∀ (acc : St × List Out),
      (l.foldl (fun (acc : St × List Out) jw =>
        let (s', o) := advanceWait acc.1 jw
        (s', acc.2 ++ o)) acc).1.jc = acc.1.jc := by
    induction l with
    | nil => intro acc; rfl
    | cons jw l ih =>
      intro acc
      simp only [List.foldl_cons]
      rw [ih]; exact advanceWait_jc _ _
  exact this (s, [])

@[simp] theorem killMail_jc (s : St) (w : Wid) : (killMail s w).jc = s.jc := by
  unfold killMail
  split
  · rfl
  · simp only []
    split
    · rfl
    · rw [pushJob_jc]; rfl

theorem requeue_fold_jc (mine : List Serial) : ∀ (s : St),
    (mine.foldl (fun s j => if s.done j then s else
      pushJob { s with requeued := s.requeued ++ [j] } j) s).jc = s.jc := by
  induction mine with
  | nil => intro s; rfl
  | cons j rest ih =>
    intro s
    simp only [List.foldl_cons]
    split
    · exact ih s
    · rw [ih, pushJob_jc]; rfl

@[simp] theorem shutdownConn_jc (s : St) (w : Wid) : (shutdownConn s w).jc = s.jc := by
  unfold shutdownConn; simp only []; rw [requeue_fold_jc]; rfl

@[simp] theorem killConn_jc (s : St) (w : Wid) : (killConn s w).jc = s.jc := by
  unfold killConn; simp only []
  rw [shutdownConn_jc]
  show (killMail _ w).jc = s.jc
  rw [killMail_jc]; rfl

@[simp] theorem runOne_jc (s : St) : (runOne s).1.jc = s.jc := by
  unfold runOne
  split
  · rfl
  · rw [deliverMail_jc]; rfl
  · rw [wakeEvent_jc]; rfl
  · show (killConn _ _).jc = s.jc
    rw [killConn_jc]; rfl

@[simp] theorem runAll_jc : ∀ (n : Nat) (s : St), (runAll n s).1.jc = s.jc
  | 0, _ => rfl
  | n + 1, s => by
    unfold runAll
    split
    · rfl
    · show (runAll n (runOne s).1).1.jc = s.jc
      rw [runAll_jc, runOne_jc]

/-! ### the steps that do change outcomes -/

theorem markFinished_evolves (r : Bool) (s : St) (j : Serial) (res : Option (Option Nat)) (e : Err)
    (c : Bool) : Evolves r s.jc (markFinished s j res e c).jc := by
  unfold markFinished
  split
  · exact .refl _
  · rename_i x hx
    split
    · exact .refl _
    · rename_i hd
      have hd' : x.done = false := by simpa using hd
      have := Evolves.finish (reset := r) s.jobs s.counts j x e (res.getD x.result)
        (if c then min 10 x.ttl else x.ttl) hx hd'
      simp only []
      split <;> exact this

theorem modJob_evolves (r : Bool) (s : St) (j : Serial) (f : Job → Job) (hf : Benign f) :
    Evolves r s.jc (s.modJob j f).jc := .benign _ _ j f hf

theorem dropStep_evolves (r : Bool) (s : St) (e : JobId × Serial) : Evolves r s.jc (dropStep s e).jc := by
  unfold dropStep
  split
  · exact .refl _
  · split
    · exact .refl _
    · split
      · exact modJob_evolves r s _ _ (fun y => ⟨rfl, rfl, rfl, rfl, rfl, rfl, rfl⟩)
      · exact .refl _

theorem foldl_evolves {α : Type} (r : Bool) (f : St → α → St) (hf : ∀ s a, Evolves r s.jc (f s a).jc)
    (l : List α) : ∀ s, Evolves r s.jc (l.foldl f s).jc := by
  induction l with
  | nil => intro s; exact .refl _
  | cons a l ih => intro s; exact .trans (hf s a) (ih _)

/-- every operation other than a restart changes outcomes only by finishing unfinished
jobs (bumping one counter each), touching bookkeeping fields, or accepting a new job. -/
theorem step_evolves (s : St) (op : Op) (hop : ∀ (_ : op = .restart), False) :
    Evolves false s.jc (step s op).1.jc := by
  cases op with
  | add ch prio id timeout payload =>
    simp only [step]
    split
    · exact .refl _
    · rw [pushJob_jc]; exact .append _ _ _ rfl
  | pull w chans =>
    simp only [step]
    split
    · exact .refl _
    · exact .of_eq (pullCore_jc _ _ _)
  | runOne => exact .of_eq (runOne_jc _)
  | run => exact .of_eq (runAll_jc _ _)
  | finish w id result error =>
    simp only [step]
    split
    · exact .refl _
    · split
      · exact .refl _
      · exact markFinished_evolves false s _ _ _ _
  | kill w ids =>
    simp only [step]
    split
    · exact .refl _
    · refine foldl_evolves false _ ?_ ids s
      intro s id
      split
      · exact .refl _
      · exact markFinished_evolves false s _ _ _ _
  | tick dt =>
    simp only [step, handleTimeouts]
    rw [preenAll_jc]
    exact foldl_evolves false _ (fun s j => markFinished_evolves false s j _ _ _) _
      { s with now := s.now + dt }
  | disconnect w =>
    simp only [step]
    split <;> exact .refl _
  | wait w ids =>
    simp only [step]
    split
    · exact .refl _
    · split
      · exact .refl _
      · split <;> exact .refl _
  | info id => exact .refl _
  | setinfo id kv =>
    simp only [step]
    split
    · exact .refl _
    · exact modJob_evolves false s _ _ (fun y => ⟨rfl, rfl, rfl, rfl, rfl, rfl, rfl⟩)
  | watchdog => exact foldl_evolves false _ (dropStep_evolves false) _ s
  | restart => exact (hop rfl).elim
  | seed t => exact .refl _

theorem step_evolves_any (s : St) (op : Op) : Evolves true s.jc (step s op).1.jc := by
  by_cases h : op = .restart
  · subst h; exact .resetCounts _ _ rfl
  · exact (step_evolves s op (fun e => h e)).weaken

/-! ### consequences: finality and counters -/

/-- what of a job is final once it is finished. -/
def Job.outcome (x : Job) : Bool × Option Nat × Err × JobId × Chan × Int := 
  (x.done, x.result, x.error, x.id, x.channel, x.prio)

theorem Evolves.final {r : Bool} {a b : List Job × List (Chan × Kind)} (h : Evolves r a b) :
    ∀ (j : Nat) (x : Job), a.1[j]? = some x → x.done = true →
      ∃ x', b.1[j]? = some x' ∧ x'.outcome = x.outcome := by
  induction h with
  | refl a => intro j x hx _; exact ⟨x, hx, rfl⟩
  | finish l c j' y err res ttl hy hyd =>
    intro j x hx hxd
    have hne : j' ≠ j := by
      intro e; subst e; rw [hy] at hx; injection hx with hx; subst hx; rw [hyd] at hxd; cases hxd
    exact ⟨x, by simp only [List.getElem?_set_ne hne]; exact hx, rfl⟩
  | benign l c j' f hf =>
    intro j x hx _
    simp only [List.getElem?_modify, hx, Option.map_some]
    by_cases e : j' = j
    · simp only [e, if_true]
      obtain ⟨h1, h2, h3, h4, h5, _, h7⟩ := hf x
      exact ⟨_, rfl, by simp [Job.outcome, h1, h2, h3, h4, h5, h7]⟩
    · simp only [e, if_false]; exact ⟨x, rfl, rfl⟩
  | append l c y _ =>
    intro j x hx _
    have hlt : j < l.length := (List.getElem?_eq_some_iff.1 hx).1
    exact ⟨x, by simp only [List.getElem?_append_left hlt]; exact hx, rfl⟩
  | resetCounts l c _ => intro j x hx _; exact ⟨x, hx, rfl⟩
  | trans _ _ ih1 ih2 =>
    intro j x hx hxd
    obtain ⟨x', hx', ho⟩ := ih1 j x hx hxd
    have hxd' : x'.done = true := by
      have := congrArg (·.1) ho; simp only [Job.outcome] at this; rw [this]; exact hxd
    obtain ⟨x'', hx'', ho'⟩ := ih2 j x' hx' hxd'
    exact ⟨x'', hx'', ho'.trans ho⟩

theorem countP_set_eq {α : Type} (p : α → Bool) : ∀ (l : List α) (i : Nat) (a b : α),
    l[i]? = some b →
    (l.set i a).countP p + (if p b then 1 else 0) = l.countP p + (if p a then 1 else 0)
  | [], i, a, b, h => by simp at h
  | x :: l, 0, a, b, h => by
    simp only [List.getElem?_cons_zero, Option.some.injEq] at h; subst h
    simp only [List.set_cons_zero, List.countP_cons]; omega
  | x :: l, i + 1, a, b, h => by
    simp only [List.getElem?_cons_succ] at h
    have := countP_set_eq p l i a b h
    simp only [List.set_cons_succ, List.countP_cons]; omega

theorem countP_modify_eq {α : Type} (p : α → Bool) (f : α → α) (hf : ∀ x, p (f x) = p x) :
    ∀ (l : List α) (i : Nat), (l.modify i f).countP p = l.countP p
  | [], i => by simp
  | x :: l, 0 => by simp [List.countP_cons, hf]
  | x :: l, i + 1 => by
    simp only [List.modify_succ_cons, List.countP_cons, countP_modify_eq p f hf l i]

/-- counters add up: per channel, the number of outcome-counter bumps equals the number of
finished jobs of that channel. -/
def CountersOk (a : List Job × List (Chan × Kind)) : Prop :=
  ∀ ch : Chan, a.2.countP (fun e => e.1 == ch) = a.1.countP (fun x => x.done && x.channel == ch)

theorem Evolves.counters {a b : List Job × List (Chan × Kind)} (h : Evolves false a b) :
    CountersOk a → CountersOk b := by
  induction h with
  | refl a => exact id
  | finish l c j x err res ttl hx hxd =>
    intro hc ch
    have h1 := countP_set_eq (fun y : Job => y.done && y.channel == ch) l j
      { x with done := true, error := err, result := res, ttl := ttl } x hx
    have h0 := hc ch
    simp only [List.countP_append, List.countP_cons, List.countP_nil, hxd, Bool.false_and,
      Bool.true_and, Bool.false_eq_true, if_false, Nat.add_zero, Nat.zero_add] at h1 h0 ⊢
    omega
  | benign l c j f hf =>
    intro hc ch
    rw [show ((l.modify j f, c) : List Job × List (Chan × Kind)).1 = l.modify j f from rfl,
      countP_modify_eq _ f (fun y => by rw [(hf y).2.2.1, (hf y).2.1])]
    exact hc ch
  | append l c x hx =>
    intro hc ch
    have := hc ch
    simp only [List.countP_append, List.countP_cons, List.countP_nil, hx, Bool.false_and,
      Bool.false_eq_true, if_false, Nat.add_zero] at this ⊢
    exact this
  | resetCounts l c h => cases h
  | trans _ _ ih1 ih2 => intro hc; exact ih2 (ih1 hc)

end MwVerif.Qs
