import MwVerif.Lemmas.Qs.Dict

namespace MwVerif.Qs

/-- static well-formedness of a queue state (everything except the location count). -/
structure WF (s : St) : Prop where
  locValid : ∀ j, (j ∈ s.queued ∨ j ∈ s.mailJobs ∨ j ∈ s.runJobs) → j < s.jobs.length
  idOf : ∀ j, j < s.jobs.length → s.done j = false → dictGet s.id2job (s.jid j) = some j
  idKey : ∀ e ∈ s.id2job, e.2 < s.jobs.length ∧ s.jid e.2 = e.1
  keysNodup : (s.id2job.map (·.1)).Nodup
  numId : ∀ j n, j < s.jobs.length → s.jid j = .num n → n = j + 1
  errNone : ∀ (j : Serial) (x : Job), s.jobs[j]? = some x → x.done = false → x.error = Err.none
  deadlineDone : ∀ (j : Serial) (x : Job), s.jobs[j]? = some x → deadlineSet x.deadline = true → x.done = true

/-- location invariant with a multiset `P` of jobs that are "in hand" (taken out of their
place and about to be pushed again). -/
def LocInv (s : St) (P : List Serial) : Prop :=
  ∀ j, j < s.jobs.length → s.done j = false → s.loc j + P.count j = 1

theorem done_eq_of_jobs {s s' : St} (h : s'.jobs = s.jobs) (j : Serial) : s'.done j = s.done j := by
  simp [St.done, h]
theorem jid_eq_of_jobs {s s' : St} (h : s'.jobs = s.jobs) (j : Serial) : s'.jid j = s.jid j := by
  simp [St.jid, h]
theorem chan_eq_of_jobs {s s' : St} (h : s'.jobs = s.jobs) (j : Serial) : s'.chan j = s.chan j := by
  simp [St.chan, h]

theorem done_false_lt {s : St} {j : Serial} (h : s.done j = false) : j < s.jobs.length := by
  unfold St.done at h
  split at h
  · rename_i x hx
    exact (List.getElem?_eq_some_iff.1 hx).1
  · cases h

/-! ### pushJob -/

@[simp] theorem pushJob_jobs (s : St) (j : Serial) : (pushJob s j).jobs = s.jobs := by
  unfold pushJob; split <;> rfl

@[simp] theorem pushJob_running (s : St) (j : Serial) : (pushJob s j).running = s.running := by
  unfold pushJob; split <;> rfl

@[simp] theorem pushJob_id2job (s : St) (j : Serial) :
    (pushJob s j).id2job = dictSet s.id2job (s.jid j) j := by
  unfold pushJob; split <;> rfl

theorem pushJob_loc (s : St) (j k : Serial) :
    (pushJob s j).loc k = s.loc k + (if k = j then 1 else 0) := by
  unfold pushJob
  split
  · simp only [St.loc, St.mailJobs, St.runJobs, List.count_append, List.count_singleton]
    by_cases h : k = j
    · subst h; simp; omega
    · have h' : ¬ j = k := fun e => h e.symm
      simp [h, h']
  · simp only [St.loc, St.mailJobs, St.runJobs, List.map_append, List.count_append, List.map_cons,
      List.map_nil, List.count_singleton]
    by_cases h : k = j
    · subst h; simp; omega
    · have h' : ¬ j = k := fun e => h e.symm
      simp [h, h']

theorem pushJob_mem_loc (s : St) (j k : Serial)
    (h : k ∈ (pushJob s j).queued ∨ k ∈ (pushJob s j).mailJobs ∨ k ∈ (pushJob s j).runJobs) :
    k = j ∨ (k ∈ s.queued ∨ k ∈ s.mailJobs ∨ k ∈ s.runJobs) := by
  unfold pushJob at h
  split at h
  · simp [St.mailJobs, St.runJobs] at h ⊢
    rcases h with (h | h) | h | h
    · exact Or.inr (Or.inl h)
    · exact Or.inl h
    · exact Or.inr (Or.inr (Or.inl h))
    · exact Or.inr (Or.inr (Or.inr h))
  · simp [St.mailJobs, St.runJobs] at h ⊢
    rcases h with h | (h | h) | h
    · exact Or.inr (Or.inl h)
    · exact Or.inr (Or.inr (Or.inl h))
    · exact Or.inl h
    · exact Or.inr (Or.inr (Or.inr h))

theorem pushJob_LocInv {s : St} {j : Serial} {P : List Serial} (h : LocInv s (j :: P)) :
    LocInv (pushJob s j) P := by
  intro k hk hd
  have hk' : k < s.jobs.length := by simpa using hk
  have hd' : s.done k = false := by rw [← done_eq_of_jobs (pushJob_jobs s j)]; exact hd
  have := h k hk' hd'
  rw [pushJob_loc]
  by_cases e : k = j
  · subst e; simp [List.count_cons] at this ⊢; omega
  · have e' : ¬ j = k := fun x => e x.symm
    simp [List.count_cons, e, e'] at this ⊢; omega

/-- `pushJob` re-establishes well-formedness even when `j`'s own `id2job` entry is not there
yet (a job being added). -/
theorem pushJob_WF' {s : St} {j : Serial}
    (hloc : ∀ k, (k ∈ s.queued ∨ k ∈ s.mailJobs ∨ k ∈ s.runJobs) → k < s.jobs.length)
    (hidOf : ∀ k, k < s.jobs.length → s.done k = false → k ≠ j → dictGet s.id2job (s.jid k) = some k)
    (huniq : ∀ k, k < s.jobs.length → s.done k = false → s.jid k = s.jid j → k = j)
    (hkey : ∀ e ∈ s.id2job, e.2 < s.jobs.length ∧ s.jid e.2 = e.1)
    (hnodup : (s.id2job.map (·.1)).Nodup)
    (hnum : ∀ k n, k < s.jobs.length → s.jid k = .num n → n = k + 1)
    (herr : ∀ (k : Serial) (x : Job), s.jobs[k]? = some x → x.done = false → x.error = Err.none)
    (hdl : ∀ (k : Serial) (x : Job), s.jobs[k]? = some x → deadlineSet x.deadline = true → x.done = true)
    (hj : j < s.jobs.length) : WF (pushJob s j) := by
  refine ⟨?_, ?_, ?_, ?_, ?_, ?_, ?_⟩
  · intro k hk
    rcases pushJob_mem_loc s j k hk with rfl | hk
    · simpa using hj
    · simpa using hloc k hk
  · intro k hk hdk
    have hk' : k < s.jobs.length := by simpa using hk
    have hdk' : s.done k = false := by rw [← done_eq_of_jobs (pushJob_jobs s j)]; exact hdk
    rw [pushJob_id2job, jid_eq_of_jobs (pushJob_jobs s j)]
    by_cases e : s.jid k = s.jid j
    · rw [e, dictGet_dictSet_same, huniq k hk' hdk' e]
    · rw [dictGet_dictSet_other _ _ _ _ e]
      exact hidOf k hk' hdk' (fun ekj => e (by rw [ekj]))
  · intro e he
    rw [pushJob_id2job] at he
    rw [pushJob_jobs, jid_eq_of_jobs (pushJob_jobs s j)]
    rcases mem_dictSet he with rfl | he
    · exact ⟨hj, rfl⟩
    · exact hkey e he
  · rw [pushJob_id2job]; exact nodup_keys_dictSet hnodup _ _
  · intro k n hk hn
    rw [jid_eq_of_jobs (pushJob_jobs s j)] at hn
    exact hnum k n (by simpa using hk) hn
  · intro k x hx; rw [pushJob_jobs] at hx; exact herr k x hx
  · intro k x hx; rw [pushJob_jobs] at hx; exact hdl k x hx

theorem WF.idUniq {s : St} (h : WF s) {j k : Serial} (hj : j < s.jobs.length) (hk : k < s.jobs.length)
    (hdj : s.done j = false) (hdk : s.done k = false) (e : s.jid k = s.jid j) : k = j := by
  have h1 := h.idOf j hj hdj
  have h2 := h.idOf k hk hdk
  rw [e, h1] at h2
  injection h2 with h2; exact h2.symm

theorem pushJob_WF {s : St} {j : Serial} (h : WF s) (hj : j < s.jobs.length)
    (hd : s.done j = false) : WF (pushJob s j) :=
  pushJob_WF' h.locValid (fun k hk hdk _ => h.idOf k hk hdk)
    (fun k hk hdk e => h.idUniq hj hk hd hdk e) h.idKey h.keysNodup h.numId h.errNone
    h.deadlineDone hj

/-! ### markFinished -/

section markFinished
variable (s : St) (j : Serial) (r : Option (Option Nat)) (e : Err) (c : Bool)

macro "mf_proj" : tactic =>
  `(tactic| (unfold markFinished; split <;> (try rfl) <;> split <;> (try rfl) <;> (simp only []; split <;> rfl)))

@[simp] theorem markFinished_queued : (markFinished s j r e c).queued = s.queued := by mf_proj
@[simp] theorem markFinished_mail : (markFinished s j r e c).mail = s.mail := by mf_proj
@[simp] theorem markFinished_running : (markFinished s j r e c).running = s.running := by mf_proj
@[simp] theorem markFinished_id2job : (markFinished s j r e c).id2job = s.id2job := by mf_proj
@[simp] theorem markFinished_waiters : (markFinished s j r e c).waiters = s.waiters := by mf_proj
@[simp] theorem markFinished_jwait : (markFinished s j r e c).jwait = s.jwait := by mf_proj
@[simp] theorem markFinished_now : (markFinished s j r e c).now = s.now := by mf_proj
@[simp] theorem markFinished_handed : (markFinished s j r e c).handed = s.handed := by mf_proj
@[simp] theorem markFinished_requeued : (markFinished s j r e c).requeued = s.requeued := by mf_proj
@[simp] theorem markFinished_dying : (markFinished s j r e c).dying = s.dying := by mf_proj
@[simp] theorem markFinished_dead : (markFinished s j r e c).dead = s.dead := by mf_proj
@[simp] theorem markFinished_tape : (markFinished s j r e c).tape = s.tape := by mf_proj

@[simp] theorem markFinished_loc (k : Serial) : (markFinished s j r e c).loc k = s.loc k := by
  simp [St.loc, St.mailJobs, St.runJobs]

/-- the job list after `markFinished`: unchanged, or job `j` replaced by its finished version. -/
theorem markFinished_jobs :
    (markFinished s j r e c).jobs = s.jobs ∨
    ∃ x, s.jobs[j]? = some x ∧ x.done = false ∧
      (markFinished s j r e c).jobs = s.jobs.set j
        { x with done := true, error := e, result := r.getD x.result,
                 ttl := if c then min 10 x.ttl else x.ttl } := by
  unfold markFinished
  split
  · exact Or.inl rfl
  · rename_i x hx
    split
    · exact Or.inl rfl
    · rename_i hd
      right
      refine ⟨x, hx, by simpa using hd, ?_⟩
      simp only []
      split <;> rfl

@[simp] theorem markFinished_length : (markFinished s j r e c).jobs.length = s.jobs.length := by
  rcases markFinished_jobs s j r e c with h | ⟨x, _, _, h⟩ <;> simp [h]

theorem markFinished_getElem? (k : Serial) (hk : k ≠ j) :
    (markFinished s j r e c).jobs[k]? = s.jobs[k]? := by
  rcases markFinished_jobs s j r e c with h | ⟨x, _, _, h⟩
  · rw [h]
  · rw [h, List.getElem?_set_ne (Ne.symm hk)]

@[simp] theorem markFinished_jid (k : Serial) : (markFinished s j r e c).jid k = s.jid k := by
  rcases markFinished_jobs s j r e c with h | ⟨x, hx, _, h⟩
  · simp [St.jid, h]
  · by_cases hk : k = j
    · subst hk
      have hlt := (List.getElem?_eq_some_iff.1 hx).1
      simp [St.jid, h, hx, List.getElem?_set_self hlt]
    · simp [St.jid, h, List.getElem?_set_ne (Ne.symm hk)]

@[simp] theorem markFinished_chan (k : Serial) : (markFinished s j r e c).chan k = s.chan k := by
  rcases markFinished_jobs s j r e c with h | ⟨x, hx, _, h⟩
  · simp [St.chan, h]
  · by_cases hk : k = j
    · subst hk
      have hlt := (List.getElem?_eq_some_iff.1 hx).1
      simp [St.chan, h, hx, List.getElem?_set_self hlt]
    · simp [St.chan, h, List.getElem?_set_ne (Ne.symm hk)]

theorem markFinished_done (k : Serial) :
    (markFinished s j r e c).done k = (s.done k || decide (k = j)) := by
  unfold markFinished
  split
  · rename_i hn
    by_cases hk : k = j
    · subst hk; simp [St.done, hn]
    · simp [hk]
  · rename_i x hx
    split
    · rename_i hd
      by_cases hk : k = j
      · subst hk; simp [St.done, hx, hd]
      · simp [hk]
    · have hlt := (List.getElem?_eq_some_iff.1 hx).1
      have key : ∀ (s' : St), s'.jobs = s.jobs.set j
            { x with done := true, error := e, result := r.getD x.result,
                     ttl := if c then min 10 x.ttl else x.ttl } →
          s'.done k = (s.done k || decide (k = j)) := by
        intro s' hs'
        by_cases hk : k = j
        · subst hk; simp [St.done, hs', List.getElem?_set_self hlt]
        · simp [St.done, hs', List.getElem?_set_ne (Ne.symm hk), hk]
      simp only []
      split <;> exact key _ rfl

theorem markFinished_done_mono (k : Serial) (h : s.done k = true) :
    (markFinished s j r e c).done k = true := by
  rw [markFinished_done]; simp [h]

theorem markFinished_LocInv {P : List Serial} (h : LocInv s P) : LocInv (markFinished s j r e c) P := by
  intro k hk hd
  rw [markFinished_done] at hd
  simp at hd
  rw [markFinished_loc]
  exact h k (by simpa using hk) hd.1

theorem markFinished_WF (h : WF s) : WF (markFinished s j r e c) := by
  refine ⟨?_, ?_, ?_, ?_, ?_, ?_, ?_⟩
  · intro k hk
    simp [St.mailJobs, St.runJobs] at hk ⊢
    exact h.locValid k (by simpa [St.mailJobs, St.runJobs] using hk)
  · intro k hk hd
    rw [markFinished_done] at hd
    simp at hd
    simpa using h.idOf k (by simpa using hk) hd.1
  · intro x hx
    simpa using h.idKey x (by simpa using hx)
  · simpa using h.keysNodup
  · intro k n hk hn
    exact h.numId k n (by simpa using hk) (by simpa using hn)
  · intro k x hx hd
    by_cases hk : k = j
    · subst hk
      rcases markFinished_jobs s k r e c with hj | ⟨y, hy, _, hj⟩
      · rw [hj] at hx; exact h.errNone k x hx hd
      · have hlt := (List.getElem?_eq_some_iff.1 hy).1
        rw [hj, List.getElem?_set_self hlt] at hx
        injection hx with hx; subst hx; simp at hd
    · rw [markFinished_getElem? s j r e c k hk] at hx; exact h.errNone k x hx hd
  · intro k x hx hd
    by_cases hk : k = j
    · subst hk
      rcases markFinished_jobs s k r e c with hj | ⟨y, hy, _, hj⟩
      · rw [hj] at hx; exact h.deadlineDone k x hx hd
      · have hlt := (List.getElem?_eq_some_iff.1 hy).1
        rw [hj, List.getElem?_set_self hlt] at hx
        injection hx with hx; subst hx; rfl
    · rw [markFinished_getElem? s j r e c k hk] at hx; exact h.deadlineDone k x hx hd

end markFinished

/-! ### frame: states that agree on the core fields -/

/-- the fields the location/identity invariants talk about. -/
def St.core (s : St) : List Job × List (JobId × Serial) × List Serial × List Mail × List (Wid × Serial) :=
  (s.jobs, s.id2job, s.queued, s.mail, s.running)

theorem WF_of_core {s s' : St} (hc : s'.core = s.core) (h : WF s) : WF s' := by
  simp only [St.core, Prod.mk.injEq] at hc
  obtain ⟨h1, h2, h3, h4, h5⟩ := hc
  refine ⟨?_, ?_, ?_, ?_, ?_, ?_, ?_⟩
  · intro j hj; rw [h1]; apply h.locValid; simpa [St.mailJobs, St.runJobs, h3, h4, h5] using hj
  · intro j hj hd
    rw [h2, jid_eq_of_jobs h1]
    exact h.idOf j (by rw [← h1]; exact hj) (by rw [← done_eq_of_jobs h1]; exact hd)
  · intro e he; rw [h1, jid_eq_of_jobs h1]; exact h.idKey e (by rw [← h2]; exact he)
  · rw [h2]; exact h.keysNodup
  · intro j n hj hn; rw [jid_eq_of_jobs h1] at hn; exact h.numId j n (by rw [← h1]; exact hj) hn
  · intro j x hx; rw [h1] at hx; exact h.errNone j x hx
  · intro j x hx; rw [h1] at hx; exact h.deadlineDone j x hx

theorem loc_of_core {s s' : St} (hc : s'.core = s.core) (j : Serial) : s'.loc j = s.loc j := by
  simp only [St.core, Prod.mk.injEq] at hc
  obtain ⟨_, _, h3, h4, h5⟩ := hc
  simp [St.loc, St.mailJobs, St.runJobs, h3, h4, h5]

theorem LocInv_of_core {s s' : St} {P : List Serial} (hc : s'.core = s.core) (h : LocInv s P) :
    LocInv s' P := by
  intro j hj hd
  have h1 : s'.jobs = s.jobs := by simp only [St.core, Prod.mk.injEq] at hc; exact hc.1
  rw [loc_of_core hc]
  exact h j (by rw [← h1]; exact hj) (by rw [← done_eq_of_jobs h1]; exact hd)

/-! ### preenAll -/

@[simp] theorem preenAll_jobs (s : St) : (preenAll s).jobs = s.jobs := rfl
@[simp] theorem preenAll_id2job (s : St) : (preenAll s).id2job = s.id2job := rfl
@[simp] theorem preenAll_mail (s : St) : (preenAll s).mail = s.mail := rfl
@[simp] theorem preenAll_running (s : St) : (preenAll s).running = s.running := rfl
@[simp] theorem preenAll_waiters (s : St) : (preenAll s).waiters = s.waiters := rfl
@[simp] theorem preenAll_done (s : St) (j : Serial) : (preenAll s).done j = s.done j := rfl
@[simp] theorem preenAll_jid (s : St) (j : Serial) : (preenAll s).jid j = s.jid j := rfl
@[simp] theorem preenAll_chan (s : St) (j : Serial) : (preenAll s).chan j = s.chan j := rfl

theorem preenAll_queued_mem {s : St} {j : Serial} (h : j ∈ (preenAll s).queued) :
    j ∈ s.queued ∧ s.done j = false := by
  simpa [preenAll] using h

theorem preenAll_loc (s : St) (j : Serial) (hd : s.done j = false) : (preenAll s).loc j = s.loc j := by
  simp only [St.loc, St.mailJobs, St.runJobs, preenAll]
  rw [List.count_filter (by simp [hd])]

theorem preenAll_LocInv {s : St} {P : List Serial} (h : LocInv s P) : LocInv (preenAll s) P := by
  intro j hj hd
  rw [preenAll_loc s j hd]
  exact h j hj hd

theorem preenAll_WF {s : St} (h : WF s) : WF (preenAll s) := by
  refine ⟨?_, h.idOf, h.idKey, h.keysNodup, h.numId, h.errNone, h.deadlineDone⟩
  intro j hj
  apply h.locValid
  rcases hj with hj | hj | hj
  · exact Or.inl (preenAll_queued_mem hj).1
  · exact Or.inr (Or.inl hj)
  · exact Or.inr (Or.inr hj)

end MwVerif.Qs
