import MwVerif.Lemmas.Qs.Ops

namespace MwVerif.Qs

/-- invariants about blocked pullers, hand-offs in flight and the hand-out log. -/
structure Inv2 (s : St) : Prop where
  waitersNodup : (s.waiters.map (·.1)).Nodup
  mailNodup : (s.mail.map (·.w)).Nodup
  mailNotWaiter : ∀ m ∈ s.mail, m.w ∉ s.waiters.map (·.1)
  mailEligible : ∀ m ∈ s.mail, eligible m.chans (s.chan m.job) = true
  waitersStarved : ∀ wc ∈ s.waiters, ∀ k ∈ s.queued, s.done k = false → eligible wc.2 (s.chan k) = false
  handedOk : ∀ h ∈ s.handed, h.doneAtHandout = false ∧ eligible h.chans h.chan = true

/-- frame rule: waiters, mail, queue and log unchanged; channels of the jobs they mention
unchanged; no job they mention became unfinished. -/
theorem Inv2_frame {s s' : St} (h : Inv2 s)
    (hw : s'.waiters = s.waiters) (hm : s'.mail = s.mail) (hq : s'.queued = s.queued)
    (hh : s'.handed = s.handed)
    (hc : ∀ k, (k ∈ s.queued ∨ k ∈ s.mailJobs) → s'.chan k = s.chan k)
    (hd : ∀ k, k ∈ s.queued → s'.done k = false → s.done k = false) : Inv2 s' := by
  refine ⟨by rw [hw]; exact h.waitersNodup, by rw [hm]; exact h.mailNodup, ?_, ?_, ?_, ?_⟩
  · intro m hmem; rw [hm] at hmem; rw [hw]; exact h.mailNotWaiter m hmem
  · intro m hmem; rw [hm] at hmem
    rw [hc m.job (Or.inr (List.mem_map_of_mem hmem))]; exact h.mailEligible m hmem
  · intro wc hwc k hk hdk
    rw [hw] at hwc; rw [hq] at hk
    rw [hc k (Or.inl hk)]
    exact h.waitersStarved wc hwc k hk (hd k hk hdk)
  · rw [hh]; exact h.handedOk

theorem getD_mem_cons {α : Type} (a : α) (as : List α) (i : Nat) : (a :: as).getD i a ∈ a :: as := by
  rw [List.getD_eq_getElem?_getD]
  cases h : (a :: as)[i]? with
  | none => simp
  | some x => simp only [Option.getD_some]; exact List.mem_of_getElem? h

theorem pushTarget_spec {s : St} {j : Serial} {wc : Wid × List Chan} (h : pushTarget s j = some wc) :
    wc ∈ s.waiters ∧ eligible wc.2 (s.chan j) = true := by
  unfold pushTarget at h
  split at h
  · cases h
  · rename_i a as heq
    injection h with h
    have hmem : wc ∈ s.waiters.filter (fun wc => eligible wc.2 (s.chan j)) := by
      rw [heq, ← h]; exact getD_mem_cons a as _
    simpa [List.mem_filter] using hmem

theorem pushTarget_none {s : St} {j : Serial} (h : pushTarget s j = none) :
    ∀ wc ∈ s.waiters, eligible wc.2 (s.chan j) = false := by
  unfold pushTarget at h
  split at h
  · rename_i heq
    intro wc hwc
    by_cases he : eligible wc.2 (s.chan j) = true
    · have : wc ∈ s.waiters.filter (fun wc => eligible wc.2 (s.chan j)) := by
        simp [List.mem_filter, hwc, he]
      rw [heq] at this; cases this
    · simpa using he
  · cases h

theorem pushJob_chan (s : St) (j k : Serial) : (pushJob s j).chan k = s.chan k :=
  chan_eq_of_jobs (pushJob_jobs s j) k

theorem pushJob_done (s : St) (j k : Serial) : (pushJob s j).done k = s.done k :=
  done_eq_of_jobs (pushJob_jobs s j) k

theorem pushJob_handed (s : St) (j : Serial) : (pushJob s j).handed = s.handed := by
  unfold pushJob; split <;> rfl

theorem pushJob_Inv2 {s : St} (h : Inv2 s) (j : Serial) : Inv2 (pushJob s j) := by
  have hch := pushJob_chan s j
  have hdn := pushJob_done s j
  have hhd := pushJob_handed s j
  cases ht : pushTarget s j with
  | none =>
    have hnone := pushTarget_none ht
    have e : pushJob s j = { s with id2job := dictSet s.id2job (s.jid j) j, queued := s.queued ++ [j] } := by
      unfold pushJob; rw [ht]
    refine ⟨by rw [e]; exact h.waitersNodup, by rw [e]; exact h.mailNodup, ?_, ?_, ?_, ?_⟩
    · rw [e]; exact h.mailNotWaiter
    · intro m hm; rw [hch]; rw [e] at hm; exact h.mailEligible m hm
    · intro wc hwc k hk hdk
      rw [hch]; rw [hdn] at hdk
      rw [e] at hwc hk
      simp only [List.mem_append, List.mem_singleton] at hk
      rcases hk with hk | rfl
      · exact h.waitersStarved wc hwc k hk hdk
      · exact hnone wc hwc
    · rw [hhd]; exact h.handedOk
  | some wc =>
    obtain ⟨hwc, hel⟩ := pushTarget_spec ht
    have e : pushJob s j = { s with
        id2job := dictSet s.id2job (s.jid j) j
        tape := s.tape.tail
        waiters := s.waiters.filter (·.1 ≠ wc.1)
        mail := s.mail ++ [⟨wc.1, wc.2, j⟩]
        hubq := s.hubq ++ [.notifyMail wc.1] } := by
      unfold pushJob; rw [ht]
    have hsub : ∀ x, x ∈ s.waiters.filter (·.1 ≠ wc.1) → x ∈ s.waiters := fun x hx =>
      (List.mem_filter.1 hx).1
    have hwcin : wc.1 ∈ s.waiters.map (·.1) := List.mem_map_of_mem hwc
    refine ⟨?_, ?_, ?_, ?_, ?_, ?_⟩
    · rw [e]; exact (List.filter_sublist.map _).nodup h.waitersNodup
    · rw [e]
      simp only [List.map_append, List.map_cons, List.map_nil]
      refine List.nodup_append.2 ⟨h.mailNodup, by simp, ?_⟩
      intro a ha b hb
      simp only [List.mem_singleton] at hb; subst hb
      intro eab; subst eab
      obtain ⟨m, hm, hmw⟩ := List.mem_map.1 ha
      exact h.mailNotWaiter m hm (by rw [hmw]; exact hwcin)
    · intro m hm
      rw [e] at hm ⊢
      simp only [List.mem_append, List.mem_singleton] at hm
      simp only [List.mem_map, List.mem_filter, not_exists, not_and]
      intro x hx hxe
      rcases hm with hm | rfl
      · exact h.mailNotWaiter m hm (List.mem_map.2 ⟨x, hx.1, hxe⟩)
      · simp at hx; exact hx.2 hxe
    · intro m hm
      rw [hch]; rw [e] at hm
      simp only [List.mem_append, List.mem_singleton] at hm
      rcases hm with hm | rfl
      · exact h.mailEligible m hm
      · exact hel
    · intro x hx k hk hdk
      rw [hch]; rw [hdn] at hdk; rw [e] at hx hk
      exact h.waitersStarved x (hsub x hx) k hk hdk
    · rw [hhd]; exact h.handedOk

theorem preenAll_Inv2 {s : St} (h : Inv2 s) : Inv2 (preenAll s) := by
  refine ⟨h.waitersNodup, h.mailNodup, h.mailNotWaiter, h.mailEligible, ?_, h.handedOk⟩
  intro wc hwc k hk hdk
  exact h.waitersStarved wc hwc k (preenAll_queued_mem hk).1 hdk

theorem pullCore_Inv2 {s : St} (h : Inv2 s) (w : Wid) (chans : List Chan)
    (hnw : w ∉ s.waiters.map (·.1)) (hnm : w ∉ s.mail.map (·.w)) :
    Inv2 (pullCore s w chans).1 := by
  have h1 := preenAll_Inv2 h
  unfold pullCore
  simp only []
  split
  · rename_i j hj
    have hjc := minKey_mem _ _ _ hj
    simp only [List.mem_filter] at hjc
    have hjd := (preenAll_queued_mem hjc.1).2
    refine ⟨h1.waitersNodup, h1.mailNodup, h1.mailNotWaiter, h1.mailEligible, ?_, ?_⟩
    · intro wc hwc k hk hdk
      exact h1.waitersStarved wc hwc k (List.mem_of_mem_erase hk) hdk
    · intro x hx
      simp only [List.mem_append, List.mem_singleton] at hx
      rcases hx with hx | rfl
      · exact h1.handedOk x hx
      · exact ⟨hjd, hjc.2⟩
  · rename_i hnone
    have hemp := minKey_none _ _ hnone
    refine ⟨?_, h1.mailNodup, ?_, h1.mailEligible, ?_, h1.handedOk⟩
    · simp only [List.map_append, List.map_cons, List.map_nil]
      refine List.nodup_append.2 ⟨h1.waitersNodup, by simp, ?_⟩
      intro a ha b hb
      simp only [List.mem_singleton] at hb; subst hb
      intro e; subst e; exact hnw ha
    · intro m hm
      simp only [List.map_append, List.map_cons, List.map_nil, List.mem_append, List.mem_singleton]
      rintro (hx | hx)
      · exact h1.mailNotWaiter m hm hx
      · exact hnm (List.mem_map.2 ⟨m, hm, hx⟩)
    · intro wc hwc k hk hdk
      simp only [List.mem_append, List.mem_singleton] at hwc
      rcases hwc with hwc | rfl
      · exact h1.waitersStarved wc hwc k hk hdk
      · have : k ∉ (preenAll s).queued.filter (fun j => eligible chans ((preenAll s).chan j)) := by
          rw [hemp]; simp
        simp only [List.mem_filter, not_and, Bool.not_eq_true] at this
        exact this hk

theorem mail_erase_Inv2 {s : St} (h : Inv2 s) (m : Mail) :
    Inv2 { s with mail := s.mail.erase m } := by
  refine ⟨h.waitersNodup, (List.erase_sublist.map _).nodup h.mailNodup, ?_, ?_, h.waitersStarved, h.handedOk⟩
  · intro x hx; exact h.mailNotWaiter x (List.mem_of_mem_erase hx)
  · intro x hx; exact h.mailEligible x (List.mem_of_mem_erase hx)

theorem mem_erase_w_ne {l : List Mail} (hn : (l.map (·.w)).Nodup) {m : Mail} (hm : m ∈ l) :
    m.w ∉ (l.erase m).map (·.w) := by
  induction l with
  | nil => simp at hm
  | cons x l ih =>
    simp only [List.map_cons, List.nodup_cons] at hn
    by_cases hx : x = m
    · subst hx; simp only [List.erase_cons_head]; exact hn.1
    · have hxm : (x == m) = false := by simpa using hx
      rw [List.erase_cons, hxm]
      simp only [Bool.false_eq_true, if_false, List.map_cons, List.mem_cons, not_or]
      have hm' : m ∈ l := by
        rcases List.mem_cons.1 hm with h | h
        · exact absurd h.symm hx
        · exact h
      refine ⟨?_, ih hn.2 hm'⟩
      intro e
      exact hn.1 (e ▸ List.mem_map_of_mem hm')

theorem deliverMail_Inv2 {s : St} (h : Inv2 s) (w : Wid) : Inv2 (deliverMail s w).1 := by
  unfold deliverMail
  split
  · exact h
  · rename_i m hm
    have hmem : m ∈ s.mail := List.mem_of_find?_eq_some hm
    have hmw : m.w = w := by simpa using List.find?_some hm
    have h2 := mail_erase_Inv2 h m
    simp only []
    split
    · apply pullCore_Inv2 h2
      · rw [← hmw]; exact h.mailNotWaiter m hmem
      · rw [← hmw]; exact mem_erase_w_ne h.mailNodup hmem
    · rename_i hd
      refine ⟨h2.waitersNodup, h2.mailNodup, h2.mailNotWaiter, h2.mailEligible, h2.waitersStarved, ?_⟩
      intro x hx
      simp only [List.mem_append, List.mem_singleton] at hx
      rcases hx with hx | rfl
      · exact h2.handedOk x hx
      · exact ⟨by simpa using hd, h.mailEligible m hmem⟩

theorem advanceWait_frame (s : St) (jw : JWait) :
    (advanceWait s jw).1.waiters = s.waiters ∧ (advanceWait s jw).1.mail = s.mail ∧
    (advanceWait s jw).1.queued = s.queued ∧ (advanceWait s jw).1.handed = s.handed ∧
    (advanceWait s jw).1.jobs = s.jobs := by
  unfold advanceWait
  simp only []
  split <;> exact ⟨rfl, rfl, rfl, rfl, rfl⟩

theorem wakeEvent_frame (s : St) (j : Serial) :
    (wakeEvent s j).1.waiters = s.waiters ∧ (wakeEvent s j).1.mail = s.mail ∧
    (wakeEvent s j).1.queued = s.queued ∧ (wakeEvent s j).1.handed = s.handed ∧
    (wakeEvent s j).1.jobs = s.jobs := by
  unfold wakeEvent
  generalize (s.jwait.filter (fun jw => jw.rem.head? = some j)) = l
  have : ∀ (acc : St × List Out),
      (l.foldl (fun (acc : St × List Out) jw =>
        let (s', o) := advanceWait acc.1 jw
        (s', acc.2 ++ o)) acc).1.waiters = acc.1.waiters ∧
      (l.foldl (fun (acc : St × List Out) jw =>
        let (s', o) := advanceWait acc.1 jw
        (s', acc.2 ++ o)) acc).1.mail = acc.1.mail ∧
      (l.foldl (fun (acc : St × List Out) jw =>
        let (s', o) := advanceWait acc.1 jw
        (s', acc.2 ++ o)) acc).1.queued = acc.1.queued ∧
      (l.foldl (fun (acc : St × List Out) jw =>
        let (s', o) := advanceWait acc.1 jw
        (s', acc.2 ++ o)) acc).1.handed = acc.1.handed ∧
      (l.foldl (fun (acc : St × List Out) jw =>
        let (s', o) := advanceWait acc.1 jw
        (s', acc.2 ++ o)) acc).1.jobs = acc.1.jobs := by
    induction l with
    | nil => intro acc; exact ⟨rfl, rfl, rfl, rfl, rfl⟩
    | cons jw l ih =>
      intro acc
      simp only [List.foldl_cons]
      obtain ⟨a, b, c, d, e⟩ := ih (let (s', o) := advanceWait acc.1 jw; (s', acc.2 ++ o))
      obtain ⟨a', b', c', d', e'⟩ := advanceWait_frame acc.1 jw
      exact ⟨a.trans a', b.trans b', c.trans c', d.trans d', e.trans e'⟩
  exact this (s, [])

theorem Inv2_frame_jobs {s s' : St} (h : Inv2 s)
    (hw : s'.waiters = s.waiters) (hm : s'.mail = s.mail) (hq : s'.queued = s.queued)
    (hh : s'.handed = s.handed) (hj : s'.jobs = s.jobs) : Inv2 s' :=
  Inv2_frame h hw hm hq hh (fun k _ => chan_eq_of_jobs hj k)
    (fun k _ hd => by rw [← done_eq_of_jobs hj]; exact hd)

theorem killMail_Inv2 {s : St} (h : Inv2 s) (w : Wid) : Inv2 (killMail s w) := by
  unfold killMail
  split
  · exact h
  · rename_i m hm
    simp only []
    split
    · exact mail_erase_Inv2 h m
    · exact pushJob_Inv2 (mail_erase_Inv2 h m) _

theorem requeue_fold_Inv2 (mine : List Serial) : ∀ {s : St}, Inv2 s →
    Inv2 (mine.foldl (fun s j => if s.done j then s else
      pushJob { s with requeued := s.requeued ++ [j] } j) s) := by
  induction mine with
  | nil => intro s h; exact h
  | cons j rest ih =>
    intro s h
    simp only [List.foldl_cons]
    split
    · exact ih h
    · have h' : Inv2 { s with requeued := s.requeued ++ [j] } :=
        Inv2_frame_jobs (s := s) h rfl rfl rfl rfl rfl
      exact ih (pushJob_Inv2 h' j)

theorem waiters_filter_Inv2 {s : St} (h : Inv2 s) (w : Wid) :
    Inv2 { s with waiters := s.waiters.filter (·.1 ≠ w), jwait := s.jwait.filter (·.w ≠ w) } := by
  refine ⟨(List.filter_sublist.map _).nodup h.waitersNodup, h.mailNodup, ?_, h.mailEligible, ?_, h.handedOk⟩
  · intro m hm hx
    simp only [List.mem_map, List.mem_filter] at hx
    obtain ⟨x, ⟨hx1, _⟩, hx2⟩ := hx
    exact h.mailNotWaiter m hm (List.mem_map.2 ⟨x, hx1, hx2⟩)
  · intro wc hwc k hk hdk
    exact h.waitersStarved wc (List.mem_filter.1 hwc).1 k hk hdk

theorem killConn_Inv2 {s : St} (h : Inv2 s) (w : Wid) : Inv2 (killConn s w) := by
  unfold killConn shutdownConn
  simp only []
  have h0 : Inv2 { s with dying := s.dying.filter (· ≠ w), dead := s.dead ++ [w] } :=
    Inv2_frame_jobs (s := s) h rfl rfl rfl rfl rfl
  have h1 := killMail_Inv2 h0 w
  generalize killMail { s with dying := s.dying.filter (· ≠ w), dead := s.dead ++ [w] } w = s2 at h1 ⊢
  have h2 := waiters_filter_Inv2 h1 w
  apply requeue_fold_Inv2
  exact Inv2_frame_jobs h2 rfl rfl rfl rfl rfl

theorem runOne_Inv2 {s : St} (h : Inv2 s) : Inv2 (runOne s).1 := by
  unfold runOne
  split
  · exact h
  · rename_i w rest _
    exact deliverMail_Inv2 (Inv2_frame_jobs (s := s) (s' := { s with hubq := rest }) h rfl rfl rfl rfl rfl) w
  · rename_i j rest _
    obtain ⟨a, b, c, d, e⟩ := wakeEvent_frame { s with hubq := rest } j
    exact Inv2_frame_jobs (s := s) h a b c d e
  · rename_i w rest _
    exact killConn_Inv2 (Inv2_frame_jobs (s := s) (s' := { s with hubq := rest }) h rfl rfl rfl rfl rfl) w

theorem runAll_Inv2 : ∀ (n : Nat) {s : St}, Inv2 s → Inv2 (runAll n s).1
  | 0, _, h => h
  | n + 1, s, h => by
    unfold runAll
    split
    · exact h
    · exact runAll_Inv2 n (runOne_Inv2 h)

/-! ### operations -/

theorem markFinished_Inv2 {s : St} (h : Inv2 s) (j : Serial) (r : Option (Option Nat)) (e : Err)
    (c : Bool) : Inv2 (markFinished s j r e c) :=
  Inv2_frame h (by simp) (by simp) (by simp) (by simp) (fun k _ => by simp)
    (fun k _ hd => by rw [markFinished_done] at hd; simp at hd; exact hd.1)

theorem modJob_chan {s : St} {j : Serial} {f : Job → Job} (hf : Benign f) (k : Serial) :
    (s.modJob j f).chan k = s.chan k := by
  simp only [St.chan, modJob_getElem?]
  cases s.jobs[k]? with
  | none => rfl
  | some x => by_cases h : j = k <;> simp [h, (hf x).2.1]

theorem modJob_Inv2 {s : St} (h : Inv2 s) (j : Serial) {f : Job → Job} (hf : Benign f) :
    Inv2 (s.modJob j f) :=
  Inv2_frame h rfl rfl rfl rfl (fun k _ => modJob_chan hf k)
    (fun k _ hd => by rw [← modJob_done hf]; exact hd)

theorem dropStep_Inv2 {s : St} (h : Inv2 s) (e : JobId × Serial) : Inv2 (dropStep s e) := by
  unfold dropStep
  split
  · exact h
  · split
    · exact Inv2_frame_jobs (s := s) h rfl rfl rfl rfl rfl
    · split
      · exact modJob_Inv2 h _ (fun y => ⟨rfl, rfl, rfl, rfl, rfl, rfl, rfl⟩)
      · exact h

theorem dropDead_Inv2 {s : St} (h : Inv2 s) : Inv2 (dropDead s) := by
  unfold dropDead
  generalize s.id2job = l
  induction l generalizing s with
  | nil => exact h
  | cons e l ih => simp only [List.foldl_cons]; exact ih (dropStep_Inv2 h e)

theorem not_busy_spec {s : St} {w : Wid} (h : ¬ s.busy w = true) :
    w ∉ s.waiters.map (·.1) ∧ w ∉ s.mail.map (·.w) := by
  simp only [St.busy, Bool.or_eq_true, List.any_eq_true, decide_eq_true_eq, not_or, not_exists,
    not_and] at h
  obtain ⟨⟨⟨⟨h1, h2⟩, _⟩, _⟩, _⟩ := h
  constructor
  · intro hm; obtain ⟨x, hx, hxe⟩ := List.mem_map.1 hm; exact h1 x hx hxe
  · intro hm; obtain ⟨x, hx, hxe⟩ := List.mem_map.1 hm; exact h2 x hx hxe

theorem step_Inv2 {s : St} (hi : Inv s) (h : Inv2 s) (op : Op) : Inv2 (step s op).1 := by
  cases op with
  | add ch prio id timeout payload =>
    simp only [step]
    split
    · exact h
    · apply pushJob_Inv2
      refine Inv2_frame (s := s) h rfl rfl rfl rfl ?_ ?_
      · intro k hk
        have hlt : k < s.jobs.length := hi.1.locValid k (by
          rcases hk with hk | hk
          · exact Or.inl hk
          · exact Or.inr (Or.inl hk))
        simp only [St.chan, append_getElem?_lt s _ hlt]
      · intro k hk hd
        have hlt : k < s.jobs.length := hi.1.locValid k (Or.inl hk)
        rw [append_done_lt s _ hlt] at hd; exact hd
  | pull w chans =>
    simp only [step]
    split
    · exact h
    · rename_i hb
      obtain ⟨a, b⟩ := not_busy_spec hb
      exact pullCore_Inv2 h w chans a b
  | runOne => exact runOne_Inv2 h
  | run => exact runAll_Inv2 _ h
  | finish w id result error =>
    simp only [step]
    split
    · exact h
    · split
      · exact h
      · exact Inv2_frame_jobs (markFinished_Inv2 h _ _ _ _) rfl rfl rfl rfl rfl
  | kill w ids =>
    simp only [step]
    split
    · exact h
    · have : ∀ (l : List JobId) {s : St}, Inv2 s → Inv2 (l.foldl (fun s id =>
          match dictGet s.id2job id with
          | none => s
          | some j => markFinished s j none .killed false) s) := by
        intro l
        induction l with
        | nil => intro s h; exact h
        | cons id l ih =>
          intro s h
          simp only [List.foldl_cons]
          apply ih
          split
          · exact h
          · exact markFinished_Inv2 h _ _ _ _
      exact Inv2_frame_jobs (this ids h) rfl rfl rfl rfl rfl
  | tick dt =>
    simp only [step, handleTimeouts]
    apply preenAll_Inv2
    have : ∀ (l : List Serial) {s : St}, Inv2 s →
        Inv2 (l.foldl (fun s j => markFinished s j none .timeout false) s) := by
      intro l
      induction l with
      | nil => intro s h; exact h
      | cons j l ih => intro s h; exact ih (markFinished_Inv2 h _ _ _ _)
    exact this _ (Inv2_frame_jobs (s := s) h rfl rfl rfl rfl rfl)
  | disconnect w =>
    simp only [step]
    split
    · exact h
    · exact Inv2_frame_jobs (s := s) h rfl rfl rfl rfl rfl
  | wait w ids =>
    simp only [step]
    split
    · exact h
    · split
      · exact h
      · split
        · exact h
        · exact Inv2_frame_jobs (s := s) h rfl rfl rfl rfl rfl
  | info id => exact h
  | setinfo id kv =>
    simp only [step]
    split
    · exact h
    · exact modJob_Inv2 h _ (fun y => ⟨rfl, rfl, rfl, rfl, rfl, rfl, rfl⟩)
  | watchdog => exact dropDead_Inv2 h
  | restart =>
    refine ⟨by simp [step, restart], by simp [step, restart], by simp [step, restart],
      by simp [step, restart], by simp [step, restart], h.handedOk⟩
  | seed t => exact Inv2_frame_jobs (s := s) h rfl rfl rfl rfl rfl

theorem init_Inv2 : Inv2 init := by
  refine ⟨?_, ?_, ?_, ?_, ?_, ?_⟩ <;> simp [init]

theorem Reach.inv2 {s : St} (h : Reach s) : Inv2 s := by
  obtain ⟨ops, rfl⟩ := h
  have : ∀ (ops : List Op) {s : St}, Inv s → Inv2 s → Inv2 (runOps s ops) := by
    intro ops
    induction ops with
    | nil => intro s _ h; exact h
    | cons op ops ih => intro s hi h; exact ih (step_Inv hi op) (step_Inv2 hi h op)
  exact this ops init_Inv init_Inv2

end MwVerif.Qs
