import MwVerif.Model.Qs

namespace MwVerif.Qs

variable {α β : Type} [DecidableEq α]

theorem dictGet_nil (k : α) : dictGet ([] : List (α × β)) k = none := rfl

theorem dictGet_cons (e : α × β) (d : List (α × β)) (k : α) :
    dictGet (e :: d) k = if e.1 = k then some e.2 else dictGet d k := by
  unfold dictGet
  by_cases h : e.1 = k <;> simp [List.find?, h]

theorem dictGet_dictSet_same (d : List (α × β)) (k : α) (v : β) :
    dictGet (dictSet d k v) k = some v := by
  induction d with
  | nil => simp [dictSet, dictGet_cons]
  | cons e d ih =>
    unfold dictSet
    by_cases h : e.1 = k <;> simp [h, dictGet_cons, ih]

theorem dictGet_dictSet_other (d : List (α × β)) (k k' : α) (v : β) (h : k' ≠ k) :
    dictGet (dictSet d k v) k' = dictGet d k' := by
  induction d with
  | nil => simp [dictSet, dictGet_cons, dictGet_nil, Ne.symm h]
  | cons e d ih =>
    unfold dictSet
    by_cases he : e.1 = k
    · subst he; simp [dictGet_cons, Ne.symm h]
    · simp [he, dictGet_cons, ih]

theorem mem_dictSet {d : List (α × β)} {k : α} {v : β} {e : α × β} (h : e ∈ dictSet d k v) :
    e = (k, v) ∨ e ∈ d := by
  induction d with
  | nil => simp [dictSet] at h; exact Or.inl h
  | cons x d ih =>
    unfold dictSet at h
    by_cases hx : x.1 = k
    · simp [hx] at h
      rcases h with h | h
      · left; rw [h, ← hx]
      · right; simp [h]
    · simp [hx] at h
      rcases h with h | h
      · right; simp [h]
      · rcases ih h with h | h
        · exact Or.inl h
        · exact Or.inr (by simp [h])

theorem keys_dictSet (d : List (α × β)) (k : α) (v : β) :
    (dictSet d k v).map (·.1) = if k ∈ d.map (·.1) then d.map (·.1) else d.map (·.1) ++ [k] := by
  induction d with
  | nil => simp [dictSet]
  | cons x d ih =>
    unfold dictSet
    by_cases hx : x.1 = k
    · simp [hx]
    · have hx' : ¬ k = x.1 := fun e => hx e.symm
      simp only [hx, if_false, List.map_cons, ih, List.mem_cons, hx', false_or]
      split <;> simp

theorem nodup_keys_dictSet {d : List (α × β)} (h : (d.map (·.1)).Nodup) (k : α) (v : β) :
    ((dictSet d k v).map (·.1)).Nodup := by
  rw [keys_dictSet]
  split
  · exact h
  · rename_i hk
    exact List.nodup_append.2 ⟨h, by simp, by intro a ha b hb; simp at hb; subst hb; intro e; exact hk (e ▸ ha)⟩

theorem dictGet_some_mem {d : List (α × β)} {k : α} {v : β} (h : dictGet d k = some v) :
    (k, v) ∈ d := by
  induction d with
  | nil => simp [dictGet_nil] at h
  | cons x d ih =>
    rw [dictGet_cons] at h
    by_cases hx : x.1 = k
    · simp [hx] at h; subst hx; subst h; simp
    · simp [hx] at h; exact List.mem_cons_of_mem _ (ih h)

theorem dictGet_of_mem {d : List (α × β)} (hn : (d.map (·.1)).Nodup) {k : α} {v : β}
    (h : (k, v) ∈ d) : dictGet d k = some v := by
  induction d with
  | nil => simp at h
  | cons x d ih =>
    rw [dictGet_cons]
    simp only [List.map_cons, List.nodup_cons] at hn
    rcases List.mem_cons.1 h with h | h
    · subst h; simp
    · have : x.1 ≠ k := by
        intro e
        exact hn.1 (e ▸ List.mem_map_of_mem (f := (·.1)) h)
      simp [this, ih hn.2 h]

theorem dictDel_cons (x : α × β) (d : List (α × β)) (k : α) :
    dictDel (x :: d) k = if x.1 = k then dictDel d k else x :: dictDel d k := by
  unfold dictDel
  by_cases hx : x.1 = k <;> simp [hx]

theorem dictGet_dictDel_same (d : List (α × β)) (k : α) : dictGet (dictDel d k) k = none := by
  induction d with
  | nil => rfl
  | cons x d ih =>
    rw [dictDel_cons]
    by_cases hx : x.1 = k
    · simp [hx, ih]
    · simp [hx, dictGet_cons, ih]

theorem dictGet_dictDel_other (d : List (α × β)) (k k' : α) (h : k' ≠ k) :
    dictGet (dictDel d k) k' = dictGet d k' := by
  induction d with
  | nil => rfl
  | cons x d ih =>
    rw [dictDel_cons]
    by_cases hx : x.1 = k
    · have : x.1 ≠ k' := by rw [hx]; exact Ne.symm h
      simp [hx, dictGet_cons, ih, Ne.symm h]
    · simp [hx, dictGet_cons, ih]

theorem mem_dictDel {d : List (α × β)} {k : α} {e : α × β} (h : e ∈ dictDel d k) : e ∈ d ∧ e.1 ≠ k := by
  unfold dictDel at h
  simpa using h

theorem nodup_keys_dictDel {d : List (α × β)} (h : (d.map (·.1)).Nodup) (k : α) :
    ((dictDel d k).map (·.1)).Nodup := by
  unfold dictDel
  exact (List.filter_sublist.map _).nodup h

end MwVerif.Qs
