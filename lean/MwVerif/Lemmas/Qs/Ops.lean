import MwVerif.Lemmas.Qs.Steps

namespace MwVerif.Qs

/-! ### modJob with a function that keeps identity and outcome fields -/

/-- `f` only touches bookkeeping fields (info, deadline). -/
def Benign (f : Job → Job) : Prop :=
  ∀ x, (f x).id = x.id ∧ (f x).channel = x.channel ∧ (f x).done = x.done ∧ (f x).error = x.error ∧
    (f x).prio = x.prio ∧ (f x).timeout = x.timeout ∧ (f x).result = x.result

theorem modJob_getElem? (s : St) (j k : Serial) (f : Job → Job) :
    (s.modJob j f).jobs[k]? = (s.jobs[k]?).map (fun x => if j = k then f x else x) := by
  simp only [St.modJob, List.getElem?_modify]
  by_cases h : j = k <;> simp [h]

@[simp] theorem modJob_length (s : St) (j : Serial) (f : Job → Job) :
    (s.modJob j f).jobs.length = s.jobs.length := by simp [St.modJob]

theorem modJob_done {s : St} {j : Serial} {f : Job → Job} (hf : Benign f) (k : Serial) :
    (s.modJob j f).done k = s.done k := by
  simp only [St.done, modJob_getElem?]
  cases s.jobs[k]? with
  | none => rfl
  | some x => by_cases h : j = k <;> simp [h, (hf x).2.2.1]

theorem modJob_jid {s : St} {j : Serial} {f : Job → Job} (hf : Benign f) (k : Serial) :
    (s.modJob j f).jid k = s.jid k := by
  simp only [St.jid, modJob_getElem?]
  cases s.jobs[k]? with
  | none => rfl
  | some x => by_cases h : j = k <;> simp [h, (hf x).1]

theorem modJob_core_rest (s : St) (j : Serial) (f : Job → Job) :
    (s.modJob j f).id2job = s.id2job ∧ (s.modJob j f).queued = s.queued ∧
    (s.modJob j f).mail = s.mail ∧ (s.modJob j f).running = s.running := ⟨rfl, rfl, rfl, rfl⟩

theorem modJob_Inv {s : St} (h : Inv s) (j : Serial) {f : Job → Job} (hf : Benign f)
    (hdl : ∀ x, s.jobs[j]? = some x → deadlineSet (f x).deadline = true → x.done = true) :
    Inv (s.modJob j f) := by
  obtain ⟨hw, hl⟩ := h
  constructor
  · refine ⟨?_, ?_, ?_, hw.keysNodup, ?_, ?_, ?_⟩
    · intro k hk; rw [modJob_length]; exact hw.locValid k hk
    · intro k hk hd
      rw [modJob_jid hf]
      exact hw.idOf k (by simpa using hk) (by rw [← modJob_done hf]; exact hd)
    · intro e he; rw [modJob_length, modJob_jid hf]; exact hw.idKey e he
    · intro k n hk hn; rw [modJob_jid hf] at hn; exact hw.numId k n (by simpa using hk) hn
    · intro k x hx hd
      rw [modJob_getElem?] at hx
      cases hy : s.jobs[k]? with
      | none => simp [hy] at hx
      | some y =>
        simp only [hy, Option.map_some, Option.some.injEq] at hx
        by_cases hjk : j = k
        · simp only [hjk, if_true] at hx; subst hx
          rw [(hf y).2.2.1] at hd; rw [(hf y).2.2.2.1]; exact hw.errNone k y hy hd
        · simp only [hjk, if_false] at hx; subst hx; exact hw.errNone k y hy hd
    · intro k x hx hd
      rw [modJob_getElem?] at hx
      cases hy : s.jobs[k]? with
      | none => simp [hy] at hx
      | some y =>
        simp only [hy, Option.map_some, Option.some.injEq] at hx
        by_cases hjk : j = k
        · simp only [hjk, if_true] at hx; subst hx
          rw [(hf y).2.2.1]; exact hdl y (by rw [hjk]; exact hy) hd
        · simp only [hjk, if_false] at hx; subst hx; exact hw.deadlineDone k y hy hd
  · intro k hk hd
    have : (s.modJob j f).loc k = s.loc k := rfl
    rw [this]
    exact hl k (by simpa using hk) (by rw [← modJob_done hf]; exact hd)

/-! ### removing entries from running_jobs that cannot belong to an unfinished job -/

theorem count_map_filter_keep {α β : Type} [DecidableEq β] (p : α → Bool) (f : α → β) (l : List α)
    (b : β) (h : ∀ e ∈ l, f e = b → p e = true) :
    ((l.filter p).map f).count b = (l.map f).count b := by
  induction l with
  | nil => rfl
  | cons x l ih =>
    have ih' := ih (fun e he => h e (List.mem_cons_of_mem _ he))
    by_cases hp : p x
    · simp [hp, List.count_cons, ih']
    · have : f x ≠ b := fun e => hp (h x (by simp) e)
      simp [hp, List.count_cons, ih', this]

/-- dropping running entries that only finished jobs can match keeps the invariant. -/
theorem filterRunning_Inv {s : St} (h : Inv s) (p : Wid × Serial → Bool)
    (hp : ∀ e ∈ s.running, s.done e.2 = false → p e = true) :
    Inv { s with running := s.running.filter p } := by
  obtain ⟨hw, hl⟩ := h
  constructor
  · refine ⟨?_, hw.idOf, hw.idKey, hw.keysNodup, hw.numId, hw.errNone, hw.deadlineDone⟩
    intro k hk
    apply hw.locValid
    rcases hk with hk | hk | hk
    · exact Or.inl hk
    · exact Or.inr (Or.inl hk)
    · right; right
      simp only [St.runJobs, List.mem_map, List.mem_filter] at hk ⊢
      obtain ⟨e, ⟨he, _⟩, rfl⟩ := hk
      exact ⟨e, he, rfl⟩
  · intro k hk hd
    have hd' : s.done k = false := hd
    have := hl k hk hd'
    simp only [St.loc, St.mailJobs, St.runJobs, List.count_nil, Nat.add_zero] at this ⊢
    rw [count_map_filter_keep p (·.2) s.running k (fun e he hek => hp e he (by rw [hek]; exact hd'))]
    exact this

theorem markFinished_Inv {s : St} (h : Inv s) (j : Serial) (r : Option (Option Nat)) (e : Err)
    (c : Bool) : Inv (markFinished s j r e c) :=
  ⟨markFinished_WF s j r e c h.1, markFinished_LocInv s j r e c h.2⟩

theorem finish_Inv {s : St} (h : Inv s) (w : Wid) (id : JobId) (result : Option Nat) (error : Err) :
    Inv (step s (.finish w id result error)).1 := by
  simp only [step]
  split
  · exact h
  · split
    · exact h
    · rename_i j hj
      have h1 := markFinished_Inv h j (some result) error error.truthy
      apply filterRunning_Inv h1
      intro e he hd
      simp only [Bool.not_eq_true', Bool.and_eq_false_iff, decide_eq_false_iff_not]
      by_cases hid : St.jid (markFinished s j (some result) error error.truthy) e.2 = id
      · -- then e.2 is the job that was just finished
        exfalso
        have hlt : e.2 < (markFinished s j (some result) error error.truthy).jobs.length :=
          h1.1.locValid _ (Or.inr (Or.inr (List.mem_map_of_mem he)))
        have := h1.1.idOf e.2 hlt hd
        rw [hid, markFinished_id2job, hj] at this
        injection this with this
        rw [← this, markFinished_done] at hd
        simp at hd
      · right; simpa using hid

theorem kill_fold_Inv (ids : List JobId) : ∀ {s : St}, Inv s →
    let s' := ids.foldl (fun s id =>
      match dictGet s.id2job id with
      | none => s
      | some j => markFinished s j none .killed false) s
    Inv s' ∧ s'.id2job = s.id2job ∧ (∀ k, s'.jid k = s.jid k) ∧
      (∀ k, s.done k = true → s'.done k = true) ∧
      (∀ id ∈ ids, ∀ j, dictGet s.id2job id = some j → s'.done j = true) := by
  induction ids with
  | nil => intro s h; exact ⟨h, rfl, fun _ => rfl, fun _ hk => hk, by simp⟩
  | cons id ids ih =>
    intro s h
    simp only [List.foldl_cons]
    cases hg : dictGet s.id2job id with
    | none =>
      simp only []
      obtain ⟨a, b, c, d, e⟩ := ih h
      refine ⟨a, b, c, d, ?_⟩
      intro id' hid' j hj
      rcases List.mem_cons.1 hid' with rfl | hid'
      · rw [hg] at hj; cases hj
      · exact e id' hid' j hj
    | some j0 =>
      simp only []
      have h1 := markFinished_Inv h j0 none .killed false
      obtain ⟨a, b, c, d, e⟩ := ih h1
      refine ⟨a, by rw [b]; simp, fun k => by rw [c]; simp, ?_, ?_⟩
      · intro k hk; exact d k (markFinished_done_mono s j0 none .killed false k hk)
      · intro id' hid' j hj
        rcases List.mem_cons.1 hid' with rfl | hid'
        · rw [hg] at hj; injection hj with hj; subst hj
          apply d
          rw [markFinished_done]; simp
        · exact e id' hid' j (by simpa using hj)

theorem kill_Inv {s : St} (h : Inv s) (w : Wid) (ids : List JobId) :
    Inv (step s (.kill w ids)).1 := by
  simp only [step]
  split
  · exact h
  · obtain ⟨h1, hid2, hjid, _, hdone⟩ := kill_fold_Inv ids h
    simp only []
    generalize hs1 : List.foldl (fun s id =>
      match dictGet s.id2job id with
      | none => s
      | some j => markFinished s j none .killed false) s ids = s1 at h1 hid2 hjid hdone ⊢
    apply filterRunning_Inv h1
    intro e he hd
    simp only [Bool.not_eq_true', Bool.and_eq_false_iff, decide_eq_false_iff_not]
    by_cases hc : ids.contains (s1.jid e.2) = true
    · exfalso
      have hlt := h1.1.locValid _ (Or.inr (Or.inr (List.mem_map_of_mem he)))
      have := h1.1.idOf e.2 hlt hd
      rw [hid2] at this
      have hmem : s1.jid e.2 ∈ ids := by simpa using hc
      have := hdone _ hmem e.2 this
      rw [this] at hd; cases hd
    · right; simpa using hc

theorem timeouts_fold_Inv (l : List Serial) : ∀ {s : St}, Inv s →
    Inv (l.foldl (fun s j => markFinished s j none .timeout false) s) := by
  induction l with
  | nil => intro s h; exact h
  | cons j l ih => intro s h; exact ih (markFinished_Inv h j none .timeout false)

theorem tick_Inv {s : St} (h : Inv s) (dt : Nat) : Inv (step s (.tick dt)).1 := by
  simp only [step, handleTimeouts]
  have h0 : Inv { s with now := s.now + dt } := Inv_of_core (s := s) rfl h
  have h1 := timeouts_fold_Inv (St.expired { s with now := s.now + dt }) h0
  exact ⟨preenAll_WF h1.1, preenAll_LocInv h1.2⟩

/-! ### add -/

section add
variable (s : St) (x : Job)

theorem append_getElem?_lt {k : Serial} (hk : k < s.jobs.length) :
    (s.jobs ++ [x])[k]? = s.jobs[k]? := List.getElem?_append_left hk

theorem append_getElem?_new : (s.jobs ++ [x])[s.jobs.length]? = some x := by
  simp

theorem append_done_lt {k : Serial} (hk : k < s.jobs.length) :
    St.done { s with jobs := s.jobs ++ [x] } k = s.done k := by
  simp only [St.done, append_getElem?_lt s x hk]

theorem append_jid_lt {k : Serial} (hk : k < s.jobs.length) :
    St.jid { s with jobs := s.jobs ++ [x] } k = s.jid k := by
  simp only [St.jid, append_getElem?_lt s x hk]

theorem append_jid_new : St.jid { s with jobs := s.jobs ++ [x] } s.jobs.length = x.id := by
  simp only [St.jid, append_getElem?_new]

theorem append_done_new : St.done { s with jobs := s.jobs ++ [x] } s.jobs.length = x.done := by
  simp only [St.done, append_getElem?_new]

end add

theorem lt_succ_cases {k n : Nat} (h : k < n + 1) : k < n ∨ k = n := by omega

theorem addNew_Inv {s : St} (h : Inv s) (x : Job) (hxd : x.done = false) (hxe : x.error = .none)
    (hxdl : x.deadline = none)
    (hnum : ∀ n, x.id = .num n → n = s.jobs.length + 1)
    (huniq : ∀ k, k < s.jobs.length → s.done k = false → s.jid k ≠ x.id) :
    Inv (pushJob { s with jobs := s.jobs ++ [x] } s.jobs.length) := by
  obtain ⟨hw, hl⟩ := h
  have hlen : (St.jobs { s with jobs := s.jobs ++ [x] }).length = s.jobs.length + 1 := by simp
  constructor
  · apply pushJob_WF'
    · intro k hk
      rw [hlen]
      exact Nat.lt_succ_of_lt (hw.locValid k hk)
    · intro k hk hd hne
      rw [hlen] at hk
      rcases lt_succ_cases hk with hk | hk
      · rw [append_jid_lt s x hk]
        rw [append_done_lt s x hk] at hd
        exact hw.idOf k hk hd
      · exact absurd hk hne
    · intro k hk hd e
      rw [hlen] at hk
      rcases lt_succ_cases hk with hk | hk
      · rw [append_jid_lt s x hk, append_jid_new] at e
        rw [append_done_lt s x hk] at hd
        exact absurd e (huniq k hk hd)
      · exact hk
    · intro e he
      obtain ⟨a, b⟩ := hw.idKey e he
      rw [hlen]
      exact ⟨Nat.lt_succ_of_lt a, by rw [append_jid_lt s x a]; exact b⟩
    · exact hw.keysNodup
    · intro k n hk hn
      rw [hlen] at hk
      rcases lt_succ_cases hk with hk | hk
      · rw [append_jid_lt s x hk] at hn; exact hw.numId k n hk hn
      · subst hk; rw [append_jid_new] at hn; exact hnum n hn
    · intro k y hy hd
      by_cases hk : k < s.jobs.length
      · rw [show (St.jobs { s with jobs := s.jobs ++ [x] })[k]? = s.jobs[k]? from
          append_getElem?_lt s x hk] at hy
        exact hw.errNone k y hy hd
      · have hk2 : k < s.jobs.length + 1 := by
          have := (List.getElem?_eq_some_iff.1 hy).1; simpa using this
        have hk3 : k = s.jobs.length := Nat.le_antisymm (Nat.lt_succ_iff.1 hk2) (Nat.not_lt.1 hk)
        subst hk3
        rw [show (St.jobs { s with jobs := s.jobs ++ [x] })[s.jobs.length]? = some x from
          append_getElem?_new s x] at hy
        injection hy with hy; subst hy; exact hxe
    · intro k y hy hd
      by_cases hk : k < s.jobs.length
      · rw [show (St.jobs { s with jobs := s.jobs ++ [x] })[k]? = s.jobs[k]? from
          append_getElem?_lt s x hk] at hy
        exact hw.deadlineDone k y hy hd
      · have hk2 : k < s.jobs.length + 1 := by
          have := (List.getElem?_eq_some_iff.1 hy).1; simpa using this
        have hk3 : k = s.jobs.length := Nat.le_antisymm (Nat.lt_succ_iff.1 hk2) (Nat.not_lt.1 hk)
        subst hk3
        rw [show (St.jobs { s with jobs := s.jobs ++ [x] })[s.jobs.length]? = some x from
          append_getElem?_new s x] at hy
        injection hy with hy; subst hy
        rw [hxdl] at hd; simp [deadlineSet] at hd
    · rw [hlen]; exact Nat.lt_succ_self _
  · apply pushJob_LocInv
    intro k hk hd
    rw [hlen] at hk
    have hloc : St.loc { s with jobs := s.jobs ++ [x] } k = s.loc k := rfl
    rw [hloc]
    rcases lt_succ_cases hk with hk | hk
    · rw [append_done_lt s x hk] at hd
      have := hl k hk hd
      have hne : ¬ s.jobs.length = k := by omega
      simp only [List.count_nil, Nat.add_zero, List.count_cons, beq_iff_eq, hne, if_false] at this ⊢
      exact this
    · subst hk
      have hq : s.queued.count s.jobs.length = 0 := List.count_eq_zero.2 (fun hm =>
        Nat.lt_irrefl _ (hw.locValid _ (Or.inl hm)))
      have hm : s.mailJobs.count s.jobs.length = 0 := List.count_eq_zero.2 (fun hm =>
        Nat.lt_irrefl _ (hw.locValid _ (Or.inr (Or.inl hm))))
      have hr : s.runJobs.count s.jobs.length = 0 := List.count_eq_zero.2 (fun hm =>
        Nat.lt_irrefl _ (hw.locValid _ (Or.inr (Or.inr hm))))
      simp [St.loc, hq, hm, hr]

theorem add_Inv {s : St} (h : Inv s) (ch : Chan) (prio : Int) (id : Option Nat) (timeout payload : Nat) :
    Inv (step s (.add ch prio id timeout payload)).1 := by
  simp only [step]
  split
  · exact h
  · rename_i hex
    apply addNew_Inv h
    · rfl
    · rfl
    · rfl
    · intro n hn
      cases id with
      | none => simp at hn; omega
      | some m => simp at hn
    · intro k hk hd e
      cases id with
      | none =>
        simp only at e
        have := h.1.numId k _ hk e
        omega
      | some m =>
        simp only at e
        have hg := h.1.idOf k hk hd
        rw [e] at hg
        simp only [hg] at hex
        have hx : ∃ x, s.jobs[k]? = some x := by
          cases hx : s.jobs[k]? with
          | none => simp [St.done, hx] at hd
          | some x => exact ⟨x, rfl⟩
        obtain ⟨x, hx⟩ := hx
        have hxd : x.done = false := by simpa [St.done, hx] using hd
        have hxe := h.1.errNone k x hx hxd
        simp [St.job?, hx, hxe] at hex

/-! ### the watchdog -/

theorem dropStep_Inv {orig s : St} {e : JobId × Serial}
    (he : dictGet orig.id2job e.1 = some e.2)
    (hsub : ∀ k v, dictGet s.id2job k = some v → dictGet orig.id2job k = some v)
    (h : Inv s) :
    Inv (dropStep s e) ∧
      (∀ k v, dictGet (dropStep s e).id2job k = some v → dictGet orig.id2job k = some v) := by
  unfold dropStep
  split
  · exact ⟨h, hsub⟩
  · rename_i x hx
    split
    · rename_i hc
      simp only [Bool.and_eq_true] at hc
      have hxd : x.done = true := h.1.deadlineDone e.2 x hx hc.1
      have hde : s.done e.2 = true := by simp [St.done, hx, hxd]
      obtain ⟨hw, hl⟩ := h
      refine ⟨⟨⟨hw.locValid, ?_, ?_, nodup_keys_dictDel hw.keysNodup _, hw.numId, hw.errNone,
        hw.deadlineDone⟩, hl⟩, ?_⟩
      · intro k hk hd
        have hk' : k < s.jobs.length := hk
        have hd' : s.done k = false := hd
        have hne : s.jid k ≠ e.1 := by
          intro heq
          have h1 := hw.idOf k hk' hd'
          rw [heq] at h1
          have h2 := hsub _ _ h1
          rw [he] at h2
          injection h2 with h2
          rw [← h2, hde] at hd'; cases hd'
        show dictGet (dictDel s.id2job e.1) (s.jid k) = some k
        rw [dictGet_dictDel_other _ _ _ hne]
        exact hw.idOf k hk' hd'
      · intro e' he'
        exact hw.idKey e' (mem_dictDel he').1
      · intro k v hkv
        by_cases hk : k = e.1
        · subst hk
          have : dictGet (dictDel s.id2job e.1) e.1 = none := dictGet_dictDel_same _ _
          rw [this] at hkv; cases hkv
        · have : dictGet (dictDel s.id2job e.1) k = dictGet s.id2job k := dictGet_dictDel_other _ _ _ hk
          rw [this] at hkv; exact hsub k v hkv
    · split
      · rename_i hc
        simp only [Bool.and_eq_true] at hc
        refine ⟨modJob_Inv h e.2 ?_ ?_, hsub⟩
        · intro y; exact ⟨rfl, rfl, rfl, rfl, rfl, rfl, rfl⟩
        · intro y hy _
          rw [hx] at hy; injection hy with hy; subst hy; exact hc.1
      · exact ⟨h, hsub⟩

theorem dropFold_Inv {orig : St} (l : List (JobId × Serial))
    (hl : ∀ e ∈ l, dictGet orig.id2job e.1 = some e.2) : ∀ {s : St},
    (∀ k v, dictGet s.id2job k = some v → dictGet orig.id2job k = some v) → Inv s →
    Inv (l.foldl dropStep s) := by
  induction l with
  | nil => intro s _ h; exact h
  | cons e l ih =>
    intro s hsub h
    simp only [List.foldl_cons]
    obtain ⟨h1, hsub1⟩ := dropStep_Inv (hl e (by simp)) hsub h
    exact ih (fun e' he' => hl e' (List.mem_cons_of_mem _ he')) hsub1 h1

theorem dropDead_Inv {s : St} (h : Inv s) : Inv (dropDead s) := by
  unfold dropDead
  apply dropFold_Inv (orig := s) s.id2job _ (fun _ _ hkv => hkv) h
  intro e he
  exact dictGet_of_mem h.1.keysNodup (by cases e; exact he)

/-! ### restart -/

theorem nodup_of_map_nodup {α β : Type} (f : α → β) {l : List α} (h : (l.map f).Nodup) : l.Nodup :=
  List.Pairwise.of_map f (fun _ _ hne heq => hne (by rw [heq])) h

theorem count_eq_one_of_nodup_mem {α : Type} [BEq α] [LawfulBEq α] {l : List α} {a : α}
    (hn : l.Nodup) (h : a ∈ l) : l.count a = 1 := by
  induction l with
  | nil => simp at h
  | cons x l ih =>
    rw [List.nodup_cons] at hn
    rcases List.mem_cons.1 h with rfl | h
    · simp [List.count_eq_zero.2 hn.1]
    · have : x ≠ a := fun e => hn.1 (e ▸ h)
      simp [List.count_cons, this, ih hn.2 h]

theorem count_values_of_known {s : St} (hw : WF s) (k : Serial) (hk : k < s.jobs.length)
    (hd : s.done k = false) : (s.id2job.map (·.2)).count k = 1 := by
  have hmem : (s.jid k, k) ∈ s.id2job := dictGet_some_mem (hw.idOf k hk hd)
  have hnd : s.id2job.Nodup := nodup_of_map_nodup _ hw.keysNodup
  have h1 : s.id2job.count (s.jid k, k) = 1 := count_eq_one_of_nodup_mem hnd hmem
  rw [← h1, List.count_eq_countP, List.count_eq_countP, List.countP_map]
  apply List.countP_congr
  intro e he
  simp only [Function.comp, beq_iff_eq]
  constructor
  · intro h; obtain ⟨_, hk2⟩ := hw.idKey e he
    cases e with
    | mk a b => simp only at h hk2 ⊢; subst h; rw [hk2]
  · intro h; rw [h]

theorem restart_Inv {s : St} (h : Inv s) : Inv (restart s) := by
  obtain ⟨hw, hl⟩ := h
  constructor
  · refine ⟨?_, hw.idOf, hw.idKey, hw.keysNodup, hw.numId, hw.errNone, hw.deadlineDone⟩
    intro k hk
    simp only [restart, St.mailJobs, St.runJobs, List.map_nil, List.not_mem_nil, or_false,
      List.mem_filter, List.mem_map] at hk
    obtain ⟨⟨e, he, rfl⟩, _⟩ := hk
    exact (hw.idKey e he).1
  · intro k hk hd
    have hk' : k < s.jobs.length := hk
    have hd' : s.done k = false := hd
    simp only [St.loc, restart, St.mailJobs, St.runJobs, List.map_nil, List.count_nil, Nat.add_zero]
    rw [List.count_filter (by simp [hd'])]
    exact count_values_of_known hw k hk' hd'

/-! ### every operation preserves the invariant -/

theorem step_Inv {s : St} (h : Inv s) (op : Op) : Inv (step s op).1 := by
  cases op with
  | add ch prio id timeout payload => exact add_Inv h ch prio id timeout payload
  | pull w chans =>
    simp only [step]
    split
    · exact h
    · exact pullCore_Inv h w chans
  | runOne => exact runOne_Inv h
  | run => exact runAll_Inv _ h
  | finish w id result error => exact finish_Inv h w id result error
  | kill w ids => exact kill_Inv h w ids
  | tick dt => exact tick_Inv h dt
  | disconnect w =>
    simp only [step]
    split
    · exact h
    · exact Inv_of_core (s := s) rfl h
  | wait w ids =>
    simp only [step]
    split
    · exact h
    · split
      · exact h
      · split
        · exact h
        · exact Inv_of_core (s := s) rfl h
  | info id => exact h
  | setinfo id kv =>
    simp only [step]
    split
    · exact h
    · apply modJob_Inv h
      · intro y; exact ⟨rfl, rfl, rfl, rfl, rfl, rfl, rfl⟩
      · intro y hy hd; exact h.1.deadlineDone _ y hy hd
  | watchdog => exact dropDead_Inv h
  | restart => exact restart_Inv h
  | seed t => exact Inv_of_core (s := s) rfl h

theorem init_Inv : Inv init := by
  constructor
  · refine ⟨?_, ?_, ?_, ?_, ?_, ?_, ?_⟩ <;> simp [init, St.mailJobs, St.runJobs]
  · intro k hk; simp [init] at hk

theorem runOps_Inv (ops : List Op) : ∀ {s : St}, Inv s → Inv (runOps s ops) := by
  induction ops with
  | nil => intro s h; exact h
  | cons op ops ih => intro s h; exact ih (step_Inv h op)

theorem Reach.inv {s : St} (h : Reach s) : Inv s := by
  obtain ⟨ops, rfl⟩ := h
  exact runOps_Inv ops init_Inv

end MwVerif.Qs
