import MwVerif.Model.Merge

namespace MwVerif.Merge

theorem lookup_append_single (k k0 : Nat) (v : J) : ∀ (a : List (Nat × J)),
    lookup k (a ++ [(k0, v)]) = match lookup k a with
      | some x => some x
      | none => if k0 = k then some v else none
  | [] => by simp [lookup]
  | (k', v') :: rest => by
    simp only [List.cons_append, lookup]
    split
    · rfl
    · exact lookup_append_single k k0 v rest

theorem lookup_setKey (k k0 : Nat) (m : J) : ∀ (a : List (Nat × J)),
    lookup k (setKey k0 m a) = if k0 = k then (lookup k a).map (fun _ => m) else lookup k a
  | [] => by simp [lookup, setKey]
  | (k', v') :: rest => by
    have ih := lookup_setKey k k0 m rest
    by_cases h1 : k' = k0 <;> by_cases h2 : k0 = k <;> by_cases h3 : k' = k <;> simp_all [lookup, setKey]

/-- what one key of the merged dictionary holds. -/
def Combined (x y z : Option J) : Prop :=
  match x, y with
  | some a, some b => ∃ m, merge a b = some m ∧ z = some m
  | some a, none => z = some a
  | none, some b => z = some b
  | none, none => z = none

/-- **key by key**: after a successful merge, a key holds the merge of the two values if both sides had it, and
otherwise the value of the side that had it (keys of one answer are distinct, as in any JSON object). -/
theorem lookup_mergeKV : ∀ (b a c : List (Nat × J)), mergeKV a b = some c → (b.map (·.1)).Nodup →
    ∀ k, Combined (lookup k a) (lookup k b) (lookup k c)
  | [], a, c, h, _, k => by
    rw [mergeKV] at h
    cases h
    unfold Combined
    cases lookup k a <;> simp [lookup]
  | (k0, v0) :: rest, a, c, h, hnd, k => by
    simp only [List.map_cons, List.nodup_cons] at hnd
    obtain ⟨hk0, hrest⟩ := hnd
    have hk0' : lookup k0 rest = none := by
      clear h
      induction rest with
      | nil => rfl
      | cons p r ih =>
        simp only [List.map_cons, List.mem_cons, not_or] at hk0
        simp only [List.map_cons, List.nodup_cons] at hrest
        simp only [lookup]
        rw [if_neg (fun e => hk0.1 e.symm)]
        exact ih hk0.2 hrest.2
    rw [mergeKV] at h
    cases hl : lookup k0 a with
    | none =>
      simp only [hl] at h
      have ih := lookup_mergeKV rest _ c h hrest k
      rw [lookup_append_single] at ih
      by_cases hk : k0 = k
      · subst hk
        simp only [hl, if_true, hk0'] at ih
        simp only [lookup, if_true, hl]
        exact ih
      · simp only [lookup, if_neg hk]
        cases hla : lookup k a with
        | none => simpa [hla, hk] using ih
        | some x => simpa [hla] using ih
    | some d =>
      simp only [hl] at h
      cases hm : merge d v0 with
      | none => simp [hm] at h
      | some m =>
        simp only [hm] at h
        have ih := lookup_mergeKV rest _ c h hrest k
        rw [lookup_setKey] at ih
        by_cases hk : k0 = k
        · subst hk
          simp only [if_true, hl, Option.map_some, hk0'] at ih
          simp only [lookup, if_true, hl]
          exact ⟨m, hm, ih⟩
        · simp only [if_neg hk] at ih
          simp only [lookup, if_neg hk]
          exact ih

end MwVerif.Merge
