import MwVerif.Model.Spans

namespace MwVerif.Spans

/-- the cells of a row that are not fillers, by identity, in order. -/
def realIds (row : List Cell) : List Nat := (row.filter (fun c => c.id != 0)).map (·.id)

theorem realIds_cons (c : Cell) (row : List Cell) :
    realIds (c :: row) = if c.id != 0 then c.id :: realIds row else realIds row := by
  unfold realIds
  rw [List.filter_cons]
  split <;> simp

theorem realIds_filler_cons (a b : Nat) (row : List Cell) : realIds (filler a b :: row) = realIds row := by
  rw [realIds_cons]; simp [filler]

theorem realIds_clip_cons (left : Nat) (c : Cell) (row row' : List Cell) (h : realIds row = realIds row') :
    realIds (clip left c :: row) = realIds (c :: row') := by
  rw [realIds_cons, realIds_cons, h]; rfl

theorem realIds_pass1Row (left : Nat) : ∀ (fuel : Nat) (row : List Cell), realIds (pass1Row left fuel row) = realIds row
  | _, [] => by cases ‹Nat› <;> rfl
  | 0, c :: rest => rfl
  | fuel + 1, c :: rest => by
    rw [pass1Row]
    split
    · exact realIds_clip_cons left c _ _ (by rw [realIds_pass1Row left fuel, realIds_filler_cons])
    · exact realIds_clip_cons left c _ _ (realIds_pass1Row left fuel rest)

theorem realIds_insertAt (a b : Nat) : ∀ (i : Nat) (l : List Cell), realIds (insertAt (filler a b) i l) = realIds l
  | _, [] => by rw [insertAt]; exact realIds_filler_cons a b []
  | 0, c :: cs => by rw [insertAt]; exact realIds_filler_cons a b _
  | i + 1, [c] => by
    rw [insertAt, realIds_cons, realIds_filler_cons, realIds_cons]
  | i + 1, c :: d :: cs => by
    rw [insertAt, realIds_cons, realIds_cons, realIds_insertAt a b i (d :: cs)]

theorem realIds_pushDown : ∀ (row : List Cell) (i : Nat) (next : List Cell), realIds (pushDown i row next) = realIds next
  | [], _, _ => rfl
  | c :: row, i, next => by
    rw [pushDown]
    split
    · rw [realIds_pushDown row, realIds_insertAt]
    · exact realIds_pushDown row _ _

theorem realIds_pass2From : ∀ (rows : List (List Cell)) (row : List Cell),
    (pass2From row rows).map realIds = realIds row :: rows.map realIds
  | [], _ => rfl
  | next :: rows, row => by
    rw [pass2From, List.map_cons, realIds_pass2From rows, realIds_pushDown]
    rfl

theorem realIds_pass2 (rows : List (List Cell)) : (pass2 rows).map realIds = rows.map realIds := by
  cases rows with
  | nil => rfl
  | cons r rs => exact realIds_pass2From rs r

theorem realIds_pass1 : ∀ (rows : List (List Cell)), (pass1 rows).map realIds = rows.map realIds
  | [] => rfl
  | r :: rs => by rw [pass1, List.map_cons, List.map_cons, realIds_pass1Row, realIds_pass1 rs]

theorem realIds_pad (n : Nat) (row : List Cell) : realIds (pad n row) = realIds row := by
  unfold pad realIds
  rw [List.filter_append]
  have : (List.replicate (n - row.length) (filler 1 1)).filter (fun c => c.id != 0) = [] := by
    apply List.filter_eq_nil_iff.mpr
    intro a ha
    rw [List.mem_replicate] at ha
    rw [ha.2]; simp [filler]
  rw [this, List.append_nil]

theorem realIds_pass3 (rows : List (List Cell)) : (pass3 rows).map realIds = rows.map realIds := by
  unfold pass3
  rw [List.map_map]
  apply List.map_congr_left
  intro r _
  exact realIds_pad _ r

theorem le_maxLen : ∀ (rows : List (List Cell)) (r : List Cell), r ∈ rows → r.length ≤ maxLen rows
  | [], _, h => by simp at h
  | x :: xs, r, h => by
    rw [maxLen]
    rcases List.mem_cons.mp h with rfl | h'
    · exact Nat.le_max_left _ _
    · exact Nat.le_trans (le_maxLen xs r h') (Nat.le_max_right _ _)

theorem pass3_rectangular (rows : List (List Cell)) : ∀ r ∈ pass3 rows, r.length = maxLen rows := by
  intro r hr
  unfold pass3 at hr
  rw [List.mem_map] at hr
  obtain ⟨r0, h0, rfl⟩ := hr
  have := le_maxLen rows r0 h0
  unfold pad
  rw [List.length_append, List.length_replicate]
  omega

end MwVerif.Spans
