import MwVerif.Model.Tree
/-! lemmas about `replace` on document trees: identities and reading order. -/
namespace MwVerif.Tree

theorem idsL_append (a b : List T) : idsL (a ++ b) = idsL a ++ idsL b := by
  induction a with
  | nil => rfl
  | cons c a ih => simp [idsL, ih]

theorem wordsL_append (a b : List T) : wordsL (a ++ b) = wordsL a ++ wordsL b := by
  induction a with
  | nil => rfl
  | cons c a ih => simp [wordsL, ih]

theorem T.words_eq (t : T) : t.words = t.own ++ wordsL t.children := by
  cases t; rfl

theorem T.ids_eq (t : T) : t.ids = t.id :: idsL t.children := by
  cases t; rfl

mutual
  /-- replacing nodes by lists that carry the same words keeps the reading order. -/
  theorem words_replace (x : Nat) (f : T → List T) (h : ∀ c : T, c.id = x → wordsL (f c) = c.words) :
      ∀ t : T, (t.replace x f).words = t.words
    | .node i k ws cs => by
      rw [T.replace, T.words, T.words, wordsL_replace x f h cs]
  theorem wordsL_replace (x : Nat) (f : T → List T) (h : ∀ c : T, c.id = x → wordsL (f c) = c.words) :
      ∀ cs : List T, wordsL (replaceL x f cs) = wordsL cs
    | [] => rfl
    | c :: cs => by
      rw [replaceL, wordsL_append, wordsL_replace x f h cs, wordsL]
      by_cases hc : c.id = x
      · rw [if_pos hc, h c hc]
      · rw [if_neg hc, wordsL, words_replace x f h c, wordsL, List.append_nil]
end

mutual
  /-- replacing nodes by lists made of their own descendants introduces no identity and
  duplicates none: the identities after are a sublist of those before. -/
  theorem ids_replace (x : Nat) (f : T → List T) (h : ∀ c : T, c.id = x → (idsL (f c)).Sublist c.ids) :
      ∀ t : T, ((t.replace x f).ids).Sublist t.ids
    | .node i k ws cs => by
      rw [T.replace, T.ids, T.ids]
      exact (idsL_replace x f h cs).cons_cons i
  theorem idsL_replace (x : Nat) (f : T → List T) (h : ∀ c : T, c.id = x → (idsL (f c)).Sublist c.ids) :
      ∀ cs : List T, (idsL (replaceL x f cs)).Sublist (idsL cs)
    | [] => List.Sublist.refl _
    | c :: cs => by
      rw [replaceL, idsL_append, idsL]
      apply List.Sublist.append _ (idsL_replace x f h cs)
      by_cases hc : c.id = x
      · rw [if_pos hc]; exact h c hc
      · rw [if_neg hc, idsL, idsL, List.append_nil]; exact ids_replace x f h c
end

end MwVerif.Tree
