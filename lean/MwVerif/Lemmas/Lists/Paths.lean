import MwVerif.Model.Lists

/-!
Where every piece of text of a block of list lines ends up: the ancestors (list kinds, outermost
first) of every piece in the analysed block, in reading order.
-/
namespace MwVerif.Lists

/-- ancestors, line, `true` for the description part of the line (the text after the colon). -/
abbrev Piece := List Kind × Nat × Bool

mutual
  def LT.paths (anc : List Kind) : LT → List Piece
    | .leaf id c => if c then [(anc, id, false), (anc, id, true)] else [(anc, id, false)]
    | .term id => [(anc, id, false)]
    | .desc id => [(anc ++ [.dd], id, true)]
    | .node k its => pathsItems (anc ++ [k]) its
  def pathsItems (anc : List Kind) : List (List LT) → List Piece
    | [] => []
    | it :: its => pathsL anc it ++ pathsItems anc its
  def pathsL (anc : List Kind) : List LT → List Piece
    | [] => []
    | t :: ts => t.paths anc ++ pathsL anc ts
end

/-- what the markup of one line denotes: its text sits under the list kinds of its prefix; the
description of a `… ; term : description` line sits under `:` instead of the final `;`. -/
def expect (anc : List Kind) (l : Line) : List Piece :=
  if l.colon then
    if l.pre.getLast? = some .dt then [(anc ++ l.pre, l.id, false), (anc ++ l.pre.dropLast ++ [.dd], l.id, true)]
    else [(anc ++ l.pre, l.id, false), (anc ++ l.pre, l.id, true)]
  else [(anc ++ l.pre, l.id, false)]

theorem expect_strip (anc : List Kind) (l : Line) (k : Kind) (r : List Kind) (h : l.pre = k :: r)
    (hx : ¬ (k = .dt ∧ r = [] ∧ l.colon = true)) : expect (anc ++ [k]) (strip l) = expect anc l := by
  unfold expect strip
  simp only [h, List.tail_cons, List.append_assoc, List.singleton_append]
  cases r with
  | nil =>
    by_cases hc : l.colon = true
    · have hk : k ≠ .dt := fun e => hx ⟨e, rfl, hc⟩
      simp [hc, hk]
    · simp [hc]
  | cons x r =>
    simp [List.getLast?_cons_cons]

theorem starts_pre {k : Kind} {l : Line} (h : starts k l = true) : ∃ r, l.pre = k :: r := by
  unfold starts at h
  cases hp : l.pre with
  | nil => simp [hp] at h
  | cons x r =>
    simp only [hp, List.head?_cons, Option.some.injEq, decide_eq_true_eq] at h
    exact ⟨r, by rw [h]⟩

theorem cont_pre {k : Kind} {l : Line} (h : cont k l = true) : ∃ x r, l.pre = k :: x :: r := by
  unfold cont at h
  simp only [Bool.and_eq_true, decide_eq_true_eq] at h
  cases hp : l.pre with
  | nil => simp [hp] at h
  | cons y r =>
    cases r with
    | nil => simp [hp] at h
    | cons x r =>
      simp only [hp, List.head?_cons, Option.some.injEq] at h
      exact ⟨x, r, by rw [h.1]⟩

theorem cont_starts {k : Kind} {l : Line} (h : cont k l = true) : starts k l = true := by
  unfold cont at h
  simp only [Bool.and_eq_true] at h
  exact h.1

/-- removing the common first character of the lines of an item and descending into the item is
the same as keeping the lines where they are. -/
theorem flatMap_expect_strip (anc : List Kind) (k : Kind) :
    ∀ (g : List Line), (∀ l ∈ g, ∃ r, l.pre = k :: r ∧ ¬ (k = .dt ∧ r = [] ∧ l.colon = true)) →
      (g.map strip).flatMap (expect (anc ++ [k])) = g.flatMap (expect anc)
  | [], _ => rfl
  | l :: g, h => by
    obtain ⟨r, hr, hx⟩ := h l List.mem_cons_self
    rw [List.map_cons, List.flatMap_cons, List.flatMap_cons, expect_strip anc l k r hr hx,
      flatMap_expect_strip anc k g (fun x hx => h x (List.mem_cons_of_mem _ hx))]

theorem mem_takeWhile_imp {α} {p : α → Bool} : ∀ {l : List α} {x : α}, x ∈ l.takeWhile p → p x = true
  | [], _, h => by simp at h
  | a :: l, x, h => by
    rw [List.takeWhile_cons] at h
    split at h
    · rename_i hp
      rcases List.mem_cons.mp h with rfl | h'
      · exact hp
      · exact mem_takeWhile_imp h'
    · simp at h

/-- the lines of an item satisfy the hypothesis of `flatMap_expect_strip`. -/
theorem item_ok {k : Kind} {l : Line} {ls : List Line} {r : List Kind} (h : l.pre = k :: r)
    (hx : ¬ (k = .dt ∧ r = [] ∧ l.colon = true)) :
    ∀ x ∈ l :: ls.takeWhile (cont k), ∃ r, x.pre = k :: r ∧ ¬ (k = .dt ∧ r = [] ∧ x.colon = true) := by
  intro x hxm
  rcases List.mem_cons.mp hxm with rfl | hm
  · exact ⟨r, h, hx⟩
  · obtain ⟨y, r', hp⟩ := cont_pre (mem_takeWhile_imp hm)
    exact ⟨y :: r', hp, fun hh => by simp at hh⟩

theorem flatMap_split {β} (p : Line → Bool) (f : Line → List β) (ls : List Line) :
    ls.flatMap f = (ls.takeWhile p).flatMap f ++ (ls.dropWhile p).flatMap f := by
  rw [← List.flatMap_append, List.takeWhile_append_dropWhile]

theorem size_cons (l : Line) (ls : List Line) : size (l :: ls) = l.pre.length + 1 + size ls := rfl

/-- both statements for blocks of size at most `n`. -/
def PathsUpTo (n : Nat) : Prop :=
  (∀ ls, size ls ≤ n → ∀ anc, pathsL anc (analyze ls) = ls.flatMap (expect anc)) ∧
  (∀ k ls, size ls ≤ n → k ≠ .dt → (∀ l ∈ ls, starts k l = true) →
    ∀ anc, pathsItems (anc ++ [k]) (items k ls) = ls.flatMap (expect anc))

theorem items_step {n : Nat} (ih : PathsUpTo n) (k : Kind) (ls : List Line) (hs : size ls ≤ n + 1) (hk : k ≠ .dt)
    (hst : ∀ l ∈ ls, starts k l = true) (anc : List Kind) :
    pathsItems (anc ++ [k]) (items k ls) = ls.flatMap (expect anc) := by
  cases ls with
  | nil => rw [items]; rfl
  | cons l ls =>
    obtain ⟨r, hr⟩ := starts_pre (hst l List.mem_cons_self)
    have hne : l.pre ≠ [] := by rw [hr]; exact List.cons_ne_nil _ _
    rw [items, dif_neg hne, pathsItems]
    have h1 : size (itemLines k l ls) ≤ n := by
      have := size_itemLines_lt k l ls hne
      omega
    have h2 : size (ls.dropWhile (cont k)) ≤ n := by
      have := size_dropWhile_le (cont k) ls
      rw [size_cons] at hs
      omega
    rw [ih.1 _ h1, ih.2 k _ h2 hk (fun x hx => hst x (List.mem_cons_of_mem _ ((List.dropWhile_sublist _).subset hx)))]
    unfold itemLines
    rw [flatMap_expect_strip anc k _ (item_ok hr (fun hh => hk hh.1)), List.flatMap_cons, List.flatMap_cons,
      List.append_assoc, ← flatMap_split]

theorem analyze_step {n : Nat} (ih : PathsUpTo n)
    (ihi : ∀ k ls, size ls ≤ n + 1 → k ≠ .dt → (∀ l ∈ ls, starts k l = true) →
      ∀ anc, pathsItems (anc ++ [k]) (items k ls) = ls.flatMap (expect anc))
    (ls : List Line) (hs : size ls ≤ n + 1) (anc : List Kind) :
    pathsL anc (analyze ls) = ls.flatMap (expect anc) := by
  cases ls with
  | nil => rw [analyze]; rfl
  | cons l ls =>
    rw [size_cons] at hs
    have hls : size ls ≤ n := by omega
    have hdw : ∀ p, size (ls.dropWhile p) ≤ n := fun p => by
      have := size_dropWhile_le p ls
      omega
    rw [analyze]
    split
    · -- no prefix
      rename_i hp
      rw [pathsL, ih.1 ls hls, List.flatMap_cons]
      congr 1
      simp [LT.paths, expect, hp]
    · -- `*`
      rename_i r hp
      have hsz : size (l :: ls.takeWhile (starts .ul)) ≤ n + 1 := by
        have := size_takeWhile_le (starts .ul) ls
        rw [size_cons]; omega
      have hall : ∀ x ∈ l :: ls.takeWhile (starts .ul), starts .ul x = true := by
        intro x hx
        rcases List.mem_cons.mp hx with rfl | hm
        · simp [starts, hp]
        · exact mem_takeWhile_imp hm
      rw [pathsL, LT.paths, ihi .ul _ hsz (by decide) hall, ih.1 _ (hdw _), List.flatMap_cons, List.flatMap_cons,
        List.append_assoc, ← flatMap_split]
    · -- `#`
      rename_i r hp
      have hsz : size (l :: ls.takeWhile (starts .ol)) ≤ n + 1 := by
        have := size_takeWhile_le (starts .ol) ls
        rw [size_cons]; omega
      have hall : ∀ x ∈ l :: ls.takeWhile (starts .ol), starts .ol x = true := by
        intro x hx
        rcases List.mem_cons.mp hx with rfl | hm
        · simp [starts, hp]
        · exact mem_takeWhile_imp hm
      rw [pathsL, LT.paths, ihi .ol _ hsz (by decide) hall, ih.1 _ (hdw _), List.flatMap_cons, List.flatMap_cons,
        List.append_assoc, ← flatMap_split]
    · -- `:`
      rename_i r hp
      have hne : l.pre ≠ [] := by rw [hp]; exact List.cons_ne_nil _ _
      have h1 : size (itemLines .dd l ls) ≤ n := by
        have := size_itemLines_lt .dd l ls hne
        rw [size_cons] at this; omega
      rw [pathsL, LT.paths, pathsItems, pathsItems, List.append_nil, ih.1 _ h1, ih.1 _ (hdw _)]
      unfold itemLines
      rw [flatMap_expect_strip anc .dd _ (item_ok hp (fun hh => by simp at hh)), List.flatMap_cons, List.flatMap_cons,
        List.append_assoc, ← flatMap_split]
    · -- `;`
      rename_i r hp
      have hne : l.pre ≠ [] := by rw [hp]; exact List.cons_ne_nil _ _
      split
      · rename_i hc
        obtain ⟨hr, hcol⟩ := hc
        subst hr
        rw [pathsL, pathsL, ih.1 ls hls, List.flatMap_cons]
        simp [LT.paths, pathsItems, pathsL, expect, hp, hcol]
      · rename_i hc
        have h1 : size (itemLines .dt l ls) ≤ n := by
          have := size_itemLines_lt .dt l ls hne
          rw [size_cons] at this; omega
        rw [pathsL, LT.paths, pathsItems, pathsItems, List.append_nil, ih.1 _ h1, ih.1 _ (hdw _)]
        unfold itemLines
        rw [flatMap_expect_strip anc .dt _ (item_ok hp (fun hh => hc ⟨hh.2.1, hh.2.2⟩)), List.flatMap_cons,
          List.flatMap_cons, List.append_assoc, ← flatMap_split]

theorem pathsUpTo : ∀ n, PathsUpTo n
  | 0 => by
    refine ⟨fun ls h anc => ?_, fun k ls h _ _ anc => ?_⟩
    · cases ls with
      | nil => rw [analyze]; rfl
      | cons l ls => rw [size_cons] at h; omega
    · cases ls with
      | nil => rw [items]; rfl
      | cons l ls => rw [size_cons] at h; omega
  | n + 1 => by
    have ih := pathsUpTo n
    have hi := fun k ls hs hk hst anc => items_step ih k ls hs hk hst anc
    exact ⟨fun ls hs anc => analyze_step ih hi ls hs anc, hi⟩

end MwVerif.Lists
