import MwVerif.Model.Templ
/-! The fuel argument of the evaluator model is never what stops a computation: whenever
`fuel + count > limit` the result does not depend on the fuel.  Hence the only source of a
recursion error is the counter check of the code, and the nesting of `flatten` calls is bounded
by `limit + 1` for every template database, cyclic or not. -/
namespace MwVerif.Templ

def isText : Node → Bool
  | .text _ => true
  | _ => false

theorem flatten_text (cfg : Cfg) (f c : Nat) (s : Str) (env : Env) :
    flatten cfg f c (.text s) env = .ok [.str s] := by
  rw [flatten]

theorem flatten_zero (cfg : Cfg) (c : Nat) (node : Node) (env : Env) (h : isText node = false) :
    flatten cfg 0 c node env = .error .recursion := by
  cases node <;> first | (simp [isText] at h; done) | (rw [flatten] <;> first | rfl | (intro s hs; cases hs))

theorem flatten_succ (cfg : Cfg) (f c : Nat) (node : Node) (env : Env) (h : isText node = false) :
    flatten cfg (f + 1) c node env =
      if c > cfg.limit then .error .recursion
      else
        match flattenNode cfg f (c + 1) node env with
        | .ok ps => .ok ps
        | .error .recursion => if c + 1 > 2 then .error .recursion else .ok []
        | .error e => .error e := by
  cases node <;> first | (simp [isText] at h; done) | (rw [flatten] <;> first | rfl | (intro s hs; cases hs))


section congr
variable (cfg : Cfg) (f f' c : Nat)
  (H : ∀ node env, flatten cfg f c node env = flatten cfg f' c node env)
include H

theorem flattenList_congr (xs : List Node) (env : Env) :
    flattenList cfg f c xs env = flattenList cfg f' c xs env := by
  induction xs with
  | nil => rw [flattenList, flattenList]
  | cons x xs ih => rw [flattenList, flattenList, H, ih]

theorem switchScan_congr (ps : List (Node × Node)) (env : Env) (val : Str) :
    switchScan cfg f c ps env val = switchScan cfg f' c ps env val := by
  induction ps with
  | nil => rw [switchScan, switchScan]
  | cons kv ps ih =>
    obtain ⟨k, v⟩ := kv
    rw [switchScan, switchScan, H, ih]

theorem lookupArgs_congr (args : List Node) (caller : Env) (pos : Nat) (n : Str)
    (best : Option (Bool × Node)) :
    lookupArgs cfg f c args caller pos n best = lookupArgs cfg f' c args caller pos n best := by
  induction args generalizing pos best with
  | nil =>
    cases best with
    | none => rw [lookupArgs, lookupArgs]
    | some b =>
      obtain ⟨named, val⟩ := b
      unfold lookupArgs
      simp only [H]
  | cons a rest ih =>
    unfold lookupArgs
    simp only [H, ih]

theorem lookup_congr (env : Env) (n : Str) :
    lookup cfg f c env n = lookup cfg f' c env n := by
  cases env with
  | top => rw [lookup, lookup]
  | call args caller => rw [lookup, lookup, lookupArgs_congr cfg f f' c H]

theorem flattenNode_congr (node : Node) (env : Env) :
    flattenNode cfg f c node env = flattenNode cfg f' c node env := by
  cases node with
  | text s => rw [flattenNode, flattenNode]
  | eq => rw [flattenNode, flattenNode]
  | «opaque» => rw [flattenNode, flattenNode]
  | seq xs => rw [flattenNode, flattenNode, flattenList_congr cfg f f' c H]
  | «variable» name dflt =>
    rw [flattenNode, flattenNode]
    simp only [H, lookup_congr cfg f f' c H]
  | ifNode args =>
    cases args with
    | nil => rw [flattenNode, flattenNode]
    | cons a rest =>
      rw [flattenNode, flattenNode]
      simp only [H]
  | ifeqNode args =>
    cases args with
    | nil => rw [flattenNode, flattenNode]
    | cons a rest =>
      rw [flattenNode, flattenNode]
      simp only [H]
  | switchNode value cases =>
    rw [flattenNode, flattenNode]
    simp only [H, switchScan_congr cfg f f' c H]
  | template name args =>
    rw [flattenNode, flattenNode]
    simp only [H]

end congr

/-- the fuel is irrelevant as soon as `fuel + count > limit`. -/
theorem flatten_fuel (cfg : Cfg) : ∀ (f f' c : Nat), f + c > cfg.limit → f' + c > cfg.limit →
    ∀ node env, flatten cfg f c node env = flatten cfg f' c node env := by
  intro f
  induction f with
  | zero =>
    intro f' c h h' node env
    cases ht : isText node with
    | true => cases node <;> simp [isText] at ht; rw [flatten_text, flatten_text]
    | false =>
      rw [flatten_zero cfg c node env ht]
      cases f' with
      | zero => rw [flatten_zero cfg c node env ht]
      | succ k' =>
        rw [flatten_succ cfg k' c node env ht, if_pos (by omega)]
  | succ k ih =>
    intro f' c h h' node env
    cases ht : isText node with
    | true => cases node <;> simp [isText] at ht; rw [flatten_text, flatten_text]
    | false =>
      rw [flatten_succ cfg k c node env ht]
      cases f' with
      | zero =>
        rw [flatten_zero cfg c node env ht, if_pos (by omega)]
      | succ k' =>
        rw [flatten_succ cfg k' c node env ht]
        by_cases hc : c > cfg.limit
        · rw [if_pos hc, if_pos hc]
        · rw [if_neg hc, if_neg hc,
            flattenNode_congr cfg k k' (c + 1) (ih k' (c + 1) (by omega) (by omega)) node env]

end MwVerif.Templ
