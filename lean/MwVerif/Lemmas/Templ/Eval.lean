import MwVerif.Lemmas.Templ.Fuel
import Std.Data.String.ToNat
/-! evaluation lemmas for the template evaluator model on static (text) parts. -/
namespace MwVerif.Templ

def noMaybeNl : List Piece → Bool
  | [] => true
  | .maybeNl :: _ => false
  | _ :: r => noMaybeNl r

theorem insertNewlinesAux_plain (prev ps : List Piece) (h : noMaybeNl ps = true) :
    insertNewlinesAux prev ps = prev.reverse ++ ps := by
  induction ps generalizing prev with
  | nil => simp [insertNewlinesAux]
  | cons p ps ih =>
    cases p with
    | maybeNl => simp [noMaybeNl] at h
    | str s =>
      have h' : noMaybeNl ps = true := by simpa [noMaybeNl] using h
      rw [insertNewlinesAux, ih _ h']
      · simp
      · intro hh; cases hh
    | mark =>
      have h' : noMaybeNl ps = true := by simpa [noMaybeNl] using h
      rw [insertNewlinesAux, ih _ h']
      · simp
      · intro hh; cases hh

theorem insertNewlines_plain (ps : List Piece) (h : noMaybeNl ps = true) : insertNewlines ps = ps := by
  unfold insertNewlines; rw [insertNewlinesAux_plain _ _ h]; simp

theorem noMaybeNl_strs (ss : List Str) : noMaybeNl (ss.map Piece.str) = true := by
  induction ss with
  | nil => rfl
  | cons s ss ih => simpa [noMaybeNl] using ih

theorem joinPieces_strs (ss : List Str) : joinPieces (ss.map Piece.str) = ss.flatten := by
  unfold joinPieces
  induction ss with
  | nil => rfl
  | cons s ss ih => simp [Piece.text, List.map_map] at ih ⊢; exact ih

theorem flattenList_texts (cfg : Cfg) (f c : Nat) (ss : List Str) (env : Env) :
    flattenList cfg f c (ss.map Node.text) env = .ok (ss.map Piece.str) := by
  induction ss with
  | nil => simp [flattenList]
  | cons s ss ih => simp only [List.map_cons]; rw [flattenList, flatten_text, ih]; rfl

/-- a sequence of strings flattens to those strings, provided the counter admits one more level. -/
theorem flatten_seq_texts (cfg : Cfg) (f c : Nat) (ss : List Str) (env : Env) (hc : c ≤ cfg.limit) :
    flatten cfg (f + 1) c (.seq (ss.map Node.text)) env = .ok (ss.map Piece.str) := by
  rw [flatten_succ cfg f c _ env rfl, if_neg (by omega), flattenNode, flattenList_texts]

theorem natToStr_inj {a b : Nat} (h : natToStr a = natToStr b) : a = b := by
  unfold natToStr at h
  have h2 : toString a = toString b := String.toList_inj.mp h
  exact Nat.repr_injective h2

end MwVerif.Templ
