import MwVerif.Model.Expr
/-! correctness of the shunting-yard loop of `#expr` on every well-parenthesised expression. -/
namespace MwVerif.Expr

/-- output emitted for `e` before its pending spine is flushed. -/
def Ast.body : Ast → List Out
  | .num v => [.num v]
  | .paren e => e.postorder
  | .un _ e => e.body
  | .bin _ l r => l.postorder ++ r.body

def Ast.endsNum : Ast → Bool
  | .num _ => true
  | .paren _ => false
  | .un _ e => e.endsNum
  | .bin _ _ r => r.endsNum

def pend (ops : List String) : Stack := ops.reverse.map some
def outOps (ops : List String) : List Out := ops.reverse.map Out.op

theorem body_spine (e : Ast) : e.body ++ outOps e.spine = e.postorder := by
  induction e with
  | num v => simp [Ast.body, Ast.spine, outOps, Ast.postorder]
  | paren e _ => simp [Ast.body, Ast.spine, outOps, Ast.postorder]
  | un op e ih =>
    simp only [Ast.body, Ast.spine, Ast.postorder, outOps, List.reverse_cons, List.map_append] at ih ⊢
    rw [← List.append_assoc, ih]; rfl
  | bin op l r _ ihr =>
    simp only [Ast.body, Ast.spine, Ast.postorder, outOps, List.reverse_cons, List.map_append] at ihr ⊢
    rw [List.append_assoc, ← List.append_assoc r.body, ihr]; simp

/-- the operators above the innermost "(" -/
def topSeg : Stack → List String
  | some o :: r => o :: topSeg r
  | _ => []

theorem popWhile_stop (t : Tbl) (p : Nat) (stk : Stack) (out : List Out)
    (h : ∀ o ∈ topSeg stk, precOf t o < p) (hk : ∀ o ∈ topSeg stk, (t.prec o).isSome) :
    popWhile t p stk out = (stk, out) := by
  cases stk with
  | nil => rfl
  | cons x rest =>
    cases x with
    | none => rfl
    | some o =>
      have ho := h o (by simp [topSeg])
      have hs := hk o (by simp [topSeg])
      unfold popWhile
      cases hq : t.prec o with
      | none => simp [hq] at hs
      | some q =>
        simp only
        have : ¬ p ≤ q := by simp [precOf, hq] at ho; omega
        rw [if_neg this]

theorem popWhile_all' (t : Tbl) (p : Nat) (rs : List String) (stk : Stack) (out : List Out)
    (h : ∀ o ∈ rs, p ≤ precOf t o) (hk : ∀ o ∈ rs, (t.prec o).isSome) :
    popWhile t p (rs.map some ++ stk) out = popWhile t p stk (out ++ rs.map Out.op) := by
  induction rs generalizing out with
  | nil => simp
  | cons o rs ih =>
    have ho := h o (by simp)
    have hs := hk o (by simp)
    simp only [List.map_cons, List.cons_append]
    rw [popWhile]
    cases hq : t.prec o with
    | none => simp [hq] at hs
    | some q =>
      simp only
      have : p ≤ q := by simpa [precOf, hq] using ho
      rw [if_pos this, ih _ (fun x hx => h x (by simp [hx])) (fun x hx => hk x (by simp [hx]))]
      simp

theorem popWhile_all (t : Tbl) (p : Nat) (ops : List String) (stk : Stack) (out : List Out)
    (h : ∀ o ∈ ops, p ≤ precOf t o) (hk : ∀ o ∈ ops, (t.prec o).isSome) :
    popWhile t p (pend ops ++ stk) out = popWhile t p stk (out ++ outOps ops) :=
  popWhile_all' t p ops.reverse stk out (fun o ho => h o (by simpa using ho)) (fun o ho => hk o (by simpa using ho))

theorem closeParen_pend' (rs : List String) (stk : Stack) (out : List Out) :
    closeParen (rs.map some ++ none :: stk) out = .ok (stk, out ++ rs.map Out.op) := by
  induction rs generalizing out with
  | nil => simp [closeParen]
  | cons o rs ih => simp only [List.map_cons, List.cons_append]; rw [closeParen, ih]; simp

theorem closeParen_pend (ops : List String) (stk : Stack) (out : List Out) :
    closeParen (pend ops ++ none :: stk) out = .ok (stk, out ++ outOps ops) :=
  closeParen_pend' ops.reverse stk out

theorem flush_pend' (rs : List String) (out : List Out) :
    flush (rs.map some) out = .ok (out ++ rs.map Out.op) := by
  induction rs generalizing out with
  | nil => simp [flush]
  | cons o rs ih => simp only [List.map_cons]; rw [flush, ih]; simp

theorem flush_pend (ops : List String) (out : List Out) :
    flush (pend ops) out = .ok (out ++ outOps ops) := flush_pend' ops.reverse out

theorem run_append (t : Tbl) (s : St) (a b : List Tok) :
    run t s (a ++ b) = match run t s a with
      | .error e => .error e
      | .ok s' => run t s' b := by
  induction a generalizing s with
  | nil => rfl
  | cons x a ih =>
    simp only [List.cons_append, run]
    cases step t s x with
    | error e => rfl
    | ok s' => exact ih s'


/-! ### the main lemma -/

def stackOk (t : Tbl) (stk : Stack) : Ast → Prop
  | .bin op _ _ => ∀ o ∈ topSeg stk, precOf t o < precOf t op
  | _ => True

def stkKnown (t : Tbl) (stk : Stack) : Prop := ∀ o ∈ topSeg stk, (t.prec o).isSome = true

theorem spine_known (t : Tbl) (e : Ast) (hok : e.ok t = true) : ∀ o ∈ e.spine, (t.prec o).isSome = true := by
  induction e with
  | num v => simp [Ast.spine]
  | paren e _ => simp [Ast.spine]
  | un op e ih =>
    simp only [Ast.ok, Bool.and_eq_true] at hok
    intro o ho
    simp only [Ast.spine, List.mem_cons] at ho
    rcases ho with rfl | ho
    · exact hok.1.1.1.2
    · exact ih hok.1.2 o ho
  | bin op l r _ ihr =>
    simp only [Ast.ok, Bool.and_eq_true] at hok
    intro o ho
    simp only [Ast.spine, List.mem_cons] at ho
    rcases ho with rfl | ho
    · exact hok.1.1.1.1.1
    · exact ihr hok.1.1.2 o ho

theorem topSeg_pend (ops : List String) (stk : Stack) : topSeg (pend ops ++ stk) = ops.reverse ++ topSeg stk := by
  unfold pend
  induction ops.reverse with
  | nil => rfl
  | cons o rs ih => simp [topSeg, ih]

theorem run_ast (t : Tbl) (e : Ast) (hok : e.ok t = true) :
    ∀ (s : St) (rest : List Tok), s.prevOp = true → s.prevOperand = false → stackOk t s.stk e →
      stkKnown t s.stk →
      run t s (e.toks ++ rest) =
        run t { out := s.out ++ e.body, stk := pend e.spine ++ s.stk, prevOperand := e.endsNum,
                prevOp := false } rest := by
  induction e with
  | num v =>
    intro s rest _ h2 _ _
    simp only [Ast.toks, List.cons_append, List.nil_append, run, step, h2]
    simp [Ast.body, Ast.spine, Ast.endsNum, pend]
  | paren e ih =>
    intro s rest _ _ _ hkn
    simp only [Ast.ok] at hok
    simp only [Ast.toks, List.cons_append, List.append_assoc, run, step]
    rw [ih hok _ _ rfl rfl (by cases e <;> simp [stackOk, topSeg]) (by simp [stkKnown, topSeg])]
    simp only [List.cons_append, List.nil_append, run, step, closeParen_pend]
    simp [Ast.body, Ast.spine, Ast.endsNum, pend, body_spine]
  | un op e ih =>
    intro s rest h1 _ _ hkn
    simp only [Ast.ok, Bool.and_eq_true] at hok
    obtain ⟨⟨⟨⟨hp, hpu⟩, hun⟩, hoke⟩, hpre⟩ := hok
    obtain ⟨p0, hp0⟩ := Option.isSome_iff_exists.mp hp
    obtain ⟨p1, hp1⟩ := Option.isSome_iff_exists.mp hpu
    have hconv : convertUnary s.prevOp op = unaryName op := by rw [h1]; rfl
    simp only [Ast.toks, List.cons_append, run, step, hp0, hconv, hp1, hun, if_true]
    rw [ih hoke _ _ rfl rfl (by cases e <;> simp_all [stackOk, Ast.prefixOperand])
      (by intro o ho; simp only [topSeg, List.mem_cons] at ho; rcases ho with rfl | ho
          · exact hpu
          · exact hkn o ho)]
    simp [Ast.body, Ast.spine, Ast.endsNum, pend]
  | bin op l r ihl ihr =>
    intro s rest h1 h2 hst hkn
    simp only [Ast.ok, Bool.and_eq_true, Bool.not_eq_true'] at hok
    obtain ⟨⟨⟨⟨⟨hp, hnu⟩, hokl⟩, hokr⟩, hsp⟩, hhead⟩ := hok
    obtain ⟨p, hp'⟩ := Option.isSome_iff_exists.mp hp
    have hpo : precOf t op = p := by simp [precOf, hp']
    simp only [stackOk] at hst
    have hspl : ∀ o ∈ l.spine, p ≤ precOf t o := by
      intro o ho; have := List.all_eq_true.mp hsp o ho; simpa [hpo] using this
    -- the left operand
    have hstl : stackOk t s.stk l := by
      cases l with
      | bin q a b =>
        intro o ho
        have hq : p ≤ precOf t q := hspl q (by simp [Ast.spine])
        have := hst o ho; omega
      | _ => trivial
    simp only [Ast.toks, List.append_assoc, List.cons_append]
    rw [ihl hokl s _ h1 h2 hstl hkn]
    -- the operator token
    have hpop : popWhile t p (pend l.spine ++ s.stk) (s.out ++ l.body) = (s.stk, s.out ++ l.postorder) := by
      rw [popWhile_all t p l.spine s.stk _ hspl (spine_known t l hokl),
        popWhile_stop t p s.stk _ (fun o ho => by have := hst o ho; omega) hkn,
        List.append_assoc, body_spine]
    simp only [run, step, hp', convertUnary, if_false, hnu, hpop, Bool.false_eq_true]
    -- the right operand
    have hstr : stackOk t (some op :: s.stk) r := by
      cases r with
      | bin q a b =>
        intro o ho
        simp only [topSeg, List.mem_cons] at ho
        have hq : p < precOf t q := by simpa [Ast.headOk, hpo] using hhead
        rcases ho with rfl | ho
        · omega
        · have := hst o ho; omega
      | _ => trivial
    have hknr : stkKnown t (some op :: s.stk) := by
      intro o ho
      simp only [topSeg, List.mem_cons] at ho
      rcases ho with rfl | ho
      · exact hp
      · exact hkn o ho
    rw [ihr hokr _ _ rfl rfl hstr hknr]
    simp [Ast.body, Ast.spine, Ast.endsNum, pend]

/-- the reverse Polish output of every well-parenthesised expression is its post-order. -/
theorem rpn_correct (t : Tbl) (e : Ast) (hok : e.ok t = true) : rpn t e.toks = .ok e.postorder := by
  unfold rpn
  have := run_ast t e hok {} [] rfl rfl (by cases e <;> simp [stackOk, topSeg]) (by simp [stkKnown, topSeg])
  rw [List.append_nil] at this
  rw [this]
  simp only [run, List.append_nil, List.nil_append]
  rw [flush_pend, body_spine]

end MwVerif.Expr
