import MwVerif.Model.Fetch
/-! the work-list invariant and its consequences -/
namespace MwVerif.Fetch

variable {α : Type} [DecidableEq α]

def add1 (x : α) (s : St α) : St α :=
  if x ∈ s.seen then s else { seen := s.seen ++ [x], todo := s.todo ++ [x] }

theorem addNew_nil (s : St α) : addNew [] s = s := rfl
theorem addNew_cons (x : α) (xs : List α) (s : St α) : addNew (x :: xs) s = addNew xs (add1 x s) := rfl

theorem add1_seen (x : α) (s : St α) (y : α) : y ∈ (add1 x s).seen ↔ y ∈ s.seen ∨ y = x := by
  unfold add1; split
  · constructor
    · exact Or.inl
    · rintro (h | rfl) <;> assumption
  · simp

theorem add1_todo (x : α) (s : St α) (y : α) : y ∈ (add1 x s).todo ↔ y ∈ s.todo ∨ (y = x ∧ x ∉ s.seen) := by
  unfold add1; split
  · rename_i h; constructor
    · exact Or.inl
    · rintro (h' | ⟨_, h'⟩)
      · exact h'
      · exact absurd h h'
  · rename_i h; simp [h]

theorem addNew_seen (xs : List α) (s : St α) (y : α) : y ∈ (addNew xs s).seen ↔ y ∈ s.seen ∨ y ∈ xs := by
  induction xs generalizing s with
  | nil => simp [addNew_nil]
  | cons x xs ih =>
    rw [addNew_cons, ih, add1_seen]
    simp only [List.mem_cons]
    constructor
    · rintro ((h | h) | h)
      · exact .inl h
      · exact .inr (.inl h)
      · exact .inr (.inr h)
    · rintro (h | h | h)
      · exact .inl (.inl h)
      · exact .inl (.inr h)
      · exact .inr h

theorem addNew_todo (xs : List α) (s : St α) (y : α) :
    y ∈ (addNew xs s).todo ↔ y ∈ s.todo ∨ (y ∈ xs ∧ y ∉ s.seen) := by
  induction xs generalizing s with
  | nil => simp [addNew_nil]
  | cons x xs ih =>
    rw [addNew_cons, ih, add1_todo, add1_seen]
    simp only [List.mem_cons]
    constructor
    · rintro ((h | ⟨rfl, h⟩) | ⟨h1, h2⟩)
      · exact .inl h
      · exact .inr ⟨.inl rfl, h⟩
      · exact .inr ⟨.inr h1, fun h => h2 (.inl h)⟩
    · rintro (h | ⟨h1 | h1, h2⟩)
      · exact .inl (.inl h)
      · exact .inl (.inr ⟨h1, h1 ▸ h2⟩)
      · by_cases hx : y = x
        · exact .inl (.inr ⟨hx, hx ▸ h2⟩)
        · exact .inr ⟨h1, fun h => h.elim h2 hx⟩

theorem add1_nodup (x : α) (s : St α) (hsub : ∀ y ∈ s.todo, y ∈ s.seen) (hn : s.todo.Nodup) :
    (add1 x s).todo.Nodup := by
  unfold add1; split
  · exact hn
  · rename_i h
    simp only
    rw [List.nodup_append]
    refine ⟨hn, by simp, ?_⟩
    intro a ha b hb
    simp only [List.mem_singleton] at hb
    subst hb
    intro hab; subst hab
    exact h (hsub _ ha)

theorem add1_sub (x : α) (s : St α) (hsub : ∀ y ∈ s.todo, y ∈ s.seen) : ∀ y ∈ (add1 x s).todo, y ∈ (add1 x s).seen := by
  intro y hy
  rw [add1_todo] at hy; rw [add1_seen]
  rcases hy with h | ⟨h, _⟩
  · exact .inl (hsub y h)
  · exact .inr h

theorem addNew_nodup (xs : List α) (s : St α) (hsub : ∀ y ∈ s.todo, y ∈ s.seen) (hn : s.todo.Nodup) :
    (addNew xs s).todo.Nodup := by
  induction xs generalizing s with
  | nil => exact hn
  | cons x xs ih => rw [addNew_cons]; exact ih _ (add1_sub x s hsub) (add1_nodup x s hsub hn)

/-- the invariant of the work-list -/
structure Inv (succ : α → List α) (roots : List α) (s : St α) : Prop where
  roots_seen : ∀ r ∈ roots, r ∈ s.seen
  seen_reach : ∀ x ∈ s.seen, Reach succ roots x
  done_closed : ∀ x ∈ s.seen, x ∉ s.todo → ∀ y ∈ succ x, y ∈ s.seen
  todo_seen : ∀ x ∈ s.todo, x ∈ s.seen
  todo_nodup : s.todo.Nodup

theorem inv_init (succ : α → List α) (roots : List α) : Inv succ roots (init roots) := by
  unfold init
  refine ⟨?_, ?_, ?_, ?_, ?_⟩
  · intro r hr; rw [addNew_seen]; exact .inr hr
  · intro x hx; rw [addNew_seen] at hx
    rcases hx with hx | hx
    · cases hx
    · exact .root hx
  · intro x hx hnx
    rw [addNew_seen] at hx; rw [addNew_todo] at hnx
    rcases hx with hx | hx
    · cases hx
    · exact absurd (.inr ⟨hx, by simp⟩) hnx
  · intro x hx; rw [addNew_todo] at hx; rw [addNew_seen]
    rcases hx with hx | ⟨hx, _⟩
    · cases hx
    · exact .inr hx
  · exact addNew_nodup _ _ (by simp) (by simp)

theorem inv_answer (succ : α → List α) (roots : List α) (s : St α) (x : α) (h : Inv succ roots s)
    (hx : x ∈ s.todo) : Inv succ roots (answer succ x s) := by
  unfold answer
  have hsub' : ∀ y ∈ (s.todo.erase x), y ∈ s.seen := fun y hy => h.todo_seen y (List.mem_of_mem_erase hy)
  have hn' : (s.todo.erase x).Nodup := h.todo_nodup.erase x
  refine ⟨?_, ?_, ?_, ?_, ?_⟩
  · intro r hr; rw [addNew_seen]; exact .inl (h.roots_seen r hr)
  · intro y hy
    rw [addNew_seen] at hy
    rcases hy with hy | hy
    · exact h.seen_reach y hy
    · exact .step (h.seen_reach x (h.todo_seen x hx)) hy
  · intro y hy hny z hz
    rw [addNew_seen] at hy ⊢
    rw [addNew_todo] at hny
    simp only [not_or, not_and, Decidable.not_not] at hny
    rcases hy with hy | hy
    · by_cases hyx : y = x
      · subst hyx; exact .inr hz
      · have : y ∉ s.todo := fun hyt => hny.1 ((List.mem_erase_of_ne hyx).mpr hyt)
        exact .inl (h.done_closed y hy this z hz)
    · have hys : y ∈ s.seen := hny.2 hy
      by_cases hyx : y = x
      · subst hyx; exact .inr hz
      · have : y ∉ s.todo := fun hyt => hny.1 ((List.mem_erase_of_ne hyx).mpr hyt)
        exact .inl (h.done_closed y hys this z hz)
  · intro y hy
    rw [addNew_todo] at hy; rw [addNew_seen]
    rcases hy with hy | ⟨hy, _⟩
    · exact .inl (hsub' y hy)
    · exact .inr hy
  · exact addNew_nodup _ _ hsub' hn'

theorem inv_run (succ : α → List α) (roots : List α) (sched : List α) (s : St α) (h : Inv succ roots s) :
    Inv succ roots (run succ s sched) := by
  induction sched generalizing s with
  | nil => exact h
  | cons x xs ih =>
    rw [run]; split
    · rename_i hx; exact ih _ (inv_answer succ roots s x h hx)
    · exact ih _ h

end MwVerif.Fetch
