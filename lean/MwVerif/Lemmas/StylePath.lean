import MwVerif.Model.Style
/-! the candidate loop of `compute_path`: path lengths and the bound on live candidates. -/
namespace MwVerif.Style

theorem mk_path (prev : State) (a : Nat) (b i : Bool) : (mk prev a b i).path.length = prev.path.length + 1 := by
  simp [mk]

theorem next2_path (prev : State) (a : Nat) (b i : Bool) : ∀ s ∈ next2 prev a b i, s.path.length = prev.path.length + 1 := by
  intro s hs; simp only [next2, List.mem_singleton] at hs; subst hs; exact mk_path ..

theorem next3_path (prev : State) (a : Nat) (b i : Bool) : ∀ s ∈ next3 prev a b i, s.path.length = prev.path.length + 1 := by
  intro s hs
  simp only [next3, List.mem_cons] at hs
  rcases hs with rfl | hs
  · exact mk_path ..
  · exact next2_path _ _ _ _ s hs

theorem next5_path (prev : State) (a : Nat) (b i : Bool) : ∀ s ∈ next5 prev a b i, s.path.length = prev.path.length + 1 := by
  intro s hs
  simp only [next5, next4, List.mem_append] at hs
  rcases hs with (hs | hs | hs) | hs
  · exact next3_path _ _ _ _ s hs
  · exact next2_path _ _ _ _ s hs
  · exact next2_path _ _ _ _ s hs
  · exact next3_path _ _ _ _ s hs

theorem getNext_path (prev : State) (count : Nat) : ∀ s ∈ getNext prev count, s.path.length = prev.path.length + 1 := by
  intro s hs
  unfold getNext at hs
  split at hs
  · cases hs
  · split at hs
    · exact next2_path _ _ _ _ s hs
    · split at hs
      · exact next3_path _ _ _ _ s hs
      · split at hs
        · exact next3_path _ _ _ _ s hs
        · exact next5_path _ _ _ _ s hs

theorem getNext_length (prev : State) (count : Nat) (h : 2 ≤ count) :
    1 ≤ (getNext prev count).length ∧ (getNext prev count).length ≤ 6 := by
  unfold getNext
  rw [if_neg (by omega)]
  split
  · simp [next2]
  · split
    · simp [next3, next2]
    · split
      · simp [next4, next3, next2]
      · simp [next5, next4, next3, next2]

/-- what the selection (sort by score, keep the best 32, or only the best when it is plain) may do -/
structure SelOk (sel : List State → List State) : Prop where
  sub : ∀ l s, s ∈ sel l → s ∈ l
  nonempty : ∀ l, l ≠ [] → sel l ≠ []
  bound : ∀ l, (sel l).length ≤ 32

theorem flatMap_ne_nil {α β : Type} (f : α → List β) : ∀ (l : List α), l ≠ [] → (∀ a ∈ l, f a ≠ []) → l.flatMap f ≠ []
  | [], h, _ => absurd rfl h
  | a :: l, _, hf => by
    simp only [List.flatMap_cons]
    intro he
    have := hf a (by simp)
    exact this (List.append_eq_nil_iff.mp he).1

theorem step_inv (sel : List State → List State) (hs : SelOk sel) (states : List State) (count n : Nat)
    (hc : 2 ≤ count) (hne : states ≠ []) (hlen : ∀ s ∈ states, s.path.length = n) :
    stepStates sel states count ≠ [] ∧ (stepStates sel states count).length ≤ 32 ∧
      ∀ s ∈ stepStates sel states count, s.path.length = n + 1 := by
  unfold stepStates
  refine ⟨?_, hs.bound _, ?_⟩
  · apply hs.nonempty
    apply flatMap_ne_nil _ _ hne
    intro a _ he
    have := (getNext_length a count hc).1
    rw [he] at this; simp at this
  · intro s hmem
    have := hs.sub _ _ hmem
    simp only [List.mem_flatMap] at this
    obtain ⟨p, hp, hsp⟩ := this
    rw [getNext_path p count s hsp, hlen p hp]

theorem run_inv (sel : List State → List State) (hs : SelOk sel) :
    ∀ (counts : List Nat) (states : List State) (n : Nat), (∀ c ∈ counts, 2 ≤ c) → states ≠ [] →
      (∀ s ∈ states, s.path.length = n) →
      runStates sel states counts ≠ [] ∧ ∀ s ∈ runStates sel states counts, s.path.length = n + counts.length := by
  intro counts
  induction counts with
  | nil => intro states n _ hne hl; exact ⟨by simpa [runStates] using hne, by simpa [runStates] using hl⟩
  | cons c cs ih =>
    intro states n hc hne hl
    obtain ⟨h1, _, h3⟩ := step_inv sel hs states c n (hc c (by simp)) hne hl
    have := ih (stepStates sel states c) (n + 1) (fun x hx => hc x (by simp [hx])) h1 h3
    rw [runStates]
    refine ⟨this.1, ?_⟩
    intro s hs'
    rw [this.2 s hs']; simp; omega

/-- the number of candidates examined in one iteration is bounded by a constant: at most 32 survive
the previous iteration and each has at most 6 successors. -/
theorem candidates_bounded (states : List State) (count : Nat) (hc : 2 ≤ count) (hb : states.length ≤ 32) :
    (states.flatMap fun s => getNext s count).length ≤ 192 := by
  have : ∀ (l : List State), (l.flatMap fun s => getNext s count).length ≤ 6 * l.length := by
    intro l
    induction l with
    | nil => simp
    | cons a l ih =>
      simp only [List.flatMap_cons, List.length_append, List.length_cons]
      have := (getNext_length a count hc).2
      omega
  have := this states
  omega

end MwVerif.Style
