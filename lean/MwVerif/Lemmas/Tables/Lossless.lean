import MwVerif.Model.Tables

namespace MwVerif.Tables

theorem leavesL_append (a b : List Out) : leavesL (a ++ b) = leavesL a ++ leavesL b := by
  induction a with
  | nil => simp [leavesL]
  | cons o a ih => simp [leavesL, ih]

/-- what has been collected so far, outermost level first. -/
def collected : List (List Out) → List Out → List Nat
  | [], cur => leavesL cur
  | outer :: rest, cur => collected rest outer ++ leavesL cur

theorem collected_snoc (stack : List (List Out)) (cur : List Out) (o : Out) :
    collected stack (cur ++ [o]) = collected stack cur ++ o.leaves := by
  cases stack <;> simp [collected, leavesL_append, leavesL, List.append_assoc]

theorem unwind_leaves : ∀ (stack : List (List Out)) (cur : List Out), leavesL (unwind stack cur) = collected stack cur
  | [], _ => rfl
  | outer :: rest, cur => by
    rw [unwind, unwind_leaves rest, collected_snoc]
    simp [collected, Out.leaves]

/-- **every token that is not a table marker ends up exactly once, in order**, at the nesting depth the markers give it. -/
theorem run_leaves : ∀ (ts : List Tok) (stack : List (List Out)) (cur : List Out),
    leavesL (run stack cur ts) = collected stack cur ++ tokLeaves ts
  | [], stack, cur => by rw [run, unwind_leaves]; simp [tokLeaves]
  | .topen :: ts, stack, cur => by
    rw [run, run_leaves ts]; simp [collected, tokLeaves, leavesL]
  | .tclose :: ts, [], cur => by
    rw [run, run_leaves ts, collected_snoc]; simp [tokLeaves, Out.leaves]
  | .tclose :: ts, outer :: stack, cur => by
    rw [run, run_leaves ts, collected_snoc]; simp [collected, tokLeaves, Out.leaves]
  | .other i :: ts, stack, cur => by
    rw [run, run_leaves ts, collected_snoc]; simp [tokLeaves, Out.leaves, List.append_assoc]

theorem parse_leaves (ts : List Tok) : leavesL (parse ts) = tokLeaves ts := by
  unfold parse; rw [run_leaves]; simp [collected, leavesL]

end MwVerif.Tables
