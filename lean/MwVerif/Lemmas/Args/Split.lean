import MwVerif.Model.Args

namespace MwVerif.Args

/-- the consumed input for a state of the loop: the finished arguments and the open one, joined by `|`. -/
def joinOpen (args : List (List Item)) (arg : List Item) : List Ch := join (args ++ [arg])

theorem join_snoc : ∀ (args : List (List Item)) (arg : List Item), args ≠ [] →
    join (args ++ [arg]) = join args ++ .pipe :: arg.map Item.toCh
  | [], _, h => absurd rfl h
  | [a], arg, _ => by simp [join]
  | a :: b :: rest, arg, _ => by
    have ih := join_snoc (b :: rest) arg (List.cons_ne_nil _ _)
    simp only [List.cons_append] at ih ⊢
    rw [join, ih, join]
    simp [List.append_assoc]

theorem joinOpen_nil (arg : List Item) : joinOpen [] arg = arg.map Item.toCh := by simp [joinOpen, join]

theorem joinOpen_snoc_item (args : List (List Item)) (arg : List Item) (x : Item) :
    joinOpen args (arg ++ [x]) = joinOpen args arg ++ [x.toCh] := by
  unfold joinOpen
  cases args with
  | nil => simp [join]
  | cons a rest =>
    rw [join_snoc _ _ (List.cons_ne_nil _ _), join_snoc _ _ (List.cons_ne_nil _ _)]
    simp [List.append_assoc]

theorem joinOpen_split (args : List (List Item)) (arg : List Item) :
    joinOpen (args ++ [arg]) [] = joinOpen args arg ++ [.pipe] := by
  unfold joinOpen
  rw [join_snoc _ _ (by simp)]
  simp

/-- **the loop loses nothing**: the result joined by `|` is what was consumed followed by what is left. -/
theorem join_go : ∀ (cs : List Ch) (lc : Nat) (arg : List Item) (args : List (List Item)) (app : Bool),
    (args ≠ [] → app = true) → join (go lc arg args app cs) = joinOpen args arg ++ cs
  | [], lc, arg, args, app, h => by
    rw [go]
    split
    · simp [joinOpen]
    · rename_i hc
      simp only [Bool.or_eq_true, Bool.not_eq_true', not_or, Bool.not_eq_true, Bool.not_eq_false] at hc
      have ha : args = [] := by
        cases args with
        | nil => rfl
        | cons a r => have := h (List.cons_ne_nil _ _); rw [this] at hc; simp at hc
      have hr : arg = [] := by simpa using hc.2
      subst ha hr
      simp [joinOpen, join]
  | .lopen :: cs, lc, arg, args, app, h => by
    rw [go, join_go cs _ _ _ _ h, joinOpen_snoc_item]; simp [Item.toCh]
  | .lclose :: cs, lc, arg, args, app, h => by
    rw [go, join_go cs _ _ _ _ h, joinOpen_snoc_item]; simp [Item.toCh]
  | .other i :: cs, lc, arg, args, app, h => by
    rw [go, join_go cs _ _ _ _ h, joinOpen_snoc_item]; simp [Item.toCh]
  | .pipe :: cs, lc, arg, args, app, h => by
    rw [go]
    split
    · rw [join_go cs _ _ _ _ (fun _ => rfl), joinOpen_split]; simp
    · rw [join_go cs _ _ _ _ h, joinOpen_snoc_item]; simp [Item.toCh]
  | .eq :: cs, lc, arg, args, app, h => by
    rw [go]
    split
    · rw [join_go cs _ _ _ _ h, joinOpen_snoc_item]; simp [Item.toCh]
    · rw [join_go cs _ _ _ _ h, joinOpen_snoc_item]; simp [Item.toCh]

/-! ### where the splits and the marks are -/

theorem depth_append : ∀ (a b : List Ch) (lc : Nat), depth lc (a ++ b) = depth (depth lc a) b
  | [], _, _ => rfl
  | c :: a, b, lc => by cases c <;> simp [depth, depth_append a b]

theorem hasTop_append : ∀ (a b : List Ch) (lc : Nat), hasTop lc (a ++ b) = (hasTop lc a || hasTop (depth lc a) b)
  | [], _, _ => by simp [hasTop, depth]
  | c :: a, b, lc => by cases c <;> simp [hasTop, depth, hasTop_append a b, Bool.or_assoc]

/-- an argument is well split: read from link depth 0 it has no `|` at depth 0; the name/value marks are
exactly its `=` at depth 0. -/
def marksOk (lc : Nat) : List Item → Bool
  | [] => true
  | .eqmark :: r => lc == 0 && marksOk lc r
  | .ch .eq :: r => lc != 0 && marksOk lc r
  | .ch .pipe :: r => lc != 0 && marksOk lc r
  | .ch .lopen :: r => marksOk (lc + 1) r
  | .ch .lclose :: r => marksOk (lc - 1) r
  | .ch (.other _) :: r => marksOk lc r

def idepth (lc : Nat) (a : List Item) : Nat := depth lc (a.map Item.toCh)

theorem marksOk_append : ∀ (a b : List Item) (lc : Nat), marksOk lc (a ++ b) = (marksOk lc a && marksOk (idepth lc a) b)
  | [], _, _ => by simp [marksOk, idepth, depth]
  | x :: a, b, lc => by
    cases x with
    | eqmark => simp [marksOk, idepth, depth, Item.toCh, marksOk_append a b, Bool.and_assoc]
    | ch c =>
      cases c <;> simp [marksOk, idepth, depth, Item.toCh, marksOk_append a b, Bool.and_assoc]
      all_goals (try (have := marksOk_append a b; simp [idepth] at this ⊢))
      all_goals simp_all [idepth]

/-- **every argument is well split.** -/
theorem go_marks : ∀ (cs : List Ch) (lc : Nat) (arg : List Item) (args : List (List Item)) (app : Bool),
    (∀ a ∈ args, marksOk 0 a = true) → marksOk 0 arg = true → idepth 0 arg = lc →
    ∀ a ∈ go lc arg args app cs, marksOk 0 a = true
  | [], lc, arg, args, app, h1, h2, _ => by
    rw [go]
    split
    · intro a ha
      rcases List.mem_append.mp ha with ha | ha
      · exact h1 a ha
      · simp only [List.mem_singleton] at ha; subst ha; exact h2
    · exact h1
  | .lopen :: cs, lc, arg, args, app, h1, h2, h3 => by
    rw [go]
    apply go_marks cs _ _ _ _ h1
    · rw [marksOk_append, h2, h3]; simp [marksOk]
    · simp [idepth, depth_append, Item.toCh, depth] at h3 ⊢; rw [h3]
  | .lclose :: cs, lc, arg, args, app, h1, h2, h3 => by
    rw [go]
    apply go_marks cs _ _ _ _ h1
    · rw [marksOk_append, h2, h3]; simp [marksOk]
    · simp [idepth, depth_append, Item.toCh, depth] at h3 ⊢; rw [h3]
  | .other i :: cs, lc, arg, args, app, h1, h2, h3 => by
    rw [go]
    apply go_marks cs _ _ _ _ h1
    · rw [marksOk_append, h2, h3]; simp [marksOk]
    · simp [idepth, depth_append, Item.toCh, depth] at h3 ⊢; rw [h3]
  | .pipe :: cs, lc, arg, args, app, h1, h2, h3 => by
    rw [go]
    split
    · rename_i h0
      apply go_marks cs _ _ _ _ _ (by simp [marksOk]) (by simp [idepth, depth]; exact h0.symm)
      intro a ha
      rcases List.mem_append.mp ha with ha | ha
      · exact h1 a ha
      · simp only [List.mem_singleton] at ha; subst ha; exact h2
    · rename_i h0
      apply go_marks cs _ _ _ _ h1
      · rw [marksOk_append, h2, h3]; simp [marksOk, h0]
      · simp [idepth, depth_append, Item.toCh, depth] at h3 ⊢; rw [h3]
  | .eq :: cs, lc, arg, args, app, h1, h2, h3 => by
    rw [go]
    split
    · rename_i h0
      apply go_marks cs _ _ _ _ h1
      · rw [marksOk_append, h2, h3]; simp [marksOk, h0]
      · simp [idepth, depth_append, Item.toCh, depth] at h3 ⊢; rw [h3]
    · rename_i h0
      apply go_marks cs _ _ _ _ h1
      · rw [marksOk_append, h2, h3]; simp [marksOk, h0]
      · simp [idepth, depth_append, Item.toCh, depth] at h3 ⊢; rw [h3]

end MwVerif.Args
