import MwVerif.Model.Archive

namespace MwVerif.Archive

/-! ### splitAux -/

theorem splitAux_skip (sp : Str) : ∀ (x rest acc : Str),
    splitAux sp x.length (x ++ rest) acc = splitAux sp 0 rest acc
  | [], rest, acc => rfl
  | c :: cs, rest, acc => by
    simp only [List.length_cons, List.cons_append, splitAux]
    exact splitAux_skip sp cs rest acc

theorem splitAux_scan (sp : Str) : ∀ (b tail acc : Str),
    (∀ i, i < b.length → sp.isPrefixOf ((b ++ tail).drop i) = false) →
    splitAux sp 0 (b ++ tail) acc = splitAux sp 0 tail (b.reverse ++ acc)
  | [], tail, acc, _ => by simp
  | c :: cs, tail, acc, h => by
    have h0 := h 0 (by simp)
    simp only [List.drop_zero, List.cons_append] at h0
    simp only [List.cons_append, splitAux, h0, Bool.false_eq_true, if_false]
    rw [splitAux_scan sp cs tail (c :: acc) (fun i hi => by
      have := h (i + 1) (by simp; omega)
      simpa using this)]
    simp

theorem splitAux_sep (s0 : Char) (st rest acc : Str) :
    splitAux (s0 :: st) 0 ((s0 :: st) ++ rest) acc = acc.reverse :: splitAux (s0 :: st) 0 rest [] := by
  have hp : (s0 :: st).isPrefixOf ((s0 :: st) ++ rest) = true := by
    rw [List.isPrefixOf_iff_prefix]; exact List.prefix_append _ _
  simp only [List.cons_append] at hp ⊢
  simp only [splitAux, hp, if_true, List.length_cons, Nat.add_sub_cancel]
  rw [splitAux_skip]

/-! ### the separator has no border: a suffix of it is never a proper prefix of it -/

theorem sep_no_border : ∀ k, 0 < k → k < sep.length → sep.drop k ≠ sep.take (sep.length - k) := by
  have h : ∀ k : Fin sep.length, 0 < k.val → sep.drop k.val ≠ sep.take (sep.length - k.val) := by decide
  intro k hk hlt
  exact h ⟨k, hlt⟩ hk

theorem drop_append_ge {α : Type} : ∀ (l₁ l₂ : List α) (i : Nat), l₁.length ≤ i →
    (l₁ ++ l₂).drop i = l₂.drop (i - l₁.length)
  | [], l₂, i, _ => by simp
  | x :: xs, l₂, 0, h => by simp at h
  | x :: xs, l₂, i + 1, h => by
    simp only [List.cons_append, List.drop_succ_cons, List.length_cons, Nat.add_sub_add_right]
    exact drop_append_ge xs l₂ i (by simpa using h)

theorem sep_ne_nil : sep ≠ [] := by decide

/-- what makes a record body safe to frame: nothing in `'\n' :: text` looks like the separator. -/
def BodyOk (metaLine text : Str) : Prop := '\n' ∉ metaLine ∧ ¬ sep <:+: ('\n' :: text)

def TailOk (t : Str) : Prop := t = [] ∨ ∃ r, t = sep ++ r

theorem prefix_short_of_border {u r : Str} (hu : u ≠ []) (hlen : u.length < sep.length)
    (h : sep <+: u ++ (sep ++ r)) : False := by
  obtain ⟨z, hz⟩ := h
  -- compare the first |u| characters, then the rest
  have h1 : sep.take u.length = u := by
    have := congrArg (List.take u.length) hz
    rw [List.take_append_of_le_length (Nat.le_of_lt hlen), List.take_left'] at this
    · exact this
    · rfl
  have h2 : sep.drop u.length ++ z = sep ++ r := by
    have := congrArg (List.drop u.length) hz
    rw [List.drop_append_of_le_length (Nat.le_of_lt hlen), List.drop_left'] at this
    · exact this
    · rfl
  have h3 : sep.drop u.length = sep.take (sep.length - u.length) := by
    have := congrArg (List.take (sep.length - u.length)) h2
    rw [List.take_left' (by simp), List.take_append_of_le_length (Nat.sub_le _ _)] at this
    exact this
  have hpos : 0 < u.length := List.length_pos_iff.2 hu
  exact sep_no_border u.length hpos hlen h3

theorem body_safe {metaLine text tail : Str} (hb : BodyOk metaLine text) (ht : TailOk tail) :
    ∀ i, i < (metaLine ++ '\n' :: text).length →
      sep.isPrefixOf (((metaLine ++ '\n' :: text) ++ tail).drop i) = false := by
  intro i hi
  cases hpre : sep.isPrefixOf (((metaLine ++ '\n' :: text) ++ tail).drop i) with
  | false => rfl
  | true =>
    exfalso
    rw [List.isPrefixOf_iff_prefix] at hpre
    by_cases him : i < metaLine.length
    · -- the character at i is a character of the meta line, not a newline
      rw [List.append_assoc, List.drop_append_of_le_length (Nat.le_of_lt him)] at hpre
      have hne : metaLine.drop i ≠ [] := by
        intro e; have := congrArg List.length e; simp at this; omega
      cases hd : metaLine.drop i with
      | nil => exact hne hd
      | cons c cs =>
        rw [hd] at hpre
        obtain ⟨z, hz⟩ := hpre
        have : c = '\n' := by
          have := congrArg List.head? hz
          simp [sep] at this; exact this.symm
        have hc : c ∈ metaLine := List.mem_of_mem_drop (by rw [hd]; simp)
        exact hb.1 (this ▸ hc)
    · -- inside '\n' :: text
      have hge : metaLine.length ≤ i := Nat.le_of_not_lt him
      rw [List.append_assoc, drop_append_ge _ _ _ hge] at hpre
      generalize hj : i - metaLine.length = j at hpre
      have hjlt : j < ('\n' :: text).length := by
        simp at hi ⊢; omega
      rw [List.drop_append_of_le_length (Nat.le_of_lt hjlt)] at hpre
      generalize hu : ('\n' :: text).drop j = u at hpre
      have hune : u ≠ [] := by
        intro e; rw [e] at hu; have := congrArg List.length hu; simp at this; simp at hjlt; omega
      have hinf : u <:+ ('\n' :: text) := by rw [← hu]; exact List.drop_suffix _ _
      by_cases hl : sep.length ≤ u.length
      · -- the separator lies inside '\n' :: text
        have : sep <+: u := by
          obtain ⟨z, hz⟩ := hpre
          refine List.prefix_iff_eq_take.2 ?_
          have := congrArg (List.take sep.length) hz
          rw [List.take_left' rfl, List.take_append_of_le_length hl] at this
          exact this
        exact hb.2 (this.isInfix.trans hinf.isInfix)
      · have hl' : u.length < sep.length := Nat.lt_of_not_le hl
        rcases ht with rfl | ⟨r, rfl⟩
        · obtain ⟨z, hz⟩ := hpre
          have := congrArg List.length hz
          simp at this; omega
        · exact prefix_short_of_border hune hl' hpre

/-! ### the round trip of the stream -/

def body (r : Str × Str) : Str := r.1 ++ '\n' :: r.2

theorem writeStream_tailOk (rs : List (Str × Str)) : TailOk (writeStream rs) := by
  cases rs with
  | nil => exact Or.inl rfl
  | cons r rs => exact Or.inr ⟨r.1 ++ '\n' :: r.2 ++ writeStream rs, by simp [writeStream, writeRecord]⟩

theorem splitAux_writeStream : ∀ (rs : List (Str × Str)) (acc : Str),
    (∀ r ∈ rs, BodyOk r.1 r.2) →
    splitAux sep 0 (writeStream rs) acc =
      match rs with
      | [] => [acc.reverse]
      | _ :: _ => acc.reverse :: (rs.map body)
  | [], acc, _ => by simp [writeStream, splitAux]
  | r :: rs, acc, h => by
    have hr := h r (by simp)
    have hrest : ∀ x ∈ rs, BodyOk x.1 x.2 := fun x hx => h x (by simp [hx])
    simp only [writeStream, writeRecord, List.append_assoc]
    cases hs : sep with
    | nil => exact absurd hs sep_ne_nil
    | cons s0 st =>
      rw [splitAux_sep s0 st]
      rw [← hs]
      have hscan := splitAux_scan sep (r.1 ++ '\n' :: r.2) (writeStream rs) []
        (body_safe hr (writeStream_tailOk rs))
      rw [List.append_assoc] at hscan
      rw [hscan, splitAux_writeStream rs _ hrest]
      cases rs with
      | nil => simp [body]
      | cons r2 rs2 => simp [body]

theorem splitLine_body {metaLine text : Str} (h : '\n' ∉ metaLine) :
    splitLine (metaLine ++ '\n' :: text) = some (metaLine, text) := by
  induction metaLine with
  | nil => simp [splitLine]
  | cons c cs ih =>
    have hc : c ≠ '\n' := fun e => h (by simp [e])
    simp [splitLine, hc, ih (fun e => h (by simp [e]))]

theorem mapM_splitLine_bodies : ∀ (rs : List (Str × Str)), (∀ r ∈ rs, '\n' ∉ r.1) →
    (rs.map body).mapM splitLine = some rs
  | [], _ => rfl
  | r :: rs, h => by
    have ih := mapM_splitLine_bodies rs (fun x hx => h x (by simp [hx]))
    rw [List.map_cons, List.mapM_cons, ih]
    show (do let x ← splitLine (r.1 ++ '\n' :: r.2); let xs ← some rs; pure (x :: xs)) = some (r :: rs)
    rw [splitLine_body (h r (by simp))]
    rfl

end MwVerif.Archive
