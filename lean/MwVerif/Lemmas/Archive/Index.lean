import MwVerif.Model.Archive
import MwVerif.Lemmas.Qs.Dict

namespace MwVerif.Archive
open MwVerif.Qs

/-! ### the first loop: last record wins per key -/

/-- after the first loop: every `byRevid` entry is a record of the input carrying that revid,
and every revid of the input has an entry. -/
theorem indexFirst_spec (rs : List Rec) :
    let ix := indexFirst rs
    (∀ e ∈ ix.byRevid, e.2 ∈ rs ∧ e.2.revid = some e.1) ∧
    (∀ r ∈ rs, ∀ v, r.revid = some v → (dictGet ix.byRevid v).isSome) ∧
    (ix.byRevid.map (·.1)).Nodup ∧
    (∀ e ∈ ix.byTitle, e.2 ∈ rs ∧ e.2.revid = none ∧ e.2.title = e.1) ∧
    (∀ r ∈ rs, r.revid = none → (dictGet ix.byTitle r.title).isSome) := by
  unfold indexFirst
  -- generalise over the accumulator
  have key : ∀ (rs : List Rec) (acc : Index) (pre : List Rec),
      ((∀ e ∈ acc.byRevid, e.2 ∈ pre ∧ e.2.revid = some e.1) ∧
       (∀ r ∈ pre, ∀ v, r.revid = some v → (dictGet acc.byRevid v).isSome) ∧
       (acc.byRevid.map (·.1)).Nodup ∧
       (∀ e ∈ acc.byTitle, e.2 ∈ pre ∧ e.2.revid = none ∧ e.2.title = e.1) ∧
       (∀ r ∈ pre, r.revid = none → (dictGet acc.byTitle r.title).isSome)) →
      let ix := rs.foldl (fun ix r =>
        match r.revid with
        | none => { ix with byTitle := dictSet ix.byTitle r.title r }
        | some v => { ix with byRevid := dictSet ix.byRevid v r }) acc
      ((∀ e ∈ ix.byRevid, e.2 ∈ pre ++ rs ∧ e.2.revid = some e.1) ∧
       (∀ r ∈ pre ++ rs, ∀ v, r.revid = some v → (dictGet ix.byRevid v).isSome) ∧
       (ix.byRevid.map (·.1)).Nodup ∧
       (∀ e ∈ ix.byTitle, e.2 ∈ pre ++ rs ∧ e.2.revid = none ∧ e.2.title = e.1) ∧
       (∀ r ∈ pre ++ rs, r.revid = none → (dictGet ix.byTitle r.title).isSome)) := by
    intro rs
    induction rs with
    | nil => intro acc pre h; simpa using h
    | cons r rs ih =>
      intro acc pre ⟨h1, h2, h3, h4, h5⟩
      simp only [List.foldl_cons]
      have hpre : pre ++ r :: rs = (pre ++ [r]) ++ rs := by simp
      rw [hpre]
      apply ih
      cases hr : r.revid with
      | none =>
        simp only []
        refine ⟨?_, ?_, h3, ?_, ?_⟩
        · intro e he; obtain ⟨a, b⟩ := h1 e he; exact ⟨by simp [a], b⟩
        · intro x hx v hv
          rcases List.mem_append.1 hx with hx | hx
          · exact h2 x hx v hv
          · simp at hx; subst hx; rw [hr] at hv; cases hv
        · intro e he
          rcases mem_dictSet he with rfl | he
          · exact ⟨by simp, hr, rfl⟩
          · obtain ⟨a, b, c⟩ := h4 e he; exact ⟨by simp [a], b, c⟩
        · intro x hx hxn
          by_cases ht : x.title = r.title
          · rw [ht, dictGet_dictSet_same]; rfl
          · rw [dictGet_dictSet_other _ _ _ _ ht]
            rcases List.mem_append.1 hx with hx | hx
            · exact h5 x hx hxn
            · simp at hx; subst hx; exact absurd rfl ht
      | some v =>
        simp only []
        refine ⟨?_, ?_, nodup_keys_dictSet h3 _ _, ?_, ?_⟩
        · intro e he
          rcases mem_dictSet he with rfl | he
          · exact ⟨by simp, hr⟩
          · obtain ⟨a, b⟩ := h1 e he; exact ⟨by simp [a], b⟩
        · intro x hx w hw
          by_cases hvw : w = v
          · rw [hvw, dictGet_dictSet_same]; rfl
          · rw [dictGet_dictSet_other _ _ _ _ hvw]
            rcases List.mem_append.1 hx with hx | hx
            · exact h2 x hx w hw
            · simp at hx; subst hx; rw [hr] at hw; injection hw with hw; exact absurd hw.symm hvw
        · intro e he; obtain ⟨a, b, c⟩ := h4 e he; exact ⟨by simp [a], b, c⟩
        · intro x hx hxn
          rcases List.mem_append.1 hx with hx | hx
          · exact h5 x hx hxn
          · simp at hx; subst hx; rw [hr] at hxn; cases hxn
  have := key rs ⟨[], []⟩ [] (by simp [dictGet_nil])
  simp only [List.nil_append] at this
  exact this

/-! ### sorting by descending revid -/

theorem insertDesc_mem {x e : Nat × Rec} {l : List (Nat × Rec)} :
    e ∈ insertDesc x l ↔ e = x ∨ e ∈ l := by
  induction l with
  | nil => simp [insertDesc]
  | cons y ys ih =>
    unfold insertDesc
    split
    · simp
    · simp only [List.mem_cons, ih]
      constructor
      · rintro (h | h | h)
        · exact Or.inr (Or.inl h)
        · exact Or.inl h
        · exact Or.inr (Or.inr h)
      · rintro (h | h | h)
        · exact Or.inr (Or.inl h)
        · exact Or.inl h
        · exact Or.inr (Or.inr h)

theorem sortDesc_mem {e : Nat × Rec} {l : List (Nat × Rec)} : e ∈ sortDesc l ↔ e ∈ l := by
  unfold sortDesc
  induction l with
  | nil => simp
  | cons x xs ih => simp only [List.foldr_cons, insertDesc_mem, ih, List.mem_cons]

/-- descending: every later element has a key ≤ every earlier one. -/
def Desc (l : List (Nat × Rec)) : Prop := l.Pairwise (fun a b => b.1 ≤ a.1)

theorem insertDesc_desc {x : Nat × Rec} {l : List (Nat × Rec)} (h : Desc l) : Desc (insertDesc x l) := by
  induction l with
  | nil => simp [insertDesc, Desc]
  | cons y ys ih =>
    unfold insertDesc
    have hy : ∀ b ∈ ys, b.1 ≤ y.1 := (List.pairwise_cons.1 h).1
    have hys : Desc ys := (List.pairwise_cons.1 h).2
    split
    · rename_i hge
      refine List.pairwise_cons.2 ⟨?_, h⟩
      intro b hb
      rcases List.mem_cons.1 hb with rfl | hb
      · exact hge
      · exact Nat.le_trans (hy b hb) hge
    · rename_i hlt
      refine List.pairwise_cons.2 ⟨?_, ih hys⟩
      intro b hb
      rcases insertDesc_mem.1 hb with rfl | hb
      · exact Nat.le_of_lt (Nat.lt_of_not_le hlt)
      · exact hy b hb

theorem sortDesc_desc (l : List (Nat × Rec)) : Desc (sortDesc l) := by
  unfold sortDesc
  induction l with
  | nil => simp [Desc]
  | cons x xs ih => simp only [List.foldr_cons]; exact insertDesc_desc ih

/-! ### the second loop -/

theorem fillTitles_spec (es : List (Nat × Rec)) : ∀ (bt : List (Nat × Rec)) (t : Nat),
    dictGet (fillTitles bt es) t =
      match dictGet bt t with
      | some r => some r
      | none => (es.find? (fun e => e.2.title = t)).map (·.2) := by
  induction es with
  | nil => intro bt t; simp [fillTitles]; cases dictGet bt t <;> rfl
  | cons e es ih =>
    intro bt t
    simp only [fillTitles, List.foldl_cons] at ih ⊢
    rw [ih]
    by_cases hset : (dictGet bt e.2.title).isSome = true
    · simp only [hset, if_true]
      cases hb : dictGet bt t with
      | some r => rfl
      | none =>
        have hne : e.2.title ≠ t := by
          intro heq; rw [heq, hb] at hset; cases hset
        simp [List.find?_cons, hne]
    · have hset' : (dictGet bt e.2.title).isSome = false := by simpa using hset
      simp only [hset', Bool.false_eq_true, if_false]
      by_cases ht : e.2.title = t
      · subst ht
        have hb : dictGet bt e.2.title = none := by
          cases h : dictGet bt e.2.title with
          | none => rfl
          | some r => rw [h] at hset; simp at hset
        simp [dictGet_dictSet_same, hb, List.find?_cons]
      · rw [dictGet_dictSet_other _ _ _ _ (Ne.symm ht)]
        cases hb : dictGet bt t with
        | some r => rfl
        | none => simp [List.find?_cons, ht]

/-- in a list sorted by descending key, the first element with a given title has the
largest key among the elements with that title. -/
theorem find_first_is_max {l : List (Nat × Rec)} (h : Desc l) {t : Nat} {e : Nat × Rec}
    (hf : l.find? (fun e => e.2.title = t) = some e) :
    ∀ e' ∈ l, e'.2.title = t → e'.1 ≤ e.1 := by
  induction l with
  | nil => simp at hf
  | cons x xs ih =>
    have hx : ∀ b ∈ xs, b.1 ≤ x.1 := (List.pairwise_cons.1 h).1
    have hxs : Desc xs := (List.pairwise_cons.1 h).2
    by_cases hxt : x.2.title = t
    · simp [List.find?_cons, hxt] at hf
      subst hf
      intro e' he' _
      rcases List.mem_cons.1 he' with rfl | he'
      · exact Nat.le_refl _
      · exact hx e' he'
    · simp [List.find?_cons, hxt] at hf
      intro e' he' het
      rcases List.mem_cons.1 he' with rfl | he'
      · exact absurd het hxt
      · exact ih hxs hf e' he' het

end MwVerif.Archive
