import MwVerif.Model.Archive

/-!
Lemmas about `fsEscape` (`mwlib.utils.unorganized.fs_escape`): the per-character escape is a
prefix code, so the escape of a canonical title can be read back.
-/
namespace MwVerif.Archive

/-- the escape of one character (the body of the loop in `fs_escape`). -/
def enc (c : Char) : Str :=
  if c.toNat < 128 && !(c = '~' || c = '/' || c = '\\') then [c]
  else if c = '~' then ['~', '~']
  else '~' :: digits c.toNat ++ ['~']

theorem flatMap_enc_plain : ∀ (s : Str), (∀ c ∈ s, c.toNat < 128) → (∀ c ∈ s, (c = '~' || c = '/' || c = '\\') = false) →
    s = s.flatMap enc
  | [], _, _ => rfl
  | c :: s, h1, h2 => by
    have hc1 := h1 c (List.mem_cons_self)
    have hc2 := h2 c (List.mem_cons_self)
    have : enc c = [c] := by
      unfold enc
      simp [hc1, hc2]
    rw [List.flatMap_cons, this]
    simp only [List.cons_append, List.nil_append]
    congr 1
    exact flatMap_enc_plain s (fun x hx => h1 x (List.mem_cons_of_mem _ hx)) (fun x hx => h2 x (List.mem_cons_of_mem _ hx))

theorem fsEscapeChars_eq (s : Str) : fsEscapeChars s = s.flatMap enc := by
  unfold fsEscapeChars
  split
  · rename_i h
    simp only [Bool.and_eq_true, List.all_eq_true, decide_eq_true_eq, Bool.not_eq_true',
      List.any_eq_false] at h
    exact flatMap_enc_plain s h.1 (fun c hc => by simpa using h.2 c hc)
  · rfl

/-- the three shapes of `enc c`. -/
theorem enc_cases (c : Char) :
    (enc c = [c] ∧ c ≠ '~' ∧ c.toNat < 128) ∨ (enc c = ['~', '~'] ∧ c = '~') ∨
    (enc c = '~' :: digits c.toNat ++ ['~'] ∧ c ≠ '~' ∧ (c = '/' ∨ c = '\\' ∨ 128 ≤ c.toNat)) := by
  unfold enc
  by_cases h1 : c.toNat < 128 <;> by_cases h2 : c = '~' <;> by_cases h3 : c = '/' <;> by_cases h4 : c = '\\' <;>
    simp_all <;> omega

theorem digits_ne_nil (n : Nat) : digits n ≠ [] := Nat.toDigits_ne_nil

theorem digits_isDigit {n : Nat} {c : Char} (h : c ∈ digits n) : c.isDigit = true :=
  Nat.isDigit_of_mem_toDigits (by decide) (by decide) h

theorem tilde_not_digit : ('~' : Char).isDigit = false := by decide

theorem tilde_not_mem_digits (n : Nat) : '~' ∉ digits n := fun h => by
  have := digits_isDigit h
  rw [tilde_not_digit] at this
  cases this

theorem digits_inj {n m : Nat} (h : digits n = digits m) : n = m := by
  have h1 := @Nat.ofDigitChars_ten_toDigits n
  have h2 := @Nat.ofDigitChars_ten_toDigits m
  unfold digits at h
  rw [h] at h1
  exact h1.symm.trans h2

/-- splitting at the first `x`: when `x` occurs in neither prefix, the decomposition is unique. -/
theorem split_unique {α} {x : α} : ∀ {a b r r' : List α}, x ∉ a → x ∉ b → a ++ x :: r = b ++ x :: r' → a = b ∧ r = r'
  | [], [], _, _, _, _, h => by simpa using h
  | [], y :: b, _, _, _, hb, h => by
    simp only [List.nil_append, List.cons_append, List.cons.injEq] at h
    exact absurd (h.1 ▸ List.mem_cons_self) hb
  | y :: a, [], _, _, ha, _, h => by
    simp only [List.nil_append, List.cons_append, List.cons.injEq] at h
    exact absurd (h.1 ▸ List.mem_cons_self) ha
  | y :: a, z :: b, r, r', ha, hb, h => by
    simp only [List.cons_append, List.cons.injEq] at h
    have := split_unique (fun hx => ha (List.mem_cons_of_mem _ hx)) (fun hx => hb (List.mem_cons_of_mem _ hx)) h.2
    exact ⟨by rw [h.1, this.1], this.2⟩

/-- `enc` is a prefix code: the first character of an escaped text and the rest are determined. -/
theorem enc_prefix {c d : Char} {r r' : Str} (h : enc c ++ r = enc d ++ r') : c = d ∧ r = r' := by
  rcases enc_cases c with ⟨ec, hc, _⟩ | ⟨ec, hc⟩ | ⟨ec, hc, _⟩ <;>
    rcases enc_cases d with ⟨ed, hd, _⟩ | ⟨ed, hd⟩ | ⟨ed, hd, _⟩ <;> rw [ec, ed] at h
  · simpa using h
  · simp only [List.cons_append, List.nil_append, List.cons.injEq] at h
    exact absurd h.1 hc
  · simp only [List.cons_append, List.nil_append, List.cons.injEq] at h
    exact absurd h.1 hc
  · simp only [List.cons_append, List.nil_append, List.cons.injEq] at h
    exact absurd h.1.symm hd
  · simp only [List.cons_append, List.nil_append, List.cons.injEq] at h
    exact ⟨hc.trans hd.symm, h.2.2⟩
  · -- "~~" against "~" digits: the second character would be a digit
    exfalso
    cases hdg : digits d.toNat with
    | nil => exact digits_ne_nil _ hdg
    | cons x xs =>
      rw [hdg] at h
      simp only [List.cons_append, List.nil_append, List.cons.injEq] at h
      have : x ∈ digits d.toNat := hdg ▸ List.mem_cons_self
      exact tilde_not_mem_digits _ (h.2.1 ▸ this)
  · simp only [List.cons_append, List.nil_append, List.cons.injEq] at h
    exact absurd h.1.symm hd
  · exfalso
    cases hdg : digits c.toNat with
    | nil => exact digits_ne_nil _ hdg
    | cons x xs =>
      rw [hdg] at h
      simp only [List.cons_append, List.nil_append, List.cons.injEq] at h
      have : x ∈ digits c.toNat := hdg ▸ List.mem_cons_self
      exact tilde_not_mem_digits _ (h.2.1.symm ▸ this)
  · simp only [List.cons_append, List.append_assoc, List.nil_append, List.cons.injEq, true_and] at h
    have := split_unique (tilde_not_mem_digits _) (tilde_not_mem_digits _) h
    exact ⟨Char.toNat_inj.mp (digits_inj this.1), this.2⟩

theorem flatMap_enc_inj : ∀ {s t : Str}, s.flatMap enc = t.flatMap enc → s = t
  | [], [], _ => rfl
  | [], d :: t, h => by
    exfalso
    simp only [List.flatMap_nil, List.flatMap_cons] at h
    rcases enc_cases d with ⟨e, _⟩ | ⟨e, _⟩ | ⟨e, _⟩ <;> rw [e] at h <;> simp at h
  | c :: s, [], h => by
    exfalso
    simp only [List.flatMap_nil, List.flatMap_cons] at h
    rcases enc_cases c with ⟨e, _⟩ | ⟨e, _⟩ | ⟨e, _⟩ <;> rw [e] at h <;> simp at h
  | c :: s, d :: t, h => by
    simp only [List.flatMap_cons] at h
    have := enc_prefix h
    rw [this.1, flatMap_enc_inj this.2]

/-! ### the steps after the escape: strip, blank to underscore, final filter -/

/-- what the final filter `[^-\w.~]` keeps. -/
def keep (isWord : Char → Bool) (c : Char) : Bool := c = '-' || c = '.' || c = '~' || isWord c

def blankToUnderscore (c : Char) : Char := if c = ' ' then '_' else c

theorem fsEscape_eq (isWs isWord : Char → Bool) (s : Str) :
    fsEscape isWs isWord s = ((stripWs isWs (s.flatMap enc)).map blankToUnderscore).filter (keep isWord) := by
  unfold fsEscape
  rw [fsEscapeChars_eq]
  rfl

theorem dropWhile_id {α} (p : α → Bool) : ∀ (l : List α), (∀ c, l.head? = some c → p c = false) → l.dropWhile p = l
  | [], _ => rfl
  | c :: l, h => by
    have := h c rfl
    simp [this]

theorem stripWs_id (isWs : Char → Bool) (l : Str) (h1 : ∀ c, l.head? = some c → isWs c = false)
    (h2 : ∀ c, l.getLast? = some c → isWs c = false) : stripWs isWs l = l := by
  unfold stripWs
  rw [dropWhile_id isWs l h1, dropWhile_id isWs l.reverse (by simpa using h2), List.reverse_reverse]

/-- the escape of a character starts and ends with the character itself or with `~`. -/
theorem enc_head (c : Char) : ∃ x r, enc c = x :: r ∧ (x = c ∨ x = '~') := by
  rcases enc_cases c with ⟨e, _⟩ | ⟨e, h⟩ | ⟨e, _⟩ <;> rw [e]
  · exact ⟨c, [], rfl, Or.inl rfl⟩
  · exact ⟨'~', ['~'], rfl, Or.inr rfl⟩
  · exact ⟨'~', _, rfl, Or.inr rfl⟩

theorem enc_last (c : Char) : ∃ x r, enc c = r ++ [x] ∧ (x = c ∨ x = '~') := by
  rcases enc_cases c with ⟨e, _⟩ | ⟨e, h⟩ | ⟨e, _⟩ <;> rw [e]
  · exact ⟨c, [], rfl, Or.inl rfl⟩
  · exact ⟨'~', ['~'], rfl, Or.inr rfl⟩
  · exact ⟨'~', '~' :: digits c.toNat, rfl, Or.inr rfl⟩

theorem flatMap_enc_head (s : Str) (x : Char) (h : (s.flatMap enc).head? = some x) :
    s.head? = some x ∨ x = '~' := by
  cases s with
  | nil => simp at h
  | cons c s =>
    obtain ⟨y, r, e, hy⟩ := enc_head c
    rw [List.flatMap_cons, e] at h
    simp only [List.cons_append, List.head?_cons, Option.some.injEq] at h
    subst h
    rcases hy with rfl | rfl
    · exact Or.inl rfl
    · exact Or.inr rfl

theorem enc_ne_nil (c : Char) : enc c ≠ [] := by
  obtain ⟨x, r, e, _⟩ := enc_head c
  rw [e]; exact List.cons_ne_nil _ _

theorem flatMap_enc_last : ∀ (s : Str) (x : Char), (s.flatMap enc).getLast? = some x → s.getLast? = some x ∨ x = '~'
  | [], x, h => by simp at h
  | [c], x, h => by
    obtain ⟨y, r, e, hy⟩ := enc_last c
    rw [List.flatMap_cons, List.flatMap_nil, List.append_nil, e] at h
    simp only [List.getLast?_append, List.getLast?_singleton, Option.some_or, Option.some.injEq] at h
    subst h
    rcases hy with rfl | rfl
    · exact Or.inl rfl
    · exact Or.inr rfl
  | c :: d :: s, x, h => by
    rw [List.flatMap_cons, List.getLast?_append] at h
    have hne : ((d :: s).flatMap enc).getLast? ≠ none := by
      rw [List.flatMap_cons]
      intro hn
      rw [List.getLast?_eq_none_iff] at hn
      exact enc_ne_nil d (List.append_eq_nil_iff.mp hn).1
    cases hl : ((d :: s).flatMap enc).getLast? with
    | none => exact absurd hl hne
    | some y =>
      rw [hl] at h
      simp only [Option.some_or, Option.some.injEq] at h
      subst h
      rcases flatMap_enc_last (d :: s) y hl with h' | h'
      · exact Or.inl (by rw [List.getLast?_cons_cons]; exact h')
      · exact Or.inr h'

/-- the characters of an escape: ASCII characters of the input other than `~ / \`, `~`, digits. -/
theorem mem_flatMap_enc {s : Str} {x : Char} (h : x ∈ s.flatMap enc) :
    (x ∈ s ∧ x.toNat < 128 ∧ x ≠ '~') ∨ x = '~' ∨ x.isDigit = true := by
  rw [List.mem_flatMap] at h
  obtain ⟨c, hc, hx⟩ := h
  rcases enc_cases c with ⟨e, h1, h2⟩ | ⟨e, _⟩ | ⟨e, _⟩ <;> rw [e] at hx
  · simp only [List.mem_singleton] at hx
    subst hx
    exact Or.inl ⟨hc, h2, h1⟩
  · simp only [List.mem_cons, List.not_mem_nil, or_false, or_self] at hx
    exact Or.inr (Or.inl hx)
  · simp only [List.mem_cons, List.mem_append, List.not_mem_nil, or_false] at hx
    rcases hx with (hx | hx) | hx
    · exact Or.inr (Or.inl hx)
    · exact Or.inr (Or.inr (digits_isDigit hx))
    · exact Or.inr (Or.inl hx)

theorem filter_id {α} (p : α → Bool) (l : List α) (h : ∀ x ∈ l, p x = true) : l.filter p = l :=
  List.filter_eq_self.mpr h

theorem map_blank_inj : ∀ {a b : Str}, '_' ∉ a → '_' ∉ b → a.map blankToUnderscore = b.map blankToUnderscore → a = b
  | [], [], _, _, _ => rfl
  | [], _ :: _, _, _, h => by simp at h
  | _ :: _, [], _, _, h => by simp at h
  | x :: a, y :: b, ha, hb, h => by
    simp only [List.map_cons, List.cons.injEq] at h
    have hx : x ≠ '_' := fun e => ha (e ▸ List.mem_cons_self)
    have hy : y ≠ '_' := fun e => hb (e ▸ List.mem_cons_self)
    have hxy : x = y := by
      have := h.1
      unfold blankToUnderscore at this
      split at this <;> split at this <;> simp_all
    rw [hxy, map_blank_inj (fun m => ha (List.mem_cons_of_mem _ m)) (fun m => hb (List.mem_cons_of_mem _ m)) h.2]

theorem underscore_not_digit : ('_' : Char).isDigit = false := by decide

end MwVerif.Archive
