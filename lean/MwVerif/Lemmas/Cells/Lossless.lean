import MwVerif.Model.Cells

namespace MwVerif.Cells

theorem splitAttrs_append : ∀ (l : List Tok), (splitAttrs l).1 ++ (splitAttrs l).2 = l
  | [] => rfl
  | t :: rest => by
    have ih := splitAttrs_append rest
    cases t <;> simp only [splitAttrs] <;> try rfl
    all_goals
      split
      · rfl
      · rename_i a b hne heq
        rw [heq] at ih
        simp only [List.cons_append, ih]

def contents : Out → List Tok
  | .loose t => [t]
  | .cell _ a b => a ++ b

theorem contents_mkCell (flag : Bool) (t : Tok) (c : List Tok) : contents (mkCell flag t c).2 = c := by
  unfold mkCell
  cases t <;> simp [contents, splitAttrs_append]

theorem filter_takeWhile_self (ts : List Tok) : (ts.takeWhile inCell).filter inCell = ts.takeWhile inCell := by
  apply List.filter_eq_self.mpr
  intro a ha
  induction ts with
  | nil => simp at ha
  | cons t ts ih =>
    rw [List.takeWhile_cons] at ha
    split at ha
    · rename_i h
      rcases List.mem_cons.mp ha with rfl | h'
      · exact h
      · exact ih h'
    · simp at ha

theorem filter_afterCell (ts : List Tok) : (afterCell ts).filter inCell = (ts.dropWhile inCell).filter inCell := by
  unfold afterCell
  split
  · rename_i rest heq
    rw [heq]
    simp [inCell, Tok.isStart, Tok.isEnd]
  · rfl

/-- **every content token of the row ends up exactly once, in order**, in a cell (attributes or body) or
as a loose token. -/
theorem cells_lossless : ∀ (n : Nat) (flag : Bool) (ts : List Tok), ts.length ≤ n →
    ((cells flag ts).flatMap contents).filter inCell = ts.filter inCell
  | 0, flag, ts, h => by
    have : ts = [] := List.eq_nil_of_length_eq_zero (by omega)
    subst this
    rw [cells]; rfl
  | n + 1, flag, [], _ => by rw [cells]; rfl
  | n + 1, flag, t :: ts, h => by
    rw [cells]
    split
    · rename_i hs
      have hlen := afterCell_length ts
      simp only [List.length_cons] at h
      rw [List.flatMap_cons, List.filter_append, contents_mkCell, filter_takeWhile_self,
        cells_lossless n _ (afterCell ts) (by omega), filter_afterCell]
      have hnot : inCell t = false := by simp [inCell, hs]
      rw [List.filter_cons, hnot]
      simp only [Bool.false_eq_true, if_false]
      conv => rhs; rw [← List.takeWhile_append_dropWhile (p := inCell) (l := ts), List.filter_append, filter_takeWhile_self]
    · simp only [List.length_cons] at h
      rw [List.flatMap_cons, List.filter_append, cells_lossless n flag ts (by omega)]
      simp only [contents, List.filter_cons]
      split <;> simp

end MwVerif.Cells
