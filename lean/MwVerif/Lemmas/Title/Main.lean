import MwVerif.Lemmas.Title.Canon

namespace MwVerif.Title

/-- well-formedness of a site configuration (decidable; `by decide` for each bundled site). -/
structure SiteWF (site : Site) (ops : CharOps) : Prop where
  namesClean : ∀ ns ∈ site.namespaces, ':' ∉ ns.name ∧ Clean ops ns.name
  selfLookup : ∀ ns ∈ site.namespaces, findNamespace site ops ns.name 0 = some (true, ns.id, ns.name)
  emptyIsMain : ∀ ns ∈ site.namespaces, ns.name = [] → ns.id = 0
  nsNameSelf : ∀ ns ∈ site.namespaces, site.nsName ns.id = some ns.name
  mainEmpty : site.nsName 0 = some []

theorem nsName_mem {site : Site} {i : Int} {n : Str} (h : site.nsName i = some n) :
    ∃ ns ∈ site.namespaces, ns.id = i ∧ ns.name = n := by
  unfold Site.nsName at h
  cases hf : site.namespaces.find? (·.id = i) with
  | none => simp [hf] at h
  | some ns =>
    simp only [hf, Option.map_some, Option.some.injEq] at h
    exact ⟨ns, List.mem_of_find?_eq_some hf, by simpa using List.find?_some hf, h⟩

/-- whatever `_find_namespace` returns is a namespace of the site. -/
theorem findNamespace_mem {site : Site} {ops : CharOps} {x : Str} {d : Int} {f : Bool} {i : Int}
    {n : Str} (h : findNamespace site ops x d = some (f, i, n)) :
    ∃ ns ∈ site.namespaces, ns.id = i ∧ ns.name = n := by
  unfold findNamespace at h
  simp only [] at h
  split at h
  · rename_i ns hns
    injection h with h; injection h with _ h; injection h with h1 h2
    exact ⟨ns, List.mem_of_find?_eq_some hns, h1, h2⟩
  · split at h
    · rename_i a ha
      cases hn : site.nsName a.2 with
      | none => simp [hn] at h
      | some m =>
        simp only [hn, Option.map_some, Option.some.injEq, Prod.mk.injEq] at h
        obtain ⟨_, h1, h2⟩ := h
        obtain ⟨ns, hm, hi, hnm⟩ := nsName_mem hn
        exact ⟨ns, hm, by rw [hi, h1], by rw [hnm, h2]⟩
    · cases hn : site.nsName d with
      | none => simp [hn] at h
      | some m =>
        simp only [hn, Option.map_some, Option.some.injEq, Prod.mk.injEq] at h
        obtain ⟨_, h1, h2⟩ := h
        obtain ⟨ns, hm, hi, hnm⟩ := nsName_mem hn
        exact ⟨ns, hm, by rw [hi, h1], by rw [hnm, h2]⟩

/-- a successful lookup does not depend on the default namespace. -/
theorem findNamespace_found_indep {site : Site} {ops : CharOps} {x : Str} {d : Int} {i : Int}
    {n : Str} (h : findNamespace site ops x d = some (true, i, n)) (d' : Int) :
    findNamespace site ops x d' = some (true, i, n) := by
  unfold findNamespace at h ⊢
  simp only [] at h ⊢
  split
  · rename_i ns hns; simp only [hns] at h; exact h
  · rename_i hnone
    simp only [hnone] at h
    split
    · rename_i a ha; simp only [ha] at h; exact h
    · rename_i hnone2
      simp only [hnone2] at h
      cases hn : site.nsName d with
      | none => simp [hn] at h
      | some m => simp [hn] at h

/-- the key of the lookup only depends on the lowered, stripped candidate. -/
theorem findNamespace_key {site : Site} {ops : CharOps} {x y : Str} (d : Int)
    (h : stripWs ops (ops.lower x) = stripWs ops (ops.lower y)) :
    findNamespace site ops x d = findNamespace site ops y d := by
  unfold findNamespace
  simp only [h]

/-! ### second pass over a canonical full name -/

theorem assemble_canon {site : Site} {ops : CharOps} (hl : CharLaws ops) {S : Str} (hS : Clean ops S)
    (ns : Int) (P : Str) :
    let r := assemble site ops ns P S
    Clean ops r.partialName ∧ assemble site ops ns P r.partialName = r := by
  unfold assemble
  simp only []
  by_cases hc : site.capitalize = true
  · simp only [hc, if_true]
    obtain ⟨h1, h2⟩ := clean_upperFirst hl hS
    exact ⟨h1, by rw [h2]⟩
  · have hc' : site.capitalize = false := by simpa using hc
    simp only [hc', Bool.false_eq_true, if_false]
    exact ⟨hS, trivial⟩

theorem pass2_prefixed {site : Site} {ops : CharOps} (hs : SiteWF site ops) (hl : CharLaws ops)
    {nsr : Namespace} (hm : nsr ∈ site.namespaces) (hne : nsr.name ≠ []) {S : Str}
    (hS : Clean ops S) (d : Int) :
    splitname site ops (nsr.name ++ ':' :: S) d =
      some (assemble site ops nsr.id nsr.name S) := by
  obtain ⟨hcol, hP⟩ := hs.namesClean nsr hm
  have hfull : Clean ops (nsr.name ++ ':' :: S) := by
    refine ⟨?_, noDbl_append_sep (by decide) hP.noDbl hS.noDbl, ?_, ?_⟩
    · intro h
      simp only [List.mem_append, List.mem_cons] at h
      rcases h with h | h | h
      · exact hP.noUnderscore h
      · exact absurd h (by decide)
      · exact hS.noUnderscore h
    · intro c hc
      cases hn : nsr.name with
      | nil => exact absurd hn hne
      | cons x xs =>
        rw [hn] at hc; simp at hc; subst hc
        exact hP.noEdge.1 x (by rw [hn]; rfl)
    · intro c hc
      rw [getLast?_append_ne_nil _ _ (by simp)] at hc
      cases S with
      | nil => simp at hc; subst hc; exact hl.colon_not_edge
      | cons y ys =>
        rw [List.getLast?_cons_of_ne_nil (by simp)] at hc
        exact hS.noEdge.2 c hc
  unfold splitname
  simp only [clean_idem hfull]
  have hmatch : leadingColon ops (nsr.name ++ ':' :: S) d = (nsr.name ++ ':' :: S, d) := by
    unfold leadingColon
    split
    · rename_i rest heq
      cases hn : nsr.name with
      | nil => exact absurd hn hne
      | cons x xs =>
        rw [hn] at heq; injection heq with e1 _
        exact absurd (show ':' ∈ nsr.name by rw [hn, e1]; simp) hcol
    · rfl
  rw [hmatch]
  unfold splitCore
  simp only [splitColon_append hcol]
  rw [findNamespace_found_indep (hs.selfLookup nsr hm) d]
  simp only [if_true]
  rw [stripEdges_eq, strip_of_noEdge hS.noEdge]

/-- the remainder of a main-namespace result cannot be read as `<namespace>:<rest>`. -/
def MainUnambiguous (site : Site) (ops : CharOps) (S : Str) : Prop :=
  ∀ a b, splitColon S = some (a, b) → findNamespace site ops a 0 = some (false, 0, [])

theorem pass2_main {site : Site} {ops : CharOps} (hs : SiteWF site ops) (hl : CharLaws ops)
    {S : Str} (hS : Clean ops S) (hu : MainUnambiguous site ops S) :
    splitname site ops S 0 = some (assemble site ops 0 [] S) := by
  -- S does not start with a colon: the empty candidate is the main namespace itself
  have hempty : findNamespace site ops [] 0 ≠ some (false, 0, []) := by
    obtain ⟨ns0, hm0, hi0, hn0⟩ := nsName_mem hs.mainEmpty
    have := hs.selfLookup ns0 hm0
    rw [hn0] at this
    rw [this]; simp
  have hhead : ∀ rest, S ≠ ':' :: rest := by
    intro rest e
    exact hempty (hu [] rest (by rw [e]; simp [splitColon]))
  unfold splitname
  simp only [clean_idem hS]
  have hmatch : leadingColon ops S 0 = (S, 0) := by
    unfold leadingColon
    split
    · rename_i rest; exact absurd rfl (hhead rest)
    · rfl
  rw [hmatch]
  unfold splitCore
  simp only []
  cases hsc : splitColon S with
  | none => simp only [hs.mainEmpty]
  | some p =>
    obtain ⟨a, b⟩ := p
    simp only [hu a b hsc, Bool.false_eq_true, if_false]

/-! ### a decidable checker for `SiteWF` (used for the generated sites) -/

def noEdgeB (p : Char → Bool) (s : Str) : Bool :=
  (match s.head? with | some c => !p c | none => true) &&
  (match s.getLast? with | some c => !p c | none => true)

def cleanB (ops : CharOps) (s : Str) : Bool := !s.contains '_' && noDbl s && noEdgeB ops.edge s

def siteWFb (site : Site) (ops : CharOps) : Bool :=
  site.namespaces.all (fun ns =>
    !ns.name.contains ':' && cleanB ops ns.name &&
    findNamespace site ops ns.name 0 == some (true, ns.id, ns.name) &&
    (!ns.name.isEmpty || ns.id == 0) &&
    site.nsName ns.id == some ns.name) &&
  site.nsName 0 == some []

theorem noEdgeB_sound {p : Char → Bool} {s : Str} (h : noEdgeB p s = true) : NoEdge p s := by
  unfold noEdgeB at h
  simp only [Bool.and_eq_true] at h
  constructor
  · intro c hc; rw [hc] at h; simpa using h.1
  · intro c hc; rw [hc] at h; simpa using h.2

theorem cleanB_sound {ops : CharOps} {s : Str} (h : cleanB ops s = true) : Clean ops s := by
  unfold cleanB at h
  simp only [Bool.and_eq_true, Bool.not_eq_true', List.contains_eq_mem, decide_eq_false_iff_not] at h
  exact ⟨h.1.1, h.1.2, noEdgeB_sound h.2⟩

theorem siteWFb_sound {site : Site} {ops : CharOps} (h : siteWFb site ops = true) : SiteWF site ops := by
  unfold siteWFb at h
  simp only [Bool.and_eq_true, List.all_eq_true, beq_iff_eq, Bool.or_eq_true, Bool.not_eq_true',
    List.contains_eq_mem, decide_eq_false_iff_not] at h
  obtain ⟨hall, hmain⟩ := h
  refine ⟨?_, ?_, ?_, ?_, hmain⟩
  · intro ns hm
    obtain ⟨⟨⟨⟨h1, h2⟩, _⟩, _⟩, _⟩ := hall ns hm
    exact ⟨h1, cleanB_sound h2⟩
  · intro ns hm; exact (hall ns hm).1.1.2
  · intro ns hm he
    rcases (hall ns hm).1.2 with h | h
    · rw [he] at h; simp at h
    · exact h
  · intro ns hm; exact (hall ns hm).2

end MwVerif.Title

namespace MwVerif.Title

/-! ### spelling variants that the cleaning stage identifies -/

/-- the first stage of `splitname`. -/
def cleanName (ops : CharOps) (t : Str) : Str := collapseSpaces (stripEdges ops (replUnderscore t))

theorem splitname_eq_of_clean {site : Site} {ops : CharOps} {t t' : Str} (d : Int)
    (h : cleanName ops t = cleanName ops t') : splitname site ops t d = splitname site ops t' d := by
  unfold splitname
  unfold cleanName at h
  simp only [h]

theorem dropWhile_append_all {p : Char → Bool} {a : Str} (x : Str) (h : a.all p = true) :
    (a ++ x).dropWhile p = x.dropWhile p := by
  induction a with
  | nil => rfl
  | cons c cs ih =>
    simp only [List.all_cons, Bool.and_eq_true] at h
    simp [List.dropWhile_cons, h.1, ih h.2]

theorem dropWhile_append_not_all {p : Char → Bool} {a : Str} (x : Str) (h : a.all p = false) :
    (a ++ x).dropWhile p = a.dropWhile p ++ x := by
  induction a with
  | nil => simp at h
  | cons c cs ih =>
    by_cases hc : p c = true
    · simp only [List.all_cons, hc, Bool.true_and] at h
      simp [List.dropWhile_cons, hc, ih h]
    · simp [List.dropWhile_cons, hc]

theorem dropWhile_not_all_ne_nil {p : Char → Bool} {a : Str} (h : a.all p = false) :
    a.dropWhile p ≠ [] ∧ (a.dropWhile p).all p = false := by
  induction a with
  | nil => simp at h
  | cons c cs ih =>
    by_cases hc : p c = true
    · simp only [List.all_cons, hc, Bool.true_and] at h
      simp only [List.dropWhile_cons, hc, if_true]; exact ih h
    · simp [List.dropWhile_cons, hc]

theorem dropWhile_nil_of_all {p : Char → Bool} {l : Str} (h : l.all p = true) : l.dropWhile p = [] := by
  induction l with
  | nil => rfl
  | cons c cs ih =>
    simp only [List.all_cons, Bool.and_eq_true] at h
    simp [List.dropWhile_cons, h.1, ih h.2]

theorem strip_append_edges {p : Char → Bool} {pre post : Str} (s : Str)
    (h1 : pre.all p = true) (h2 : post.all p = true) : strip p (pre ++ s ++ post) = strip p s := by
  unfold strip
  rw [List.append_assoc, dropWhile_append_all _ h1]
  by_cases hs : s.all p = true
  · rw [dropWhile_append_all _ hs]
    have e1 : post.dropWhile p = [] := dropWhile_nil_of_all h2
    have e2 : s.dropWhile p = [] := dropWhile_nil_of_all hs
    rw [e1, e2]
  · have hs' : s.all p = false := by simpa using hs
    rw [dropWhile_append_not_all _ hs', List.reverse_append,
      dropWhile_append_all _ (by simpa using h2)]

theorem collapse_double (x y : Str) :
    collapseSpaces (x ++ ' ' :: ' ' :: y) = collapseSpaces (x ++ ' ' :: y) := by
  induction x with
  | nil =>
    simp only [List.nil_append]
    show consSpace (collapseSpaces (' ' :: y)) = collapseSpaces (' ' :: y)
    have : collapseSpaces (' ' :: y) = consSpace (collapseSpaces y) := by
      simp [collapseSpaces]
    rw [this]
    rcases consSpace_eq (collapseSpaces y) with e | e
    · rw [e]
      cases hy : collapseSpaces y with
      | nil => rw [hy] at e; simp [consSpace] at e
      | cons d r =>
        rw [hy] at e
        by_cases hd : d = ' '
        · subst hd; rfl
        · rw [consSpace_of_ne r hd] at e; simp at e
    · rw [e]; rfl
  | cons c cs ih =>
    simp only [List.cons_append]
    unfold collapseSpaces
    rw [ih]

theorem replUnderscore_append (a b : Str) : replUnderscore (a ++ b) = replUnderscore a ++ replUnderscore b := by
  simp [replUnderscore]

/-- **surrounding whitespace, direction marks and underscores do not matter.** -/
theorem cleanName_edges {ops : CharOps} (hl : CharLaws ops) (pre post t : Str)
    (h1 : ∀ c ∈ pre, ops.edge c = true ∨ c = '_') (h2 : ∀ c ∈ post, ops.edge c = true ∨ c = '_') :
    cleanName ops (pre ++ t ++ post) = cleanName ops t := by
  unfold cleanName
  rw [replUnderscore_append, replUnderscore_append, stripEdges_eq, stripEdges_eq]
  have key : ∀ l : Str, (∀ c ∈ l, ops.edge c = true ∨ c = '_') → (replUnderscore l).all ops.edge = true := by
    intro l hl'
    rw [List.all_eq_true]
    intro x hx
    obtain ⟨c, hc, rfl⟩ := List.mem_map.1 hx
    by_cases e : c = '_'
    · simp only [e, if_true]; exact hl.space_edge
    · simp only [e, if_false]
      rcases hl' c hc with h | h
      · exact h
      · exact absurd h e
  rw [strip_append_edges _ (key pre h1) (key post h2)]

/-- **underscores and spaces are interchangeable.** -/
theorem cleanName_underscore {ops : CharOps} (t t' : Str) (h : replUnderscore t = replUnderscore t') :
    cleanName ops t = cleanName ops t' := by
  unfold cleanName; rw [h]

theorem strip_double_space {ops : CharOps} (hl : CharLaws ops) (a b : Str) :
    collapseSpaces (strip ops.edge (a ++ ' ' :: ' ' :: b)) =
      collapseSpaces (strip ops.edge (a ++ ' ' :: b)) := by
  have hsp := hl.space_edge
  unfold strip
  by_cases ha : a.all ops.edge = true
  · rw [dropWhile_append_all _ ha, dropWhile_append_all _ ha]
    simp [List.dropWhile_cons, hsp]
  · have ha' : a.all ops.edge = false := by simpa using ha
    rw [dropWhile_append_not_all _ ha', dropWhile_append_not_all _ ha']
    obtain ⟨hne, hna⟩ := dropWhile_not_all_ne_nil ha'
    generalize a.dropWhile ops.edge = a' at hne hna
    simp only [List.reverse_append, List.reverse_cons, List.append_assoc]
    by_cases hb : b.all ops.edge = true
    · have hb' : b.reverse.all ops.edge = true := by simpa using hb
      rw [dropWhile_append_all _ hb', dropWhile_append_all _ hb']
      simp [List.dropWhile_cons, hsp]
    · have hb' : b.reverse.all ops.edge = false := by simpa using hb
      rw [dropWhile_append_not_all _ hb', dropWhile_append_not_all _ hb']
      simp only [List.reverse_append, List.reverse_reverse, List.reverse_cons, List.reverse_nil,
        List.nil_append, List.append_assoc, List.singleton_append]
      exact collapse_double a' _

/-- **runs of spaces (or underscores) count as one.** -/
theorem cleanName_double_space {ops : CharOps} (hl : CharLaws ops) (a b : Str) :
    cleanName ops (a ++ ' ' :: ' ' :: b) = cleanName ops (a ++ ' ' :: b) := by
  unfold cleanName
  simp only [replUnderscore_append, stripEdges_eq]
  have e1 : replUnderscore (' ' :: ' ' :: b) = ' ' :: ' ' :: replUnderscore b := by simp [replUnderscore]
  have e2 : replUnderscore (' ' :: b) = ' ' :: replUnderscore b := by simp [replUnderscore]
  rw [e1, e2]
  exact strip_double_space hl _ _

/-- **the namespace may be spelled in any way that looks up the same namespace**: letter
case, canonical / local / alias name, blanks around it, blanks after the colon. -/
theorem splitCore_namespace_spelling {site : Site} {ops : CharOps} {a a' b b' : Str} {d : Int}
    {i : Int} {P : Str} (ha : ':' ∉ a) (ha' : ':' ∉ a')
    (hf : findNamespace site ops a d = some (true, i, P))
    (hf' : findNamespace site ops a' d = some (true, i, P))
    (hb : stripEdges ops b = stripEdges ops b') :
    splitCore site ops (a ++ ':' :: b) d = splitCore site ops (a' ++ ':' :: b') d := by
  unfold splitCore
  simp only [splitColon_append ha, splitColon_append ha', hf, hf', if_true, hb]

/-- two candidates with the same lower-cased, stripped form look up the same namespace. -/
theorem findNamespace_case_insensitive {site : Site} {ops : CharOps} {a a' : Str} (d : Int)
    (h : stripWs ops (ops.lower a) = stripWs ops (ops.lower a')) :
    findNamespace site ops a d = findNamespace site ops a' d := findNamespace_key d h

/-- **a leading colon** only resets the default namespace to the main namespace. -/
theorem leadingColon_main {ops : CharOps} {n : Str} (hn : NoEdge ops.edge n)
    (hc : ∀ rest, n ≠ ':' :: rest) :
    leadingColon ops (':' :: n) 0 = leadingColon ops n 0 := by
  have : leadingColon ops n 0 = (n, 0) := by
    unfold leadingColon
    split
    · rename_i rest; exact absurd rfl (hc rest)
    · rfl
  rw [this]
  simp [leadingColon, stripEdges_eq, strip_of_noEdge hn]

end MwVerif.Title
