import MwVerif.Model.Title

namespace MwVerif.Title

/-! ### strip -/

/-- neither end of `s` satisfies `p` (or `s` is empty). -/
def NoEdge (p : Char → Bool) (s : Str) : Prop :=
  (∀ c, s.head? = some c → p c = false) ∧ (∀ c, s.getLast? = some c → p c = false)

def strip (p : Char → Bool) (s : Str) : Str := ((s.dropWhile p).reverse.dropWhile p).reverse

theorem stripEdges_eq (ops : CharOps) (s : Str) : stripEdges ops s = strip ops.edge s := rfl
theorem stripWs_eq (ops : CharOps) (s : Str) : stripWs ops s = strip ops.isWs s := rfl

theorem dropWhile_head {p : Char → Bool} {s : Str} {c : Char} (h : (s.dropWhile p).head? = some c) :
    p c = false := by
  induction s with
  | nil => simp at h
  | cons x xs ih =>
    by_cases hx : p x = true
    · simp only [List.dropWhile_cons, hx, if_true] at h; exact ih h
    · simp only [List.dropWhile_cons, hx] at h
      simp at h; subst h; simpa using hx

theorem dropWhile_of_head {p : Char → Bool} {s : Str} (h : ∀ c, s.head? = some c → p c = false) :
    s.dropWhile p = s := by
  cases s with
  | nil => rfl
  | cons x xs => simp [List.dropWhile_cons, h x rfl]

theorem dropWhile_getLast {p : Char → Bool} {s : Str} {c : Char}
    (h : (s.dropWhile p).getLast? = some c) : s.getLast? = some c := by
  induction s with
  | nil => simp at h
  | cons x xs ih =>
    by_cases hx : p x = true
    · simp only [List.dropWhile_cons, hx, if_true] at h
      have := ih h
      rw [List.getLast?_cons_of_ne_nil (by intro e; subst e; simp at this)]
      exact this
    · simp only [List.dropWhile_cons, hx] at h; exact h

theorem strip_noEdge (p : Char → Bool) (s : Str) : NoEdge p (strip p s) := by
  unfold strip NoEdge
  constructor
  · intro c hc
    rw [List.head?_reverse] at hc
    have := dropWhile_getLast hc
    rw [List.getLast?_reverse] at this
    exact dropWhile_head this
  · intro c hc
    rw [List.getLast?_reverse] at hc
    exact dropWhile_head hc

theorem strip_of_noEdge {p : Char → Bool} {s : Str} (h : NoEdge p s) : strip p s = s := by
  unfold strip
  rw [dropWhile_of_head h.1]
  rw [dropWhile_of_head (s := s.reverse) (by intro c hc; rw [List.head?_reverse] at hc; exact h.2 c hc)]
  simp

theorem strip_subset (p : Char → Bool) (s : Str) : ∀ c ∈ strip p s, c ∈ s := by
  intro c hc
  unfold strip at hc
  have h1 := List.mem_reverse.1 hc
  have h2 := (List.dropWhile_sublist _).subset h1
  have h3 := List.mem_reverse.1 h2
  exact (List.dropWhile_sublist _).subset h3

theorem strip_infix (p : Char → Bool) (s : Str) : strip p s <:+: s := by
  unfold strip
  have h1 : (s.dropWhile p) <:+ s := List.dropWhile_suffix p
  have h2 : ((s.dropWhile p).reverse.dropWhile p) <:+ (s.dropWhile p).reverse := List.dropWhile_suffix p
  have h3 : ((s.dropWhile p).reverse.dropWhile p).reverse <+: (s.dropWhile p) := by
    have := List.reverse_prefix.2 h2
    simpa using this
  exact h3.isInfix.trans h1.isInfix

/-! ### double spaces -/

/-- no two adjacent plain spaces. -/
def noDbl : Str → Bool
  | ' ' :: ' ' :: _ => false
  | _ :: rest => noDbl rest
  | [] => true

theorem noDbl_cons_of {c : Char} {s : Str} (h : noDbl (c :: s) = true) : noDbl s = true := by
  cases s with
  | nil => rfl
  | cons d s =>
    unfold noDbl at h
    split at h
    · cases h
    · rename_i heq; injection heq with h1 h2; subst h2; exact h
    · rename_i heq; cases heq

theorem noDbl_cons_ne {c : Char} {s : Str} (hc : c ≠ ' ') : noDbl (c :: s) = noDbl s := by
  cases s with
  | nil => simp [noDbl]
  | cons d s =>
    conv => lhs; unfold noDbl
    split
    · rename_i heq; injection heq with h1 _; exact absurd h1 hc
    · rename_i heq; injection heq with _ h2; rw [h2]
    · rename_i heq; cases heq

theorem noDbl_space_cons {d : Char} {s : Str} (hd : d ≠ ' ') : noDbl (' ' :: d :: s) = noDbl (d :: s) := by
  conv => lhs; unfold noDbl
  split
  · rename_i heq; injection heq with _ h2; injection h2 with h3 _; exact absurd h3.symm (by simpa using hd.symm)
  · rename_i heq; injection heq with _ h2; rw [h2]
  · rename_i heq; cases heq

theorem consSpace_of_space (r : Str) : consSpace (' ' :: r) = ' ' :: r := rfl

theorem consSpace_of_ne {d : Char} (r : Str) (hd : d ≠ ' ') : consSpace (d :: r) = ' ' :: d :: r := by
  unfold consSpace
  split
  · rename_i rest heq; injection heq with h1 _; exact absurd h1 hd
  · rfl

theorem consSpace_nil : consSpace [] = [' '] := rfl

theorem consSpace_eq (r : Str) : consSpace r = r ∨ consSpace r = ' ' :: r := by
  cases r with
  | nil => right; rfl
  | cons d r =>
    by_cases hd : d = ' '
    · subst hd; left; rfl
    · right; exact consSpace_of_ne r hd

theorem collapse_noDbl (s : Str) : noDbl (collapseSpaces s) = true := by
  induction s with
  | nil => rfl
  | cons c cs ih =>
    unfold collapseSpaces
    by_cases hc : c = ' '
    · simp only [hc, if_true]
      cases hr : collapseSpaces cs with
      | nil => rfl
      | cons d r =>
        rw [hr] at ih
        by_cases hd : d = ' '
        · subst hd; exact ih
        · rw [consSpace_of_ne r hd, noDbl_space_cons hd]; exact ih
    · simp only [hc, if_false]
      rw [noDbl_cons_ne hc]; exact ih

theorem collapse_id {s : Str} (h : noDbl s = true) : collapseSpaces s = s := by
  induction s with
  | nil => rfl
  | cons c cs ih =>
    have ih' := ih (noDbl_cons_of h)
    unfold collapseSpaces
    by_cases hc : c = ' '
    · subst hc
      simp only [if_true, ih']
      cases cs with
      | nil => rfl
      | cons d r =>
        have hd : d ≠ ' ' := by
          intro e; subst e; simp [noDbl] at h
        exact consSpace_of_ne r hd
    · simp only [hc, if_false, ih']

theorem collapse_head {s : Str} {c : Char} (h : s.head? = some c) (hc : c ≠ ' ') :
    (collapseSpaces s).head? = some c := by
  cases s with
  | nil => simp at h
  | cons x xs =>
    simp at h; subst h
    unfold collapseSpaces
    simp [hc]

theorem collapse_subset (s : Str) : ∀ c ∈ collapseSpaces s, c ∈ s := by
  induction s with
  | nil => intro c hc; simp [collapseSpaces] at hc
  | cons x xs ih =>
    intro c hc
    unfold collapseSpaces at hc
    by_cases hx : x = ' '
    · simp only [hx, if_true] at hc
      rcases consSpace_eq (collapseSpaces xs) with e | e
      · rw [e] at hc; exact List.mem_cons_of_mem _ (ih c hc)
      · rw [e] at hc
        rcases List.mem_cons.1 hc with h | h
        · subst h; simp [hx]
        · exact List.mem_cons_of_mem _ (ih c h)
    · simp only [hx, if_false] at hc
      rcases List.mem_cons.1 hc with h | h
      · subst h; simp
      · exact List.mem_cons_of_mem _ (ih c h)

theorem getLast?_consSpace {r : Str} {c : Char} (h : r.getLast? = some c) :
    (consSpace r).getLast? = some c := by
  rcases consSpace_eq r with e | e
  · rw [e]; exact h
  · rw [e, List.getLast?_cons_of_ne_nil (by intro e2; subst e2; simp at h)]; exact h

theorem collapse_getLast {s : Str} {c : Char} (h : s.getLast? = some c) (hc : c ≠ ' ') :
    (collapseSpaces s).getLast? = some c := by
  induction s with
  | nil => simp at h
  | cons x xs ih =>
    cases xs with
    | nil =>
      simp at h; subst h
      simp [collapseSpaces, hc]
    | cons y ys =>
      have h' : (y :: ys).getLast? = some c := by
        rw [List.getLast?_cons_of_ne_nil (by simp)] at h; exact h
      have ih' := ih h'
      have hne : collapseSpaces (y :: ys) ≠ [] := by
        intro e; rw [e] at ih'; simp at ih'
      unfold collapseSpaces
      by_cases hx : x = ' '
      · simp only [hx, if_true]
        exact getLast?_consSpace ih'
      · simp only [hx, if_false]
        rw [List.getLast?_cons_of_ne_nil hne]; exact ih'

/-! ### splitting at the first colon -/

theorem splitColon_append {p s : Str} (hp : ':' ∉ p) : splitColon (p ++ ':' :: s) = some (p, s) := by
  induction p with
  | nil => simp [splitColon]
  | cons c cs ih =>
    have hc : c ≠ ':' := fun e => hp (by simp [e])
    have hcs : ':' ∉ cs := fun e => hp (by simp [e])
    simp [splitColon, hc, ih hcs]

theorem splitColon_none {s : Str} (h : ':' ∉ s) : splitColon s = none := by
  induction s with
  | nil => rfl
  | cons c cs ih =>
    have hc : c ≠ ':' := fun e => h (by simp [e])
    have hcs : ':' ∉ cs := fun e => h (by simp [e])
    simp [splitColon, hc, ih hcs]

theorem splitColon_some {s a b : Str} (h : splitColon s = some (a, b)) :
    s = a ++ ':' :: b ∧ ':' ∉ a := by
  induction s generalizing a with
  | nil => simp [splitColon] at h
  | cons c cs ih =>
    unfold splitColon at h
    by_cases hc : c = ':'
    · simp only [hc, if_true, Option.some.injEq, Prod.mk.injEq] at h
      obtain ⟨rfl, rfl⟩ := h
      simp [hc]
    · simp only [hc, if_false] at h
      cases hs : splitColon cs with
      | none => simp [hs] at h
      | some p =>
        simp only [hs, Option.map_some, Option.some.injEq, Prod.mk.injEq] at h
        obtain ⟨rfl, rfl⟩ := h
        obtain ⟨h1, h2⟩ := ih (a := p.1) (by rw [hs])
        refine ⟨by rw [h1]; simp, ?_⟩
        intro hm
        rcases List.mem_cons.1 hm with e | e
        · exact hc e.symm
        · exact h2 e

end MwVerif.Title
