import MwVerif.Lemmas.Title.Strings

namespace MwVerif.Title

/-- what the proofs need to know about Python's `str.isspace` / `str.upper` / `str.lower`
(checked over all code points by the harness). -/
structure CharLaws (ops : CharOps) : Prop where
  space_ws : ops.isWs ' ' = true
  colon_not_ws : ops.isWs ':' = false
  lower_nil : ops.lower [] = []
  upper1_ne : ∀ c, ops.upper1 c ≠ []
  upper1_special : ∀ c x, x ∈ ops.upper1 c → (ops.edge x = true ∨ x = '_' ∨ x = ':') → x = c
  upper1_idem : ∀ c, upperFirst ops (ops.upper1 c) = ops.upper1 c

theorem CharLaws.space_edge {ops : CharOps} (h : CharLaws ops) : ops.edge ' ' = true := by
  simp [CharOps.edge, h.space_ws]

theorem CharLaws.colon_not_edge {ops : CharOps} (h : CharLaws ops) : ops.edge ':' = false := by
  simp only [CharOps.edge, h.colon_not_ws, Bool.false_or, Bool.or_eq_false_iff, decide_eq_false_iff_not]
  exact ⟨by decide, by decide⟩

/-! ### more about noDbl -/

theorem noDbl_append_of_nospace {a b : Str} (ha : ' ' ∉ a) (hb : noDbl b = true) : noDbl (a ++ b) = true := by
  induction a with
  | nil => exact hb
  | cons c cs ih =>
    have hc : c ≠ ' ' := fun e => ha (by simp [e])
    rw [List.cons_append, noDbl_cons_ne hc]
    exact ih (fun e => ha (by simp [e]))

theorem noDbl_append_sep {a b : Str} {x : Char} (hx : x ≠ ' ') (ha : noDbl a = true) (hb : noDbl b = true) :
    noDbl (a ++ x :: b) = true := by
  induction a with
  | nil => simp only [List.nil_append]; rw [noDbl_cons_ne hx]; exact hb
  | cons c cs ih =>
    have ih' := ih (noDbl_cons_of ha)
    by_cases hc : c = ' '
    · subst hc
      cases cs with
      | nil =>
        simp only [List.cons_append, List.nil_append]
        rw [noDbl_space_cons hx, noDbl_cons_ne hx]; exact hb
      | cons d ds =>
        have hd : d ≠ ' ' := by intro e; subst e; simp [noDbl] at ha
        simp only [List.cons_append] at ih' ⊢
        rw [noDbl_space_cons hd]; exact ih'
    · rw [List.cons_append, noDbl_cons_ne hc]; exact ih'

theorem noDbl_append_right {a b : Str} (h : noDbl (a ++ b) = true) : noDbl b = true := by
  induction a with
  | nil => exact h
  | cons c cs ih => exact ih (noDbl_cons_of h)

theorem noDbl_append_left {a b : Str} (h : noDbl (a ++ b) = true) : noDbl a = true := by
  induction a with
  | nil => rfl
  | cons c cs ih =>
    have ih' := ih (noDbl_cons_of h)
    by_cases hc : c = ' '
    · subst hc
      cases cs with
      | nil => rfl
      | cons d ds =>
        have hd : d ≠ ' ' := by intro e; subst e; simp [noDbl] at h
        rw [noDbl_space_cons hd]; exact ih'
    · rw [noDbl_cons_ne hc]; exact ih'

theorem noDbl_infix {s t : Str} (h : noDbl s = true) (ht : t <:+: s) : noDbl t = true := by
  obtain ⟨a, b, rfl⟩ := ht
  exact noDbl_append_right (noDbl_append_left h)

/-! ### the cleaned name -/

/-- a string in the shape every stage of `splitname` maintains. -/
structure Clean (ops : CharOps) (s : Str) : Prop where
  noUnderscore : '_' ∉ s
  noDbl : noDbl s = true
  noEdge : NoEdge ops.edge s

theorem replUnderscore_clean (t : Str) : '_' ∉ replUnderscore t := by
  unfold replUnderscore
  intro h
  obtain ⟨c, _, hc⟩ := List.mem_map.1 h
  by_cases e : c = '_'
  · simp [e] at hc
  · simp only [e, if_false] at hc

theorem getLast?_append_ne_nil {α : Type} (a b : List α) (h : b ≠ []) :
    (a ++ b).getLast? = b.getLast? := by
  induction a with
  | nil => rfl
  | cons x xs ih =>
    rw [List.cons_append, List.getLast?_cons_of_ne_nil (by simp [h])]; exact ih

theorem replUnderscore_id {s : Str} (h : '_' ∉ s) : replUnderscore s = s := by
  unfold replUnderscore
  induction s with
  | nil => rfl
  | cons c cs ih =>
    have hc : c ≠ '_' := fun e => h (by simp [e])
    simp [hc, ih (fun e => h (by simp [e]))]

theorem noEdge_collapse {ops : CharOps} (hl : CharLaws ops) {s : Str} (h : NoEdge ops.edge s) :
    NoEdge ops.edge (collapseSpaces s) := by
  constructor
  · intro c hc
    cases hs : s.head? with
    | none =>
      have : s = [] := by cases s <;> simp_all
      subst this; simp [collapseSpaces] at hc
    | some x =>
      have hx := h.1 x hs
      have hxs : x ≠ ' ' := by intro e; subst e; rw [hl.space_edge] at hx; cases hx
      rw [collapse_head hs hxs] at hc
      injection hc with hc; subst hc; exact hx
  · intro c hc
    cases hs : s.getLast? with
    | none =>
      have : s = [] := by cases s <;> simp_all
      subst this; simp [collapseSpaces] at hc
    | some x =>
      have hx := h.2 x hs
      have hxs : x ≠ ' ' := by intro e; subst e; rw [hl.space_edge] at hx; cases hx
      rw [collapse_getLast hs hxs] at hc
      injection hc with hc; subst hc; exact hx

theorem clean_stage1 {ops : CharOps} (hl : CharLaws ops) (t : Str) :
    Clean ops (collapseSpaces (stripEdges ops (replUnderscore t))) := by
  refine ⟨?_, collapse_noDbl _, noEdge_collapse hl (strip_noEdge _ _)⟩
  intro h
  have h1 := collapse_subset _ _ h
  have h2 := strip_subset _ _ _ h1
  exact replUnderscore_clean t h2

theorem clean_strip_infix {ops : CharOps} {s t : Str} (h : Clean ops s) (ht : t <:+: s) :
    Clean ops (stripEdges ops t) := by
  refine ⟨?_, noDbl_infix h.noDbl ((strip_infix _ _).trans ht), strip_noEdge _ _⟩
  intro hm
  exact h.noUnderscore (ht.subset (strip_subset _ _ _ hm))

theorem clean_idem {ops : CharOps} {s : Str} (h : Clean ops s) :
    collapseSpaces (stripEdges ops (replUnderscore s)) = s := by
  rw [replUnderscore_id h.noUnderscore, stripEdges_eq, strip_of_noEdge h.noEdge, collapse_id h.noDbl]

/-! ### capitalisation keeps the shape and is idempotent -/

theorem upper1_no_special {ops : CharOps} (hl : CharLaws ops) {c : Char} (hc : ops.edge c = false)
    (hu : c ≠ '_') : ∀ x ∈ ops.upper1 c, ops.edge x = false ∧ x ≠ ' ' ∧ x ≠ '_' := by
  intro x hx
  have key : ∀ (hsp : ops.edge x = true ∨ x = '_' ∨ x = ':'), x = c := hl.upper1_special c x hx
  refine ⟨?_, ?_, ?_⟩
  · cases he : ops.edge x with
    | false => rfl
    | true => have := key (Or.inl he); subst this; rw [hc] at he; cases he
  · intro e; subst e
    have := key (Or.inl hl.space_edge); subst this; rw [hl.space_edge] at hc; cases hc
  · intro e; subst e
    exact hu (key (Or.inr (Or.inl rfl))).symm

theorem clean_upperFirst {ops : CharOps} (hl : CharLaws ops) {s : Str} (h : Clean ops s) :
    Clean ops (upperFirst ops s) ∧ upperFirst ops (upperFirst ops s) = upperFirst ops s := by
  cases s with
  | nil => exact ⟨h, rfl⟩
  | cons c cs =>
    have hc : ops.edge c = false := h.noEdge.1 c rfl
    have hu : c ≠ '_' := fun e => h.noUnderscore (by simp [e])
    have hns := upper1_no_special hl hc hu
    have hcs : noDbl cs = true := noDbl_cons_of h.noDbl
    constructor
    · refine ⟨?_, ?_, ?_, ?_⟩
      · intro hm
        simp only [upperFirst, List.mem_append] at hm
        rcases hm with hm | hm
        · exact (hns _ hm).2.2 rfl
        · exact h.noUnderscore (List.mem_cons_of_mem _ hm)
      · exact noDbl_append_of_nospace (fun hm => (hns _ hm).2.1 rfl) hcs
      · intro x hx
        simp only [upperFirst] at hx
        cases hu1 : ops.upper1 c with
        | nil => exact absurd hu1 (hl.upper1_ne c)
        | cons u us =>
          rw [hu1] at hx
          simp at hx; subst hx
          exact (hns u (by rw [hu1]; simp)).1
      · intro x hx
        simp only [upperFirst] at hx
        cases cs with
        | nil =>
          simp only [List.append_nil] at hx
          exact (hns x (List.mem_of_getLast? hx)).1
        | cons d ds =>
          rw [getLast?_append_ne_nil _ _ (by simp)] at hx
          apply h.noEdge.2 x
          rw [List.getLast?_cons_of_ne_nil (by simp)]; exact hx
    · simp only [upperFirst]
      cases hu1 : ops.upper1 c with
      | nil => exact absurd hu1 (hl.upper1_ne c)
      | cons u us =>
        have := hl.upper1_idem c
        rw [hu1] at this
        simp only [upperFirst] at this
        simp only [List.cons_append, upperFirst]
        rw [← List.append_assoc, this]; rfl

end MwVerif.Title
