import MwVerif.Lemmas.Uniq.Split
import MwVerif.Lemmas.Uniq.Marker
import Std.Data.String.ToNat
/-! protect-then-restore is the identity up to the documented exceptions (model level). -/
namespace MwVerif.Uniq

/-! ### what `emit` writes -/

def textOf (rand : Str) : List Seg → Nat → Str
  | [], _ => []
  | .plain c :: ss, k => c :: textOf rand ss k
  | .repl t _ :: ss, k => t ++ textOf rand ss k
  | .region r _ :: ss, k => marker rand r.tagname k ++ textOf rand ss (k + 1)

def regionsOf : List Seg → List Rec
  | [] => []
  | .region r _ :: ss => r :: regionsOf ss
  | _ :: ss => regionsOf ss

def tableOf (rand : Str) : Nat → List Rec → List (Str × Rec)
  | _, [] => []
  | k, r :: rs => (marker rand r.tagname k, r) :: tableOf rand (k + 1) rs

theorem tableOf_length (rand : Str) (k : Nat) (rs : List Rec) : (tableOf rand k rs).length = rs.length := by
  induction rs generalizing k with
  | nil => rfl
  | cons r rs ih => simp [tableOf, ih]

theorem emit_eq (rand : Str) (ss : List Seg) (o : Out) :
    emit rand ss o = { text := o.text ++ textOf rand ss o.table.length,
                       table := o.table ++ tableOf rand o.table.length (regionsOf ss) } := by
  induction ss generalizing o with
  | nil => simp [emit, textOf, regionsOf, tableOf]
  | cons seg ss ih =>
    cases seg with
    | plain c => rw [emit, ih]; simp [textOf, regionsOf]
    | repl t raw => rw [emit, ih]; simp [textOf, regionsOf]
    | region r raw => rw [emit, ih]; simp [textOf, regionsOf, tableOf, List.append_assoc]

theorem replaceTags_eq (cfg : Cfg) (s : Str) :
    replaceTags cfg s = { text := textOf cfg.rand (segs cfg s.length s) 0,
                          table := tableOf cfg.rand 0 (regionsOf (segs cfg s.length s)) } := by
  unfold replaceTags; rw [emit_eq]; rfl

/-! ### restoring -/

theorem matchMarker_ne_del (c : Char) (cs : Str) (h : c ≠ del) : matchMarker (c :: cs) = none := by
  unfold matchMarker
  have : stripPrefix ([del] ++ "UNIQ-".toList) (c :: cs) = none := by
    simp only [List.singleton_append, stripPrefix]
    rw [if_neg (fun hh => h hh.symm)]
  rw [this]

theorem restore_nil (t : List (Str × Rec)) (f : Nat) : restore t f [] = [] := by
  cases f <;> rfl

theorem restore_plain (t : List (Str × Rec)) (f : Nat) (c : Char) (cs : Str) (h : c ≠ del) :
    restore t (f + 1) (c :: cs) = c :: restore t f cs := by
  rw [restore, matchMarker_ne_del c cs h]

theorem restore_prefix (t : List (Str × Rec)) (f : Nat) (pre rest : Str) (h : ∀ c ∈ pre, c ≠ del) :
    restore t (pre.length + f) (pre ++ rest) = pre ++ restore t f rest := by
  induction pre with
  | nil => simp
  | cons c pre ih =>
    have hc := h c (by simp)
    rw [show (c :: pre).length + f = (pre.length + f) + 1 by simp; omega]
    simp only [List.cons_append]
    rw [restore_plain _ _ _ _ hc, ih (fun x hx => h x (by simp [hx]))]

theorem marker_ne_nil (rand name : Str) (n : Nat) : marker rand name n = del :: (marker rand name n).tail := by
  simp [marker]


/-! ### markers with different numbers differ, whatever the tag names -/

/-- two texts that start with a `sep`-free word followed by `sep` agree on the word and on the rest -/
theorem append_sep_inj (sep : Char) : ∀ (a b x y : Str), sep ∉ a → sep ∉ b →
    a ++ sep :: x = b ++ sep :: y → a = b ∧ x = y
  | [], [], x, y, _, _, h => by simpa using h
  | [], c :: b, x, y, _, hb, h => by
    simp only [List.nil_append, List.cons_append, List.cons.injEq] at h
    exact absurd (by simp [h.1]) hb
  | c :: a, [], x, y, ha, _, h => by
    simp only [List.nil_append, List.cons_append, List.cons.injEq] at h
    exact absurd (by simp [h.1]) ha
  | c :: a, d :: b, x, y, ha, hb, h => by
    simp only [List.cons_append, List.cons.injEq] at h
    obtain ⟨h1, h2⟩ := append_sep_inj sep a b x y (fun hh => ha (by simp [hh])) (fun hh => hb (by simp [hh])) h.2
    exact ⟨by rw [h.1, h1], h2⟩

theorem dash_not_alnum (n : Str) (h : ∀ c ∈ n, isLowerAlnum c = true) : '-' ∉ n := by
  intro hm; have := h _ hm; revert this; decide

theorem dash_not_digit (n : Nat) : '-' ∉ natToStr n := by
  intro hm; have := natToStr_digits n _ hm; revert this; decide

theorem marker_injective (rand n1 n2 : Str) (a b : Nat)
    (h1 : ∀ c ∈ n1, isLowerAlnum c = true) (h2 : ∀ c ∈ n2, isLowerAlnum c = true)
    (h : marker rand n1 a = marker rand n2 b) : n1 = n2 ∧ a = b := by
  unfold marker at h
  simp only [List.append_assoc, List.append_cancel_left_eq, List.singleton_append] at h
  obtain ⟨e1, e2⟩ := append_sep_inj '-' n1 n2 _ _ (dash_not_alnum n1 h1) (dash_not_alnum n2 h2) h
  obtain ⟨e3, _⟩ := append_sep_inj '-' _ _ _ _ (dash_not_digit a) (dash_not_digit b) e2
  exact ⟨e1, natToStr_inj e3⟩

/-! ### looking a marker up in the table -/

def RecOk (r : Rec) : Prop := (∀ c ∈ r.tagname, isLowerAlnum c = true) ∧ r.tagname ≠ []

theorem lookup_tableOf (rand : Str) : ∀ (rs : List Rec) (k j : Nat) (r : Rec), (∀ x ∈ rs, RecOk x) →
    rs[j]? = some r → lookupMarker (tableOf rand k rs) (marker rand r.tagname (k + j)) = some r
  | [], _, _, _, _, h => by simp at h
  | x :: rs, k, 0, r, hok, h => by
    simp only [List.getElem?_cons_zero, Option.some.injEq] at h
    subst h
    simp [lookupMarker, tableOf, List.find?]
  | x :: rs, k, j + 1, r, hok, h => by
    simp only [List.getElem?_cons_succ] at h
    have hr : RecOk r := hok r (by simp [List.mem_of_getElem? h])
    have hx : RecOk x := hok x (by simp)
    have hne : marker rand x.tagname k ≠ marker rand r.tagname (k + (j + 1)) := by
      intro he
      have := (marker_injective rand _ _ _ _ hx.1 hr.1 he).2
      omega
    have ih := lookup_tableOf rand rs (k + 1) j r (fun y hy => hok y (by simp [hy])) h
    rw [show k + 1 + j = k + (j + 1) by omega] at ih
    unfold lookupMarker at ih ⊢
    simp only [tableOf, List.find?]
    rw [show decide (marker rand x.tagname k = marker rand r.tagname (k + (j + 1))) = false by simpa using hne]
    exact ih

/-! ### the round trip on a list of pieces -/

def SegOk : Seg → Prop
  | .plain c => c ≠ del
  | .repl t _ => ∀ c ∈ t, c ≠ del
  | .region r _ => RecOk r

theorem regionsOf_append (a b : List Seg) : regionsOf (a ++ b) = regionsOf a ++ regionsOf b := by
  induction a with
  | nil => rfl
  | cons s a ih => cases s <;> simp [regionsOf, ih]

theorem regionsOf_ok (ss : List Seg) (h : ∀ s ∈ ss, SegOk s) : ∀ r ∈ regionsOf ss, RecOk r := by
  induction ss with
  | nil => intro r hr; cases hr
  | cons s ss ih =>
    intro r hr
    cases s with
    | plain c => exact ih (fun x hx => h x (by simp [hx])) r (by simpa [regionsOf] using hr)
    | repl t raw => exact ih (fun x hx => h x (by simp [hx])) r (by simpa [regionsOf] using hr)
    | region r' raw =>
      simp only [regionsOf, List.mem_cons] at hr
      rcases hr with rfl | hr
      · exact h (.region r raw) (by simp)
      · exact ih (fun x hx => h x (by simp [hx])) r hr

theorem restore_pieces (rand : Str) (hrand : ∀ c ∈ rand, isHex c = true) (hr0 : rand ≠ []) (all : List Seg)
    (hall : ∀ s ∈ all, SegOk s) :
    ∀ (ss pre : List Seg), all = pre ++ ss → ∀ f, (textOf rand ss (regionsOf pre).length).length ≤ f →
      restore (tableOf rand 0 (regionsOf all)) f (textOf rand ss (regionsOf pre).length) = direct ss := by
  intro ss
  induction ss with
  | nil => intro pre _ f _; simp [textOf, direct, restore_nil]
  | cons seg ss ih =>
    intro pre hsplit f hf
    have hseg : SegOk seg := hall seg (by rw [hsplit]; simp)
    have hnext : all = (pre ++ [seg]) ++ ss := by rw [hsplit]; simp
    cases seg with
    | plain c =>
      simp only [textOf, List.length_cons] at hf ⊢
      obtain ⟨f', rfl⟩ : ∃ f', f = f' + 1 := ⟨f - 1, by omega⟩
      rw [restore_plain _ _ _ _ hseg, direct]
      have := ih (pre ++ [.plain c]) hnext f' (by simpa [regionsOf_append, regionsOf] using (by omega : _ ≤ f'))
      simpa [regionsOf_append, regionsOf] using congrArg (c :: ·) this
    | repl t raw =>
      simp only [textOf, List.length_append] at hf ⊢
      obtain ⟨f', rfl⟩ : ∃ f', f = t.length + f' := ⟨f - t.length, by omega⟩
      rw [restore_prefix _ _ _ _ hseg, direct]
      have := ih (pre ++ [.repl t raw]) hnext f' (by simpa [regionsOf_append, regionsOf] using (by omega : _ ≤ f'))
      simpa [regionsOf_append, regionsOf] using congrArg (t ++ ·) this
    | region r raw =>
      simp only [textOf, List.length_append] at hf ⊢
      have hm := marker_recognised rand r.tagname (regionsOf pre).length
        (textOf rand ss ((regionsOf pre).length + 1)) hseg.1 hseg.2 hrand hr0
      have hlen : 1 ≤ (marker rand r.tagname (regionsOf pre).length).length := by
        rw [marker_ne_nil]; simp
      obtain ⟨f', rfl⟩ : ∃ f', f = f' + 1 := ⟨f - 1, by omega⟩
      have hlook : lookupMarker (tableOf rand 0 (regionsOf all)) (marker rand r.tagname (regionsOf pre).length) = some r := by
        have := lookup_tableOf rand (regionsOf all) 0 (regionsOf pre).length r (regionsOf_ok all hall)
          (by rw [hsplit, regionsOf_append]; simp [regionsOf])
        simpa using this
      have hshape : marker rand r.tagname (regionsOf pre).length ++ textOf rand ss ((regionsOf pre).length + 1) =
          del :: ((marker rand r.tagname (regionsOf pre).length).tail ++ textOf rand ss ((regionsOf pre).length + 1)) := by
        conv => lhs; rw [marker_ne_nil]
        rfl
      rw [hshape, restore, ← hshape, hm]
      simp only [hlook, direct]
      have := ih (pre ++ [.region r raw]) hnext f' (by simpa [regionsOf_append, regionsOf] using (by omega : _ ≤ f'))
      simpa [regionsOf_append, regionsOf] using congrArg (r.complete ++ ·) this


/-! ### the pieces of a text without U+007F are restorable, and stand for the whole text -/

def NamesOk (cfg : Cfg) : Prop := ∀ n ∈ cfg.names, (∀ c ∈ n, isLowerAlnum c = true) ∧ n ≠ []
def FoldOk (cfg : Cfg) : Prop := ∀ c : Char, c.toNat < 128 → cfg.fold c = lowerAscii c

theorem map_fold_ascii (cfg : Cfg) (hf : FoldOk cfg) (m : Str) (h : isAscii m = true) :
    m.map lowerAscii = m.map cfg.fold := by
  induction m with
  | nil => rfl
  | cons c m ih =>
    simp only [isAscii, List.all_cons, Bool.and_eq_true, decide_eq_true_eq] at h
    simp only [List.map_cons]
    rw [hf c h.1, ih (by simpa [isAscii] using h.2)]

theorem segs_ok (cfg : Cfg) (hn : NamesOk cfg) (hf : FoldOk cfg) :
    ∀ (f : Nat) (s : Str), (∀ c ∈ s, c ≠ del) → ∀ seg ∈ segs cfg f s, SegOk seg := by
  intro f
  induction f with
  | zero => intro s _ seg h; simp [segs] at h
  | succ f ih =>
    intro s hs seg hseg
    cases s with
    | nil => simp [segs] at hseg
    | cons c cs =>
      rw [segs] at hseg
      cases hc : matchComment (c :: cs) with
      | some rr =>
        obtain ⟨repl, rest⟩ := rr
        simp only [hc, List.mem_cons] at hseg
        obtain ⟨hrepl, pre, hpre, _⟩ := matchComment_split _ _ _ hc
        rcases hseg with rfl | hseg
        · intro x hx
          rcases hrepl x hx with rfl | rfl <;> decide
        · exact ih rest (fun x hx => hs x (by rw [hpre]; simp [hx])) seg hseg
      | none =>
        simp only [hc] at hseg
        cases ht : matchTag cfg (c :: cs) with
        | none =>
          simp only [ht, List.mem_cons] at hseg
          rcases hseg with rfl | hseg
          · exact hs c (by simp)
          · exact ih cs (fun x hx => hs x (by simp [hx])) seg hseg
        | some q =>
          obtain ⟨r, ascii, rest⟩ := q
          simp only [ht] at hseg
          obtain ⟨hsplit, _, name, hname, m, hm1, hm2, hm3, hm4⟩ := matchTag_split cfg _ _ _ _ ht
          have hrest : ∀ x ∈ rest, x ≠ del := fun x hx => hs x (by rw [hsplit]; simp [hx])
          have hcomp : ∀ x ∈ r.complete, x ≠ del := fun x hx => hs x (by rw [hsplit]; simp [hx])
          cases ha : ascii with
          | false =>
            simp only [ha, Bool.not_false, if_true, List.mem_cons] at hseg
            rcases hseg with rfl | hseg
            · exact hcomp
            · exact ih rest hrest seg hseg
          | true =>
            simp only [ha, Bool.not_true, Bool.false_eq_true, if_false, List.mem_cons] at hseg
            rcases hseg with rfl | hseg
            · have htag : r.tagname = name := by
                rw [hm3, map_fold_ascii cfg hf m (by rw [← hm4, ha]), hm1]
              have hok := hn name hname
              show RecOk _
              unfold RecOk
              split <;> simp only [htag] <;> exact hok
            · exact ih rest hrest seg hseg

theorem length_of_append_eq {pre rest : Str} {s : Str} (h : s = pre ++ rest) :
    s.take (s.length - rest.length) = pre := by
  subst h; simp

/-- the pieces stand for the whole input, in order: nothing outside the comments and the regions
is touched. -/
theorem consumed_segs (cfg : Cfg) : ∀ (f : Nat) (s : Str), s.length ≤ f → consumed (segs cfg f s) = s := by
  intro f
  induction f with
  | zero => intro s h; have : s = [] := List.eq_nil_of_length_eq_zero (by omega); subst this; simp [segs, consumed]
  | succ f ih =>
    intro s h
    cases s with
    | nil => simp [segs, consumed]
    | cons c cs =>
      rw [segs]
      cases hc : matchComment (c :: cs) with
      | some rr =>
        obtain ⟨repl, rest⟩ := rr
        obtain ⟨_, pre, hpre, hpl⟩ := matchComment_split _ _ _ hc
        have hlen : rest.length ≤ f := by
          have := congrArg List.length hpre
          simp only [List.length_cons, List.length_append] at this h
          -- the comment alternative matches at least "<!---->"
          omega
        simp only [consumed, ih rest hlen]
        rw [length_of_append_eq hpre]; exact hpre.symm
      | none =>
        simp only
        cases ht : matchTag cfg (c :: cs) with
        | none =>
          simp only [consumed]
          rw [ih cs (by simpa using h)]
        | some q =>
          obtain ⟨r, ascii, rest⟩ := q
          obtain ⟨hsplit, hcl, _⟩ := matchTag_split cfg _ _ _ _ ht
          have hlen : rest.length ≤ f := by
            have := congrArg List.length hsplit
            simp only [List.length_cons, List.length_append] at this h
            omega
          simp only
          split <;> simp only [consumed, ih rest hlen] <;> exact hsplit.symm

end MwVerif.Uniq
