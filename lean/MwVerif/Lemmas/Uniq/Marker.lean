import MwVerif.Model.Uniq
import Std.Data.String.ToNat
/-! the marker format: recognised by the restorer, injective in the region number. -/
namespace MwVerif.Uniq

theorem natToStr_inj {a b : Nat} (h : natToStr a = natToStr b) : a = b := by
  unfold natToStr at h
  exact Nat.repr_injective (String.toList_inj.mp h)


theorem natToStr_digits (n : Nat) : ∀ c ∈ natToStr n, isDigit c = true := by
  intro c hc
  have h : c ∈ Nat.toDigits 10 n := by
    simpa [natToStr, toString, Nat.repr] using hc
  have := Nat.isDigit_of_mem_toDigits (by decide) (by decide) h
  simp only [Char.isDigit, Bool.and_eq_true, decide_eq_true_eq] at this
  simp only [isDigit, Bool.and_eq_true, decide_eq_true_eq]
  exact ⟨Char.le_def.mpr (by simpa using this.1), Char.le_def.mpr (by simpa using this.2)⟩

theorem natToStr_ne_nil (n : Nat) : natToStr n ≠ [] := by
  intro h
  have : natToStr n = natToStr n := rfl
  have h0 : (toString n).toList = [] := h
  have : toString n = "" := by
    apply String.toList_inj.mp; simpa using h0
  have h2 := congrArg String.length this
  simp [toString] at h2

/-- `takeWhile`/`dropWhile` on a run followed by a separator outside the class. -/
theorem takeWhile_run (p : Char → Bool) (run rest : Str) (sep : Char) (h : ∀ c ∈ run, p c = true)
    (hs : p sep = false) : (run ++ sep :: rest).takeWhile p = run ∧ (run ++ sep :: rest).dropWhile p = sep :: rest := by
  induction run with
  | nil => simp [List.takeWhile, List.dropWhile, hs]
  | cons c run ih =>
    have hc := h c (by simp)
    have := ih (fun x hx => h x (by simp [hx]))
    simp [List.takeWhile, List.dropWhile, hc, this]

theorem stripPrefix_append (a b : Str) : stripPrefix a (a ++ b) = some b := by
  induction a with
  | nil => rfl
  | cons c a ih => simp [stripPrefix, ih]

theorem runThen_run (p : Char → Bool) (run : Str) (sep : Char) (seprest rest : Str)
    (h : ∀ c ∈ run, p c = true) (hne : run ≠ []) (hs : p sep = false) :
    runThen p (sep :: seprest) (run ++ (sep :: seprest) ++ rest) = some (run, rest) := by
  unfold runThen
  have := takeWhile_run p run (seprest ++ rest) sep h hs
  simp only [List.append_assoc, List.cons_append] at this ⊢
  rw [this.1, this.2]
  have hne' : run.isEmpty = false := by cases run <;> simp_all
  simp only [hne', Bool.false_eq_true, if_false]
  have := stripPrefix_append (sep :: seprest) rest
  simp only [List.cons_append] at this
  rw [this]; rfl

/-- C09: the restorer recognises exactly the marker the protector writes — for every tag name
made of lower-case letters and digits (all registered names are: `c09_tag_names_alnum`), every
region number and every hexadecimal random string, whatever follows. -/
theorem marker_recognised (rand name : Str) (n : Nat) (rest : Str)
    (hname : ∀ c ∈ name, isLowerAlnum c = true) (hn0 : name ≠ [])
    (hrand : ∀ c ∈ rand, isHex c = true) (hr0 : rand ≠ []) :
    matchMarker (marker rand name n ++ rest) = some (marker rand name n, rest) := by
  unfold matchMarker marker
  have e1 : ([del] ++ "UNIQ-".toList ++ name ++ ['-'] ++ natToStr n ++ ['-'] ++ rand ++ "-QINU".toList ++ [del] ++ rest)
      = ([del] ++ "UNIQ-".toList) ++ (name ++ ['-'] ++ (natToStr n ++ ['-'] ++ (rand ++ ("-QINU".toList ++ [del]) ++ rest))) := by
    simp [List.append_assoc]
  rw [e1, stripPrefix_append]
  simp only
  rw [runThen_run isLowerAlnum name '-' [] _ hname hn0 (by decide)]
  simp only
  rw [runThen_run isDigit (natToStr n) '-' [] _ (natToStr_digits n) (natToStr_ne_nil n) (by decide)]
  simp only
  have : ("-QINU".toList ++ [del]) = '-' :: ("QINU".toList ++ [del]) := by decide
  rw [this, runThen_run isHex rand '-' _ rest hrand hr0 (by decide)]

/-- markers of different regions differ (same process, same tag name or not). -/
theorem marker_injective_same_name (rand name : Str) (a b : Nat)
    (h : marker rand name a = marker rand name b) : a = b := by
  unfold marker at h
  simp only [List.append_assoc, List.append_cancel_left_eq] at h
  have h2 : natToStr a ++ ('-' :: (rand ++ ("-QINU".toList ++ [del]))) = natToStr b ++ ('-' :: (rand ++ ("-QINU".toList ++ [del]))) := by
    simpa using h
  have := List.append_cancel_right h2
  exact natToStr_inj this

end MwVerif.Uniq
