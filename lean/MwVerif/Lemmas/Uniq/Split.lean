import MwVerif.Model.Uniq
/-! every matcher of the uniq model consumes a prefix of its input: `input = matched ++ rest`. -/
namespace MwVerif.Uniq

theorem stripPrefix_split : ∀ (pat s r : Str), stripPrefix pat s = some r → s = pat ++ r
  | [], s, r, h => by simp [stripPrefix] at h; simp [h]
  | _ :: _, [], r, h => by simp [stripPrefix] at h
  | p :: ps, c :: cs, r, h => by
    unfold stripPrefix at h
    split at h
    · rename_i hpc; subst hpc
      rw [stripPrefix_split ps cs r h]; rfl
    · cases h

theorem ciPrefix_split (cfg : Cfg) : ∀ (pat s m r : Str), ciPrefix cfg pat s = some (m, r) →
    s = m ++ r ∧ m.length = pat.length ∧ m.map cfg.fold = pat
  | [], s, m, r, h => by
    simp [ciPrefix] at h; obtain ⟨rfl, rfl⟩ := h; simp
  | _ :: _, [], m, r, h => by simp [ciPrefix] at h
  | p :: ps, c :: cs, m, r, h => by
    unfold ciPrefix at h
    split at h
    · rename_i hf
      cases hr : ciPrefix cfg ps cs with
      | none => simp [hr] at h
      | some mr =>
        obtain ⟨m', r'⟩ := mr
        simp only [hr, Option.map_some, Option.some.injEq, Prod.mk.injEq] at h
        obtain ⟨rfl, rfl⟩ := h
        obtain ⟨h1, h2, h3⟩ := ciPrefix_split cfg ps cs m' r' hr
        refine ⟨by rw [h1]; rfl, by simp [h2], by simp [hf, h3]⟩
    · cases h

theorem brPrefix_split (cfg : Cfg) : ∀ (pat s m r : Str), brPrefix cfg pat s = some (m, r) → s = m ++ r
  | [], s, m, r, h => by
    simp [brPrefix] at h; obtain ⟨rfl, rfl⟩ := h; simp
  | _ :: _, [], m, r, h => by simp [brPrefix] at h
  | p :: ps, c :: cs, m, r, h => by
    unfold brPrefix at h
    split at h
    · cases hr : brPrefix cfg ps cs with
      | none => simp [hr] at h
      | some mr =>
        obtain ⟨m', r'⟩ := mr
        simp only [hr, Option.map_some, Option.some.injEq, Prod.mk.injEq] at h
        obtain ⟨rfl, rfl⟩ := h
        rw [brPrefix_split cfg ps cs m' r' hr]; rfl
    · cases h

theorem findSub_split (pat : Str) : ∀ (s a b : Str), findSub pat s = some (a, b) → s = a ++ pat ++ b
  | [], a, b, h => by
    unfold findSub at h
    split at h
    · rename_i hp
      simp only [Option.some.injEq, Prod.mk.injEq] at h
      obtain ⟨rfl, rfl⟩ := h
      have : pat = [] := by cases pat <;> simp_all
      simp [this]
    · cases h
  | c :: cs, a, b, h => by
    unfold findSub at h
    split at h
    · rename_i rest hs
      simp only [Option.some.injEq, Prod.mk.injEq] at h
      obtain ⟨rfl, rfl⟩ := h
      simpa using stripPrefix_split pat (c :: cs) _ hs
    · cases hr : findSub pat cs with
      | none => simp [hr] at h
      | some ab =>
        obtain ⟨a', b'⟩ := ab
        simp only [hr, Option.map_some, Option.some.injEq, Prod.mk.injEq] at h
        obtain ⟨rfl, rfl⟩ := h
        rw [findSub_split pat cs a' b' hr]; simp

theorem takeWhile_dropWhile (p : Char → Bool) (s : Str) : s.takeWhile p ++ s.dropWhile p = s :=
  List.takeWhile_append_dropWhile

theorem closeAt_split (cfg : Cfg) (name s ct rest : Str) (h : closeAt cfg name s = some (ct, rest)) :
    s = ct ++ rest := by
  unfold closeAt at h
  cases h1 : stripPrefix ['<', '/'] s with
  | none => simp [h1] at h
  | some s1 =>
    simp only [h1] at h
    cases h2 : brPrefix cfg name s1 with
    | none => simp [h2] at h
    | some ms =>
      obtain ⟨m, s2⟩ := ms
      simp only [h2] at h
      split at h
      · rename_i rest' hd
        simp only [Option.some.injEq, Prod.mk.injEq] at h
        obtain ⟨rfl, rfl⟩ := h
        have e1 := stripPrefix_split _ _ _ h1
        have e2 := brPrefix_split cfg _ _ _ _ h2
        have e3 := takeWhile_dropWhile cfg.isSpace s2
        rw [hd] at e3
        rw [e1, e2]
        conv => lhs; rw [← e3]
        simp
      · cases h

theorem findClose_split (cfg : Cfg) (name : Str) : ∀ (s inner ct rest : Str),
    findClose cfg name s = some (inner, ct, rest) → s = inner ++ ct ++ rest
  | [], _, _, _, h => by simp [findClose] at h
  | c :: cs, inner, ct, rest, h => by
    unfold findClose at h
    split at h
    · rename_i ct' rest' hc
      simp only [Option.some.injEq, Prod.mk.injEq] at h
      obtain ⟨rfl, rfl, rfl⟩ := h
      simpa using closeAt_split cfg name _ _ _ hc
    · cases hr : findClose cfg name cs with
      | none => simp [hr] at h
      | some t =>
        obtain ⟨i', c', r'⟩ := t
        simp only [hr, Option.map_some, Option.some.injEq, Prod.mk.injEq] at h
        obtain ⟨rfl, rfl, rfl⟩ := h
        rw [findClose_split cfg name cs i' c' r' hr]; simp


theorem openForm_split (cfg : Cfg) (name vl0 afterGt vl inner tail rest : Str)
    (h : openForm cfg name vl0 afterGt = some (vl, inner, tail, rest)) :
    vl0 ++ '>' :: afterGt = tail ++ rest ∧ vl = vl0 := by
  unfold openForm at h
  cases hc : findClose cfg name afterGt with
  | none => simp [hc] at h
  | some t =>
    obtain ⟨i, ct, r2⟩ := t
    simp only [hc, Option.some.injEq, Prod.mk.injEq] at h
    obtain ⟨rfl, rfl, rfl, rfl⟩ := h
    rw [findClose_split cfg name _ _ _ _ hc]; simp

theorem attrForm_split (cfg : Cfg) (name : Str) (c : Char) (r' vl inner tail rest : Str)
    (h : attrForm cfg name c r' = some (vl, inner, tail, rest)) : c :: r' = tail ++ rest := by
  unfold attrForm at h
  split at h
  · rename_i rest' hd
    have e := takeWhile_dropWhile notAngle r'
    rw [hd] at e
    split at h
    · simp only [Option.some.injEq, Prod.mk.injEq] at h
      obtain ⟨_, _, rfl, rfl⟩ := h
      conv => lhs; rw [← e]
      simp
    · have := (openForm_split cfg name _ _ _ _ _ _ h).1
      conv => lhs; rw [← e]
      simpa using this
  · cases h

theorem matchTagRest_split (cfg : Cfg) (name r vl inner tail rest : Str)
    (h : matchTagRest cfg name r = some (vl, inner, tail, rest)) : r = tail ++ rest := by
  unfold matchTagRest at h
  split at h
  · simp only [Option.some.injEq, Prod.mk.injEq] at h
    obtain ⟨_, _, rfl, rfl⟩ := h; rfl
  · simpa using (openForm_split cfg name _ _ _ _ _ _ h).1
  · split at h
    · exact attrForm_split cfg name _ _ _ _ _ _ h
    · cases h
  · cases h

theorem findSome?_some {α β : Type} (f : α → Option β) : ∀ (l : List α) (b : β), l.findSome? f = some b → ∃ a ∈ l, f a = some b
  | [], _, h => by simp at h
  | a :: l, b, h => by
    rw [List.findSome?_cons] at h
    cases ha : f a with
    | some b' => simp only [ha] at h; cases h; exact ⟨a, by simp, ha⟩
    | none =>
      simp only [ha] at h
      obtain ⟨a', ha', hf⟩ := findSome?_some f l b h
      exact ⟨a', by simp [ha'], hf⟩

/-- the tag alternative consumes a prefix: `s = complete ++ rest`; the name as written folds to a
registered name. -/
theorem matchTag_split (cfg : Cfg) (s : Str) (r : Rec) (ascii : Bool) (rest : Str)
    (h : matchTag cfg s = some (r, ascii, rest)) :
    s = r.complete ++ rest ∧ 1 ≤ r.complete.length ∧ ∃ name ∈ cfg.names, ∃ m : Str, m.map cfg.fold = name ∧ m.length = name.length ∧
      r.tagname = m.map lowerAscii ∧ ascii = isAscii m := by
  unfold matchTag at h
  split at h
  · rename_i t
    obtain ⟨name, hn, hf⟩ := findSome?_some _ _ _ h
    cases hc : ciPrefix cfg name t with
    | none => simp [hc] at hf
    | some mr =>
      obtain ⟨m, r0⟩ := mr
      simp only [hc] at hf
      cases ht : matchTagRest cfg m r0 with
      | none => simp [ht] at hf
      | some q =>
        obtain ⟨vl, inner, tail, rest'⟩ := q
        simp only [ht, Option.some.injEq, Prod.mk.injEq] at hf
        obtain ⟨rfl, rfl, rfl⟩ := hf
        obtain ⟨e1, e2, e3⟩ := ciPrefix_split cfg name t m r0 hc
        have e4 := matchTagRest_split cfg m r0 vl inner tail rest' ht
        refine ⟨?_, by simp, name, hn, m, e3, e2, rfl, rfl⟩
        rw [e1, e4]; simp
  · cases h

theorem mem_takeWhile_sat' (p : Char → Bool) : ∀ (l : Str) (x : Char), x ∈ l.takeWhile p → p x = true
  | [], _, h => by cases h
  | c :: cs, x, h => by
    by_cases hc : p c = true
    · rw [List.takeWhile_cons_of_pos hc] at h
      simp only [List.mem_cons] at h
      rcases h with rfl | h
      · exact hc
      · exact mem_takeWhile_sat' p cs x h
    · rw [List.takeWhile_cons_of_neg hc] at h; cases h

theorem commentStart_split (s lead body : Str) (h : commentStart s = some (lead, body)) :
    (∀ c ∈ lead, c = '\n' ∨ c = ' ') ∧ ∃ pre, s = pre ++ body := by
  unfold commentStart at h
  split at h
  · rename_i t
    split at h
    · rename_i body' hb
      simp only [Option.some.injEq, Prod.mk.injEq] at h
      obtain ⟨rfl, rfl⟩ := h
      constructor
      · intro c hc
        simp only [List.mem_cons] at hc
        rcases hc with rfl | hc
        · exact .inl rfl
        · have := mem_takeWhile_sat' isSp t c hc
          exact .inr (by simpa [isSp] using this)
      · have e1 := stripPrefix_split _ _ _ hb
        have e2 := takeWhile_dropWhile isSp t
        refine ⟨'\n' :: t.takeWhile isSp ++ "<!--".toList, ?_⟩
        conv => lhs; rw [← e2, e1]
        simp
    · cases h
  · cases hb : stripPrefix "<!--".toList s with
    | none => rw [hb] at h; cases h
    | some body' =>
      rw [hb] at h
      simp only [Option.map_some, Option.some.injEq, Prod.mk.injEq] at h
      obtain ⟨rfl, rfl⟩ := h
      exact ⟨by simp, "<!--".toList, stripPrefix_split _ _ _ hb⟩

theorem commentTrail_split (after : Str) :
    (∀ c ∈ (commentTrail after).1, c = '\n' ∨ c = ' ') ∧ after = (commentTrail after).1 ++ (commentTrail after).2 := by
  unfold commentTrail
  split
  · rename_i r hd
    constructor
    · intro c hc
      simp only [List.mem_append, List.mem_singleton] at hc
      rcases hc with hc | rfl
      · have := mem_takeWhile_sat' isSp after c hc
        exact .inr (by simpa [isSp] using this)
      · exact .inl rfl
    · have e := takeWhile_dropWhile isSp after
      rw [hd] at e
      conv => lhs; rw [← e]
      simp
  · exact ⟨by simp, rfl⟩

/-- the comment alternative: the replacement consists of newlines and blanks only, and what is left
is a suffix of the input. -/
theorem matchComment_split (s repl rest : Str) (h : matchComment s = some (repl, rest)) :
    (∀ c ∈ repl, c = '\n' ∨ c = ' ') ∧ ∃ pre, s = pre ++ rest ∧ 1 ≤ pre.length := by
  unfold matchComment at h
  cases hs : commentStart s with
  | none => simp [hs] at h
  | some lb =>
    obtain ⟨lead, body⟩ := lb
    simp only [hs] at h
    cases hf : findSub "-->".toList body with
    | none => rw [hf] at h; cases h
    | some ab =>
      obtain ⟨a, after⟩ := ab
      rw [hf] at h
      simp only [Option.some.injEq, Prod.mk.injEq] at h
      obtain ⟨rfl, rfl⟩ := h
      obtain ⟨hl, pre, hpre⟩ := commentStart_split s lead body hs
      obtain ⟨ht, hafter⟩ := commentTrail_split after
      have e3 := findSub_split _ _ _ _ hf
      constructor
      · intro c hc
        split at hc
        · simp only [List.mem_singleton] at hc; exact .inl hc
        · simp only [List.mem_append] at hc
          rcases hc with hc | hc
          · exact hl c hc
          · exact ht c hc
      · refine ⟨pre ++ a ++ "-->".toList ++ (commentTrail after).1, ?_, by simp; omega⟩
        rw [hpre, e3]
        conv => lhs; rw [hafter]
        simp

end MwVerif.Uniq
