import MwVerif.Model.Path

namespace MwVerif.Path

/-- A path component that names an ordinary directory entry. -/
def Clean (c : Str) : Prop := c ≠ [] ∧ c ≠ dot ∧ c ≠ dotdot ∧ '/' ∉ c

theorem splitSlash_ne_nil (p : Str) : splitSlash p ≠ [] := by
  induction p with
  | nil => simp [splitSlash]
  | cons c cs ih =>
    unfold splitSlash
    split
    · simp
    · cases h : splitSlash cs <;> simp [consHead]

theorem splitSlash_no_slash (p : Str) : ∀ c ∈ splitSlash p, '/' ∉ c := by
  induction p with
  | nil => simp [splitSlash]
  | cons c cs ih =>
    unfold splitSlash
    split
    · intro x hx
      simp at hx
      rcases hx with rfl | hx
      · simp
      · exact ih x hx
    · rename_i hc
      cases heq : splitSlash cs with
      | nil => exact absurd heq (splitSlash_ne_nil cs)
      | cons y ys =>
        intro x hx
        simp [consHead] at hx
        rcases hx with rfl | hx
        · have := ih y (by rw [heq]; simp)
          simp; exact ⟨fun h => hc h.symm, this⟩
        · exact ih x (by rw [heq]; simp [hx])

theorem splitSlash_append_slash (a b : Str) :
    splitSlash (a ++ '/' :: b) = splitSlash a ++ splitSlash b := by
  induction a with
  | nil => simp [splitSlash]
  | cons c cs ih =>
    simp only [List.cons_append]
    by_cases hc : c = '/'
    · subst hc; simp [splitSlash, ih]
    · simp only [splitSlash, hc, if_false, ih]
      cases hs : splitSlash cs with
      | nil => exact absurd hs (splitSlash_ne_nil cs)
      | cons x xs => simp [consHead]

theorem splitSlash_of_no_slash (c : Str) (h : '/' ∉ c) : splitSlash c = [c] := by
  induction c with
  | nil => simp [splitSlash]
  | cons x xs ih =>
    have hx : x ≠ '/' := fun e => h (by simp [e])
    have hxs : '/' ∉ xs := fun e => h (by simp [e])
    simp [splitSlash, hx, ih hxs, consHead]

theorem splitSlash_joinSlash (cs : List Str) (hne : cs ≠ []) (h : ∀ c ∈ cs, '/' ∉ c) :
    splitSlash (joinSlash cs) = cs := by
  induction cs with
  | nil => exact absurd rfl hne
  | cons x xs ih =>
    cases xs with
    | nil => simp [joinSlash]; exact splitSlash_of_no_slash x (h x (by simp))
    | cons y ys =>
      simp only [joinSlash]
      rw [splitSlash_append_slash, splitSlash_of_no_slash x (h x (by simp)),
        ih (by simp) (fun c hc => h c (by simp [hc]))]
      simp

theorem splitSlash_replicate_append (k : Nat) (s : Str) :
    splitSlash (List.replicate k '/' ++ s) = List.replicate k [] ++ splitSlash s := by
  induction k with
  | zero => simp
  | succ n ih => simp [List.replicate_succ, splitSlash, ih]

/-! ### normComps on absolute paths yields only clean components -/

theorem normStep_clean (stack : List Str) (comp : Str) (hs : ∀ c ∈ stack, Clean c)
    (hc : '/' ∉ comp) : ∀ c ∈ normStep true stack comp, Clean c := by
  unfold normStep
  split
  · exact hs
  · rename_i h1
    split
    · rename_i h2
      have hnd : comp ≠ dotdot := by
        rcases h2 with h | h | h
        · exact h
        · simp at h
        · intro _
          have : dotdot ∈ stack := List.mem_of_getLast? h
          exact (hs _ this).2.2.1 rfl
      intro c hcm
      simp at hcm
      rcases hcm with hcm | rfl
      · exact hs c hcm
      · exact ⟨fun e => h1 (Or.inl e), fun e => h1 (Or.inr e), hnd, hc⟩
    · intro c hcm
      exact hs c (List.dropLast_subset _ hcm)

theorem foldl_normStep_clean (comps stack : List Str) (hs : ∀ c ∈ stack, Clean c)
    (hc : ∀ c ∈ comps, '/' ∉ c) : ∀ c ∈ comps.foldl (normStep true) stack, Clean c := by
  induction comps generalizing stack with
  | nil => simpa using hs
  | cons x xs ih =>
    simp only [List.foldl_cons]
    exact ih _ (normStep_clean stack x hs (hc x (by simp))) (fun c h => hc c (by simp [h]))

theorem normComps_clean (p : Str) : ∀ c ∈ normComps true (splitSlash p), Clean c :=
  foldl_normStep_clean _ [] (by simp) (splitSlash_no_slash p)

theorem initialSlashes_pos (p : Str) (h : p.head? = some '/') :
    initialSlashes p = 1 ∨ initialSlashes p = 2 := by
  cases p with
  | nil => simp at h
  | cons c cs =>
    simp at h; subst h
    unfold initialSlashes
    split <;> simp_all

/-- Shape of `normpath` on an absolute path. -/
theorem normpath_abs_form (p : Str) (h : p.head? = some '/') :
    ∃ k cs, (k = 1 ∨ k = 2) ∧ (∀ c ∈ cs, Clean c) ∧
      normpath p = List.replicate k '/' ++ joinSlash cs := by
  have hk := initialSlashes_pos p h
  have hp : p ≠ [] := by intro e; simp [e] at h
  refine ⟨initialSlashes p, normComps true (splitSlash p), hk, normComps_clean p, ?_⟩
  unfold normpath
  have hb : (initialSlashes p != 0) = true := by rcases hk with e | e <;> simp [e]
  simp only [hp, if_false, hb]
  rcases hk with e | e <;> simp [e, List.replicate]

theorem join_head (dst name : Str) (hd : dst.head? = some '/') :
    (join dst name).head? = some '/' := by
  unfold join
  split
  · assumption
  · split
    · cases dst with
      | nil => simp at hd
      | cons c cs => simpa using hd
    · cases dst with
      | nil => simp at hd
      | cons c cs => simpa using hd

end MwVerif.Path
