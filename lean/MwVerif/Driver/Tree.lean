import MwVerif.Driver.Common
import MwVerif.Model.Tree
import MwVerif.Model.Passes
import MwVerif.Model.Nesting

/-! `ops <tree>;<op>;<op>;…` — tree in prefix form `id:kind:nchildren` tokens; ops `d<x>` dissolve,
`r<x>` remove, `p` one call of `_fix_paragraphs`, `P` the pass `fix_paragraphs`, `m<x>,<target>,<0|1>` move_to (1 = before), `a<p>,<x>` detach x and append it to p.
Reply: the tree after all ops in the same form. -/
namespace MwVerif.Driver.Tree
open MwVerif.Tree MwVerif.Driver

partial def parseT : List String → Option (T × List String)
  | [] => none
  | tok :: rest =>
    match tok.splitOn ":" with
    | [i, k, n] =>
      let rec many : Nat → List String → List T → Option (List T × List String)
        | 0, r, acc => some (acc.reverse, r)
        | m + 1, r, acc =>
          match parseT r with
          | some (c, r') => many m r' (c :: acc)
          | none => none
      (many (n.toNat?.getD 0) rest []).map fun p => (T.node (i.toNat?.getD 0) (k.toNat?.getD 0) [] p.1, p.2)
    | _ => none

partial def showT : T → String
  | .node i k _ cs => s!"{i}:{k}:{cs.length}" ++ String.join (cs.map fun c => " " ++ showT c)

def nums (s : String) : List Nat := (s.splitOn ",").filterMap (·.toNat?)

def applyOp (t : T) (op : String) : T :=
  let body := (op.drop 1).toString
  if op.startsWith "d" then t.dissolve (body.toNat?.getD 0)
  else if op.startsWith "r" then t.remove (body.toNat?.getD 0)
  else if op = "p" then (t.fixParaStep).getD t
  else if op = "P" then fixParagraphs (t.size * t.size) t
  else if op.startsWith "m" then
    match nums body with
    | [x, tg, b] => t.moveTo x tg (b = 1)
    | _ => t
  else if op.startsWith "a" then
    match nums body with
    | [p, x] =>
      match t.find x with
      | some n => T.appendTo p n (t.remove x)
      | none => t
    | _ => t
  else t

/-- the class tables of `fix_nesting`: `k:a` pairs (kind, forbidden ancestor kind), invisible kinds, first exception kind. -/
def mkCfg (forb invis excb : String) : NCfg :=
  let pairs := ((forb.splitOn " ").filter (· ≠ "")).filterMap fun s =>
    match s.splitOn ":" with
    | [a, b] => match a.toNat?, b.toNat? with
      | some x, some y => some (x, y)
      | _, _ => none
    | _ => none
  let inv := ((invis.splitOn " ").filter (· ≠ "")).filterMap (·.toNat?)
  let eb := excb.trimAscii.toString.toNat?.getD 1000000
  { forb := fun k a => pairs.contains (k, a), invis := fun a => inv.contains a, exc := fun k => decide (eb ≤ k) }

def step (line : String) : String :=
  let (cmd, rest) := splitCmd line
  match cmd, fields rest with
  | "ops", tree :: ops =>
    match parseT ((tree.splitOn " ").filter (· ≠ "")) with
    | some (t, _) => showT (ops.foldl (fun t o => applyOp t o.trimAscii.toString) t)
    | none => "bad-tree"
  | "nest", [tree, forb, invis, excb, op] =>
    -- `N`: one call of `_fix_nesting` ("changed"/"same" + tree); `F`: the pass `fix_nesting`
    match parseT ((tree.splitOn " ").filter (· ≠ "")) with
    | some (t, _) =>
      let c := mkCfg forb invis excb
      if op.trimAscii.toString = "N" then
        match t.fixNestingStep c with
        | some t' => "changed " ++ showT t'
        | none => "same " ++ showT t
      else showT (fixNesting c (t.pairs c []) t)
    | none => "bad-tree"
  | _, _ => "bad-op"

end MwVerif.Driver.Tree
