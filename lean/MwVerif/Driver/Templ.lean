import MwVerif.Driver.Common
import MwVerif.Model.Templ

/-! node trees cross the protocol in prefix form, tokens separated by blanks:
`x<cp,cp,…>` text, `e` eqmark, `s<n>` sequence of n nodes, `t<n>` template (name, n args),
`v0`/`v1` variable without/with default, `i<n>` #if node with n args, `q<n>` #ifeq node, `w<n>` #switch node (value, n case arguments),
`o` opaque. -/
namespace MwVerif.Driver.Templ
open MwVerif.Templ MwVerif.Driver

def parseCps (s : String) : List Char :=
  if s.isEmpty then [] else (s.splitOn ",").filterMap fun t => (t.toNat?).map Char.ofNat

mutual
  partial def parseNode : List String → Option (Node × List String)
    | [] => none
    | tok :: rest =>
      if tok.startsWith "x" then some (.text (parseCps (tok.drop 1).toString), rest)
      else if tok = "e" then some (.eq, rest)
      else if tok = "o" then some (.opaque, rest)
      else if tok.startsWith "s" then
        (parseMany ((tok.drop 1).toString.toNat?.getD 0) rest []).map fun p => (.seq p.1, p.2)
      else if tok.startsWith "t" then
        match parseNode rest with
        | some (name, r) => (parseMany ((tok.drop 1).toString.toNat?.getD 0) r []).map fun p => (.template name p.1, p.2)
        | none => none
      else if tok = "v0" then (parseNode rest).map fun p => (.variable p.1 none, p.2)
      else if tok = "v1" then
        match parseNode rest with
        | some (name, r) => (parseNode r).map fun p => (.variable name (some p.1), p.2)
        | none => none
      else if tok.startsWith "i" then
        (parseMany ((tok.drop 1).toString.toNat?.getD 0) rest []).map fun p => (.ifNode p.1, p.2)
      else if tok.startsWith "q" then
        (parseMany ((tok.drop 1).toString.toNat?.getD 0) rest []).map fun p => (.ifeqNode p.1, p.2)
      else if tok.startsWith "w" then
        match parseNode rest with
        | some (value, r) => (parseMany ((tok.drop 1).toString.toNat?.getD 0) r []).map fun p => (.switchNode value p.1, p.2)
        | none => none
      else none
  partial def parseMany : Nat → List String → List Node → Option (List Node × List String)
    | 0, rest, acc => some (acc.reverse, rest)
    | n + 1, rest, acc =>
      match parseNode rest with
      | some (x, r) => parseMany n r (x :: acc)
      | none => none
end

def toks (s : String) : List String := (s.splitOn " ").filter (· ≠ "")

/-- `expand <limit>;<page>;<name cps>:<body>;…` -/
def step (line : String) : String :=
  let (cmd, rest) := splitCmd line
  match cmd, fields rest with
  | "expand", limit :: page :: tmpls =>
    let db : List (List Char × Node) := tmpls.filterMap fun t =>
      match t.splitOn ":" with
      | [n, body] => (parseNode (toks body)).map fun p => (parseCps n.trimAscii.toString, p.1)
      | _ => none
    let cfg : Cfg := { limit := limit.trimAscii.toString.toNat?.getD 100,
                       db := fun n => (db.find? (·.1 = n)).map (·.2) }
    match parseNode (toks page) with
    | some (p, _) =>
      match expand cfg p with
      | .ok s => "ok " ++ encodeStr s
      | .error .recursion => "err recursion"
      | .error .opaque => "opaque"
    | none => "bad-node"
  | _, _ => "bad-op"

end MwVerif.Driver.Templ
