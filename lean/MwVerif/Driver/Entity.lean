import MwVerif.Driver.Common
import MwVerif.Model.Entity
import MwVerif.Gen.EntityNames

/-! `ent <entity cps>` → `keep` | `cp <n>` -/
namespace MwVerif.Driver.Entity
open MwVerif.Entity MwVerif.Driver

def step (line : String) : String :=
  let (cmd, rest) := splitCmd line
  match cmd with
  | "ent" =>
    match resolve Gen.EntityNames.names (decodeStr rest) with
    | some n => s!"cp {n}"
    | none => "keep"
  | _ => "bad-op"

end MwVerif.Driver.Entity
