import MwVerif.Driver.Common
import MwVerif.Model.Merge

/-! `merge <J> ; <J>` with J as tokens: `s<ty>.<v>` scalar, `[` J… `]` list, `{` (`k<n>` J)… `}` dictionary.
Reply: the merged value in the same form, or `error`. -/
namespace MwVerif.Driver.Merge
open MwVerif.Merge MwVerif.Driver

mutual
  partial def parseJ : List String → Option (J × List String)
    | [] => none
    | "[" :: rest => (parseItems rest []).map fun p => (J.list p.1, p.2)
    | "{" :: rest => (parseKVs rest []).map fun p => (J.dict p.1, p.2)
    | tok :: rest =>
      if tok.startsWith "s" then
        match ((tok.drop 1).toString.splitOn ".").map (·.toNat?) with
        | [some t, some v] => some (J.scalar t v, rest)
        | _ => none
      else none
  partial def parseItems : List String → List J → Option (List J × List String)
    | "]" :: rest, acc => some (acc.reverse, rest)
    | toks, acc => match parseJ toks with
      | some (j, rest) => parseItems rest (j :: acc)
      | none => none
  partial def parseKVs : List String → List (Nat × J) → Option (List (Nat × J) × List String)
    | "}" :: rest, acc => some (acc.reverse, rest)
    | k :: toks, acc =>
      if k.startsWith "k" then
        match (k.drop 1).toString.toNat?, parseJ toks with
        | some n, some (j, rest) => parseKVs rest ((n, j) :: acc)
        | _, _ => none
      else none
    | [], _ => none
end

partial def showJ : J → String
  | .scalar t v => s!"s{t}.{v}"
  | .list xs => "[ " ++ String.join (xs.map fun x => showJ x ++ " ") ++ "]"
  | .dict kv => "{ " ++ String.join (kv.map fun p => s!"k{p.1} " ++ showJ p.2 ++ " ") ++ "}"

def step (line : String) : String :=
  let (cmd, rest) := splitCmd line
  match cmd, fields rest with
  | "merge", [a, b] =>
    match parseJ ((a.splitOn " ").filter (· ≠ "")), parseJ ((b.splitOn " ").filter (· ≠ "")) with
    | some (x, _), some (y, _) =>
      match merge x y with
      | some z => showJ z
      | none => "error"
    | _, _ => "bad-op"
  | _, _ => "bad-op"

end MwVerif.Driver.Merge
