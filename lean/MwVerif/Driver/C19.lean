import MwVerif.Driver.Common
import MwVerif.Model.Status

namespace MwVerif.Driver.C19
open MwVerif.Status MwVerif.Driver

def step (line : String) : String :=
  let (cmd, rest) := splitCmd line
  let fs := (fields rest).map decodeStr
  match cmd, fs with
  | "cd", [name, folded, quoted, ext] => encodeStr (contentDisposition name folded quoted ext)
  | "ascii", [folded] => encodeStr (asciiName folded)
  | "rid", [cid, w] => encodeStr (renderId cid w)
  | "zid", [cid] => encodeStr (zipId cid)
  | _, _ => "bad-op"

end MwVerif.Driver.C19
