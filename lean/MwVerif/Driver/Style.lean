import MwVerif.Driver.Common
import MwVerif.Model.Style

/-! `next <apo> <bold 0|1> <italic 0|1> <count>` → the successors as `apo,b,i apo,b,i …` in order. -/
namespace MwVerif.Driver.Style
open MwVerif.Style MwVerif.Driver

def step (line : String) : String :=
  let (cmd, rest) := splitCmd line
  match cmd, ((rest.splitOn " ").filter (· ≠ "")).filterMap (·.toNat?) with
  | "next", [a, b, i, c] =>
    let s : State := { apo := a, bold := b = 1, italic := i = 1, path := [] }
    " ".intercalate ((getNext s c).map fun t => s!"{t.apo},{if t.bold then 1 else 0},{if t.italic then 1 else 0}")
  | _, _ => "bad-op"

end MwVerif.Driver.Style
