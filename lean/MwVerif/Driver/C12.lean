import MwVerif.Driver.Common
import MwVerif.Model.Title
import MwVerif.Gen.Sites
import MwVerif.Gen.CharTable

namespace MwVerif.Driver.C12
open MwVerif.Title MwVerif.Driver

def ops : CharOps := tableOps MwVerif.Gen.charRows

def parseInt (s : String) : Int :=
  let t := s.trimAscii.toString
  if t.startsWith "-" then - (Int.ofNat ((t.drop 1).toString.toNat?.getD 0)) else Int.ofNat (t.toNat?.getD 0)

def step (line : String) : String :=
  let (cmd, rest) := splitCmd line
  let fs := fields rest
  match cmd, fs with
  | "split", [site, d, title] =>
    match MwVerif.Gen.allSites.find? (·.1 = site.trimAscii.toString) with
    | none => "no-site"
    | some (_, st) =>
      match splitname st ops (decodeStr title) (parseInt d) with
      | none => "keyerror"
      | some r => s!"{r.ns}|{encodeStr r.partialName}|{encodeStr r.full}"
  | "lower", [s] => encodeStr (ops.lower (decodeStr s))
  | "upper1", [s] => encodeStr (upperFirst ops (decodeStr s))
  | _, _ => "bad-op"

end MwVerif.Driver.C12
