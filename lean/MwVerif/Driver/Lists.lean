import MwVerif.Driver.Common
import MwVerif.Model.Lists
import MwVerif.Lemmas.Lists.Paths

/-! `lists <line> <line> …`, a line being `<prefix over *#:;>.<c|n>` (c: the line contains a colon);
lines are numbered from 0.  Reply: the analysed block, leaf `L<i>` / `L<i>c`, description `D<i>`,
node `(<k>[item][item]…)`.  `lpaths …`: the pieces of the analysed block with their ancestors,
`<kinds>/<line>/<t|d>`. -/
namespace MwVerif.Driver.Lists
open MwVerif.Lists MwVerif.Driver

def kindOf : Char → Option Kind
  | '*' => some .ul
  | '#' => some .ol
  | ':' => some .dd
  | ';' => some .dt
  | _ => none

def kindChar : Kind → String
  | .ul => "*"
  | .ol => "#"
  | .dd => ":"
  | .dt => ";"

def parseLine (i : Nat) (t : String) : Option Line :=
  match t.splitOn "." with
  | [p, c] => some ⟨p.toList.filterMap kindOf, i, c = "c"⟩
  | _ => none

mutual
  partial def showLT : LT → String
    | .leaf i c => s!"L{i}" ++ (if c then "c" else "")
    | .term i => s!"L{i}"
    | .desc i => s!"D{i}"
    | .node k its => "(" ++ kindChar k ++ String.join (its.map fun it => "[" ++ showL it ++ "]") ++ ")"
  partial def showL (xs : List LT) : String := " ".intercalate (xs.map showLT)
end

def showPiece (p : Piece) : String :=
  String.join (p.1.map kindChar) ++ "/" ++ toString p.2.1 ++ "/" ++ (if p.2.2 then "d" else "t")

def step (line : String) : String :=
  let (cmd, rest) := splitCmd line
  match cmd with
  | "lists" =>
    let toks := (rest.splitOn " ").filter (· ≠ "")
    let ls := (List.range toks.length).zip toks |>.filterMap fun p => parseLine p.1 p.2
    if ls.length ≠ toks.length then "bad-op" else showL (analyze ls)
  | "lpaths" =>
    let toks := (rest.splitOn " ").filter (· ≠ "")
    let ls := (List.range toks.length).zip toks |>.filterMap fun p => parseLine p.1 p.2
    if ls.length ≠ toks.length then "bad-op" else " ".intercalate ((pathsL [] (analyze ls)).map showPiece)
  | _ => "bad-op"

end MwVerif.Driver.Lists
