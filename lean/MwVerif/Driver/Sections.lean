import MwVerif.Driver.Common
import MwVerif.Model.Sections

/-! `nest <level> <level> …` → the forest, each section as `(<index>:<level> <subsections>)`. -/
namespace MwVerif.Driver.Sections
open MwVerif.Sections MwVerif.Driver

partial def showSec : Sec Nat → String
  | .node l i subs => s!"({i}:{l}" ++ String.join (subs.map fun s => " " ++ showSec s) ++ ")"

def step (line : String) : String :=
  let (cmd, rest) := splitCmd line
  match cmd with
  | "nest" =>
    let levels := ((rest.splitOn " ").filter (· ≠ "")).filterMap (·.toNat?)
    let xs := (List.range levels.length).zip levels |>.map fun p => (p.2, p.1)
    " ".intercalate ((nest xs).map showSec)
  | _ => "bad-op"

end MwVerif.Driver.Sections
