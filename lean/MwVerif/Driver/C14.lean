import MwVerif.Driver.Common
import MwVerif.Model.Archive

namespace MwVerif.Driver.C14
open MwVerif.Archive MwVerif.Driver

def pairs : List (List Char) → List (Str × Str)
  | a :: b :: rest => (a, b) :: pairs rest
  | _ => []

def parseRec (s : String) : Option Rec :=
  match s.splitOn "," with
  | [t, ns, rv, x] =>
    let nsI : Int := if ns.startsWith "-" then - Int.ofNat ((ns.drop 1).toString.toNat?.getD 0) else Int.ofNat (ns.toNat?.getD 0)
    some ⟨t.toNat?.getD 0, nsI, if rv = "-" then none else some (rv.toNat?.getD 0), x.toNat?.getD 0⟩
  | _ => none

def parseRecs (s : String) : List Rec :=
  ((s.trimAscii.toString.splitOn " ").filter (· ≠ "")).filterMap parseRec

def showRec : Option Rec → String
  | none => "none"
  | some r => s!"{r.title},{r.ns},{match r.revid with | none => "-" | some v => toString v},{r.text}"

def step (line : String) : String :=
  let (cmd, rest) := splitCmd line
  match cmd with
  | "write" => encodeStr (writeStream (pairs ((fields rest).map decodeStr)))
  | "read" =>
    match readStream (decodeStr rest) with
    | none => "valueerror"
    | some rs => ";".intercalate (rs.map fun r => encodeStr r.1 ++ ";" ++ encodeStr r.2)
  | "wp" => " ".intercalate ((writePages [] (parseRecs rest)).map (fun r => showRec (some r)))
  | "lookup" =>
    match fields rest with
    | [recs, redirs, queries] =>
      let ix := buildIndex (parseRecs recs)
      let rd := ((redirs.trimAscii.toString.splitOn " ").filter (· ≠ "")).filterMap fun p =>
        match p.splitOn ">" with
        | [a, b] => some (a.toNat?.getD 0, b.toNat?.getD 0)
        | _ => none
      " ".intercalate (((queries.trimAscii.toString.splitOn " ").filter (· ≠ "")).map fun q =>
        let n := (q.drop 1).toString.toNat?.getD 0
        if q.startsWith "r" then showRec (lookupRevid ix n)
        else if q.startsWith "t" then showRec (lookupTitle ix n)
        else showRec (getPageByName ix rd n))
    | _ => "bad-op"
  | "fs" =>
    match (fields rest).map decodeStr with
    | [s, ws, word] => encodeStr (fsEscape (fun c => ws.contains c) (fun c => word.contains c) s)
    | _ => "bad-op"
  | _ => "bad-op"

end MwVerif.Driver.C14
