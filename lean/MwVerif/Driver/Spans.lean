import MwVerif.Driver.Common
import MwVerif.Model.Spans

/-! `spans <row> / <row> / …`, a row being `<colspan>,<rowspan>,<id> …`: the table after `check_spans` in the same form
(fillers have id 0). -/
namespace MwVerif.Driver.Spans
open MwVerif.Spans MwVerif.Driver

def parseCell (s : String) : Option Cell :=
  match s.splitOn "," with
  | [a, b, c] => match a.toNat?, b.toNat?, c.toNat? with
    | some x, some y, some z => some ⟨x, y, z⟩
    | _, _, _ => none
  | _ => none

def step (line : String) : String :=
  let (cmd, rest) := splitCmd line
  match cmd with
  | "spans" =>
    let rows := (rest.splitOn "/").map fun r => ((r.splitOn " ").filter (· ≠ "")).filterMap parseCell
    " / ".intercalate ((checkSpans rows).map fun r => " ".intercalate (r.map fun c => s!"{c.cs},{c.rs},{c.id}"))
  | _ => "bad-op"

end MwVerif.Driver.Spans
