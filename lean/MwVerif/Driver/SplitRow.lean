import MwVerif.Driver.Common
import MwVerif.Model.SplitRow

/-! `split <max>;<cell>;<cell>…`, a cell being `<height>:<id> <height>:<id> …` (heights scaled to integers).
Reply: the new rows separated by ` / `, their cells by ` | `, children as ids. -/
namespace MwVerif.Driver.SplitRow
open MwVerif.SplitRow MwVerif.Driver

def parseCell (s : String) : List (Nat × Nat) :=
  ((s.splitOn " ").filter (· ≠ "")).filterMap fun t =>
    match t.splitOn ":" with
    | [h, x] => match h.toNat?, x.toNat? with
      | some a, some b => some (a, b)
      | _, _ => none
    | _ => none

def step (line : String) : String :=
  let (cmd, rest) := splitCmd line
  match cmd, fields rest with
  | "split", mx :: cells =>
    match mx.trimAscii.toString.toNat? with
    | some m =>
      let rows := splitRow m (cells.map parseCell)
      " / ".intercalate (rows.map fun r => " | ".intercalate (r.map fun c => " ".intercalate (c.map toString)))
    | none => "bad-op"
  | _, _ => "bad-op"

end MwVerif.Driver.SplitRow
