import MwVerif.Driver.Common
import MwVerif.Model.SplitRow
import MwVerif.Model.SingleCol

/-! `split <max>;<cell>;<cell>…`, a cell being `<height>:<id> <height>:<id> …` (heights scaled to integers).
Reply: the new rows separated by ` / `, their cells by ` | `, children as ids.

`unpack <0|1>;<field>;…` (a one-column table taken apart, `Model/SingleCol.lean`): a field is `C <ids>` (a caption and its
children), `R` (a row starts) or `c <ids>` (a cell of the row that started last).  Reply: `D( ids )` per `Div`, bare ids otherwise.
`columns <numcols>;<field>;…`: the same table laid out column by column; reply: the ids. -/
namespace MwVerif.Driver.SplitRow
open MwVerif.SplitRow MwVerif.Driver

def parseCell (s : String) : List (Nat × Nat) :=
  ((s.splitOn " ").filter (· ≠ "")).filterMap fun t =>
    match t.splitOn ":" with
    | [h, x] => match h.toNat?, x.toNat? with
      | some a, some b => some (a, b)
      | _, _ => none
    | _ => none

def parseIds (s : String) : List Nat := ((s.splitOn " ").filter (· ≠ "")).filterMap (·.toNat?)

def addField (acc : List SingleCol.Child) (f : String) : List SingleCol.Child :=
  let t := f.trimAscii.toString
  if t.startsWith "C" then acc ++ [.caption (parseIds (t.drop 1).toString)]
  else if t.startsWith "R" then acc ++ [.row []]
  else if t.startsWith "c" then
    match acc.reverse with
    | .row cs :: rest => (SingleCol.Child.row (cs ++ [parseIds (t.drop 1).toString]) :: rest).reverse
    | _ => acc
  else acc

def showOut : SingleCol.Out → String
  | .div items => "D( " ++ " ".intercalate (items.map toString) ++ " )"
  | .item x => toString x

def step (line : String) : String :=
  let (cmd, rest) := splitCmd line
  match cmd, fields rest with
  | "split", mx :: cells =>
    match mx.trimAscii.toString.toNat? with
    | some m =>
      let rows := splitRow m (cells.map parseCell)
      " / ".intercalate (rows.map fun r => " | ".intercalate (r.map fun c => " ".intercalate (c.map toString)))
    | none => "bad-op"
  | "unpack", w :: fs =>
    " ".intercalate ((SingleCol.unpack (w.trimAscii.toString == "1") (fs.foldl addField [])).map showOut)
  | "columns", n :: fs =>
    match n.trimAscii.toString.toNat? with
    | some k => " ".intercalate ((SingleCol.linearize k (fs.foldl addField [])).map toString)
    | none => "bad-op"
  | _, _ => "bad-op"

end MwVerif.Driver.SplitRow
