import MwVerif.Driver.Common
import MwVerif.Model.Qs
import MwVerif.Model.Status

/-! Line-protocol driver for `Model/Qs.lean` (C16–C19). One op per line, reply =
`<outputs> | <canonical snapshot>`; `reset` starts a new history. -/
namespace MwVerif.Driver.Qs
open MwVerif.Qs

def splitNE (s : String) (sep : String) : List String :=
  if s = "-" || s = "" then [] else s.splitOn sep

def parseNat (s : String) : Nat := s.toNat?.getD 0

def parseInt (s : String) : Int :=
  if s.startsWith "-" then - (Int.ofNat (parseNat (s.drop 1).toString)) else Int.ofNat (parseNat s)

def parseId (s : String) : JobId :=
  if s.startsWith "n" then .name (parseNat (s.drop 1).toString) else .num (parseNat (s.drop 1).toString)

def parseErr (s : String) : Err :=
  if s = "none" then .none else if s = "timeout" then .timeout else if s = "killed" then .killed
  else .str (parseNat (s.drop 1).toString)

def parseOp (line : String) : Option Op :=
  match (line.trimAscii.toString.splitOn " ").filter (· ≠ "") with
  | ["add", ch, prio, id, timeout, payload] =>
    some (.add (parseNat ch) (parseInt prio) (if id = "-" then none else some (parseNat (id.drop 1).toString))
      (parseNat timeout) (parseNat payload))
  | ["pull", w, chans] => some (.pull (parseNat w) ((splitNE chans ",").map parseNat))
  | ["runone"] => some .runOne
  | ["run"] => some .run
  | ["finish", w, id, res, err] =>
    some (.finish (parseNat w) (parseId id) (if res = "-" then none else some (parseNat res)) (parseErr err))
  | ["kill", w, ids] => some (.kill (parseNat w) ((splitNE ids ",").map parseId))
  | ["tick", dt] => some (.tick (parseNat dt))
  | ["disconnect", w] => some (.disconnect (parseNat w))
  | ["wait", w, ids] => some (.wait (parseNat w) ((splitNE ids ",").map parseId))
  | ["info", id] => some (.info (parseId id))
  | ["setinfo", id, kvs] =>
    some (.setinfo (parseId id) ((splitNE kvs ",").map fun kv =>
      match kv.splitOn ":" with
      | [k, v] => (parseNat k, parseNat v)
      | _ => (0, 0)))
  | ["watchdog"] => some .watchdog
  | ["restart"] => some .restart
  | ["seed", t] => some (.seed ((splitNE t ",").map parseNat))
  | _ => none

def showId : JobId → String
  | .num n => s!"#{n}"
  | .name n => s!"n{n}"

def showErr : Err → String
  | .none => "none" | .timeout => "timeout" | .killed => "killed" | .str n => s!"s{n}"

def showOptNat : Option Nat → String
  | none => "-"
  | some n => toString n

def commaNats (l : List Nat) : String := ",".intercalate (l.map toString)

def insertSorted (x : Nat) : List Nat → List Nat
  | [] => [x]
  | y :: ys => if x ≤ y then x :: y :: ys else y :: insertSorted x ys

def sortNats (l : List Nat) : List Nat := l.foldr insertSorted []

def dedup (l : List Nat) : List Nat :=
  l.foldl (fun acc x => if acc.contains x then acc else acc ++ [x]) []

def showJob (s : St) (j : Serial) : String :=
  match s.jobs[j]? with
  | none => s!"?{j + 1}"
  | some x =>
    let info := ",".intercalate ((x.info.map fun kv => (kv.1, kv.2)).map fun kv => s!"{kv.1}:{kv.2}")
    s!"{showId x.id}>{j + 1}/{x.channel}/{x.prio}/{x.payload}/{x.timeout}/{if x.done then 1 else 0}/{showErr x.error}/{showOptNat x.result}/{info}/{x.ttl}/{showOptNat x.deadline}"

def showOut (s : St) : Out → Option String
  | .none => none
  | .busy => some "busy"
  | .retId id => some s!"id={showId id}"
  | .pulled w j => some s!"pulled:{w}:{j + 1}"
  | .blocked w => some s!"blocked:{w}"
  | .keyError => some "keyerror"
  | .ok => some "ok"
  | .waited w js => some s!"waited:{w}:{commaNats (js.map (· + 1))}"
  | .infoOf none => some "info:none"
  | .infoOf (some j) => some s!"info:{showJob s j}"

def snapshot (s : St) : String :=
  let known := sortNats (dedup (s.id2job.map (·.2)))
  let jobs := ";".intercalate (known.map (showJob s))
  let chans := sortNats (dedup ((s.queued.filter (fun j => !s.done j)).map s.chan))
  let q := ";".intercalate (chans.map fun c =>
    s!"{c}:{commaNats (sortNats ((s.queued.filter (fun j => !s.done j && s.chan j == c)).map (· + 1)))}")
  let wt := ";".intercalate (s.waiters.map fun wc => s!"{wc.1}:{commaNats wc.2}")
  let ws := dedup (s.running.map (·.1))
  let run := ";".intercalate ((sortNats ws).filterMap fun w =>
    let js := ((s.running.filter (fun e => e.1 == w && !s.done e.2)).map (·.2 + 1))
    if js.isEmpty then none else some s!"{w}:{commaNats js}")
  let cchans := sortNats (dedup (s.counts.map (·.1)))
  let cnt := ";".intercalate (cchans.map fun c =>
    let n (k : Kind) := (s.counts.filter (fun e => e.1 == c && e.2 == k)).length
    s!"{c}:{n .success},{n .error},{n .timeout},{n .killed}")
  let jw := commaNats (sortNats (s.jwait.map (·.w)))
  s!"now={s.now} count={s.jobs.length} jobs=[{jobs}] q=[{q}] wt=[{wt}] run=[{run}] jw=[{jw}] cnt=[{cnt}]"

/-- The invariants proved in `Props/C16..C18`, evaluated on the concrete state (used by the
harness to cross-check that the executable predicates agree with what it observes). -/
def invOk (s : St) : Bool :=
  (List.range s.jobs.length).all fun j => s.done j || s.loc j == 1

open MwVerif.Status in
def showStatus : Status → String
  | .failed e => s!"failed:{showErr e}"
  | .finished f => s!"finished:url={showOptNat f.url},size={showOptNat f.size},sfn={showOptNat f.sfn},empty={if f.sfnEmpty then 1 else 0}"
  | .progress .dataFetched => "progress:datafetched"
  | .progress (.dict kv) => "progress:dict:" ++ ",".intercalate (kv.map fun e => s!"{e.1}:{e.2}")

open MwVerif.Status in
def qinfoSnap (s : St) (id : JobId) : Option Snap :=
  ((dictGet s.id2job id).bind s.job?).map fun x => ⟨x.done, x.error, x.result, x.info⟩

partial def loop (h : IO.FS.Stream) (out : IO.FS.Stream) (s : St) : IO Unit := do
  let line ← h.getLine
  if line.isEmpty then
    out.flush
    return ()
  let l := line.trimAscii.toString
  if l = "reset" then
    out.putStrLn "reset"
    loop h out init
  else if l.startsWith "status " then
    match (l.splitOn " ").filter (· ≠ "") with
    | [_, rid, zid] =>
      out.putStrLn (showStatus (MwVerif.Status.renderStatus (qinfoSnap s (parseId rid)) (qinfoSnap s (parseId zid))))
      loop h out s
    | _ =>
      out.putStrLn "bad-op"
      loop h out s
  else
    match parseOp l with
    | none =>
      out.putStrLn "bad-op"
      loop h out s
    | some op =>
      let (s', outs) := step s op
      let isHub := match op with | .run => true | .runOne => true | _ => false
      let outs := if isHub then outs.filter (fun o => match o with | .blocked _ => false | _ => true) else outs
      let os := " ".intercalate (outs.filterMap (showOut s'))
      out.putStrLn s!"{os} | {snapshot s'} | inv={if invOk s' then 1 else 0}"
      loop h out s'

end MwVerif.Driver.Qs
