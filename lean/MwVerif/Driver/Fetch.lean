import MwVerif.Driver.Common
import MwVerif.Model.Fetch

/-! `closure <roots>;<item>:<succ,succ> <item>:…;<schedule>` (items are numbers) → the fetched set,
sorted, or `queue-not-empty` if the schedule did not empty the queue. -/
namespace MwVerif.Driver.Fetch
open MwVerif.Fetch MwVerif.Driver

def nums (s : String) (sep : String) : List Nat := ((s.splitOn sep).filter (· ≠ "")).filterMap (·.toNat?)

def step (line : String) : String :=
  let (cmd, rest) := splitCmd line
  match cmd, fields rest with
  | "closure", [roots, edges, sched] =>
    let tbl : List (Nat × List Nat) := ((edges.splitOn " ").filter (· ≠ "")).filterMap fun e =>
      match e.splitOn ":" with
      | [k, vs] => (k.toNat?).map fun kk => (kk, nums vs ",")
      | _ => none
    let succ : Nat → List Nat := fun x => ((tbl.find? (·.1 = x)).map (·.2)).getD []
    let s := run succ (init (nums roots " ")) (nums sched " ")
    if s.todo.isEmpty then " ".intercalate ((s.seen.mergeSort (· ≤ ·)).map toString) else "queue-not-empty"
  | _, _ => "bad-op"

end MwVerif.Driver.Fetch
