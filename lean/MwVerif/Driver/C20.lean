import MwVerif.Driver.Common
import MwVerif.Model.Fs

namespace MwVerif.Driver.C20
open MwVerif.Fs MwVerif.Driver

def parseOp (t : String) : Option Op :=
  let n (s : String) := s.toNat?.getD 0
  if t = "f" then some .fail
  else if t.startsWith "c" then some (.creat (n (t.drop 1).toString))
  else if t.startsWith "w" then some (.write (n (t.drop 1).toString))
  else if t.startsWith "x" then some (.close (n (t.drop 1).toString))
  else if t.startsWith "u" then some (.unlink (n (t.drop 1).toString))
  else if t.startsWith "r" then
    match ((t.drop 1).toString).splitOn "," with
    | [a, b] => some (.rename (n a) (n b))
    | _ => none
  else none

def showState : Option FileState → String
  | none => "absent"
  | some .partialFile => "partial"
  | some (.complete v) => s!"complete:{v}"

/-- `pub <final>;<initial: path=state ...>;<ops>` → verdict and the state of `final` after
every prefix. initial states: `p=c` (complete, version 0) -/
def step (line : String) : String :=
  let (cmd, rest) := splitCmd line
  match cmd, fields rest with
  | "pub", [fin, initial, ops] =>
    let final := fin.trimAscii.toString.toNat?.getD 0
    let fs0 : Fs := ((initial.splitOn " ").filter (· ≠ "")).foldl (fun fs t =>
      match t.splitOn "=" with
      | [p, _] => fs.set (p.toNat?.getD 0) (some (.complete 0))
      | _ => fs) {}
    let tr := ((ops.splitOn " ").filter (· ≠ "")).filterMap parseOp
    let verdict := publishes final tr fs0
    let states := (List.range (tr.length + 1)).map fun k => showState ((run (tr.take k) fs0).get final)
    s!"{verdict} {" ".intercalate states}"
  | _, _ => "bad-op"

end MwVerif.Driver.C20
