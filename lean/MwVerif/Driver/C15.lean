import MwVerif.Driver.Common
import MwVerif.Model.Path

namespace MwVerif.Driver.C15
open MwVerif.Path MwVerif.Driver

def showTarget : Except Reject Str → String
  | .ok p => "ok " ++ encodeStr p
  | .error .badDestination => "err dest"
  | .error .badFilename => "err name"

def step (line : String) : String :=
  let (cmd, rest) := splitCmd line
  let fs := (fields rest).map decodeStr
  match cmd, fs with
  | "normpath", [p] => encodeStr (normpath p)
  | "join", [a, b] => encodeStr (join a b)
  | "dirname", [p] => encodeStr (dirname p)
  | "dest", [cwd, d] => encodeStr (destOf cwd d)
  | "target", [dst, name] => showTarget (extractTarget dst name)
  | "all", dst :: names =>
    let o := extractAll dst names
    s!"{if o.rejected then "rejected" else "accepted"} files={";".intercalate (o.files.map encodeStr)} dirs={";".intercalate (o.dirs.map encodeStr)}"
  | _, _ => "bad-op"

end MwVerif.Driver.C15
