import MwVerif.Driver.Common
import MwVerif.Model.Braces

/-! `braces <tok> <tok> …` with `o<n>` opening run, `c<n>` closing run, `n` noinclude, `[` `]` link
brackets, `t<cp>.<cp>…` text.  Reply: `error` or the nodes: `S<cp>.<cp>…`, `T[…]`, `V[…]`, `G[…]`. -/
namespace MwVerif.Driver.Braces
open MwVerif.Braces MwVerif.Driver

def parseTok (s : String) : Option Tok :=
  if s = "n" then some .noi
  else if s = "[" then some .lopen
  else if s = "]" then some .lclose
  else if s.startsWith "o" then (s.drop 1).toString.toNat?.map .bopen
  else if s.startsWith "c" then (s.drop 1).toString.toNat?.map .bclose
  else if s.startsWith "t" then
    some (.txt (((s.drop 1).toString.splitOn ".").filterMap fun x => x.toNat?.map Char.ofNat))
  else none

def showStr (s : Str) : String := ".".intercalate (s.map fun c => toString c.toNat)

mutual
  partial def showNode : Node → String
    | .str s => "S" ++ showStr s
    | .tmpl cs => "T[" ++ showNodes cs ++ "]"
    | .var cs => "V[" ++ showNodes cs ++ "]"
    | .group cs => "G[" ++ showNodes cs ++ "]"
  partial def showNodes (cs : List Node) : String := " ".intercalate (cs.map showNode)
end

def step (line : String) : String :=
  let (cmd, rest) := splitCmd line
  match cmd with
  | "braces" =>
    let toks := (rest.splitOn " ").filter (· ≠ "")
    let ts := toks.filterMap parseTok
    if ts.length ≠ toks.length then "bad-op"
    else match parse ts with
      | none => "error"
      | some ns => showNodes ns
  | _ => "bad-op"

end MwVerif.Driver.Braces
