import MwVerif.Driver.Common
import MwVerif.Model.Braces
import MwVerif.Model.Args

/-! `braces <tok> <tok> …` with `o<n>` opening run, `c<n>` closing run, `n` noinclude, `[` `]` link
brackets, `t<cp>.<cp>…` text.  Reply: `error` or the nodes: `S<cp>.<cp>…`, `T[…]`, `V[…]`, `G[…]`. -/
namespace MwVerif.Driver.Braces
open MwVerif.Braces MwVerif.Driver

def parseTok (s : String) : Option Tok :=
  if s = "n" then some .noi
  else if s = "[" then some .lopen
  else if s = "]" then some .lclose
  else if s.startsWith "o" then (s.drop 1).toString.toNat?.map .bopen
  else if s.startsWith "c" then (s.drop 1).toString.toNat?.map .bclose
  else if s.startsWith "t" then
    some (.txt (((s.drop 1).toString.splitOn ".").filterMap fun x => x.toNat?.map Char.ofNat))
  else none

def showStr (s : Str) : String := ".".intercalate (s.map fun c => toString c.toNat)

mutual
  partial def showNode : Node → String
    | .str s => "S" ++ showStr s
    | .tmpl cs => "T[" ++ showNodes cs ++ "]"
    | .var cs => "V[" ++ showNodes cs ++ "]"
    | .group cs => "G[" ++ showNodes cs ++ "]"
  partial def showNodes (cs : List Node) : String := " ".intercalate (cs.map showNode)
end

def step (line : String) : String :=
  let (cmd, rest) := splitCmd line
  match cmd with
  | "braces" =>
    let toks := (rest.splitOn " ").filter (· ≠ "")
    let ts := toks.filterMap parseTok
    if ts.length ≠ toks.length then "bad-op"
    else match parse ts with
      | none => "error"
      | some ns => showNodes ns
  | "args" =>
    -- `args <0|1> <ch>…` with `[` `]` `|` `=` and `x<id>`; reply: arguments separated by ` / `, items `[ ] | = x<id>` and `E` (mark)
    match (rest.splitOn " ").filter (· ≠ "") with
    | [] => "bad-op"
    | flag :: toks =>
      let chs := toks.filterMap fun s =>
        if s = "[" then some Args.Ch.lopen else if s = "]" then some .lclose else if s = "|" then some .pipe
        else if s = "=" then some .eq else if s.startsWith "x" then (s.drop 1).toString.toNat?.map .other else none
      if chs.length ≠ toks.length then "bad-op"
      else
        let showItem : Args.Item → String := fun it => match it with
          | .eqmark => "E"
          | .ch .lopen => "["
          | .ch .lclose => "]"
          | .ch .pipe => "|"
          | .ch .eq => "="
          | .ch (.other i) => s!"x{i}"
        let r := Args.parseArgs (flag = "1") chs
        s!"n={r.length} " ++ " / ".intercalate (r.map fun a => " ".intercalate (a.map showItem))
  | _ => "bad-op"

end MwVerif.Driver.Braces
