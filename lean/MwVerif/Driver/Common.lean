/-
Line protocol shared by all model drivers.

A request line is  `<cmd> <field>;<field>;…`  where a string field is a space-separated
list of decimal Unicode code points (so NUL, newline and `;` are safe) and a number field
is a decimal literal.  One reply line per request line.
-/
namespace MwVerif.Driver

def decodeStr (f : String) : List Char :=
  (f.splitOn " ").filterMap fun t =>
    match t.trimAscii.toString.toNat? with
    | some n => some (Char.ofNat n)
    | none => none

def encodeStr (s : List Char) : String :=
  " ".intercalate (s.map fun c => toString c.toNat)

def fields (rest : String) : List String := rest.splitOn ";"

/-- split `"cmd rest…"` at the first blank. -/
def splitCmd (line : String) : String × String :=
  let l := line.trimAscii.toString
  match l.splitOn " " with
  | [] => ("", "")
  | c :: rest => (c, " ".intercalate rest)

partial def loop (h : IO.FS.Stream) (out : IO.FS.Stream) (step : String → String) : IO Unit := do
  let line ← h.getLine
  if line.isEmpty then
    out.flush
    return ()
  out.putStrLn (step line)
  loop h out step

end MwVerif.Driver
