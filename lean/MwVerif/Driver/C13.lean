import MwVerif.Driver.Common
import MwVerif.Model.Metabook
import MwVerif.Gen.MetabookTables

/-! values cross the protocol as space separated tokens:
`n` null, `t`/`f`, `i<int>`, `s<code>`, `[` … `]`, `{` `k<code>` value … `}` -/
namespace MwVerif.Driver.C13
open MwVerif.Metabook MwVerif.Driver

def parseIntTok (s : String) : Int :=
  if s.startsWith "-" then - Int.ofNat ((s.drop 1).toString.toNat?.getD 0) else Int.ofNat (s.toNat?.getD 0)

mutual
  partial def parseVal : List String → Option (J × List String)
    | "n" :: r => some (.null, r)
    | "t" :: r => some (.bool true, r)
    | "f" :: r => some (.bool false, r)
    | "[" :: r => parseArr r []
    | "{" :: r => parseObj r []
    | tok :: r =>
      if tok.startsWith "i" then some (.num (parseIntTok (tok.drop 1).toString), r)
      else if tok.startsWith "s" then some (.str ((tok.drop 1).toString.toNat?.getD 0), r)
      else none
    | [] => none
  partial def parseArr : List String → List J → Option (J × List String)
    | "]" :: r, acc => some (.arr acc.reverse, r)
    | toks, acc =>
      match parseVal toks with
      | some (v, r) => parseArr r (v :: acc)
      | none => none
  partial def parseObj : List String → List (Nat × J) → Option (J × List String)
    | "}" :: r, acc => some (.obj acc.reverse, r)
    | k :: toks, acc =>
      match parseVal toks with
      | some (v, r) => parseObj r (((k.drop 1).toString.toNat?.getD 0, v) :: acc)
      | none => none
    | [], _ => none
end

partial def showVal : J → String
  | .null => "n"
  | .bool true => "t"
  | .bool false => "f"
  | .num n => s!"i{n}"
  | .str s => s!"s{s}"
  | .arr xs => "[ " ++ " ".intercalate (xs.map showVal) ++ (if xs.isEmpty then "]" else " ]")
  | .obj kv => "{ " ++ " ".intercalate (kv.map fun e => s!"k{e.1} {showVal e.2}") ++ (if kv.isEmpty then "}" else " }")

def step (line : String) : String :=
  let (cmd, rest) := splitCmd line
  let toks := (rest.splitOn " ").filter (· ≠ "")
  match cmd with
  | "norm" =>
    match parseVal toks with
    | some (v, []) => showVal (norm MwVerif.Gen.mbTables v)
    | _ => "bad-value"
  | _ => "bad-op"

end MwVerif.Driver.C13
