import MwVerif.Driver.Common
import MwVerif.Model.Expr
import MwVerif.Gen.ExprOps

/-! `rpn <ast>`: the tree in prefix form, tokens separated by blanks: `N<i>` number literal i,
`U<op>` prefix operator (one subtree), `B<op>` binary operator (two subtrees), `P` parenthesis.
Reply: `ok <well-parenthesised?> <tokens as printed> => <rpn>` or `err <kind>`.
`toks <tok> …` runs the loop on a raw token list (`n<i>`, `o<op>`, `(`, `)`). -/
namespace MwVerif.Driver.Expr
open MwVerif.Expr MwVerif.Driver

partial def parseAst : List String → Option (Ast × List String)
  | [] => none
  | tok :: rest =>
    if tok.startsWith "N" then some (.num ((tok.drop 1).toString.toNat?.getD 0), rest)
    else if tok = "P" then (parseAst rest).map fun p => (.paren p.1, p.2)
    else if tok.startsWith "U" then (parseAst rest).map fun p => (.un (tok.drop 1).toString p.1, p.2)
    else if tok.startsWith "B" then
      match parseAst rest with
      | some (l, r1) => (parseAst r1).map fun p => (.bin (tok.drop 1).toString l p.1, p.2)
      | none => none
    else none

def showOut : Out → String
  | .num v => s!"n{v}"
  | .op o => s!"o{o}"

def showTok : Tok → String
  | .num v => s!"n{v}"
  | .op o => s!"o{o}"
  | .lp => "("
  | .rp => ")"

def showRes : Except Err (List Out) → String
  | .ok outs => " ".intercalate (outs.map showOut)
  | .error .expectedOperator => "err expected-operator"
  | .error .unbalanced => "err unbalanced"
  | .error .unknownOperator => "err unknown-operator"

def parseTok (s : String) : Option Tok :=
  if s = "(" then some .lp else if s = ")" then some .rp
  else if s.startsWith "n" then some (.num ((s.drop 1).toString.toNat?.getD 0))
  else if s.startsWith "o" then some (.op (s.drop 1).toString)
  else none

def step (line : String) : String :=
  let (cmd, rest) := splitCmd line
  let ws := (rest.splitOn " ").filter (· ≠ "")
  match cmd with
  | "rpn" =>
    match parseAst ws with
    | some (e, []) =>
      let t := Gen.ExprOps.table
      s!"ok {e.ok t} " ++ " ".intercalate (e.toks.map showTok) ++ " => " ++ showRes (rpn t e.toks)
        ++ " == " ++ " ".intercalate (e.postorder.map showOut)
    | _ => "bad-ast"
  | "toks" =>
    match ws.mapM parseTok with
    | some ts => showRes (rpn Gen.ExprOps.table ts)
    | none => "bad-token"
  | _ => "bad-op"

end MwVerif.Driver.Expr
