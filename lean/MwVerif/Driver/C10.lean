import MwVerif.Driver.Common
import MwVerif.Model.ScanRules

namespace MwVerif.Driver.C10
open MwVerif.Scan MwVerif.Driver

def step (line : String) : String :=
  let (cmd, rest) := splitCmd line
  match cmd with
  | "scan" =>
    let toks := scan mwRules (decodeStr rest)
    " ".intercalate (toks.map fun t => s!"{t.ty},{t.start},{t.len}")
  | _ => "bad-op"

end MwVerif.Driver.C10
