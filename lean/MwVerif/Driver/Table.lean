import MwVerif.Driver.Common
import MwVerif.Model.Cells
import MwVerif.Model.Rows
import MwVerif.Model.Tables

/-! `cells <tok>…` (`|` `!` `||` `!!` `<td>` `<th>` `</td>` `bar` `[[` `x<id>`) and `rows <tok>…` (`|-` `<tr>` `</tr>` `nl`
`c<id>` `x<id>`): the grouped tokens, cells as `H(…)`/`D(…)`, rows as `R(…)`; `tables <tok>…` (`{|` `|}` `x<id>`): the paired tables as `T(…)`. -/
namespace MwVerif.Driver.Table
open MwVerif.Driver

def parseCellTok (s : String) : Option Cells.Tok :=
  if s = "|" then some (.col (some false)) else if s = "!" then some (.col (some true))
  else if s = "||" || s = "!!" then some (.col none)
  else if s = "<td>" then some (.tdOpen false) else if s = "<th>" then some (.tdOpen true)
  else if s = "</td>" then some .tdClose
  else if s = "bar" then some .bar else if s = "[[" then some .box
  else if s.startsWith "x" then (s.drop 1).toString.toNat?.map .other else none

def showCellTok : Cells.Tok → String
  | .col (some true) => "!" | .col (some false) => "|" | .col none => "||"
  | .tdOpen true => "<th>" | .tdOpen false => "<td>" | .tdClose => "</td>"
  | .bar => "bar" | .box => "[[" | .other i => s!"x{i}"

def showCellOut : Cells.Out → String
  | .loose t => showCellTok t
  | .cell h _ b => (if h then "H(" else "D(") ++ " ".intercalate (b.map showCellTok) ++ ")"

def parseRowTok (s : String) : Option Rows.Tok :=
  if s = "|-" then some .rowWiki else if s = "<tr>" then some .trOpen else if s = "</tr>" then some .trClose
  else if s = "nl" then some .nl
  else if s.startsWith "c" then (s.drop 1).toString.toNat?.map .cellStart
  else if s.startsWith "x" then (s.drop 1).toString.toNat?.map .other else none

def showRowTok : Rows.Tok → String
  | .rowWiki => "|-" | .trOpen => "<tr>" | .trClose => "</tr>" | .nl => "nl"
  | .cellStart i => s!"c{i}" | .other i => s!"x{i}"

def showRowOut : Rows.Out → String
  | .loose t => showRowTok t
  | .row _ c => "R(" ++ " ".intercalate (c.map showRowTok) ++ ")"

def parseTableTok (s : String) : Option Tables.Tok :=
  if s = "{|" then some .topen else if s = "|}" then some .tclose
  else if s.startsWith "x" then (s.drop 1).toString.toNat?.map .other else none

partial def showTableOut : Tables.Out → String
  | .leaf i => s!"x{i}"
  | .looseClose => "|}"
  | .table cs => "T(" ++ " ".intercalate (cs.map showTableOut) ++ ")"

def step (line : String) : String :=
  let (cmd, rest) := splitCmd line
  let toks := (rest.splitOn " ").filter (· ≠ "")
  match cmd with
  | "cells" =>
    let ts := toks.filterMap parseCellTok
    if ts.length ≠ toks.length then "bad-op" else " ".intercalate ((Cells.cells false ts).map showCellOut)
  | "rows" =>
    let ts := toks.filterMap parseRowTok
    if ts.length ≠ toks.length then "bad-op" else " ".intercalate ((Rows.rows ts).map showRowOut)
  | "tables" =>
    let ts := toks.filterMap parseTableTok
    if ts.length ≠ toks.length then "bad-op" else " ".intercalate ((Tables.parse ts).map showTableOut)
  | _ => "bad-op"

end MwVerif.Driver.Table
