import MwVerif.Driver.Common
import MwVerif.Model.Uniq
import MwVerif.Gen.TagNames

/-! `rt <rand>;<text>` → `<replaced text>;<restored text>;<tagname>|<inner>|<vlist>|<complete>;…`
(strings as code point lists). -/
namespace MwVerif.Driver.Uniq
open MwVerif.Uniq MwVerif.Driver

def cfgOf (rand : List Char) : Cfg :=
  { names := Gen.TagNames.names, isSpace := Gen.TagNames.isSpace, fold := Gen.TagNames.fold,
    lower := Gen.TagNames.lower, rand := rand }

def step (line : String) : String :=
  let (cmd, rest) := splitCmd line
  match cmd, fields rest with
  | "rt", [rand, text] =>
    let cfg := cfgOf (decodeStr rand)
    let o := replaceTags cfg (decodeStr text)
    let back := replaceUniq o.table o.text
    ";".intercalate ([encodeStr o.text, encodeStr back] ++
      o.table.map fun kv => "|".intercalate [encodeStr kv.2.tagname, encodeStr kv.2.inner, encodeStr kv.2.vlist, encodeStr kv.2.complete])
  | _, _ => "bad-op"

end MwVerif.Driver.Uniq
