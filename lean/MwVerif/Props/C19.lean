import MwVerif.Model.Status
import MwVerif.Props.C17

/-!
# C19 — render status reported to the wiki is faithful to the job's real state
-/
namespace MwVerif.Status
open MwVerif.Qs

/-- **failed iff finished with an error.** -/
theorem c19_failed_iff (render zip : Option Snap) (e : Err) :
    renderStatus render zip = .failed e ↔ ∃ x, render = some x ∧ x.error = e ∧ e.truthy = true := by
  cases render with
  | none =>
    cases zip with
    | none => simp [renderStatus, Err.truthy]
    | some z => cases hz : z.done <;> simp [renderStatus, Err.truthy, hz]
  | some x =>
    cases ht : x.error.truthy with
    | true =>
      simp only [renderStatus, Option.map_some, Option.getD_some, ht, if_true, Status.failed.injEq,
        Option.some.injEq, exists_eq_left']
      constructor
      · intro h; exact ⟨h, h ▸ ht⟩
      · intro h; exact h.1
    | false =>
      have hne : ¬ (x.error = e ∧ e.truthy = true) := by
        rintro ⟨h1, h2⟩; rw [← h1, ht] at h2; cases h2
      cases hd : x.done <;> cases hi : x.info.isEmpty <;> cases zip with
      | none => simp [renderStatus, ht, hd, hi, hne]
      | some z => cases hz : z.done <;> simp [renderStatus, ht, hd, hi, hz, hne]

/-- **finished iff the render job exists, is done and has no (truthy) error** — so never for
a job that is queued, running, failed, killed, timed out or unknown. -/
theorem c19_finished_iff (render zip : Option Snap) :
    (∃ f, renderStatus render zip = .finished f) ↔
      ∃ x, render = some x ∧ x.done = true ∧ x.error.truthy = false := by
  cases render with
  | none =>
    cases zip with
    | none => simp [renderStatus, Err.truthy]
    | some z => cases hz : z.done <;> simp [renderStatus, Err.truthy, hz]
  | some x =>
    cases ht : x.error.truthy <;> cases hd : x.done <;> cases hi : x.info.isEmpty <;> cases zip with
    | none => simp [renderStatus, ht, hd, hi]
    | some z => cases hz : z.done <;> simp [renderStatus, ht, hd, hi, hz]

/-- **progress otherwise**, and where the progress text comes from: the render job's own
info if it has any; else the fetch job's info while that is running; else the fixed
"data fetched" text exactly when the fetch job is done. -/
theorem c19_progress_source (render zip : Option Snap)
    (hnf : ∀ x, render = some x → x.error.truthy = false)
    (hnd : ∀ x, render = some x → x.done = false) :
    renderStatus render zip =
      .progress (
        match render.map (·.info) with
        | some (kv :: kvs) => .dict (kv :: kvs)
        | _ =>
          match zip with
          | none => .dict []
          | some z => if z.done then .dataFetched else .dict z.info) := by
  cases render with
  | none =>
    cases zip with
    | none => simp [renderStatus, Err.truthy]
    | some z => cases hz : z.done <;> simp [renderStatus, Err.truthy, hz]
  | some x =>
    have ht := hnf x rfl
    have hd := hnd x rfl
    cases hinfo : x.info with
    | nil =>
      cases zip with
      | none => simp [renderStatus, ht, hd, hinfo]
      | some z => cases hz : z.done <;> simp [renderStatus, ht, hd, hinfo, hz]
    | cons kv kvs => simp [renderStatus, ht, hd, hinfo]

theorem c19_trichotomy (render zip : Option Snap) :
    (∃ e, renderStatus render zip = .failed e) ∨ (∃ f, renderStatus render zip = .finished f) ∨
    (∃ i, renderStatus render zip = .progress i) := by
  cases h : renderStatus render zip with
  | failed e => exact Or.inl ⟨e, rfl⟩
  | finished f => exact Or.inr (Or.inl ⟨f, rfl⟩)
  | progress i => exact Or.inr (Or.inr ⟨i, rfl⟩)

/-! ### job ids: writers and collections are kept apart -/

/-- collection ids have a fixed length (`^[a-f0-9]{16}$`); then the render job id determines
both the collection and the writer. -/
theorem c19_render_id_injective (cid cid' w w' : Str) (hl : cid.length = cid'.length)
    (h : renderId cid w = renderId cid' w') : cid = cid' ∧ w = w' := by
  unfold renderId at h
  rw [List.append_assoc, List.append_assoc] at h
  have h1 := List.append_inj h hl
  exact ⟨h1.1, List.append_cancel_left h1.2⟩

theorem c19_writer_separation (cid w w' : Str) (h : w ≠ w') : renderId cid w ≠ renderId cid w' :=
  fun e => h (c19_render_id_injective cid cid w w' rfl e).2

theorem c19_render_not_zip (cid cid' w : Str) (hl : cid.length = cid'.length) :
    renderId cid w ≠ zipId cid' := by
  intro h
  unfold renderId zipId at h
  rw [List.append_assoc] at h
  have h1 := (List.append_inj h hl).2
  have h2 : (renderTag ++ w)[1]? = zipTag[1]? := by rw [h1]
  simp [renderTag, zipTag] at h2

/-! ### composed with the queue: what the status command can see in a reachable state -/

def snapOfJob (x : Job) : Snap := ⟨x.done, x.error, x.result, x.info⟩

/-- `qinfo(jobid)` on the queue state. -/
def qinfo (s : St) (id : JobId) : Option Snap :=
  ((dictGet s.id2job id).bind s.job?).map snapOfJob

/-- the status the server reports for the render job `rid` / fetch job `zid` in state `s`. -/
def statusIn (s : St) (rid zid : JobId) : Status := renderStatus (qinfo s rid) (qinfo s zid)

/-- **failed ⇒ the job is finished** (failed, killed or timed out), in every reachable
queue state: an error is only ever recorded together with `done`. -/
theorem c19_failed_is_finished {s : St} (h : Reach s) (rid zid : JobId) (e : Err)
    (hs : statusIn s rid zid = .failed e) :
    ∃ j x, dictGet s.id2job rid = some j ∧ s.jobs[j]? = some x ∧ x.done = true ∧ x.error = e ∧
      e.truthy = true := by
  obtain ⟨sn, hsn, he, ht⟩ := (c19_failed_iff _ _ e).1 hs
  unfold qinfo at hsn
  cases hj : dictGet s.id2job rid with
  | none => simp [hj] at hsn
  | some j =>
    simp only [hj, Option.bind_some, St.job?] at hsn
    cases hx : s.jobs[j]? with
    | none => simp [hx] at hsn
    | some x =>
      simp only [hx, Option.map_some, Option.some.injEq] at hsn
      subst hsn
      simp only [snapOfJob] at he
      refine ⟨j, x, rfl, hx, ?_, he, ht⟩
      apply c17_error_implies_done h j x hx
      intro hn; rw [hn] at he; rw [← he] at ht; simp [Err.truthy] at ht

/-- **finished ⇒ the render job of exactly this writer is done without error.** -/
theorem c19_finished_is_done (s : St) (rid zid : JobId) (f : Finished)
    (hs : statusIn s rid zid = .finished f) :
    ∃ j x, dictGet s.id2job rid = some j ∧ s.jobs[j]? = some x ∧ x.done = true ∧
      x.error.truthy = false := by
  obtain ⟨sn, hsn, hd, ht⟩ := (c19_finished_iff _ _).1 ⟨f, hs⟩
  unfold qinfo at hsn
  cases hj : dictGet s.id2job rid with
  | none => simp [hj] at hsn
  | some j =>
    simp only [hj, Option.bind_some, St.job?] at hsn
    cases hx : s.jobs[j]? with
    | none => simp [hx] at hsn
    | some x =>
      simp only [hx, Option.map_some, Option.some.injEq] at hsn
      subst hsn
      exact ⟨j, x, rfl, hx, hd, ht⟩

/-- frame: the status for one writer depends only on the two jobs it names. -/
theorem c19_depends_only_on_two_jobs (s s' : St) (rid zid : JobId)
    (h1 : qinfo s rid = qinfo s' rid) (h2 : qinfo s zid = qinfo s' zid) :
    statusIn s rid zid = statusIn s' rid zid := by
  unfold statusIn; rw [h1, h2]

/-! ### the download filename is header-safe -/

theorem collapseAux_chars (b : Bool) (s : Str) :
    ∀ c ∈ collapseAux b s, c = ' ' ∨ (c ∈ s ∧ isSep c = false) := by
  induction s generalizing b with
  | nil => intro c hc; simp [collapseAux] at hc
  | cons x xs ih =>
    intro c hc
    unfold collapseAux at hc
    by_cases hx : isSep x = true
    · simp only [hx, if_true] at hc
      cases b with
      | true =>
        simp only [if_true] at hc
        rcases ih true c hc with h | ⟨h1, h2⟩
        · exact Or.inl h
        · exact Or.inr ⟨List.mem_cons_of_mem _ h1, h2⟩
      | false =>
        simp only [Bool.false_eq_true, if_false, List.mem_cons] at hc
        rcases hc with rfl | hc
        · exact Or.inl rfl
        · rcases ih true c hc with h | ⟨h1, h2⟩
          · exact Or.inl h
          · exact Or.inr ⟨List.mem_cons_of_mem _ h1, h2⟩
    · have hx' : isSep x = false := by simpa using hx
      simp only [hx', Bool.false_eq_true, if_false, List.mem_cons] at hc
      rcases hc with rfl | hc
      · exact Or.inr ⟨by simp, hx'⟩
      · rcases ih false c hc with h | ⟨h1, h2⟩
        · exact Or.inl h
        · exact Or.inr ⟨List.mem_cons_of_mem _ h1, h2⟩

theorem stripSpaces_subset (s : Str) : ∀ c ∈ stripSpaces s, c ∈ s := by
  intro c hc
  unfold stripSpaces at hc
  have h1 := List.mem_reverse.1 hc
  have h2 := (List.dropWhile_sublist _).subset h1
  have h3 := List.mem_reverse.1 h2
  exact (List.dropWhile_sublist _).subset h3

theorem collectionName_safe : ∀ c ∈ collectionName, isSep c = false ∧ c ≠ '\n' ∧ c ≠ '\r' := by decide
theorem inlinePrefix_safe : ∀ c ∈ inlinePrefix, c ≠ '\n' ∧ c ≠ '\r' := by decide
theorem starPrefix_safe : ∀ c ∈ starPrefix, c ≠ '\n' ∧ c ≠ '\r' := by decide

/-- **C19 (header safety).**  The ASCII download name is never empty and contains none of
space `;` `:` `"` `'` `,`; each of its characters is `-`, a letter of "collection", or a
character of the NFKD/ASCII image of the suggested name.  Hence, if that image is printable
ASCII (checked for every code point by the harness), so is the name. -/
theorem c19_ascii_name_safe (folded : Str) :
    asciiName folded ≠ [] ∧
    ∀ c ∈ asciiName folded, isSep c = false ∧
      (c = '-' ∨ c ∈ collectionName ∨ c ∈ folded) := by
  unfold asciiName
  simp only []
  constructor
  · split
    · simp [collectionName]
    · rename_i h
      intro e
      have := List.map_eq_nil_iff.1 e
      exact h (by simp [this])
  · intro c hc
    obtain ⟨d, hd, rfl⟩ := List.mem_map.1 hc
    by_cases hsp : d = ' '
    · subst hsp; simp [isSep]
    · simp only [hsp, if_false]
      split at hd
      · exact ⟨(collectionName_safe d hd).1, Or.inr (Or.inl hd)⟩
      · have h1 := stripSpaces_subset _ d hd
        rcases collapseAux_chars false folded d h1 with h | ⟨h2, h3⟩
        · exact absurd h hsp
        · exact ⟨h3, Or.inr (Or.inr h2)⟩

/-- the whole header value contains no CR/LF (no header splitting) when the extension, the
ASCII image and the percent-encoding contain none. -/
theorem c19_header_no_crlf (name folded quoted ext : Str)
    (hf : ∀ c ∈ folded, c ≠ '\n' ∧ c ≠ '\r') (hq : ∀ c ∈ quoted, c ≠ '\n' ∧ c ≠ '\r')
    (he : ∀ c ∈ ext, c ≠ '\n' ∧ c ≠ '\r') :
    ∀ c ∈ contentDisposition name folded quoted ext, c ≠ '\n' ∧ c ≠ '\r' := by
  have ha : ∀ c ∈ asciiName folded, c ≠ '\n' ∧ c ≠ '\r' := by
    intro c hc
    rcases (c19_ascii_name_safe folded).2 c hc with ⟨_, rfl | h | h⟩
    · decide
    · exact (collectionName_safe c h).2
    · exact hf c h
  have hdot : ∀ c ∈ (['.'] : Str), c ≠ '\n' ∧ c ≠ '\r' := by decide
  have hd : ∀ c ∈ inlinePrefix ++ asciiName folded ++ ['.'] ++ ext, c ≠ '\n' ∧ c ≠ '\r' := by
    intro c hc
    simp only [List.mem_append] at hc
    rcases hc with ((hc | hc) | hc) | hc
    · exact inlinePrefix_safe c hc
    · exact ha c hc
    · exact hdot c hc
    · exact he c hc
  intro c hc
  unfold contentDisposition at hc
  simp only [] at hc
  split at hc
  · rcases List.mem_append.1 hc with hc | hc
    · rcases List.mem_append.1 hc with hc | hc
      · rcases List.mem_append.1 hc with hc | hc
        · rcases List.mem_append.1 hc with hc | hc
          · exact hd c hc
          · exact starPrefix_safe c hc
        · exact hq c hc
      · exact hdot c hc
    · exact he c hc
  · exact hd c hc

/-! ### Non-vacuity -/

example : renderStatus (some ⟨true, .str 3, none, []⟩) none = .failed (.str 3) := by decide
example : renderStatus (some ⟨true, .str 0, some 2, []⟩) none = .finished ⟨some 2, some 20, some 1, false⟩ := by decide
example : renderStatus (some ⟨false, .none, none, []⟩) (some ⟨true, .none, none, [(0, 1)]⟩) = .progress .dataFetched := by decide
example : renderStatus none (some ⟨false, .none, none, [(0, 1)]⟩) = .progress (.dict [(0, 1)]) := by decide
example : asciiName "my: book, \"2\"".toList = "my-book-2".toList := by decide
example : asciiName " ;; ".toList = "collection".toList := by decide

end MwVerif.Status
