import MwVerif.Lemmas.Fetch.Closure
/-!
# C11 — fetching a collection yields a complete archive (work-list level)

For the work-list discipline of the fetcher (`scheduled` set + queues, batches of any size,
answers in any order): whatever the schedule, when the queue has run empty the set of fetched
items is *exactly* what is reachable from the metabook's items in the "needs" relation (article →
templates and images, image → description page → its templates …) — nothing missing, nothing
unnecessary — and no item is ever queued twice.  What each API answer makes necessary (`succ`) and
the archive writer are outside the model; the check compares the real archive of a synthetic wiki
with the wiki's own closure.
-/
namespace MwVerif.Fetch

variable {α : Type} [DecidableEq α]

/-- C11 (completeness and minimality): for every schedule that empties the queue, an item has
been fetched iff it is needed. -/
theorem c11_fetched_iff_needed (succ : α → List α) (roots sched : List α)
    (hdone : (run succ (init roots) sched).todo = []) (x : α) :
    x ∈ (run succ (init roots) sched).seen ↔ Reach succ roots x := by
  have h := inv_run succ roots sched _ (inv_init succ roots)
  constructor
  · exact h.seen_reach x
  · intro hr
    induction hr with
    | root hx => exact h.roots_seen _ hx
    | step _ hy ih => exact h.done_closed _ ih (by rw [hdone]; simp) _ hy

/-- the result does not depend on the schedule: two schedules that both empty the queue fetch the
same set (batch sizes, continuation limits and response latencies only change the schedule). -/
theorem c11_schedule_independent (succ : α → List α) (roots s1 s2 : List α)
    (h1 : (run succ (init roots) s1).todo = []) (h2 : (run succ (init roots) s2).todo = []) (x : α) :
    x ∈ (run succ (init roots) s1).seen ↔ x ∈ (run succ (init roots) s2).seen := by
  rw [c11_fetched_iff_needed succ roots s1 h1, c11_fetched_iff_needed succ roots s2 h2]

/-- nothing is queued twice, at any point of any schedule. -/
theorem c11_no_double_fetch (succ : α → List α) (roots sched : List α) :
    (run succ (init roots) sched).todo.Nodup :=
  (inv_run succ roots sched _ (inv_init succ roots)).todo_nodup

/-- a missing page (an item that needs nothing and yields nothing) does not disturb the rest:
it is seen, answered and the closure of the others is unchanged — instance of the theorem above;
and a redirect cycle is just a cycle in `succ`: the `seen` guard ends it. -/
example : (run (fun n : Nat => if n = 1 then [2] else if n = 2 then [1] else []) (init [1, 7]) [1, 2, 7, 1]).seen = [1, 7, 2] := by
  decide

end MwVerif.Fetch
