import MwVerif.Lemmas.Fetch.Closure
import MwVerif.Lemmas.Merge.Lookup
/-!
# C11 — fetching a collection yields a complete archive (work-list level)

For the work-list discipline of the fetcher (`scheduled` set + queues, batches of any size,
answers in any order): whatever the schedule, when the queue has run empty the set of fetched
items is *exactly* what is reachable from the metabook's items in the "needs" relation (article →
templates and images, image → description page → its templates …) — nothing missing, nothing
unnecessary — and no item is ever queued twice.  What each API answer makes necessary (`succ`) and
the archive writer are outside the model; the check compares the real archive of a synthetic wiki
with the wiki's own closure.
-/
namespace MwVerif.Fetch

variable {α : Type} [DecidableEq α]

/-- C11 (completeness and minimality): for every schedule that empties the queue, an item has
been fetched iff it is needed. -/
theorem c11_fetched_iff_needed (succ : α → List α) (roots sched : List α)
    (hdone : (run succ (init roots) sched).todo = []) (x : α) :
    x ∈ (run succ (init roots) sched).seen ↔ Reach succ roots x := by
  have h := inv_run succ roots sched _ (inv_init succ roots)
  constructor
  · exact h.seen_reach x
  · intro hr
    induction hr with
    | root hx => exact h.roots_seen _ hx
    | step _ hy ih => exact h.done_closed _ ih (by rw [hdone]; simp) _ hy

/-- the result does not depend on the schedule: two schedules that both empty the queue fetch the
same set (batch sizes, continuation limits and response latencies only change the schedule). -/
theorem c11_schedule_independent (succ : α → List α) (roots s1 s2 : List α)
    (h1 : (run succ (init roots) s1).todo = []) (h2 : (run succ (init roots) s2).todo = []) (x : α) :
    x ∈ (run succ (init roots) s1).seen ↔ x ∈ (run succ (init roots) s2).seen := by
  rw [c11_fetched_iff_needed succ roots s1 h1, c11_fetched_iff_needed succ roots s2 h2]

/-- nothing is queued twice, at any point of any schedule. -/
theorem c11_no_double_fetch (succ : α → List α) (roots sched : List α) :
    (run succ (init roots) sched).todo.Nodup :=
  (inv_run succ roots sched _ (inv_init succ roots)).todo_nodup

/-- a missing page (an item that needs nothing and yields nothing) does not disturb the rest:
it is seen, answered and the closure of the others is unchanged — instance of the theorem above;
and a redirect cycle is just a cycle in `succ`: the `seen` guard ends it. -/
example : (run (fun n : Nat => if n = 1 then [2] else if n = 2 then [1] else []) (init [1, 7]) [1, 2, 7, 1]).seen = [1, 7, 2] := by
  decide

end MwVerif.Fetch

namespace MwVerif.Merge

/-- **C11 (merging the answers of a continued query): lists.**  The items of the later answer are appended to the
items of the earlier one — nothing is dropped or re-ordered. -/
theorem c11_merge_lists (a b : List J) : merge (.list a) (.list b) = some (.list (a ++ b)) := by rw [merge]

/-- **C11 (merging the answers of a continued query): dictionaries, key by key.**  After a successful merge every key
holds the merge of the two values if both answers had it, and the one value otherwise: a page reported only by a later
answer is added, a page reported by both has its lists concatenated (recursively), a page of the earlier answer stays. -/
theorem c11_merge_key_by_key (a b c : List (Nat × J)) (h : merge (.dict a) (.dict b) = some (.dict c))
    (hnd : (b.map (·.1)).Nodup) (k : Nat) : Combined (lookup k a) (lookup k b) (lookup k c) := by
  rw [merge] at h
  simp only [Option.map_eq_some_iff, J.dict.injEq] at h
  obtain ⟨c', hc, rfl⟩ := h
  exact lookup_mergeKV b a c' hc hnd k

/-- two answers about page 7: the first lists image 1, the second image 2 and a new page 9. -/
example : merge (.dict [(7, .dict [(1, .list [.scalar 0 1])])]) (.dict [(7, .dict [(1, .list [.scalar 0 2])]), (9, .dict [])])
    = some (.dict [(7, .dict [(1, .list [.scalar 0 1, .scalar 0 2])]), (9, .dict [])]) := by
  simp [merge, mergeKV, lookup, setKey]

end MwVerif.Merge
