import MwVerif.Model.Metabook
import MwVerif.Gen.MetabookTables

namespace MwVerif.Metabook

/-- placeholder while the theorems are written. -/
theorem c13_tables_loaded : MwVerif.Gen.mbTables.typeKey = MwVerif.Gen.mbTypeKey := rfl

end MwVerif.Metabook
