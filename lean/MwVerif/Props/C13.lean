import MwVerif.Lemmas.Metabook.Norm
import MwVerif.Gen.MetabookTables

/-!
# C13 — metabooks round-trip through JSON and identify collections deterministically

`norm t j` is `dumps(loads(j), sort_keys=True)` on JSON values (Model/Metabook.lean), for the
class tables `t` regenerated from mwlib.core.metabook by introspection.
-/
namespace MwVerif.Metabook

/-- **C13 (fixed point).**  Re-serialising is a fixed point, for *every* JSON value — also
one that was not produced by mwlib: `dumps(loads(dumps(loads(x)))) = dumps(loads(x))`. -/
theorem c13_fixpoint (t : Tables) (hw : TablesWF t) (j : J) : norm t (norm t j) = norm t j :=
  norm_idem t hw j

/-- **C13 (round trip).**  A metabook in serialised form (a value `dumps` produced) loads back
to an object that dumps to the same value: same items, order, nesting, attributes. -/
theorem c13_roundtrip (t : Tables) (hw : TablesWF t) (j j0 : J) (h : j = norm t j0) : norm t j = j := by
  rw [h]; exact norm_idem t hw j0

theorem normPairs_eq_map (t : Tables) : ∀ kv : List (Nat × J),
    normPairs t kv = kv.map (fun e => (e.1, norm t e.2))
  | [] => rfl
  | (k, v) :: rest => by simp [normPairs, normPairs_eq_map t rest]

theorem any_perm {α : Type} {l1 l2 : List α} (p : α → Bool) (h : l1.Perm l2) : l1.any p = l2.any p := by
  induction h with
  | nil => rfl
  | cons x _ ih => simp [List.any_cons, ih]
  | swap x y l => simp only [List.any_cons]; cases p x <;> cases p y <;> rfl
  | trans _ _ ih1 ih2 => exact ih1.trans ih2

theorem objectFields_perm (t : Tables) (cls : Nat) {kv kv' : List (Nat × J)} (hp : kv.Perm kv') :
    (objectFields t cls kv).Perm (objectFields t cls kv') := by
  rw [objectFields_eq, objectFields_eq]
  refine List.Perm.cons _ (List.Perm.append ?_ (hp.filter _))
  have : (fun d : Nat × J => !(kv.filter (keep t)).any (·.1 = d.1)) =
      (fun d : Nat × J => !(kv'.filter (keep t)).any (·.1 = d.1)) := by
    funext d; rw [any_perm _ (hp.filter (keep t))]
  rw [this]

/-- **C13 (key order).**  The order in which a JSON object lists its keys does not matter. -/
theorem c13_key_order_invariant (t : Tables) (hw : TablesWF t) {kv kv' : List (Nat × J)}
    (hp : kv.Perm kv') (hk : (kv.map (·.1)).Nodup) : norm t (.obj kv) = norm t (.obj kv') := by
  simp only [norm]
  have hp1 : (normPairs t kv).Perm (normPairs t kv') := by
    rw [normPairs_eq_map, normPairs_eq_map]; exact hp.map _
  have hk1 : ((normPairs t kv).map (·.1)).Nodup := by
    rw [normPairs_eq_map]; simpa [List.map_map, Function.comp_def] using hk
  have hk1' : ((normPairs t kv').map (·.1)).Nodup := (hp1.map _).nodup_iff.1 hk1
  rw [dictOfPairs_of_nodup hk1, dictOfPairs_of_nodup hk1']
  unfold finishObj
  rw [classFor_perm hp1 hk1]
  cases classFor t (normPairs t kv') with
  | none => simp only []; rw [sortKeys_eq_of_perm hp1 hk1]
  | some cls =>
    simp only []
    rw [sortKeys_eq_of_perm (objectFields_perm t cls hp1) (objectFields_nodup hw cls hk1)]

/-- ... at any depth: the normal form of a container depends on its children only through
their normal forms (so permuting keys inside nested articles/chapters does not matter
either). -/
theorem c13_congr_arr (t : Tables) {xs ys : List J} (h : normList t xs = normList t ys) :
    norm t (.arr xs) = norm t (.arr ys) := by simp only [norm, h]

theorem c13_congr_obj (t : Tables) {kv kv' : List (Nat × J)} (h : normPairs t kv = normPairs t kv') :
    norm t (.obj kv) = norm t (.obj kv') := by simp only [norm, h]

/-- **C13 (the id depends only on content and wiki coordinates).**  Requests whose metabooks
have the same normal form (any key order, whitespace, re-serialisation) and the same wiki
coordinates have the same id preimage ... -/
theorem c13_id_invariant (t : Tables) (r r' : Request) (hm : norm t r.metabook = norm t r'.metabook)
    (h1 : r.version = r'.version) (h2 : r.baseUrl = r'.baseUrl) (h3 : r.scriptExt = r'.scriptExt)
    (h4 : r.login = r'.login) : idPreimage t r = idPreimage t r' := by
  simp [idPreimage, hm, h1, h2, h3, h4]

/-- ... in particular re-serialising the metabook does not change it. -/
theorem c13_id_reserialise (t : Tables) (hw : TablesWF t) (r : Request) :
    idPreimage t { r with metabook := norm t r.metabook } = idPreimage t r := by
  simp [idPreimage, norm_idem t hw]

/-- **C13 (separation).**  ... and whenever the wiki URL differs, or the serialised metabooks
differ (an article, a revision, the order, a title — anything `dumps` shows), the preimages
differ; the id is their SHA-256, so ids differ up to hash collisions. -/
theorem c13_id_separates (t : Tables) (r r' : Request)
    (h : r.baseUrl ≠ r'.baseUrl ∨ r.scriptExt ≠ r'.scriptExt ∨ r.login ≠ r'.login ∨
      norm t r.metabook ≠ norm t r'.metabook) : idPreimage t r ≠ idPreimage t r' := by
  intro e
  simp only [idPreimage, Prod.mk.injEq] at e
  obtain ⟨_, e2, e3, e4, e5⟩ := e
  rcases h with h | h | h | h
  · exact h e2
  · exact h e3
  · exact h e4
  · exact h e5

/-- distinct serialised metabooks are distinct normal forms (`norm` is the identity on them). -/
theorem c13_serialised_distinct (t : Tables) (hw : TablesWF t) (j j' a a' : J)
    (hj : j = norm t a) (hj' : j' = norm t a') (hne : j ≠ j') : norm t j ≠ norm t j' := by
  rw [c13_roundtrip t hw j a hj, c13_roundtrip t hw j' a' hj']; exact hne

/-! ### the generated class tables (regenerated from /repo on this run) are well-formed -/

theorem c13_generated_tables_wf : TablesWF Gen.mbTables :=
  checkTables_sound (by decide)

theorem c13_fixpoint_mwlib (j : J) : norm Gen.mbTables (norm Gen.mbTables j) = norm Gen.mbTables j :=
  c13_fixpoint _ c13_generated_tables_wf j

end MwVerif.Metabook
