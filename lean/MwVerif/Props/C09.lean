import MwVerif.Lemmas.Uniq.RoundTrip
import MwVerif.Gen.TagNames
/-!
# C09 — opaque tags stay opaque (protect / restore)

Theorems about the model of `uniq.py`: the marker the protector writes is exactly what the
restorer recognises, markers of different regions differ, a marker contains none of the characters
the template tokenizer or the wikitext scanner treat as markup, and the record of a region keeps
its body verbatim.
-/
namespace MwVerif.Uniq

/-- every registered tag name is lower-case ASCII alphanumeric (so that the marker built from it
is matched by `replace_uniq`'s `[a-z0-9]+`), and non-empty. -/
theorem c09_tag_names_alnum :
    Gen.TagNames.names.all (fun n => !n.isEmpty && n.all isLowerAlnum) = true := by decide +kernel

/-- C09: the restorer recognises exactly the marker the protector writes — for every tag name
made of lower-case letters and digits (all registered names are: `c09_tag_names_alnum`), every
region number and every hexadecimal random string, whatever follows. -/
theorem c09_marker_recognised (rand name : Str) (n : Nat) (rest : Str)
    (hname : ∀ c ∈ name, isLowerAlnum c = true) (hn0 : name ≠ [])
    (hrand : ∀ c ∈ rand, isHex c = true) (hr0 : rand ≠ []) :
    matchMarker (marker rand name n ++ rest) = some (marker rand name n, rest) :=
  marker_recognised rand name n rest hname hn0 hrand hr0

/-- markers of different regions differ. -/
theorem c09_marker_injective (rand name : Str) (a b : Nat)
    (h : marker rand name a = marker rand name b) : a = b :=
  marker_injective_same_name rand name a b h

/-- no character of a marker is one the template tokenizer splits on or the wikitext scanner gives a
meaning to: a marker cannot be cut in two or be taken for markup. -/
def markupChars : List Char :=
  ['{', '}', '[', ']', '|', '=', '<', '>', '&', '\'', ':', '*', '#', ';', '\n', ' ', '!', '~', '_', '/', '"']

theorem c09_marker_inert (rand name : Str) (n : Nat)
    (hname : ∀ c ∈ name, isLowerAlnum c = true) (hrand : ∀ c ∈ rand, isHex c = true) :
    ∀ c ∈ marker rand name n, c ∉ markupChars := by
  intro c hc
  unfold marker at hc
  simp only [List.mem_append, List.mem_singleton] at hc
  have hcls : ∀ (p : Char → Bool), (∀ x ∈ markupChars, p x = false) → p c = true → c ∉ markupChars :=
    fun p hp hpc hmem => by have := hp c hmem; simp [hpc] at this
  rcases hc with ((((((((hc | hc) | hc) | hc) | hc) | hc) | hc) | hc) | hc)
  · subst hc; decide
  · have : c ∈ ['U', 'N', 'I', 'Q', '-'] := by simpa using hc
    simp only [List.mem_cons, List.mem_nil_iff, or_false] at this
    rcases this with h | h | h | h | h <;> subst h <;> decide
  · exact hcls isLowerAlnum (by decide) (hname c hc)
  · subst hc; decide
  · exact hcls isDigit (by decide) (natToStr_digits n c hc)
  · subst hc; decide
  · exact hcls isHex (by decide) (hrand c hc)
  · have : c ∈ ['-', 'Q', 'I', 'N', 'U'] := by simpa using hc
    simp only [List.mem_cons, List.mem_nil_iff, or_false] at this
    rcases this with h | h | h | h | h <;> subst h <;> decide
  · subst hc; decide


/-! ### the round trip -/

/-- **C09 round trip.** For every text without U+007F: protecting the opaque regions and restoring
them gives the text written back piece by piece — every kept character as it was, every comment
replaced by its newline/blank remainder, every protected region by its `complete` text (the whole
tag, or the bare body for `<nowiki>`) — for any set of alphanumeric tag names and any hexadecimal
random string.  No marker is left behind, none is confused with another. -/
theorem c09_roundtrip (cfg : Cfg) (hn : NamesOk cfg) (hf : FoldOk cfg)
    (hrand : ∀ c ∈ cfg.rand, isHex c = true) (hr0 : cfg.rand ≠ []) (s : Str) (hs : ∀ c ∈ s, c ≠ del) :
    replaceUniq (replaceTags cfg s).table (replaceTags cfg s).text = direct (segs cfg s.length s) := by
  rw [replaceTags_eq]
  unfold replaceUniq
  exact restore_pieces cfg.rand hrand hr0 (segs cfg s.length s) (segs_ok cfg hn hf s.length s hs)
    (segs cfg s.length s) [] rfl _ (Nat.le_refl _)

/-- … and the pieces stand for the whole input in order (`consumed`): outside comments and regions
nothing is touched, and a region's record keeps the raw text it stands for. -/
theorem c09_pieces_cover_input (cfg : Cfg) (s : Str) : consumed (segs cfg s.length s) = s :=
  consumed_segs cfg s.length s (Nat.le_refl _)

/-- a text without comments and registered tags is returned unchanged by the round trip: every piece
is a kept character. -/
theorem c09_identity_on_plain (cfg : Cfg) (s : Str)
    (h : ∀ seg ∈ segs cfg s.length s, ∃ c, seg = .plain c) : direct (segs cfg s.length s) = s := by
  have hc := c09_pieces_cover_input cfg s
  revert hc h
  generalize segs cfg s.length s = ss
  intro h hc
  rw [← hc]
  clear hc
  induction ss with
  | nil => rfl
  | cons seg ss ih =>
    obtain ⟨c, rfl⟩ := h seg (by simp)
    simp only [direct, consumed]
    rw [ih (fun x hx => h x (by simp [hx]))]

/-- the generated configuration satisfies the hypotheses of the round trip. -/
theorem c09_generated_names_ok (rand : Str) :
    NamesOk { names := Gen.TagNames.names, isSpace := Gen.TagNames.isSpace, fold := Gen.TagNames.fold,
              lower := Gen.TagNames.lower, rand := rand } := by
  intro n hn
  have h := List.all_eq_true.mp c09_tag_names_alnum n hn
  simp only [Bool.and_eq_true, Bool.not_eq_true', List.all_eq_true] at h
  exact ⟨h.2, by intro he; simp [he] at h⟩

theorem c09_generated_fold_ok (rand : Str) :
    FoldOk { names := Gen.TagNames.names, isSpace := Gen.TagNames.isSpace, fold := Gen.TagNames.fold,
             lower := Gen.TagNames.lower, rand := rand } := by
  intro c hc
  show Gen.TagNames.fold c = lowerAscii c
  unfold Gen.TagNames.fold lowerAscii
  split
  · rfl
  · have hall : Gen.TagNames.foldTable.all (fun p => decide (128 ≤ p.1)) = true := by decide +kernel
    cases hfind : Gen.TagNames.foldTable.find? (fun p => p.1 = c.toNat) with
    | none => rfl
    | some p =>
      have hm := List.mem_of_find?_eq_some hfind
      have h1 := List.all_eq_true.mp hall p hm
      have h2 := List.find?_some hfind
      simp only [decide_eq_true_eq] at h1 h2
      omega

end MwVerif.Uniq
