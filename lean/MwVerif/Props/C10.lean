import MwVerif.Model.ScanRules

namespace MwVerif.Scan

/-- placeholder while the theorems are written. -/
theorem c10_rules_loaded : mwRules.bol.length = 10 ∧ mwRules.notBol.length = 30 := by decide

end MwVerif.Scan
