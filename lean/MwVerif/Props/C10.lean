import MwVerif.Lemmas.Scan.Step
import MwVerif.Model.ScanRules

/-!
# C10 — tokenisation is lossless: tokens tile the input

Theorems over `Model/Scan.lean`, for **any** rule sets whose regular expressions are not
nullable (plus two structural conditions on the rules carrying the `ebad` and `breakSplit`
actions), and in particular for the transcribed rule sets of `_uscan.re` (`mwRules`).
-/
namespace MwVerif.Scan

/-- **C10 (tiling).**  After scanning, the tokens tile a prefix `[0, q)` of the source (text +
sentinels): in order, each non-empty, each starting where the previous one ends except for
gaps that consist of U+EBAD only. -/
theorem c10_tiles (rules : Rules) (hr : rulesOkB rules = true) (text : List Char) :
    ∃ q, q ≤ (text ++ List.replicate 32 (Char.ofNat 0)).length ∧
      TilesFrom (text ++ List.replicate 32 (Char.ofNat 0)) 0 (scan rules text) q := by
  unfold scan
  simp only []
  have h := scanLoop_inv (src := text ++ List.replicate 32 (Char.ofNat 0)) hr
    ((text ++ List.replicate 32 (Char.ofNat 0)).length + 1) (init_inv _)
  exact ⟨_, h.pos_le, h.tiles⟩

/-- the tiling predicate, spelled out. -/
theorem tiles_spec {src : List Char} {p q : Nat} {ts : List Tok} (h : TilesFrom src p ts q) :
    (∀ t ∈ ts, 1 ≤ t.len ∧ p ≤ t.start ∧ t.start + t.len ≤ q) ∧
    ts.Pairwise (fun a b => a.start + a.len ≤ b.start) ∧
    (∀ i, p ≤ i → i < q → (∃ t ∈ ts, t.start ≤ i ∧ i < t.start + t.len) ∨ src[i]? = some ebadChar) := by
  induction h with
  | nil h1 h2 =>
    refine ⟨by simp, by simp, ?_⟩
    intro i hi1 hi2; exact Or.inr (h2 i hi1 hi2)
  | @cons p q t ts h1 h2 h3 h4 ih =>
    obtain ⟨a, b, c⟩ := ih
    have hle := h4.le
    refine ⟨?_, ?_, ?_⟩
    · intro x hx
      rcases List.mem_cons.1 hx with rfl | hx
      · exact ⟨h3, h1, hle⟩
      · obtain ⟨x1, x2, x3⟩ := a x hx
        exact ⟨x1, by omega, x3⟩
    · refine List.pairwise_cons.2 ⟨?_, b⟩
      intro x hx; exact (a x hx).2.1
    · intro i hi1 hi2
      by_cases hlt : i < t.start
      · exact Or.inr (h2 i hi1 hlt)
      · by_cases hin : i < t.start + t.len
        · exact Or.inl ⟨t, by simp, by omega, hin⟩
        · rcases c i (by omega) hi2 with ⟨x, hx, hx2⟩ | hx
          · exact Or.inl ⟨x, by simp [hx], hx2⟩
          · exact Or.inr hx

/-- the transcribed rule sets of `_uscan.re` satisfy the conditions (decided by the kernel). -/
theorem c10_mw_rules_ok : rulesOkB mwRules = true := by decide

/-- **C10 for the wikitext scanner**: ordered, non-empty, non-overlapping tokens starting at
offset 0; every character before the stopping position that no token covers is U+EBAD. -/
theorem c10_tiles_mw (text : List Char) :
    ∃ q, q ≤ text.length + 32 ∧
      (∀ t ∈ scan mwRules text, 1 ≤ t.len ∧ t.start + t.len ≤ q) ∧
      (scan mwRules text).Pairwise (fun a b => a.start + a.len ≤ b.start) ∧
      (∀ i, i < q → (∃ t ∈ scan mwRules text, t.start ≤ i ∧ i < t.start + t.len) ∨
        (text ++ List.replicate 32 (Char.ofNat 0))[i]? = some ebadChar) := by
  obtain ⟨q, hq, ht⟩ := c10_tiles mwRules c10_mw_rules_ok text
  obtain ⟨a, b, c⟩ := tiles_spec ht
  refine ⟨q, by simpa using hq, ?_, b, ?_⟩
  · intro t ht'; exact ⟨(a t ht').1, (a t ht').2.2⟩
  · intro i hi; exact c i (Nat.zero_le _) hi

/-- text merging never extends a token over a gap: a merged text token still ends where the
next one starts (this is `found_tiles` for the merge branch, restated). -/
theorem c10_text_merge_sound {src : List Char} (s : St) (q len : Nat) (hl : 1 ≤ len)
    (ht : TilesFrom src 0 s.toks q) (he : s.lastEbad = false → ∀ e, endOf s.toks = some e → e = q) :
    TilesFrom src 0 (found s t_text q len).toks (q + len) :=
  (found_tiles s t_text q len hl ht he).1

/-! ### Non-vacuity (evaluated by the kernel on the real rule sets) -/

example : scan mwRules "a b".toList = [⟨t_text, 0, 3⟩] := by decide +kernel
example : scan mwRules [ebadChar, 'a', ebadChar, 'b', '\n', '\n', '\n', 'c'] =
    [⟨t_text, 1, 1⟩, ⟨t_text, 3, 1⟩, ⟨t_newline, 4, 1⟩, ⟨t_break, 5, 2⟩, ⟨t_text, 7, 1⟩] := by
  decide +kernel

end MwVerif.Scan
