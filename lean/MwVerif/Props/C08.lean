import MwVerif.Gen.Writers
import MwVerif.Props.C07
/-!
# C08 — rendering is total and complete (dispatch level)

The PDF writer drops a node whose class it has no `write<Class>` method for — *with all its
children*; the ODF writer skips the node and continues with its children.  Generated obligation
(regenerated on every run from the live classes and a corpus of cleaned trees): every node class
that occurs in cleaned trees of the document grammar has a method in the PDF writer, and — text
leaves and the book root aside, which the ODF writer handles outside the dispatch — in the ODF
writer.  C07's theorems (imported) say the cleaned tree still carries every word.  The writer
methods themselves, reportlab and odfpy are outside the model: the check renders generated
collections and reads the words back.
-/
namespace MwVerif.Gen.Writers

theorem c08_pdf_dispatch_total :
    rows.all (fun r => !r.2.1 || r.2.2.1) = true := by decide +kernel

theorem c08_odf_dispatch_total :
    rows.all (fun r => !r.2.1 || r.2.2.2 || r.1 = "Text" || r.1 = "Book") = true := by decide +kernel

end MwVerif.Gen.Writers
