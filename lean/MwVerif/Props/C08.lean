import MwVerif.Gen.Writers
import MwVerif.Props.C07
import MwVerif.Lemmas.Spans.Lossless
/-!
# C08 — rendering is total and complete (dispatch level)

The PDF writer drops a node whose class it has no `write<Class>` method for — *with all its
children*; the ODF writer skips the node and continues with its children.  Generated obligation
(regenerated on every run from the live classes and a corpus of cleaned trees): every node class
that occurs in cleaned trees of the document grammar has a method in the PDF writer, and — text
leaves and the book root aside, which the ODF writer handles outside the dispatch — in the ODF
writer.  C07's theorems (imported) say the cleaned tree still carries every word.  The writer
methods themselves, reportlab and odfpy are outside the model: the check renders generated
collections and reads the words back.
-/
namespace MwVerif.Gen.Writers

theorem c08_pdf_dispatch_total :
    rows.all (fun r => !r.2.1 || r.2.2.1) = true := by decide +kernel

theorem c08_odf_dispatch_total :
    rows.all (fun r => !r.2.1 || r.2.2.2 || r.1 = "Text" || r.1 = "Book") = true := by decide +kernel

end MwVerif.Gen.Writers

namespace MwVerif.Spans

/-- **C08 (span normalisation keeps every cell).**  `rltables.check_spans`, which prepares a table with
`colspan`/`rowspan` cells for layout, only adds filler cells: in every row the content cells of the result are the
content cells of the input, in order — for every table, every span value (also spans reaching beyond the table). -/
theorem c08_check_spans_lossless (rows : List (List Cell)) : (checkSpans rows).map realIds = rows.map realIds := by
  unfold checkSpans
  rw [realIds_pass3, realIds_pass2, realIds_pass1]

/-- **C08 (the grid is rectangular).**  After `check_spans` all rows have the same number of cells, which is what the
layout engine is handed. -/
theorem c08_check_spans_rectangular (rows : List (List Cell)) :
    ∀ r ∈ checkSpans rows, r.length = maxLen (pass2 (pass1 rows)) := pass3_rectangular _

/-- a 2x2 block cell over a 3-column table: fillers behind it and below it, the cells of the spanned row keep their place behind them. -/
example : checkSpans [[⟨2, 2, 1⟩, ⟨1, 1, 2⟩], [⟨1, 1, 3⟩], [⟨1, 1, 4⟩, ⟨1, 1, 5⟩, ⟨1, 1, 6⟩]]
    = [[⟨2, 2, 1⟩, ⟨1, 2, 0⟩, ⟨1, 1, 2⟩], [⟨2, 1, 0⟩, ⟨1, 1, 0⟩, ⟨1, 1, 3⟩], [⟨1, 1, 4⟩, ⟨1, 1, 5⟩, ⟨1, 1, 6⟩]] := by decide

end MwVerif.Spans
