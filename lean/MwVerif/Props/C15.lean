import MwVerif.Lemmas.Path

/-!
# C15 — opening a collection archive never writes outside its extraction directory

Property theorems over `Model/Path.lean` (the model of `nuwiki.extractall` /
`extract_member` and of `posixpath.normpath/join/dirname`).  Helper lemmas live in
`Lemmas/Path.lean`; nothing here is weakened to make a proof pass.
-/
namespace MwVerif.Path

/-- The destination as `extractall` builds it: one or two slashes, at least one ordinary
component, a trailing slash (`normpath(abspath(dst)) + '/'` for any `dst` other than the
file-system root; see `destOf_ok`). -/
def DstOk (dst : Str) : Prop :=
  ∃ k ds, (k = 1 ∨ k = 2) ∧ ds ≠ [] ∧ (∀ c ∈ ds, Clean c) ∧
    dst = List.replicate k '/' ++ joinSlash ds ++ ['/']

private theorem replicate_nil_prefix {k k' : Nat} {xs ys zs : List Str}
    (hy : ∀ y ∈ ys, y ≠ []) (hyne : ys ≠ [])
    (h : List.replicate k [] ++ xs = List.replicate k' [] ++ (ys ++ zs)) :
    ∀ z ∈ zs, z ∈ xs := by
  induction k generalizing k' with
  | zero =>
    cases k' with
    | zero =>
      simp at h; intro z hz; rw [h]; simp [hz]
    | succ n =>
      simp [List.replicate_succ] at h
      intro z hz; rw [h]; simp [hz]
  | succ m ih =>
    cases k' with
    | zero =>
      cases ys with
      | nil => exact absurd rfl hyne
      | cons y ys' =>
        simp [List.replicate_succ] at h
        exact absurd h.1 (hy y (by simp))
    | succ n =>
      simp only [List.replicate_succ, List.cons_append, List.cons.injEq, true_and] at h
      exact ih h

theorem joinSlash_mem_of_mem {cs : List Str} {c : Str} {x : Char} (hc : c ∈ cs) (hx : x ∈ c) :
    x ∈ joinSlash cs := by
  induction cs with
  | nil => simp at hc
  | cons y ys ih =>
    cases ys with
    | nil => simp at hc; subst hc; simpa [joinSlash]
    | cons z zs =>
      simp only [joinSlash, List.mem_append, List.mem_cons]
      rcases List.mem_cons.1 hc with rfl | h
      · exact Or.inl hx
      · exact Or.inr (Or.inr (ih h))

/-- **C15, containment.**  Whatever the member name, an accepted target is the destination
followed by a non-empty relative path all of whose components are ordinary names: not
empty, not `.`, not `..`, free of `/`.  So the file is created strictly inside `dst`. -/
theorem c15_contained (dst name p : Str) (hd : DstOk dst)
    (h : extractTarget dst name = .ok p) :
    ∃ rest, p = dst ++ rest ∧ rest ≠ [] ∧ ∀ c ∈ splitSlash rest, Clean c := by
  obtain ⟨k', ds, hk', hdsne, hds, hdst⟩ := hd
  unfold extractTarget at h
  split at h
  · cases h
  · simp only at h
    split at h
    · rename_i _ hpre
      injection h with h
      obtain ⟨rest, hrest⟩ := hpre
      have hhead : dst.head? = some '/' := by
        rw [hdst]; rcases hk' with e | e <;> simp [e, List.replicate]
      obtain ⟨k, cs, hk, hcs, hnorm⟩ := normpath_abs_form _ (join_head dst name hhead)
      refine ⟨rest, by rw [← h, hrest], ?_⟩
      -- components of the target
      have hsplit : splitSlash (dst ++ rest) =
          List.replicate k' [] ++ (ds ++ splitSlash rest) := by
        rw [hdst]
        simp only [List.append_assoc, List.singleton_append]
        rw [splitSlash_replicate_append, splitSlash_append_slash,
          splitSlash_joinSlash ds hdsne (fun c hc => (hds c hc).2.2.2)]
      have hcsne : cs ≠ [] := by
        intro e
        subst e
        -- the target would consist of slashes only, but dst has an ordinary character
        obtain ⟨d, hdmem⟩ := List.exists_mem_of_ne_nil ds hdsne
        obtain ⟨x, hxmem⟩ := List.exists_mem_of_ne_nil d (hds d hdmem).1
        have hxne : x ≠ '/' := fun e => (hds d hdmem).2.2.2 (e ▸ hxmem)
        have : x ∈ normpath (join dst name) := by
          rw [← hrest, hdst]
          simp only [List.mem_append]
          exact Or.inl (Or.inl (Or.inr (joinSlash_mem_of_mem hdmem hxmem)))
        rw [hnorm] at this
        simp [joinSlash] at this
        exact hxne this.2
      have hsplit2 : splitSlash (dst ++ rest) = List.replicate k [] ++ cs := by
        rw [hrest, hnorm, splitSlash_replicate_append,
          splitSlash_joinSlash cs hcsne (fun c hc => (hcs c hc).2.2.2)]
      have hsub := replicate_nil_prefix (fun y hy => (hds y hy).1)
        hdsne (hsplit2.symm.trans hsplit)
      have hall : ∀ c ∈ splitSlash rest, Clean c := fun c hc => hcs c (hsub c hc)
      refine ⟨?_, hall⟩
      intro e
      subst e
      exact (hall [] (by simp [splitSlash])).1 rfl
    · cases h

/-- the target lies below the destination: `dst` is a proper prefix (this is the check the
code performs; stated separately because it is what `c15_contained` strengthens). -/
theorem c15_prefix (dst name p : Str) (h : extractTarget dst name = .ok p) : dst <+: p := by
  unfold extractTarget at h
  split at h
  · cases h
  · simp only at h
    split at h
    · injection h with h; subst h; assumption
    · cases h

/-- **C15, rejection.**  A member is accepted only if the normalised joined path starts
with the destination; everything else — parent references climbing out, absolute names
elsewhere, siblings that share the destination's name as a prefix — is an error. -/
theorem c15_reject_iff (dst name : Str) (hsl : dst.getLast? = some '/') :
    extractTarget dst name = .error .badFilename ↔ ¬ dst <+: normpath (join dst name) := by
  unfold extractTarget
  simp only [hsl, ne_eq, not_true_eq_false, if_false]
  split <;> simp_all

/-- An absolute member name replaces the destination in `join`; it is accepted only if it
normalises to something below the destination anyway. -/
theorem c15_absolute_name (dst name : Str) (hsl : dst.getLast? = some '/')
    (ha : name.head? = some '/') (hout : ¬ dst <+: normpath name) :
    extractTarget dst name = .error .badFilename := by
  rw [c15_reject_iff dst name hsl]
  simpa [join, ha] using hout

/-- A sibling directory whose name merely starts with the destination's last component
(`/tmp/dst` vs `/tmp/dstx`) is *not* below `dst`, because `dst` ends with the separator. -/
theorem c15_sibling_rejected (dst name p : Str) (hd : DstOk dst)
    (h : extractTarget dst name = .ok p) : ∃ rest, p = dst ++ rest ∧ rest.head? ≠ some '/' := by
  obtain ⟨rest, hp, hne, hall⟩ := c15_contained dst name p hd h
  refine ⟨rest, hp, ?_⟩
  intro hh
  cases rest with
  | nil => simp at hh
  | cons c cs =>
    simp at hh; subst hh
    exact (hall [] (by simp [splitSlash])).1 rfl

/-- **C15, archive level.**  `extractall` stops at the first rejected member; every file it
has written until then is strictly inside the destination. -/
theorem c15_all_files_contained (dst : Str) (hd : DstOk dst) (names : List Str) :
    ∀ f ∈ (extractAll dst names).files,
      ∃ rest, f = dst ++ rest ∧ rest ≠ [] ∧ ∀ c ∈ splitSlash rest, Clean c := by
  induction names with
  | nil => simp [extractAll]
  | cons n ns ih =>
    unfold extractAll
    cases ht : extractTarget dst n with
    | error e => simp
    | ok t =>
      simp only
      split
      · exact ih
      · intro f hf
        rcases List.mem_cons.1 hf with rfl | hf
        · exact c15_contained dst n f hd ht
        · exact ih f hf

/-- A rejected member means the archive is reported as rejected (the Python code raises),
whatever follows it. -/
theorem c15_reject_reported (dst : Str) (pre post : List Str) (bad : Str)
    (hpre : ∀ n ∈ pre, ∃ t, extractTarget dst n = .ok t)
    (hbad : ∃ e, extractTarget dst bad = .error e) :
    (extractAll dst (pre ++ bad :: post)).rejected = true := by
  induction pre with
  | nil =>
    obtain ⟨e, he⟩ := hbad
    simp [extractAll, he]
  | cons n ns ih =>
    obtain ⟨t, ht⟩ := hpre n (by simp)
    simp only [List.cons_append, extractAll, ht]
    exact ih (fun m hm => hpre m (by simp [hm]))

/-- The destination built by `extractall` satisfies `DstOk` unless it is the root. -/
theorem destOf_ok (cwd d : Str) (hc : cwd.head? = some '/') :
    DstOk (destOf cwd d) ∨ destOf cwd d = ['/', '/'] ∨ destOf cwd d = ['/', '/', '/'] := by
  unfold destOf
  obtain ⟨k1, cs1, hk1, _, h1⟩ := normpath_abs_form _ (join_head cwd d hc)
  have hh : (normpath (join cwd d)).head? = some '/' := by
    rw [h1]; rcases hk1 with e | e <;> simp [e, List.replicate]
  obtain ⟨k, cs, hk, hcs, h2⟩ := normpath_abs_form _ hh
  rw [h2]
  by_cases hne : cs = []
  · subst hne
    rcases hk with e | e <;> simp [e, joinSlash, List.replicate]
  · exact Or.inl ⟨k, cs, hk, hne, hcs, rfl⟩

/-! ### Non-vacuity: the hypotheses are met by concrete, non-trivial inputs -/

example : DstOk "/tmp/x/dst/".toList :=
  ⟨1, ["tmp".toList, "x".toList, "dst".toList], Or.inl rfl, by simp, by
    intro c hc; simp at hc; rcases hc with rfl | rfl | rfl <;> (unfold Clean dot dotdot; decide),
    by decide⟩

example : extractTarget "/tmp/x/dst/".toList "a/./b/../c.txt".toList
    = .ok "/tmp/x/dst/a/c.txt".toList := by decide
example : extractTarget "/tmp/x/dst/".toList "a/../../dstx/evil".toList
    = .error .badFilename := by decide
example : extractTarget "/tmp/x/dst/".toList "/etc/passwd".toList
    = .error .badFilename := by decide
example : extractTarget "/tmp/x/dst/".toList "..\\a".toList
    = .ok "/tmp/x/dst/..\\a".toList := by decide
example : (extractAll "/d/".toList ["a".toList, "../x".toList, "b".toList]) =
    ⟨["/d/a".toList], ["/d".toList], true⟩ := by decide

end MwVerif.Path
