import MwVerif.Model.Title
import MwVerif.Gen.Sites
import MwVerif.Gen.CharTable

namespace MwVerif.Title

/-- placeholder while the theorems are being written (the check claims nothing yet). -/
theorem c12_model_loaded : (MwVerif.Gen.allSites.length = 12) := by decide

end MwVerif.Title
