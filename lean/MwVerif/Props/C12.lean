import MwVerif.Lemmas.Title.Main
import MwVerif.Gen.Sites
import MwVerif.Gen.CharTable
import MwVerif.Gen.SiteWF

/-!
# C12 — title normalisation is canonical and idempotent

Theorems over `Model/Title.lean`, for **every** site configuration satisfying the decidable
`SiteWF` and every implementation of the Unicode primitives satisfying `CharLaws`.
`SiteWF` is discharged below for each of the bundled sites as regenerated from /repo on this
run; `CharLaws` for Python's `str` methods is checked over all code points by the harness.
-/
namespace MwVerif.Title

/-- every result of `splitname` is `assemble` of a namespace of the site and a clean remainder. -/
theorem splitname_shape {site : Site} {ops : CharOps} (hl : CharLaws ops) {t : Str} {d : Int}
    {r : Result} (h : splitname site ops t d = some r) :
    ∃ nsr ∈ site.namespaces, ∃ S0, Clean ops S0 ∧ r = assemble site ops nsr.id nsr.name S0 := by
  unfold splitname at h
  simp only [] at h
  have hc1 := clean_stage1 hl t
  generalize collapseSpaces (stripEdges ops (replUnderscore t)) = n0 at h hc1
  have hn : Clean ops (leadingColon ops n0 d).1 := by
    unfold leadingColon
    split
    · rename_i rest
      exact clean_strip_infix hc1 ⟨[':'], [], by simp⟩
    · exact hc1
  generalize (leadingColon ops n0 d).1 = n at h hn
  generalize (leadingColon ops n0 d).2 = d2 at h
  unfold splitCore at h
  split at h
  · rename_i a b hsc
    split at h
    · cases h
    · rename_i found i P hf
      injection h with h
      obtain ⟨nsr, hm, hi, hnm⟩ := findNamespace_mem hf
      obtain ⟨hsplit, _⟩ := splitColon_some hsc
      refine ⟨nsr, hm, _, ?_, by rw [hi, hnm]; exact h.symm⟩
      cases found with
      | true =>
        simp only [if_true]
        exact clean_strip_infix hn ⟨a ++ [':'], [], by rw [hsplit]; simp⟩
      | false => simpa using hn
  · split at h
    · cases h
    · rename_i P hP
      injection h with h
      obtain ⟨nsr, hm, hi, hnm⟩ := nsName_mem hP
      exact ⟨nsr, hm, n, hn, by rw [hi, hnm]; exact h.symm⟩

/-- **C12 (shape).**  The canonical full name is the namespace's local name, a colon and the
remainder (no prefix for the nameless main namespace); the reported number is that
namespace's id; where the site capitalises, the remainder is a fixed point of
first-letter capitalisation; the remainder has no underscore, no double or edge spaces. -/
theorem c12_shape {site : Site} {ops : CharOps} (hl : CharLaws ops) {t : Str} {d : Int}
    {r : Result} (h : splitname site ops t d = some r) :
    ∃ nsr ∈ site.namespaces, r.ns = nsr.id ∧
      r.full = (if nsr.name.isEmpty then r.partialName else nsr.name ++ ':' :: r.partialName) ∧
      Clean ops r.partialName ∧
      (site.capitalize = true → upperFirst ops r.partialName = r.partialName) := by
  obtain ⟨nsr, hm, S0, hS0, hr⟩ := splitname_shape hl h
  refine ⟨nsr, hm, by rw [hr]; rfl, by rw [hr]; rfl, ?_, ?_⟩
  · rw [hr]; exact (assemble_canon hl hS0 nsr.id nsr.name).1
  · intro hc
    rw [hr]
    simp only [assemble, hc, if_true]
    exact (clean_upperFirst hl hS0).2

/-- **C12 (idempotence).**  Normalising a canonical full name returns it unchanged — with
default namespace 0, and with any default namespace when the result carries a namespace
prefix.  `hu` excludes exactly the results whose main-namespace remainder could itself be
read as `<namespace>:<rest>` (see `c12_unambiguous_of_stable` and DESIGN.md F15/F16). -/
theorem c12_idempotent {site : Site} {ops : CharOps} (hs : SiteWF site ops) (hl : CharLaws ops)
    {t : Str} {d : Int} {r : Result} (h : splitname site ops t d = some r)
    (hu : site.nsName r.ns = some [] → MainUnambiguous site ops r.partialName) :
    splitname site ops r.full 0 = some r ∧
    (site.nsName r.ns ≠ some [] → ∀ d', splitname site ops r.full d' = some r) := by
  obtain ⟨nsr, hm, S0, hS0, hr⟩ := splitname_shape hl h
  obtain ⟨hcl, hfix⟩ := assemble_canon (site := site) hl hS0 nsr.id nsr.name
  have hns : site.nsName r.ns = some nsr.name := by rw [hr]; exact hs.nsNameSelf nsr hm
  have hpart : r.partialName = (assemble site ops nsr.id nsr.name S0).partialName := by rw [hr]
  by_cases hne : nsr.name = []
  · -- main namespace: the full name is the remainder itself
    have hid : nsr.id = 0 := hs.emptyIsMain nsr hm hne
    have hfull : r.full = r.partialName := by rw [hr]; simp [assemble, hne]
    have hu' := hu (by rw [hns, hne])
    constructor
    · rw [hfull, pass2_main hs hl (by rw [hpart]; exact hcl) hu', hpart]
      have := hfix
      rw [hid, hne] at this
      rw [hid, hne, this, hr, hid, hne]
    · intro hc; exact absurd (by rw [hns, hne]) hc
  · have hfull : r.full = nsr.name ++ ':' :: r.partialName := by
      rw [hr]
      have : nsr.name.isEmpty = false := by
        cases hn : nsr.name with
        | nil => exact absurd hn hne
        | cons x xs => rfl
      simp [assemble, this]
    have key : ∀ d', splitname site ops r.full d' = some r := by
      intro d'
      rw [hfull, pass2_prefixed hs hl hm hne (by rw [hpart]; exact hcl) d', hpart, hfix, hr]
    exact ⟨key 0, fun _ => key⟩

/-- ordinary titles satisfy the side condition of `c12_idempotent`: if the text before the
first colon of a cleaned name is not a namespace, and capitalising its first letter does not
change its lower-case form (true for all but 125 exotic first letters), it is still not a
namespace after capitalisation. -/
theorem c12_unambiguous_of_stable {site : Site} {ops : CharOps} {a b : Str}
    (hnf : findNamespace site ops a 0 = some (false, 0, []))
    (hst : ops.lower (upperFirst ops a) = ops.lower a) :
    findNamespace site ops (upperFirst ops a) 0 = some (false, 0, []) := by
  rw [findNamespace_key 0 (x := upperFirst ops a) (y := a) (by rw [hst])]
  exact hnf

/-! ### spelling invariance: every spelling of a title maps to the same canonical name -/

/-- surrounding whitespace, direction marks and underscores. -/
theorem c12_spelling_edges {site : Site} {ops : CharOps} (hl : CharLaws ops) (pre post t : Str) (d : Int)
    (h1 : ∀ c ∈ pre, ops.edge c = true ∨ c = '_') (h2 : ∀ c ∈ post, ops.edge c = true ∨ c = '_') :
    splitname site ops (pre ++ t ++ post) d = splitname site ops t d :=
  splitname_eq_of_clean d (cleanName_edges hl pre post t h1 h2)

/-- underscores for spaces, anywhere. -/
theorem c12_spelling_underscore {site : Site} {ops : CharOps} (t : Str) (d : Int) :
    splitname site ops (t.map (fun c => if c = ' ' then '_' else c)) d = splitname site ops t d := by
  apply splitname_eq_of_clean
  apply cleanName_underscore
  simp only [replUnderscore, List.map_map]
  apply List.map_congr_left
  intro c _
  by_cases h1 : c = ' '
  · simp [h1]
  · by_cases h2 : c = '_' <;> simp [h1, h2]

/-- runs of spaces. -/
theorem c12_spelling_space_runs {site : Site} {ops : CharOps} (hl : CharLaws ops) (a b : Str) (d : Int) :
    splitname site ops (a ++ ' ' :: ' ' :: b) d = splitname site ops (a ++ ' ' :: b) d :=
  splitname_eq_of_clean d (cleanName_double_space hl a b)

/-- the namespace part: any spelling that has the same lower-cased, stripped form as a
local, canonical or alias name of namespace `i` — so any letter case, blanks around it — and
any blanks after the colon, give the same result (on the cleaned name). -/
theorem c12_spelling_namespace {site : Site} {ops : CharOps} {a a' b b' : Str} {d : Int} {i : Int}
    {P : Str} (ha : ':' ∉ a) (ha' : ':' ∉ a')
    (hkey : stripWs ops (ops.lower a) = stripWs ops (ops.lower a'))
    (hf : findNamespace site ops a d = some (true, i, P))
    (hb : stripEdges ops b = stripEdges ops b') :
    splitCore site ops (a ++ ':' :: b) d = splitCore site ops (a' ++ ':' :: b') d :=
  splitCore_namespace_spelling ha ha' hf (by rw [← findNamespace_key d hkey]; exact hf) hb

/-- a leading colon, when the default namespace is the main namespace. -/
theorem c12_spelling_leading_colon {ops : CharOps} {n : Str} (hn : NoEdge ops.edge n)
    (hc : ∀ rest, n ≠ ':' :: rest) : leadingColon ops (':' :: n) 0 = leadingColon ops n 0 :=
  leadingColon_main hn hc

/-! ### the bundled sites (regenerated from /repo on this run) are well-formed -/

theorem c12_bundled_sites_wf :
    SiteWF Gen.site_de Gen.genOps ∧ SiteWF Gen.site_en Gen.genOps ∧ SiteWF Gen.site_es Gen.genOps ∧
    SiteWF Gen.site_fr Gen.genOps ∧ SiteWF Gen.site_it Gen.genOps ∧ SiteWF Gen.site_ja Gen.genOps ∧
    SiteWF Gen.site_nl Gen.genOps ∧ SiteWF Gen.site_no Gen.genOps ∧ SiteWF Gen.site_pl Gen.genOps ∧
    SiteWF Gen.site_pt Gen.genOps ∧ SiteWF Gen.site_simple Gen.genOps ∧ SiteWF Gen.site_sv Gen.genOps :=
  ⟨Gen.siteWF_de, Gen.siteWF_en, Gen.siteWF_es, Gen.siteWF_fr, Gen.siteWF_it, Gen.siteWF_ja,
   Gen.siteWF_nl, Gen.siteWF_no, Gen.siteWF_pl, Gen.siteWF_pt, Gen.siteWF_simple, Gen.siteWF_sv⟩

/-! ### Non-vacuity (evaluated by the kernel on the generated English and German sites) -/

example : splitname Gen.site_en Gen.genOps
    [lrm, ' ', 't', 'A', 'l', 'k', ' ', ':', '_', 'f', 'o', 'o', ' ', ' ', 'b', 'a', 'r', '_'] 0 =
    some ⟨1, "Foo bar".toList, "Talk:Foo bar".toList⟩ := by decide +kernel

example : splitname Gen.site_en Gen.genOps "Talk:Foo bar".toList 0 =
    some ⟨1, "Foo bar".toList, "Talk:Foo bar".toList⟩ := by decide +kernel

example : splitname Gen.site_de Gen.genOps "x".toList 10 =
    some ⟨10, "X".toList, "Vorlage:X".toList⟩ := by decide +kernel

example : splitname Gen.site_en Gen.genOps "foo".toList 999 = none := by decide +kernel

end MwVerif.Title
