import MwVerif.Lemmas.Tree.Replace
import MwVerif.Model.Passes
import MwVerif.Gen.Cleaner
import MwVerif.Lemmas.Passes.FixParagraphs
import MwVerif.Lemmas.Passes.FixNesting
import MwVerif.Gen.Nesting
/-!
# C06 — every cleaning pass completes

* Generated obligations (regenerated from the sources on every run): every name in the pass list is
  a method of the cleaner, and every method name the cleaner calls on some object exists on at
  least one class or module it can be called on — the defect class of three passes that called
  node methods by removed names and crashed behind the cleaner's catch-all.
* Mechanism of the fixed-point passes: a step that dissolves or removes an existing node makes the
  tree strictly smaller, so a loop of such steps ends after at most `size` rounds.
-/
namespace MwVerif.Tree

theorem c06_passes_are_methods : Gen.Cleaner.passes.all (fun p => p.2) = true := by decide +kernel

theorem c06_called_names_exist : Gen.Cleaner.calls.all (fun c => c.2.2) = true := by decide +kernel

theorem sizeL_append (a b : List T) : sizeL (a ++ b) = sizeL a + sizeL b := by
  induction a with
  | nil => simp [sizeL]
  | cons c a ih => simp [sizeL, ih]; omega

theorem T.size_eq (t : T) : t.size = 1 + sizeL t.children := by cases t; rfl

mutual
  /-- is there a proper descendant with identity `x`? -/
  def T.hasBelow (x : Nat) : T → Bool
    | .node _ _ _ cs => hasL x cs
  def hasL (x : Nat) : List T → Bool
    | [] => false
    | c :: cs => c.id = x || c.hasBelow x || hasL x cs
end

mutual
  theorem size_replace_le (x : Nat) (f : T → List T) (h : ∀ c : T, c.id = x → sizeL (f c) < c.size) :
      ∀ t : T, (t.replace x f).size ≤ t.size ∧ (t.hasBelow x = true → (t.replace x f).size < t.size)
    | .node i k ws cs => by
      have := sizeL_replace_le x f h cs
      simp only [T.replace, T.size, T.hasBelow]
      constructor
      · omega
      · intro hb; have := this.2 hb; omega
  theorem sizeL_replace_le (x : Nat) (f : T → List T) (h : ∀ c : T, c.id = x → sizeL (f c) < c.size) :
      ∀ cs : List T, sizeL (replaceL x f cs) ≤ sizeL cs ∧ (hasL x cs = true → sizeL (replaceL x f cs) < sizeL cs)
    | [] => by simp [replaceL, sizeL, hasL]
    | c :: cs => by
      have ihc := size_replace_le x f h c
      have ihcs := sizeL_replace_le x f h cs
      simp only [replaceL, sizeL_append, sizeL, hasL, Bool.or_eq_true, decide_eq_true_eq]
      by_cases hc : c.id = x
      · have := h c hc
        simp only [hc, if_true]
        constructor
        · omega
        · intro _; omega
      · simp only [hc, if_false, sizeL, Nat.add_zero, false_or]
        constructor
        · omega
        · intro hb
          rcases hb with hb | hb
          · have := ihc.2 hb; omega
          · have := ihcs.2 hb; omega
end

/-- dissolving an existing wrapper or removing an existing node makes the tree strictly smaller:
a loop of such steps runs at most `t.size` times. -/
theorem c06_dissolve_decreases (x : Nat) (t : T) (h : t.hasBelow x = true) : (t.dissolve x).size < t.size := by
  refine (size_replace_le x T.children ?_ t).2 h
  intro c _; rw [T.size_eq]; omega

theorem c06_remove_decreases (x : Nat) (t : T) (h : t.hasBelow x = true) : (t.remove x).size < t.size := by
  refine (size_replace_le x (fun _ => []) ?_ t).2 h
  intro c _; rw [T.size_eq]; simp only [sizeL]; omega

/-! ### `remove_breaking_returns`: `while changed:` look at four places around a block node (first leaf, last leaf, next,
previous) and remove those that are line breaks.  The search itself is not modelled; whatever it is, the loop ends as
long as a non-empty result always contains a node of the tree — which `try_remove_node` needs anyway to remove anything. -/

mutual
  theorem replace_of_not_has (x : Nat) (f : T → List T) : ∀ t : T, t.hasBelow x = false → t.replace x f = t
    | .node i k ws cs, h => by
      simp only [T.hasBelow] at h
      simp only [T.replace, replaceL_of_not_has x f cs h]
  theorem replaceL_of_not_has (x : Nat) (f : T → List T) : ∀ cs : List T, hasL x cs = false → replaceL x f cs = cs
    | [], _ => rfl
    | c :: cs, h => by
      simp only [hasL, Bool.or_eq_false_iff, decide_eq_false_iff_not] at h
      obtain ⟨⟨h1, h2⟩, h3⟩ := h
      simp only [replaceL, h1, if_false, replace_of_not_has x f c h2, replaceL_of_not_has x f cs h3]
      rfl
end

theorem remove_size_le (x : Nat) (t : T) : (t.remove x).size ≤ t.size :=
  (size_replace_le x (fun _ => []) (by intro c _; rw [T.size_eq]; simp only [sizeL]; omega) t).1

/-- removing all candidates, one after the other (`try_remove_node` for each entry of `check_node`). -/
def removeAll (xs : List Nat) (t : T) : T := xs.foldl (fun t x => t.remove x) t

theorem removeAll_size_le : ∀ (xs : List Nat) (t : T), (removeAll xs t).size ≤ t.size
  | [], _ => Nat.le_refl _
  | x :: xs, t => by
    unfold removeAll
    rw [List.foldl_cons]
    exact Nat.le_trans (removeAll_size_le xs (t.remove x)) (remove_size_le x t)

/-- if one of the candidates is a node of the tree (not the root), removing them all makes the tree smaller. -/
theorem removeAll_size_lt : ∀ (xs : List Nat) (t : T), (∃ x ∈ xs, t.hasBelow x = true) → (removeAll xs t).size < t.size
  | [], _, h => by obtain ⟨x, hx, _⟩ := h; simp at hx
  | y :: xs, t, h => by
    unfold removeAll
    rw [List.foldl_cons]
    by_cases hy : t.hasBelow y = true
    · exact Nat.lt_of_le_of_lt (removeAll_size_le xs (t.remove y)) (c06_remove_decreases y t hy)
    · have hy' : t.hasBelow y = false := by simpa using hy
      have e : t.remove y = t := replace_of_not_has y _ t hy'
      rw [e]
      obtain ⟨x, hx, hb⟩ := h
      rcases List.mem_cons.mp hx with rfl | hx'
      · rw [hb] at hy'; cases hy'
      · exact removeAll_size_lt xs t ⟨x, hx', hb⟩

/-- a loop of the shape of `remove_breaking_returns`: as long as the candidate search finds something, remove it. -/
def removeLoop (cand : T → List Nat) : Nat → T → T
  | 0, t => t
  | n + 1, t => if cand t = [] then t else removeLoop cand n (removeAll (cand t) t)

/-- **C06 (`remove_breaking_returns` ends; a loop that removes what its search finds ends)**: whatever the search is, if a non-empty result always
contains a node of the tree, the search comes back empty within `size` rounds. -/
theorem removeLoop_fixed (cand : T → List Nat) (hc : ∀ t, cand t ≠ [] → ∃ x ∈ cand t, t.hasBelow x = true) :
    ∀ (n : Nat) (t : T), t.size ≤ n + 1 → cand (removeLoop cand n t) = []
  | 0, t, h => by
    simp only [removeLoop]
    by_cases he : cand t = []
    · exact he
    · exfalso
      have h1 := removeAll_size_lt (cand t) t (hc t he)
      have h2 := size_pos (removeAll (cand t) t)
      omega
  | n + 1, t, h => by
    simp only [removeLoop]
    split
    · assumption
    · rename_i he
      have h1 := removeAll_size_lt (cand t) t (hc t he)
      exact removeLoop_fixed cand hc n _ (by omega)


/-- **C06 (`fix_paragraphs` reaches its fixed point).**  The loop `while self._fix_paragraphs(node)`
ends: a round keeps the number of nodes and strictly increases the sum of all node depths, which
never exceeds the square of the number of nodes; after at most that many rounds nothing is left
to move.  For every tree. -/
theorem c06_fix_paragraphs_reaches_fixed_point (t : T) :
    (fixParagraphs (t.size * t.size) t).fixParaStep = none :=
  fixParagraphs_fixed (t.size * t.size) t (Nat.le_add_right _ _)

theorem c06_fix_paragraphs_round (t t' : T) (h : t.fixParaStep = some t') :
    t'.size = t.size ∧ t.depthSum 0 < t'.depthSum 0 := fixParaStep_measure t t' 0 h

/-- a round does happen on some tree (the premise of the round theorem is satisfiable). -/
example : (T.node 0 0 [] [.node 1 kSection [] [.node 2 0 [] []], .node 3 kPara [] []]).fixParaStep
    = some (.node 0 0 [] [.node 1 kSection [] [.node 2 0 [] [], .node 3 kPara [] []]]) := by rfl

/-- **C06 (`fix_nesting` reaches its fixed point).**  The loop `while self._fix_nesting(node)` ends, for
every tree and every class table: a round strictly decreases the number of (node, forbidden visible
ancestor) pairs among the nodes the pass looks at — the first broken node in document order loses its
`bad_parent`, nothing before it had a pair, the copies of the path nodes have none, the right-hand part
keeps its ancestors — so after at most that many rounds `_fix_nesting` finds nothing. -/
theorem c06_fix_nesting_reaches_fixed_point (c : NCfg) (t : T) :
    (fixNesting c (t.pairs c []) t).fixNestingStep c = none :=
  fixNesting_fixed c _ t (Nat.le_refl _)

theorem c06_fix_nesting_round (c : NCfg) (t t' : T) (h : t.fixNestingStep c = some t') :
    t'.pairs c [] < t.pairs c [] := fixNestingStep_pairs c t t' h

/-- generated tables: the root's class (Article) is in no forbidden list, so `bad_parent` always has a
parent to be replaced in; and the cleaner's default mode is the modelled one. -/
theorem c06_root_in_no_forbidden_list :
    Gen.Nesting.forbidden.all (fun p => p.2 != Gen.Nesting.rootKind) = true := by decide

theorem c06_default_mode_is_loose : Gen.Nesting.loose = true := by decide

/-- a round does happen: a node of kind 7 below an ancestor of kind 5 that is forbidden for it. -/
example : (T.node 0 0 [] [.node 1 5 [] [.node 2 7 [] []], .node 3 0 [] []]).fixNestingStep
      ⟨fun k a => k == 7 && a == 5, fun _ => false, fun _ => false⟩
    = some (.node 0 0 [] [.node 1 5 [] [], .node 2 7 [] [], .node 1 5 [] [], .node 3 0 [] []]) := by rfl

end MwVerif.Tree
