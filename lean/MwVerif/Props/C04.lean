import MwVerif.Lemmas.Templ.Eval
import MwVerif.Lemmas.Expr.Rpn
import MwVerif.Gen.ExprOps
import MwVerif.Lemmas.Args.Split
/-!
# C04 — template expansion computes what the template language says (evaluator part)

Theorems about the evaluator model `Model/Templ.lean` (the same model C03 ties to the compiled
code by correspondence): text without template syntax is returned unchanged; parameters are bound
by position and by name; named values are trimmed, positional ones are not; of two arguments with
the same name the last wins; an unbound parameter without default stays literal, with a default
it evaluates the default; `#if` selects on the trimmed condition and trims its result; `#ifeq`
and `#switch` compare as strings or, for decimal literals, by value; `#switch` takes the first
matching case in source order, key-less cases fall through, `#default` or the last key-less
argument is the default.
-/
namespace MwVerif.Templ

/-! ### text is returned unchanged -/

theorem c04_text_unchanged (cfg : Cfg) (s : Str) : expand cfg (.text s) = .ok s := by
  unfold expand
  rw [flatten_text]
  have : noMaybeNl [Piece.str ['\n'], Piece.str s] = true := rfl
  simp only [insertNewlines_plain _ this]
  simp [joinPieces, Piece.text]

/-- a page that is a sequence of plain strings (no brace token) expands to their concatenation. -/
theorem c04_plain_sequence_unchanged (cfg : Cfg) (ss : List Str) :
    expand cfg (.seq (ss.map Node.text)) = .ok ss.flatten := by
  unfold expand
  rw [show cfg.limit + 3 = (cfg.limit + 2) + 1 from rfl, flatten_seq_texts cfg _ 0 ss .top (by omega)]
  have h : noMaybeNl (Piece.str ['\n'] :: ss.map Piece.str) = true := by
    simpa [noMaybeNl] using noMaybeNl_strs ss
  simp only [insertNewlines_plain _ h]
  exact congrArg Except.ok (joinPieces_strs ss)

/-! ### parameters -/

/-- at top level no parameter is bound. -/
theorem lookup_top (cfg : Cfg) (f c : Nat) (n : Str) : lookup cfg f c .top n = .ok none := by
  rw [lookup]

/-- an unbound parameter without default stays literal: `{{{name}}}`. -/
theorem c04_unbound_stays_literal (cfg : Cfg) (f c : Nat) (n : Str) :
    flattenNode cfg f c (.variable (.text n) none) .top =
      .ok [.str (['{', '{', '{'] ++ strip n ++ ['}', '}', '}'])] := by
  rw [flattenNode, flatten_text]
  simp [joinPieces, Piece.text, lookup_top]

/-- an unbound parameter with a default evaluates the default. -/
theorem c04_unbound_uses_default (cfg : Cfg) (f c : Nat) (n : Str) (d : Node) :
    flattenNode cfg f c (.variable (.text n) (some d)) .top = flatten cfg f c d .top := by
  rw [flattenNode, flatten_text]
  simp [joinPieces, Piece.text, lookup_top]

/-- resolution of the argument chosen by the scan (`best`): named values are trimmed, positional
plain strings are returned as they are. -/
theorem lookupArgs_nil_positional (cfg : Cfg) (f c : Nat) (caller : Env) (pos : Nat) (n v : Str) :
    lookupArgs cfg f c [] caller pos n (some (false, .text v)) = .ok (some v) := by
  unfold lookupArgs; simp

theorem lookupArgs_nil_none (cfg : Cfg) (f c : Nat) (caller : Env) (pos : Nat) (n : Str) :
    lookupArgs cfg f c [] caller pos n none = .ok none := by
  rw [lookupArgs]

theorem equalSplit_text (v : Str) : equalSplit (.text v) = (none, .text v) := rfl

/-- positional arguments after position `pos` whose numbers all differ from `n` leave the
choice made so far unchanged. -/
theorem lookupArgs_skip_positional (cfg : Cfg) (f c : Nat) (caller : Env) (n : Str)
    (vs : List Str) (pos : Nat) (best : Option (Bool × Node))
    (h : ∀ j, j < vs.length → natToStr (pos + j) ≠ n) :
    lookupArgs cfg f c (vs.map Node.text) caller pos n best =
      lookupArgs cfg f c [] caller pos n best := by
  induction vs generalizing pos with
  | nil => rfl
  | cons v vs ih =>
    simp only [List.map_cons]
    rw [lookupArgs]
    simp only [equalSplit_text]
    have h0 : natToStr pos ≠ n := by simpa using h 0 (by simp)
    rw [if_neg h0, ih (pos + 1)]
    · cases best with
      | none => rw [lookupArgs_nil_none, lookupArgs_nil_none]
      | some b => unfold lookupArgs; rfl
    · intro j hj
      have := h (j + 1) (by simpa using hj)
      rwa [show pos + (j + 1) = pos + 1 + j by omega] at this

/-- C04 binding by position: the i-th positional argument (a plain string) is what `{{{i}}}` sees,
untrimmed. -/
theorem c04_positional_binding (cfg : Cfg) (f c : Nat) (caller : Env) (vs : List Str) (i : Nat)
    (hi : i < vs.length) :
    lookup cfg f c (.call (vs.map Node.text) caller) (natToStr (i + 1)) = .ok (some vs[i]) := by
  rw [lookup]
  suffices H : ∀ (vs : List Str) (pos i : Nat) (best : Option (Bool × Node)) (hi : i < vs.length),
      lookupArgs cfg f c (vs.map Node.text) caller pos (natToStr (pos + i)) best = .ok (some vs[i]) by
    have := H vs 1 i none hi
    rwa [show 1 + i = i + 1 by omega] at this
  intro vs
  induction vs with
  | nil => intro pos i best hi; simp at hi
  | cons v vs ih =>
    intro pos i best hi
    simp only [List.map_cons]
    rw [lookupArgs]
    simp only [equalSplit_text]
    cases i with
    | zero =>
      simp only [Nat.add_zero, if_true, List.getElem_cons_zero]
      rw [lookupArgs_skip_positional, lookupArgs_nil_positional]
      intro j _ hEq
      have := natToStr_inj hEq
      omega
    | succ i =>
      have hne : natToStr pos ≠ natToStr (pos + (i + 1)) := fun hEq => by
        have := natToStr_inj hEq; omega
      rw [if_neg hne]
      have := ih (pos + 1) i best (by simpa using hi)
      rw [show pos + 1 + i = pos + (i + 1) by omega] at this
      simpa using this


/-! ### binding by position and by name, for any mix of static arguments -/

/-- a call argument whose parts are plain strings: positional `v`, or named `k = v`. -/
inductive SArg where
  | pos (v : Str)
  | named (k v : Str)

def SArg.node : SArg → Node
  | .pos v => .text v
  | .named k v => .seq [.text k, .eq, .text v]

/-- what the template language says the arguments bind: positional arguments are numbered
1, 2, … (counting positional ones only) and keep their text; named ones have name and value
trimmed. -/
def bindingsFrom : Nat → List SArg → List (Str × Str)
  | _, [] => []
  | pos, .pos v :: r => (natToStr pos, v) :: bindingsFrom (pos + 1) r
  | pos, .named k v :: r => (strip k, strip v) :: bindingsFrom pos r

/-- the last binding of `n` wins. -/
def lastMatch (n : Str) : List (Str × Str) → Option Str
  | [] => none
  | (k, v) :: r =>
    match lastMatch n r with
    | some x => some x
    | none => if k = n then some v else none

theorem lastMatch_eq_reverse_find (n : Str) (bs : List (Str × Str)) :
    lastMatch n bs = (bs.reverse.find? (fun kv => kv.1 = n)).map (·.2) := by
  induction bs with
  | nil => rfl
  | cons kv bs ih =>
    obtain ⟨k, v⟩ := kv
    rw [lastMatch, ih, List.reverse_cons, List.find?_append]
    cases h : List.find? (fun kv => decide (kv.1 = n)) bs.reverse with
    | some x => simp
    | none => by_cases hk : k = n <;> simp [hk]

theorem equalSplit_named (k v : Str) :
    equalSplit (.seq [.text k, .eq, .text v]) = (some [.text k], .seq [.text v]) := by
  simp [equalSplit, List.span, List.span.loop]

theorem strip_single (k : Str) : strip (joinPieces (insertNewlines [Piece.str k])) = strip k := by
  rw [insertNewlines_plain _ rfl]; simp [joinPieces, Piece.text]

theorem lookupArgs_nil_named (cfg : Cfg) (f c : Nat) (caller : Env) (pos : Nat) (n v : Str)
    (hc : c ≤ cfg.limit) :
    lookupArgs cfg (f + 1) c [] caller pos n (some (true, .seq [.text v])) = .ok (some (strip v)) := by
  unfold lookupArgs
  have := flatten_seq_texts cfg f c [v] caller hc
  simp only [List.map_cons, List.map_nil] at this
  simp only [if_true, this]
  rw [strip_single]

/-- `lookupArgs` refines the binding specification (any fuel ≥ 1, counter within the limit). -/
theorem lookupArgs_static (cfg : Cfg) (f c : Nat) (caller : Env) (n : Str) (hc : c ≤ cfg.limit)
    (args : List SArg) (pos : Nat) (best : Option (Bool × Node)) (r : Option Str)
    (hbest : ∀ p, lookupArgs cfg (f + 1) c [] caller p n best = .ok r) :
    lookupArgs cfg (f + 1) c (args.map SArg.node) caller pos n best =
      .ok (match lastMatch n (bindingsFrom pos args) with
           | some v => some v
           | none => r) := by
  induction args generalizing pos best r with
  | nil => simpa [bindingsFrom, lastMatch] using hbest pos
  | cons a args ih =>
    cases a with
    | pos v =>
      simp only [List.map_cons, SArg.node]
      rw [lookupArgs]
      simp only [equalSplit_text]
      rw [ih (pos + 1) _ (if natToStr pos = n then some v else r)]
      · simp only [bindingsFrom, lastMatch]
        cases lastMatch n (bindingsFrom (pos + 1) args) with
        | some x => rfl
        | none => by_cases hp : natToStr pos = n <;> simp [hp]
      · intro p
        by_cases hp : natToStr pos = n
        · simp only [hp, if_true]; exact lookupArgs_nil_positional cfg _ c caller p n v
        · simp only [hp, if_false]; exact hbest p
    | named k v =>
      simp only [List.map_cons, SArg.node]
      rw [lookupArgs]
      simp only [equalSplit_named]
      have hk := flatten_seq_texts cfg f c [k] caller hc
      simp only [List.map_cons, List.map_nil] at hk
      simp only [hk, strip_single]
      rw [ih pos _ (if strip k = n then some (strip v) else r)]
      · simp only [bindingsFrom, lastMatch]
        cases lastMatch n (bindingsFrom pos args) with
        | some x => rfl
        | none => by_cases hp : strip k = n <;> simp [hp]
      · intro p
        by_cases hp : strip k = n
        · simp only [hp, if_true]; exact lookupArgs_nil_named cfg f c caller p n v hc
        · simp only [hp, if_false]; exact hbest p

/-- C04 binding: for a call whose arguments are static, a parameter sees the last argument bound
to its name — positional ones by their number and untrimmed, named ones trimmed — and nothing if
no argument has that name. -/
theorem c04_binding (cfg : Cfg) (f c : Nat) (caller : Env) (n : Str) (hc : c ≤ cfg.limit)
    (args : List SArg) :
    lookup cfg (f + 1) c (.call (args.map SArg.node) caller) n =
      .ok (lastMatch n (bindingsFrom 1 args)) := by
  rw [lookup, lookupArgs_static cfg f c caller n hc args 1 none none
    (fun p => lookupArgs_nil_none cfg _ c caller p n)]
  cases lastMatch n (bindingsFrom 1 args) <;> rfl


/-! ### conditionals -/

theorem strip_join_single (v : Str) : strip (joinPieces [Piece.str v]) = strip v := by
  simp [joinPieces, Piece.text]

/-- `#if`: the trimmed condition selects, the result is trimmed. -/
theorem c04_if_selects (cfg : Cfg) (f c : Nat) (env : Env) (cnd a b : Str) :
    flattenNode cfg f c (.ifNode [.text cnd, .text a, .text b]) env =
      .ok [.maybeNl, .str (strip (if (strip cnd).isEmpty then b else a)), .mark] := by
  rw [flattenNode]
  simp only [flatten_text, strip_join_single]
  by_cases h : (strip cnd).isEmpty = true
  · simp [h, flatten_text, strip_single]
  · simp [h, flatten_text, strip_single]

/-- `#if` without the selected branch yields nothing. -/
theorem c04_if_missing_branch (cfg : Cfg) (f c : Nat) (env : Env) (cnd a : Str)
    (h : (strip cnd).isEmpty = true) :
    flattenNode cfg f c (.ifNode [.text cnd, .text a]) env = .ok [.maybeNl, .str [], .mark] := by
  rw [flattenNode]
  simp [flatten_text, strip_join_single, h]

/-- `#ifeq`: compares the trimmed operands as strings or, for decimal literals, by value. -/
theorem c04_ifeq_selects (cfg : Cfg) (f c : Nat) (env : Env) (x y a b : Str) :
    flattenNode cfg f c (.ifeqNode [.text x, .text y, .text a, .text b]) env =
      .ok [.maybeNl, .str (strip (if sameValue (strip x) (strip y) then a else b)), .mark] := by
  rw [flattenNode]
  simp only [flatten_text, List.head?, strip_join_single]
  by_cases h : sameValue (strip x) (strip y) = true
  · simp [h, flatten_text, strip_single]
  · simp [h, flatten_text, strip_single]

theorem sameValue_refl (a : Str) : sameValue a a = true := by simp [sameValue]

theorem numEq_comm (a b : Str) : numEq a b = numEq b a := by
  unfold numEq
  cases parseNum a <;> cases parseNum b <;> simp [Bool.beq_comm]

theorem sameValue_comm (a b : Str) : sameValue a b = sameValue b a := by
  unfold sameValue; rw [numEq_comm, Bool.beq_comm]

/-- numeric comparison is by value: leading zeros, a sign, a trailing fraction of zeros and a
missing integer part do not matter; different values differ; words compare as strings. -/
example : sameValue "1".toList "1.0".toList = true := by decide
example : sameValue "01".toList "1".toList = true := by decide
example : sameValue "+1".toList "1.00".toList = true := by decide
example : sameValue ".5".toList "0.50".toList = true := by decide
example : sameValue "-0".toList "0".toList = true := by decide
example : sameValue "1".toList "1.1".toList = false := by decide
example : sameValue "-1".toList "1".toList = false := by decide
example : sameValue "a".toList "A".toList = false := by decide
example : sameValue "1a".toList "1".toList = false := by decide

/-! ### `#switch` -/

/-- the scan over static keys is "first matching case in source order". -/
theorem switchScan_static (cfg : Cfg) (f c : Nat) (env : Env) (val : Str) (kvs : List (Str × Node)) :
    switchScan cfg f c (kvs.map fun kv => (Node.text kv.1, kv.2)) env val =
      .ok ((kvs.find? fun kv => sameValue (strip kv.1) val).map (·.2)) := by
  induction kvs with
  | nil => rw [List.map_nil, switchScan]; rfl
  | cons kv kvs ih =>
    obtain ⟨k, v⟩ := kv
    simp only [List.map_cons]
    rw [switchScan]
    simp only [staticKey]
    by_cases h : sameValue (strip k) val = true
    · simp [h]
    · simp [h, ih]

/-- key-less cases fall through to the next keyed value; what is left pending at the end is the
implicit default. -/
example (x y v d : Str) :
    switchPairs [.text x, .seq [.text y, .eq, .text v], .text d] [] =
      ([(.text x, .seq [.text v]), (.seq [.text y], .seq [.text v])], [.text d]) := by
  simp [switchPairs, equalSplit_text, equalSplit_named]

/-- an explicit static `#default` case is the default, whatever is pending; without one the last
pending (key-less) argument is. -/
theorem switchDefault_explicit (k v : Node) (ps : List (Node × Node)) (pend : List Node)
    (h : ((staticKey k).map strip == some defaultKey) = true) :
    switchDefault ((k, v) :: ps) pend = some v := by
  simp [switchDefault, List.find?, h]

theorem switchDefault_pending (pend : List Node) : switchDefault [] pend = pend.getLast? := by
  simp [switchDefault]

/-- C04 `#switch` over static cases `k = v`: the value of the first case whose trimmed key equals
the trimmed subject (as a string or as a number), trimmed; nothing if none matches and there is
no default. -/
theorem c04_switch_first_match (cfg : Cfg) (f c : Nat) (env : Env) (subject : Str)
    (kvs : List (Str × Str)) (k v : Str)
    (hfind : kvs.find? (fun kv => sameValue (strip kv.1) (strip subject)) = some (k, v))
    (hc : c ≤ cfg.limit) :
    flattenNode cfg (f + 1) c
        (.switchNode (.text subject) (kvs.map fun kv => Node.seq [.text kv.1, .eq, .text kv.2])) env =
      .ok [.maybeNl, .str (strip v), .mark] := by
  have hpairs : ∀ (l : List (Str × Str)),
      switchPairs (l.map fun kv => Node.seq [.text kv.1, .eq, .text kv.2]) [] =
        (l.map fun kv => (Node.seq [.text kv.1], Node.seq [.text kv.2]), []) := by
    intro l
    induction l with
    | nil => rfl
    | cons kv l ih => simp only [List.map_cons, switchPairs, equalSplit_named, ih]; rfl
  have hscan : ∀ (l : List (Str × Str)) (val : Str),
      switchScan cfg (f + 1) c (l.map fun kv => (Node.seq [.text kv.1], Node.seq [.text kv.2])) env val =
        .ok ((l.find? fun kv => sameValue (strip kv.1) val).map fun kv => Node.seq [.text kv.2]) := by
    intro l val
    induction l with
    | nil => rw [List.map_nil, switchScan]; rfl
    | cons kv l ih =>
      obtain ⟨k', v'⟩ := kv
      simp only [List.map_cons]
      rw [switchScan]
      simp only [staticKey, staticParts, Option.map, List.append_nil]
      by_cases h : sameValue (strip k') val = true
      · simp [h]
      · simp only [h, ih, List.find?]; rfl
  rw [flattenNode]
  simp only [flatten_text, strip_join_single, hpairs, hscan, hfind, Option.map]
  have hv := flatten_seq_texts cfg f c [v] env hc
  simp only [List.map_cons, List.map_nil] at hv
  simp [nodeFalsy, hv, strip_single]

end MwVerif.Templ

/-! ## `#expr`: evaluation order -/
namespace MwVerif.Expr

/-- C04 `#expr`: for every expression tree whose parentheses are where the grammar needs them
(there may be more), over any operator table, the shunting-yard loop of `expr.py` outputs — i.e.
the real code evaluates — the operands and operators in the tree's post-order: precedence and
left-to-right association are respected whatever the operators compute. -/
theorem c04_rpn_correct (t : Tbl) (e : Ast) (hok : e.ok t = true) : rpn t e.toks = .ok e.postorder :=
  rpn_correct t e hok

/-- … in particular for the table of the code (regenerated from `expr.precedence`). -/
theorem c04_rpn_correct_mwlib (e : Ast) (hok : e.ok Gen.ExprOps.table = true) :
    rpn Gen.ExprOps.table e.toks = .ok e.postorder := rpn_correct _ e hok

/-- the documented operator table of MediaWiki's `#expr` (Help:Calculation / ExprParser):
(name, precedence level, prefix operator?).  `e` (scientific notation) is not part of the model. -/
def documented : List (String × Nat × Bool) := [
  ("u-", 10, true), ("u+", 10, true),
  ("abs", 9, true), ("floor", 9, true), ("ceil", 9, true), ("trunc", 9, true), ("exp", 9, true),
  ("ln", 9, true), ("sin", 9, true), ("cos", 9, true), ("tan", 9, true), ("asin", 9, true),
  ("acos", 9, true), ("atan", 9, true), ("not", 9, true),
  ("^", 8, false),
  ("*", 7, false), ("/", 7, false), ("div", 7, false), ("mod", 7, false),
  ("+", 6, false), ("-", 6, false),
  ("round", 5, false),
  ("=", 4, false), ("!=", 4, false), ("<>", 4, false), ("<", 4, false), (">", 4, false),
  ("<=", 4, false), (">=", 4, false),
  ("and", 3, false), ("or", 2, false)]

/-- the code's table knows every documented operator with the documented arity, and a binary
operator `b` arriving while `a` is on the stack pops it exactly when the documented levels say so
(`level b ≤ level a`): the code's numbers differ from MediaWiki's, the order they induce does not. -/
def tableAgrees (t : Tbl) : Bool :=
  documented.all fun a =>
    (t.prec a.1).isSome && t.unary a.1 == a.2.2 &&
      documented.all fun b =>
        b.2.2 || (decide (precOf t b.1 ≤ precOf t a.1) == decide (b.2.1 ≤ a.2.1))

theorem c04_table_is_documented : tableAgrees Gen.ExprOps.table = true := by decide +kernel

/-- and it has no operator beyond the documented ones and the scientific-notation `e`. -/
theorem c04_table_has_no_extras :
    Gen.ExprOps.ops.all (fun r => documented.any (·.1 = r.1) || r.1 = "e" || r.1 = "E") = true := by
  decide +kernel

/-- non-vacuity: `1 - 2 - 3 * 4 ^ 5 ^ 6`, `-(1 + 2) * abs 3` and a redundantly parenthesised
variant are well-parenthesised. -/
example : (Ast.bin "-" (.bin "-" (.num 1) (.num 2))
    (.bin "*" (.num 3) (.bin "^" (.bin "^" (.num 4) (.num 5)) (.num 6)))).ok Gen.ExprOps.table = true := by
  decide +kernel
example : (Ast.bin "*" (.un "-" (.paren (.bin "+" (.num 1) (.num 2)))) (.un "abs" (.num 3))).ok
    Gen.ExprOps.table = true := by decide +kernel
example : (Ast.bin "+" (.num 1) (.bin "+" (.num 2) (.num 3))).ok Gen.ExprOps.table = false := by
  decide +kernel

end MwVerif.Expr

namespace MwVerif.Args

/-- **C04 (argument splitting loses nothing).**  The arguments `_parse_args` returns, joined by `|`
(the name/value marks written as `=`), are the children it was given — for every list of children,
with or without `[[ ]]`, balanced or not. -/
theorem c04_args_join (appendArg : Bool) (children : List Ch) :
    join (parseArgs appendArg children) = children := by
  unfold parseArgs
  rw [join_go children 0 [] [] appendArg (fun h => absurd rfl h)]
  simp [joinOpen, join]

/-- **C04 (arguments are split exactly at the top-level `|`, names exactly at the top-level `=`).**
In every argument, read from link depth 0, a `|` occurs only inside `[[ … ]]`, an `=` outside
`[[ … ]]` is the name/value mark and an `=` inside stays text. -/
theorem c04_args_well_split (appendArg : Bool) (children : List Ch) :
    ∀ a ∈ parseArgs appendArg children, marksOk 0 a = true := by
  unfold parseArgs
  exact go_marks children 0 [] [] appendArg (by simp) rfl rfl

/-- `a|[[b|c]]|x=1`: three arguments, the `|` of the link stays inside the second. -/
example : parseArgs false [.other 0, .pipe, .lopen, .other 1, .pipe, .other 2, .lclose, .pipe, .other 3, .eq, .other 4]
    = [[.ch (.other 0)], [.ch .lopen, .ch (.other 1), .ch .pipe, .ch (.other 2), .ch .lclose],
       [.ch (.other 3), .eqmark, .ch (.other 4)]] := by decide

end MwVerif.Args
