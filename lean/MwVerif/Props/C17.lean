import MwVerif.Lemmas.Qs.Evolve
import MwVerif.Lemmas.Qs.Inv3
import MwVerif.Props.C16

/-!
# C17 — jobs go to eligible workers in priority/FIFO order; finished stays finished

Theorems over `Model/Qs.lean`, for every reachable state / every history (see `Props/C16`
for what `Reach` quantifies over).
-/
namespace MwVerif.Qs

/-- **eligibility and never-finished.**  Every hand-out ever made — by a `pull` that found a
queued job or through a blocked puller's mailbox — gave the worker a job of a channel it had
asked for (or it had asked for any channel), and the job was not finished at that moment. -/
theorem c17_handout_eligible_undone {s : St} (h : Reach s) :
    ∀ e ∈ s.handed, e.doneAtHandout = false ∧ (e.chans = [] ∨ e.chan ∈ e.chans) := by
  intro e he
  obtain ⟨h1, h2⟩ := h.inv2.handedOk e he
  refine ⟨h1, ?_⟩
  simp only [eligible, Bool.or_eq_true, List.isEmpty_iff, List.contains_eq_mem,
    decide_eq_true_eq] at h2
  exact h2

/-- a hand-off in flight to a blocked puller is for a channel that puller asked for. -/
theorem c17_inflight_eligible {s : St} (h : Reach s) :
    ∀ m ∈ s.mail, m.chans = [] ∨ s.chan m.job ∈ m.chans := by
  intro m hm
  have := h.inv2.mailEligible m hm
  simpa [eligible] using this

/-- **single assignment.**  A blocked puller has at most one job in its mailbox, and a
puller with a job in its mailbox is no longer registered as waiting — so a second push
cannot overwrite the first (the defect F6). -/
theorem c16_waiter_single_assignment {s : St} (h : Reach s) :
    (s.mail.map (·.w)).Nodup ∧ (s.waiters.map (·.1)).Nodup ∧
    ∀ m ∈ s.mail, m.w ∉ s.waiters.map (·.1) :=
  ⟨h.inv2.mailNodup, h.inv2.waitersNodup, h.inv2.mailNotWaiter⟩

/-- **order.**  A `pull` that returns at once returns the `(priority, serial)` minimum of the
unfinished jobs queued on the requested channels: lowest priority number, oldest first. -/
theorem c17_pull_order (s : St) (w : Wid) (chans : List Chan) (j : Serial)
    (h : (pullCore s w chans).2 = [.pulled w j]) :
    j ∈ s.queued ∧ s.done j = false ∧ eligible chans (s.chan j) = true ∧
    ∀ k ∈ s.queued, s.done k = false → eligible chans (s.chan k) = true → s.keyLt k j = false := by
  unfold pullCore at h
  simp only [] at h
  split at h
  · rename_i j' hj'
    simp only [List.cons.injEq, Out.pulled.injEq, and_true, true_and] at h
    subst h
    obtain ⟨hmem, hmin⟩ := c16_popMin_spec _ _ _ hj'
    simp only [List.mem_filter] at hmem
    have hq := preenAll_queued_mem hmem.1
    refine ⟨hq.1, hq.2, hmem.2, ?_⟩
    intro k hk hd he
    apply hmin k
    simp only [List.mem_filter, preenAll]
    exact ⟨⟨hk, by simp [hd]⟩, he⟩
  · simp at h

/-- a `pull` blocks only if no unfinished job is queued on the requested channels. -/
theorem c17_pull_blocks_only_if_empty (s : St) (w : Wid) (chans : List Chan)
    (h : (pullCore s w chans).2 = [.blocked w]) :
    ∀ k ∈ s.queued, s.done k = false → eligible chans (s.chan k) = false := by
  unfold pullCore at h
  simp only [] at h
  split at h
  · simp at h
  · rename_i hnone
    have hemp := minKey_none _ _ hnone
    intro k hk hd
    have : k ∉ (preenAll s).queued.filter (fun j => eligible chans ((preenAll s).chan j)) := by
      rw [hemp]; simp
    simp only [List.mem_filter, not_and, Bool.not_eq_true, preenAll] at this
    exact this ⟨hk, by simp [hd]⟩

/-- **a queued job never waits behind a blocked eligible puller.**  While a puller is
registered as waiting, no unfinished job is queued on a channel it asked for; hence a job
is handed directly to a blocked puller only when nothing older or more urgent was queued
for it. -/
theorem c17_waiters_starved {s : St} (h : Reach s) :
    ∀ wc ∈ s.waiters, ∀ k ∈ s.queued, s.done k = false → eligible wc.2 (s.chan k) = false :=
  h.inv2.waitersStarved

/-- **finality, one step.**  Whatever the operation (finish, kill, timeout, restart, ...),
a finished job keeps done/result/error (and id, channel, priority). -/
theorem c17_final_step (s : St) (op : Op) (j : Serial) (x : Job)
    (hx : s.jobs[j]? = some x) (hd : x.done = true) :
    ∃ x', (step s op).1.jobs[j]? = some x' ∧ x'.outcome = x.outcome :=
  (step_evolves_any s op).final j x hx hd

/-- **finality, any continuation**: the first of finish / kill / timeout wins. -/
theorem c17_final (s : St) (ops : List Op) (j : Serial) (x : Job)
    (hx : s.jobs[j]? = some x) (hd : x.done = true) :
    ∃ x', (runOps s ops).jobs[j]? = some x' ∧ x'.outcome = x.outcome := by
  induction ops generalizing s x with
  | nil => exact ⟨x, hx, rfl⟩
  | cons op ops ih =>
    obtain ⟨x', hx', ho⟩ := c17_final_step s op j x hx hd
    have hd' : x'.done = true := by
      have := congrArg (·.1) ho; simp only [Job.outcome] at this; rw [this]; exact hd
    obtain ⟨x'', hx'', ho'⟩ := ih (step s op).1 x' hx' hd'
    exact ⟨x'', hx'', ho'.trans ho⟩

/-- **idempotent add.**  Adding under an id that exists (and was not killed) returns that
id and changes nothing. -/
theorem c17_add_idempotent (s : St) (ch : Chan) (prio : Int) (n timeout payload : Nat) (j : Serial)
    (hj : dictGet s.id2job (.name n) = some j)
    (hk : (s.job? j).map (·.error) ≠ some .killed) :
    step s (.add ch prio (some n) timeout payload) = (s, [.retId (.name n)]) := by
  simp [step, hj, hk]

/-- **counters.**  In every history without a restart, per channel the outcome counters
(success + error + timeout + killed) add up to the number of finished jobs of that channel. -/
theorem c17_counters (ops : List Op) (hnr : ∀ op ∈ ops, op ≠ .restart) (ch : Chan) :
    let s := runOps init ops
    s.counts.countP (fun e => e.1 == ch) = s.jobs.countP (fun x => x.done && x.channel == ch) := by
  have : ∀ (ops : List Op) (s : St), (∀ op ∈ ops, op ≠ .restart) → CountersOk s.jc →
      CountersOk (runOps s ops).jc := by
    intro ops
    induction ops with
    | nil => intro s _ h; exact h
    | cons op ops ih =>
      intro s hn h
      exact ih (step s op).1 (fun o ho => hn o (List.mem_cons_of_mem _ ho))
        ((step_evolves s op (fun e => hn op (by simp) e)).counters h)
  exact this ops init hnr (by intro c; rfl) ch

/-- a restart resets the counters (they are not part of the saved state) and nothing else
about outcomes; afterwards they count the jobs finished since. -/
theorem c17_counters_after_restart (s : St) : (restart s).counts = [] := rfl

theorem dropWhile_all' {α : Type} (p : α → Bool) (l : List α) (h : ∀ x ∈ l, p x = true) :
    l.dropWhile p = [] := by
  induction l with
  | nil => rfl
  | cons a l ih =>
    simp only [List.dropWhile, h a (by simp)]
    exact ih (fun x hx => h x (by simp [hx]))

theorem all_of_dropWhile_nil {α : Type} (p : α → Bool) (l : List α) (h : l.dropWhile p = []) :
    ∀ x ∈ l, p x = true := by
  induction l with
  | nil => intro x hx; cases hx
  | cons a l ih =>
    cases hp : p a with
    | false => simp [List.dropWhile, hp] at h
    | true =>
      simp only [List.dropWhile, hp] at h
      intro x hx
      rcases List.mem_cons.1 hx with rfl | hx
      · exact hp
      · exact ih h x hx

/-- **wait returns at once iff every job is finished** (otherwise the caller blocks). -/
theorem c17_wait_immediate (s : St) (w : Wid) (ids : List JobId) (js : List Serial)
    (hb : s.busy w = false) (hr : resolveIds s ids = some js) :
    (step s (.wait w ids)).2 = [.waited w js] ↔ ∀ j ∈ js, s.done j = true := by
  simp only [step, hb, hr, Bool.false_eq_true, if_false]
  constructor
  · intro h
    cases hdw : js.dropWhile (fun j => s.done j) with
    | nil => exact all_of_dropWhile_nil _ _ hdw
    | cons a l => simp [hdw] at h
  · intro h
    rw [dropWhile_all' _ _ h]

/-- an unfinished job has no error recorded; equivalently a job with an error is finished
(failed, killed or timed out) — used by C19. -/
theorem c17_error_implies_done {s : St} (h : Reach s) (j : Serial) (x : Job)
    (hx : s.jobs[j]? = some x) (he : x.error ≠ .none) : x.done = true := by
  cases hd : x.done with
  | true => rfl
  | false => exact absurd (h.inv.1.errNone j x hx hd) he

/-! ### Non-vacuity -/

example :
    let s := runOps init exampleOps
    s.handed.map (fun e => (e.job, e.w, e.direct)) = [(0, 1, true), (1, 2, true), (2, 3, false), (3, 4, false)] ∧
    (∀ op ∈ exampleOps, op ≠ .restart) ∧
    s.counts = [(0, .timeout), (0, .timeout)] := by
  decide

/-- C17 (clients waiting for a job are released when it is finished — no lost wake-up): in every
reachable state a client blocked in `waitjobs` is blocked on a job that is still unfinished, or the
event notification that will wake it is already scheduled on the hub. -/
theorem c17_no_lost_wakeup {s : St} (h : Reach s) :
    ∀ jw ∈ s.jwait, ∃ j, jw.rem.head? = some j ∧ (s.done j = true → HubEv.notifyEvent j ∈ s.hubq) :=
  h.jw

end MwVerif.Qs
