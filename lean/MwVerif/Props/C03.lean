import MwVerif.Lemmas.Templ.Fuel
import MwVerif.Gen.Magics
import MwVerif.Lemmas.Braces.RoundTrip
/-!
# C03 — template expansion always terminates with a string

The evaluator model (`Model/Templ.lean`) is a total Lean function: the kernel accepted its
termination measure `(fuel, …)` for *every* template database, cyclic or not.  The theorems
below show that the fuel is not what bounds it (the recursion counter of the code is), that no
recursion error escapes the outermost call, and that the generated dispatch table of magic words
and parser functions (`Gen/Magics.lean`, regenerated from the live classes on every run) has no
entry the dispatcher would call with the wrong number of arguments.
-/
namespace MwVerif.Templ

/-- The nesting of `flatten` is bounded by the counter alone: any fuel of at least
`limit + 1 - count` gives the same result, so the model's fuel cut-off is never what stops a
computation, and the real code (which has no fuel) nests at most `limit + 1` deep. -/
theorem c03_depth_bounded_by_counter (cfg : Cfg) (f f' c : Nat) (h : f + c > cfg.limit)
    (h' : f' + c > cfg.limit) (node : Node) (env : Env) :
    flatten cfg f c node env = flatten cfg f' c node env :=
  flatten_fuel cfg f f' c h h' node env

/-- the outermost call (count 0) swallows a recursion error: it never escapes. -/
theorem flatten_top_ne_recursion (cfg : Cfg) (f : Nat) (node : Node) (env : Env) :
    flatten cfg (f + 1) 0 node env ≠ .error .recursion := by
  cases ht : isText node with
  | true => cases node <;> simp [isText] at ht; rw [flatten_text]; intro h; cases h
  | false =>
    rw [flatten_succ cfg f 0 node env ht, if_neg (by omega)]
    split
    · intro h; cases h
    · rw [if_neg (by omega)]; intro h; cases h
    · rename_i e hne _
      intro h
      injection h with h
      exact hne h

/-- C03 (model level): `TemplateRecursion` never escapes `Expander._expand`, whatever the
templates contain — self-inclusion, mutual inclusion, missing templates. -/
theorem c03_no_recursion_error_escapes (cfg : Cfg) (page : Node) :
    expand cfg page ≠ .error .recursion := by
  unfold expand
  have h := flatten_top_ne_recursion cfg (cfg.limit + 2) page .top
  split
  · rename_i e he
    intro h2
    injection h2 with h2
    exact h (h2 ▸ he)
  · split <;> (intro h2; cases h2)

/-- … so the modelled expansion is a string, or the input uses a construct the model does not
cover (a magic word / parser function other than #if, #ifeq, #switch — those are covered by the
dispatch table below and by the exhaustive name × argument-count × shape run of the check). -/
theorem c03_string_or_unmodelled (cfg : Cfg) (page : Node) :
    (∃ s, expand cfg page = .ok s) ∨ expand cfg page = .error .opaque := by
  cases h : expand cfg page with
  | ok s => exact .inl ⟨s, rfl⟩
  | error e =>
    cases e with
    | recursion => exact absurd h (c03_no_recursion_error_escapes cfg page)
    | «opaque» => exact .inr rfl

/-- the expansion does not depend on the fuel constant chosen in `expand`. -/
theorem c03_expand_fuel_free (cfg : Cfg) (page : Node) (k : Nat) :
    flatten cfg (cfg.limit + 3) 0 page .top = flatten cfg (cfg.limit + 1 + k) 0 page .top :=
  flatten_fuel cfg _ _ 0 (by omega) (by omega) page .top

/-- every name the resolver or the node registry can reach accepts the argument list the
dispatcher passes (table regenerated from the live classes; F2 was a violation of this). -/
theorem c03_dispatch_total : ∀ e ∈ Gen.Magics.table, e.accepts = true := by
  have h : Gen.Magics.table.all (fun e => e.accepts) = true := by decide +kernel
  intro e he
  exact List.all_eq_true.mp h e he

/-- the compiled evaluator has no indexing whose result is undefined under the build's compiler
directives (`wraparound=False`): cython reports none for the working tree's sources. -/
theorem c03_no_undefined_indexing : Gen.Magics.undefinedIndexing = [] := by decide

end MwVerif.Templ

namespace MwVerif.Braces

/-- **C03 (brace matching never raises and loses nothing).**  For every token list as the tokenizer
produces it (runs of `{` / `}` of length ≥ 2; any order, any nesting, any imbalance, link brackets,
noinclude sections), the brace matcher of `templ/parser.py` returns — `_consume_closing_braces`
never raises `ValueError("expected closing braces")` — and the result printed back (templates as
`{{…}}`, parameters as `{{{…}}}`, everything else as it stands) is the input without the skipped
noinclude tokens: what cannot be paired degrades to text, nothing is dropped or duplicated. -/
theorem c03_brace_matching_total_and_lossless (ts : List Tok) (h : ∀ t ∈ ts, t.ok = true) :
    ∃ r, parse ts = some r ∧ printL r = printToks ts := by
  obtain ⟨r, hr, hp⟩ := run_spec (2 * size ts + 0) [] [] ts (Nat.le_refl _) h (by simp)
  exact ⟨r, hr, by simpa [printL, printStack] using hp⟩

theorem c03_brace_matching_never_raises (ts : List Tok) (h : ∀ t ∈ ts, t.ok = true) : parse ts ≠ none := by
  obtain ⟨r, hr, _⟩ := c03_brace_matching_total_and_lossless ts h
  rw [hr]; simp

/-- the hypothesis is what makes it true: a closing run of length one (which the tokenizer never
produces) does raise. -/
example : parse [.bopen 2, .bclose 1] = none := by
  unfold parse; rw [run, run]; rfl

/-- `{{{{{a}}}` `}}`: a parameter inside a template, from five opening braces closed by 3 + 2. -/
example : (∀ t ∈ [Tok.bopen 5, .txt ['a'], .bclose 3, .bclose 2], t.ok = true) := by decide

end MwVerif.Braces
