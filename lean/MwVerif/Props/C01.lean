import MwVerif.Model.Entity
import MwVerif.Gen.EntityNames
import MwVerif.Props.C10
import MwVerif.Lemmas.StylePath
/-!
# C01 — parsing is total (first stages)

* the scanner (C10's model of `_uscan.cc`) is a total function and its tokens tile the input for
  every string: re-exported here as the first stage of the pipeline;
* entity resolution is total: for every entity lexeme the scanner can produce — arbitrarily long
  digit strings included — `resolve_entity` yields a code point that exists or keeps the text
  (the pinned code raised `OverflowError` on `&#99999999999;`).
* the apostrophe analysis (`styleanalyzer.compute_path`): for every sequence of runs of at least two
  apostrophes — which is what the scanner's `t_singlequote` rule produces — and for **every**
  tie-break of the candidate sort, the chosen path has exactly one state per run, so
  `InconsistentPathLengthException` is unreachable; at most 32 candidates survive an iteration and
  at most 192 are examined in the next: the work per run is bounded by a constant (no blow-up).
The other refinement passes are not modelled; for them the check is the no-exception /
polynomial-time oracle over the generated input space.
-/
namespace MwVerif.Entity

theorem resolveNum_in_range (hex : Bool) (ds : Str) (n : Nat) (h : resolveNum hex ds = some n) :
    n ≤ maxCodePoint := by
  unfold resolveNum chrOk at h
  cases hex <;> simp only [Bool.false_eq_true, if_false, if_true] at h
  all_goals
    split at h
    · split at h
      · injection h with h; omega
      · cases h
    · cases h

/-- a decoded code point always exists -/
theorem c01_entity_in_range (names : List (Str × Nat)) (e : Str) (n : Nat)
    (hn : ∀ kv ∈ names, kv.2 ≤ maxCodePoint) (h : resolve names e = some n) : n ≤ maxCodePoint := by
  unfold resolve at h
  split at h
  · split at h <;> exact resolveNum_in_range _ _ _ h
  · rename_i rest _
    unfold resolveName at h
    cases hf : names.find? (fun kv => kv.1 == rest.dropLast) with
    | none => rw [hf] at h; cases h
    | some kv =>
      rw [hf] at h
      simp only [Option.map_some, Option.some.injEq] at h
      have := hn kv (List.mem_of_find?_eq_some hf)
      omega
  · simp at h

/-- every name of the generated table maps to an existing code point -/
theorem c01_named_in_range : Gen.EntityNames.names.all (fun kv => kv.2 ≤ maxCodePoint) = true := by
  decide +kernel

/-- numeric references: any digit string, however long, either decodes to its value (when that is
a code point) or is kept — no third outcome, no exception. -/
theorem c01_numeric_total (ds : Str) (hne : ds ≠ []) (hd : ds.all isDigit = true) :
    resolveNum false ds = if decVal ds ≤ maxCodePoint then some (decVal ds) else none := by
  have : ds.isEmpty = false := by cases ds <;> simp_all
  simp [resolveNum, chrOk, this, hd]

theorem c01_hex_total (ds : Str) (hne : ds ≠ []) (hd : ds.all isHexDigit = true) :
    resolveNum true ds = if hexNum ds ≤ maxCodePoint then some (hexNum ds) else none := by
  have : ds.isEmpty = false := by cases ds <;> simp_all
  simp [resolveNum, chrOk, this, hd]

example : resolve Gen.EntityNames.names "&#99999999999;".toList = none := by decide +kernel
example : resolve Gen.EntityNames.names "&#65;".toList = some 65 := by decide +kernel
example : resolve Gen.EntityNames.names "&#x41;".toList = some 65 := by decide +kernel
example : resolve Gen.EntityNames.names "&amp;".toList = some 38 := by decide +kernel

end MwVerif.Entity

namespace MwVerif.Scan
/-- the scanner stage is total and covers every character of every input exactly once
(C10's theorem, restated as the first stage of C01). -/
theorem c01_scan_total_and_tiling (text : List Char) :
    ∃ q, q ≤ text.length + 32 ∧
      (∀ t ∈ scan mwRules text, 1 ≤ t.len ∧ t.start + t.len ≤ q) ∧
      (scan mwRules text).Pairwise (fun a b => a.start + a.len ≤ b.start) ∧
      (∀ i, i < q → (∃ t ∈ scan mwRules text, t.start ≤ i ∧ i < t.start + t.len) ∨
        (text ++ List.replicate 32 (Char.ofNat 0))[i]? = some ebadChar) :=
  c10_tiles_mw text
end MwVerif.Scan

namespace MwVerif.Style

/-- C01 (apostrophe analysis): whatever the tie-break, `compute_path` returns one state per run. -/
theorem c01_path_length (sel : List State → List State) (hs : SelOk sel) (counts : List Nat)
    (hc : ∀ c ∈ counts, 2 ≤ c) :
    ∃ p, computePath sel counts = some p ∧ p.length = counts.length := by
  unfold computePath
  obtain ⟨hne, hl⟩ := run_inv sel hs counts [init] 0 hc (by simp) (by intro s hs'; simp at hs'; subst hs'; rfl)
  cases hr : runStates sel [init] counts with
  | nil => exact absurd hr hne
  | cons s rest =>
    have := hl s (by rw [hr]; simp)
    simp only [Nat.zero_add] at this
    exact ⟨s.path.reverse, by simp [this], by simp [this]⟩

/-- C01 (no blow-up): the candidate set stays within 32 states after every run, so each run costs at
most 192 successor computations. -/
theorem c01_state_bound (sel : List State → List State) (hs : SelOk sel) (states : List State) (count : Nat)
    (hc : 2 ≤ count) (hb : states.length ≤ 32) :
    (stepStates sel states count).length ≤ 32 ∧ (states.flatMap fun s => getNext s count).length ≤ 192 :=
  ⟨hs.bound _, candidates_bounded states count hc hb⟩

/-- a selection like the code's (keep the first 32 of any re-ordering) satisfies the hypotheses -/
example : SelOk (fun l => l.take 32) :=
  ⟨fun l s h => List.mem_of_mem_take h, fun l h => by cases l <;> simp_all, fun l => by simp [List.length_take]; omega⟩

end MwVerif.Style
