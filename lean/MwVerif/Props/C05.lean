import MwVerif.Lemmas.Tree.Replace
import MwVerif.Lemmas.Passes.FixParagraphs
/-!
# C05 — document trees stay well-formed (primitive level)

`Model/Tree.lean` models `replace_child` (with the dissolve-a-wrapper idiom), `remove_child`,
`append_child` and `move_to` of `advtree.py`, the primitives through which the cleaning passes
re-parent nodes.  Replacing a node by (part of) its own subtree introduces no identity and
duplicates none, so "every node occurs exactly once" is preserved.  Parent links are derived in the
model; the correspondence check compares them with the real `parent` attributes after every
operation.  That the ~55 passes use the primitives within their preconditions is not a theorem:
the check validates the real tree after every pass on a large input space.
-/
namespace MwVerif.Tree

/-- C05 (primitive level): dissolving a wrapper (`parent.replace_child(n, n.children)`) keeps
every node at most once and creates none. -/
theorem c05_dissolve_nodup (x : Nat) (t : T) (h : t.ids.Nodup) : (t.dissolve x).ids.Nodup := by
  refine List.Nodup.sublist (ids_replace x T.children ?_ t) h
  intro c _
  rw [T.ids_eq]
  exact List.sublist_cons_self _ _

/-- C05 (primitive level): `remove_child` keeps every remaining node exactly once. -/
theorem c05_remove_nodup (x : Nat) (t : T) (h : t.ids.Nodup) : (t.remove x).ids.Nodup := by
  refine List.Nodup.sublist (ids_replace x (fun _ => []) ?_ t) h
  intro c _
  exact List.nil_sublist _

/-- non-vacuity -/
example : (T.node 0 0 [] [.node 1 1 [] [.node 2 2 ["a"] [], .node 3 2 ["b"] []], .node 4 2 ["c"] []]).dissolve 1
    = T.node 0 0 [] [.node 2 2 ["a"] [], .node 3 2 ["b"] [], .node 4 2 ["c"] []] := by
  simp [T.dissolve, T.replace, replaceL, T.id, T.children]

/-- **C05 (`fix_paragraphs`).**  The pass keeps the node identities, in document order: no node is
lost, listed twice or created. -/
theorem c05_fix_paragraphs_ids (n : Nat) (t : T) : (fixParagraphs n t).ids = t.ids :=
  (fixParagraphs_order n t).1

theorem c05_fix_paragraphs_nodup (n : Nat) (t : T) (h : t.ids.Nodup) : (fixParagraphs n t).ids.Nodup := by
  rw [c05_fix_paragraphs_ids]; exact h

end MwVerif.Tree
