import MwVerif.Lemmas.Tree.Replace
import MwVerif.Lemmas.Passes.FixParagraphs
import MwVerif.Lemmas.Passes.FixNestingWords
import MwVerif.Lemmas.SplitRow.Lossless
import MwVerif.Lemmas.SingleCol.Lossless
/-!
# C07 — cleaning is lossless for ordinary content (primitive level)

The two ways a pass takes a node out of the tree — dissolving a wrapper into its children, and
removing a subtree — keep every visible word exactly once and in reading order, provided the
wrapper has no text of its own / the subtree has no visible word.  Whether each pass removes only
such nodes is checked on the real cleaner by the word/ancestor oracle over the document grammar.
-/
namespace MwVerif.Tree

/-- C07 (primitive level): dissolving a wrapper that has no text of its own keeps every visible
word exactly once and in reading order. -/
theorem c07_dissolve_lossless (x : Nat) (t : T) (h : ∀ c : T, c.id = x → c.own = []) :
    (t.dissolve x).words = t.words := by
  apply words_replace
  intro c hc
  rw [T.words_eq c, h c hc, List.nil_append]

/-- C07 (primitive level): removing subtrees that carry no visible word loses nothing. -/
theorem c07_remove_textless_lossless (x : Nat) (t : T) (h : ∀ c : T, c.id = x → c.words = []) :
    (t.remove x).words = t.words := by
  apply words_replace
  intro c hc
  rw [h c hc]; rfl

/-- **C07 (`fix_paragraphs` is lossless).**  The pass keeps every word, in reading order. -/
theorem c07_fix_paragraphs_lossless (n : Nat) (t : T) : (fixParagraphs n t).words = t.words :=
  (fixParagraphs_order n t).2

/-- **C07 (`fix_nesting` is lossless).**  On trees whose inner nodes carry no text of their own (text lives
in leaves), the pass keeps every word, in reading order, for any class table and any number of rounds:
the nodes on the path are copied, the text is not. -/
theorem c07_fix_nesting_lossless (c : NCfg) (n : Nat) (t : T) (h : t.innerWordless = true) :
    (fixNesting c n t).words = t.words := (fixNesting_words c n t h).1

example : (T.node 0 0 [] [.node 1 5 [] [.node 2 7 ["w"] []]]).innerWordless = true := by rfl

end MwVerif.Tree

namespace MwVerif.SplitRow

/-- **C07 (`split_row` keeps every cell's content, in order).**  When `split_big_table_cells` cuts a
table row, reading column `c` of the new rows from top to bottom gives exactly the children of the
original cell `c`, in order, for every row, every height estimate and every page height: nothing is
lost or duplicated, and within a cell nothing is re-ordered (only the cells of the row are
interleaved, see the recorded finding). -/
theorem c07_split_row_lossless (mx : Nat) (row : List (List (Nat × Nat))) (c : Nat) (hc : c < row.length) :
    column (splitRow mx row) c = (row[c]).map (·.2) := by
  unfold splitRow
  rw [column_newRows _ c (by simpa using hc)]
  simp [chunks_flatten]

/-- a cell of three children of height 200 with page height 378 is cut in two; the short cell stays in the first row. -/
example : splitRow 378 [[(200, 1), (200, 2), (200, 3)], [(10, 9)]] = [[[1], [9]], [[2, 3], []]] := by decide

end MwVerif.SplitRow

namespace MwVerif.SingleCol

/-- **C07 (`transform_single_col_tables` keeps the table's content).**  Dissolving a one-column table keeps everything below it (the caption's content included), once and in order,
with or without the `Div` wrappers. -/
theorem c07_single_col_lossless (wrap : Bool) (table : List Child) :
    (unpack wrap table).flatMap Out.leaves = leaves table := unpack_leaves_aux wrap _

/-- the same step with wrappers: no row, no cell and no caption is left outside a table - what replaces the table is made of `Div`s and of the cells' own children. -/
theorem c07_single_col_divs (table : List Child) : ∀ o ∈ unpack true table, ∃ items, o = .div items := by
  intro o ho
  simp only [unpack, unpackCell, if_true, List.mem_flatMap, List.mem_singleton] at ho
  obtain ⟨c, _, rfl⟩ := ho
  exact ⟨c, rfl⟩

example : unpack true [.caption [1], .row [[2, 3]], .row [[4]]] = [.div [1], .div [2, 3], .div [4]] := by decide
example : unpack false [.caption [1], .row [[2, 3]], .row [[4]]] = [.item 1, .item 2, .item 3, .item 4] := by decide

/-- **C07 (`split_table_to_columns` keeps the table's content).**  Laying a table out column by column keeps exactly what was below it - the captions' content included - when no row
has more cells than the table has columns (`numcols` is their maximum). -/
theorem c07_linearize_columns_keeps_content (n : Nat) (table : List Child) (h : ∀ r ∈ rowsOf table, r.length ≤ n) (x : Nat) :
    x ∈ linearize n table ↔ x ∈ leaves table := by
  rw [mem_leaves, linearize, List.mem_append]
  apply or_congr Iff.rfl
  simp only [List.mem_flatMap, List.mem_range, mem_columnOf]
  constructor
  · rintro ⟨c, _, r, hr, hx⟩
    refine ⟨r, hr, ?_⟩
    by_cases hc : c < r.length
    · exact ⟨r[c], List.getElem_mem hc, by simpa [List.getD, List.getElem?_eq_getElem hc] using hx⟩
    · simp [List.getD, List.getElem?_eq_none (Nat.le_of_not_lt hc)] at hx
  · rintro ⟨r, hr, cell, hc, hx⟩
    obtain ⟨c, hcl, hx'⟩ := mem_getD_of_mem r cell x hc hx
    exact ⟨c, Nat.lt_of_lt_of_le hcl (h r hr), r, hr, hx'⟩

example : linearize 2 [.caption [9], .row [[1], [2]], .row [[3], [4]]] = [9, 1, 3, 2, 4] := by decide

end MwVerif.SingleCol
