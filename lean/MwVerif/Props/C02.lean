import MwVerif.Model.Sections
import MwVerif.Lemmas.Lists.Paths
import MwVerif.Lemmas.Cells.Lossless
import MwVerif.Model.Rows
import MwVerif.Lemmas.Tables.Lossless
/-!
# C02 — well-formed markup parses to the structure it denotes (section nesting)

For the nesting mechanism of `ParseSections` (model: `Sections.nest`): for **every** sequence of
headings with arbitrary levels — level jumps included — the sections in document order are the
headings as written, nothing dropped, duplicated or re-ordered (`c02_sections_in_order`), every
sub-section is strictly deeper than the section that contains it (`c02_sections_well_nested`), and
the first heading's section contains exactly the following run of strictly deeper headings
(`c02_section_extent`).

For the list nesting of `ParseLines.analyze` (model: `Lists.analyze`): for **every** block of lines
with arbitrary prefixes over `* # : ;` the analysed block contains every piece of text exactly
once, in source order, under exactly the list kinds (and hence the depth) its prefix denotes, the
description of `; term : description` under `:` next to its term (`c02_list_structure`).

The other constructs of the property (tables, styles, links,
references) are not modelled: for them the check compares the structure denoted by a generated
document with the structure the real parser builds.
-/
namespace MwVerif.Sections

variable {α : Type}

theorem flatL_nil : flatL ([] : List (Sec α)) = [] := by rw [flatL]

theorem flatL_cons (s : Sec α) (ss : List (Sec α)) : flatL (s :: ss) = s.flat ++ flatL ss := by rw [flatL]

/-- C02 (sections): nothing dropped, duplicated or re-ordered. -/
theorem c02_sections_in_order : ∀ (n : Nat) (xs : List (Nat × α)), xs.length ≤ n → flatL (nest xs) = xs := by
  intro n
  induction n with
  | zero =>
    intro xs h
    have : xs = [] := List.eq_nil_of_length_eq_zero (by omega)
    subst this; rw [nest, flatL]
  | succ n ih =>
    intro xs h
    cases xs with
    | nil => rw [nest, flatL]
    | cons x rest =>
      obtain ⟨l, a⟩ := x
      have h1 : (rest.takeWhile (deeper l)).length ≤ n := by
        have := (List.takeWhile_sublist (l := rest) (deeper l)).length_le
        simp only [List.length_cons] at h; omega
      have h2 : (rest.dropWhile (deeper l)).length ≤ n := by
        have := (List.dropWhile_sublist (l := rest) (deeper l)).length_le
        simp only [List.length_cons] at h; omega
      rw [nest, flatL_cons, Sec.flat, ih _ h1, ih _ h2]
      simp [List.takeWhile_append_dropWhile]

theorem c02_sections_in_order' (xs : List (Nat × α)) : flatL (nest xs) = xs :=
  c02_sections_in_order xs.length xs (Nat.le_refl _)

/-- the roots of `nest xs` carry levels that occur in `xs` (here: all satisfy `p` if all of `xs` do). -/
theorem nest_roots (p : Nat → Bool) : ∀ (n : Nat) (xs : List (Nat × α)), xs.length ≤ n →
    (∀ x ∈ xs, p x.1 = true) → ∀ s ∈ nest xs, p s.level = true := by
  intro n
  induction n with
  | zero =>
    intro xs h _ s hs
    have : xs = [] := List.eq_nil_of_length_eq_zero (by omega)
    subst this; rw [nest] at hs; cases hs
  | succ n ih =>
    intro xs h hp s hs
    cases xs with
    | nil => rw [nest] at hs; cases hs
    | cons x rest =>
      obtain ⟨l, a⟩ := x
      rw [nest] at hs
      simp only [List.mem_cons] at hs
      rcases hs with rfl | hs
      · exact hp (l, a) (by simp)
      · have h2 : (rest.dropWhile (deeper l)).length ≤ n := by
          have := (List.dropWhile_sublist (l := rest) (deeper l)).length_le
          simp only [List.length_cons] at h; omega
        refine ih _ h2 ?_ s hs
        intro y hy
        exact hp y (by simp [(List.dropWhile_sublist (l := rest) (deeper l)).subset hy])

theorem mem_takeWhile_sat (p : α → Bool) : ∀ (l : List α) (x : α), x ∈ l.takeWhile p → p x = true
  | [], _, h => by cases h
  | c :: cs, x, h => by
    by_cases hc : p c = true
    · rw [List.takeWhile_cons_of_pos hc] at h
      simp only [List.mem_cons] at h
      rcases h with rfl | h
      · exact hc
      · exact mem_takeWhile_sat p cs x h
    · rw [List.takeWhile_cons_of_neg hc] at h; cases h

theorem allDeeper_of (l : Nat) (ss : List (Sec α)) (h1 : ∀ s ∈ ss, l < s.level) (h2 : ∀ s ∈ ss, s.wellNested = true) :
    allDeeper l ss = true := by
  induction ss with
  | nil => rw [allDeeper]
  | cons s ss ih =>
    rw [allDeeper]
    simp only [Bool.and_eq_true, decide_eq_true_eq]
    exact ⟨⟨h1 s (by simp), h2 s (by simp)⟩, ih (fun x hx => h1 x (by simp [hx])) (fun x hx => h2 x (by simp [hx]))⟩

/-- C02 (sections): every sub-section is strictly deeper than its parent, at every depth. -/
theorem c02_sections_well_nested : ∀ (n : Nat) (xs : List (Nat × α)), xs.length ≤ n →
    ∀ s ∈ nest xs, s.wellNested = true := by
  intro n
  induction n with
  | zero =>
    intro xs h s hs
    have : xs = [] := List.eq_nil_of_length_eq_zero (by omega)
    subst this; rw [nest] at hs; cases hs
  | succ n ih =>
    intro xs h s hs
    cases xs with
    | nil => rw [nest] at hs; cases hs
    | cons x rest =>
      obtain ⟨l, a⟩ := x
      have h1 : (rest.takeWhile (deeper l)).length ≤ n := by
        have := (List.takeWhile_sublist (l := rest) (deeper l)).length_le
        simp only [List.length_cons] at h; omega
      have h2 : (rest.dropWhile (deeper l)).length ≤ n := by
        have := (List.dropWhile_sublist (l := rest) (deeper l)).length_le
        simp only [List.length_cons] at h; omega
      rw [nest] at hs
      simp only [List.mem_cons] at hs
      rcases hs with rfl | hs
      · rw [Sec.wellNested]
        apply allDeeper_of
        · intro s hs
          have := nest_roots (fun k => decide (l < k)) n _ h1 (fun y hy => by
            have := mem_takeWhile_sat _ _ _ hy
            simpa [deeper] using this) s hs
          simpa using this
        · exact ih _ h1
      · exact ih _ h2 s hs

/-- C02 (sections): the section of the first heading contains exactly the following run of strictly
deeper headings; what follows starts the next sibling. -/
theorem c02_section_extent (l : Nat) (a : α) (rest : List (Nat × α)) :
    nest ((l, a) :: rest) =
      .node l a (nest (rest.takeWhile (deeper l))) :: nest (rest.dropWhile (deeper l)) := by
  rw [nest]

end MwVerif.Sections

namespace MwVerif.Lists

/-- **C02 (lists).**  For every block of list lines — any prefixes, any order, jumps in depth,
mixed kinds — the pieces of text of the analysed block, read in tree order together with their
list ancestors, are the pieces of the lines in source order, each under the kinds of its prefix
(`expect`): nothing dropped, duplicated, re-ordered or attached at another depth or kind. -/
theorem c02_list_structure (ls : List Line) : pathsL [] (analyze ls) = ls.flatMap (expect []) :=
  (pathsUpTo (size ls)).1 ls (Nat.le_refl _) []

/-- the same below any ancestors (a block inside an item). -/
theorem c02_list_structure_under (anc : List Kind) (ls : List Line) :
    pathsL anc (analyze ls) = ls.flatMap (expect anc) :=
  (pathsUpTo (size ls)).1 ls (Nat.le_refl _) anc

/-- the pieces of one line: its text, and its description part if it has one. -/
def pieces (l : Line) : List (Nat × Bool) := if l.colon then [(l.id, false), (l.id, true)] else [(l.id, false)]

theorem expect_pieces (anc : List Kind) (l : Line) : (expect anc l).map (·.2) = pieces l := by
  unfold expect pieces
  split
  · split <;> rfl
  · rfl

/-- **C02 (lists): text exactly once and in source order.** -/
theorem c02_list_text_in_order (ls : List Line) :
    (pathsL [] (analyze ls)).map (·.2) = ls.flatMap pieces := by
  rw [c02_list_structure]
  induction ls with
  | nil => rfl
  | cons l ls ih => rw [List.flatMap_cons, List.flatMap_cons, List.map_append, ih, expect_pieces]

/-- **C02 (lists): depth.**  The text of a line sits exactly as deep as its prefix is long. -/
theorem c02_list_depth (ls : List Line) (p : Piece) (h : p ∈ pathsL [] (analyze ls)) :
    ∃ l ∈ ls, p.2.1 = l.id ∧ p.1.length = l.pre.length := by
  rw [c02_list_structure, List.mem_flatMap] at h
  obtain ⟨l, hl, hp⟩ := h
  refine ⟨l, hl, ?_⟩
  unfold expect at hp
  split at hp
  · split at hp
    · rename_i hlast
      simp only [List.nil_append, List.mem_cons, List.not_mem_nil, or_false] at hp
      rcases hp with rfl | rfl
      · exact ⟨rfl, rfl⟩
      · refine ⟨rfl, ?_⟩
        have hne : l.pre ≠ [] := by intro e; rw [e] at hlast; simp at hlast
        simp only [List.length_append, List.length_dropLast, List.length_cons, List.length_nil]
        have := List.length_pos_iff.mpr hne
        omega
    · simp only [List.nil_append, List.mem_cons, List.not_mem_nil, or_false] at hp
      rcases hp with rfl | rfl <;> exact ⟨rfl, rfl⟩
  · simp only [List.nil_append, List.mem_cons, List.not_mem_nil, or_false] at hp
    subst hp
    exact ⟨rfl, rfl⟩

-- (the three theorems have no hypotheses: they hold for every block; concrete values of `analyze` are
-- compared with the real parser through the driver, mode `lists`)

end MwVerif.Lists

/-! ### tables: rows and cells (models of `TableRowParser` and `TableCellParser`) -/

/-- **C02 (table rows).**  Grouping the tokens of a table into rows drops nothing: every token that is
not a row marker ends up exactly once, in order, in a row — its children, or the attribute segment of
a `|-` row — or stays a loose token of the table, for every token sequence. -/
theorem c02_rows_lossless (ts : List MwVerif.Rows.Tok) :
    ((MwVerif.Rows.rows ts).flatMap MwVerif.Rows.contents).filter MwVerif.Rows.inRow = ts.filter MwVerif.Rows.inRow :=
  MwVerif.Rows.rows_lossless ts.length ts (Nat.le_refl _)

/-- **C02 (table cells).**  Grouping the tokens of a row into cells drops nothing: every token that is
not a cell marker ends up exactly once, in order, in a cell — its body, or the attribute segment before
its first `|` — or stays a loose token of the row, for every token sequence and header flag. -/
theorem c02_cells_lossless (flag : Bool) (ts : List MwVerif.Cells.Tok) :
    ((MwVerif.Cells.cells flag ts).flatMap MwVerif.Cells.contents).filter MwVerif.Cells.inCell = ts.filter MwVerif.Cells.inCell :=
  MwVerif.Cells.cells_lossless ts.length flag ts (Nat.le_refl _)

/-- `! a || b` then `| c`: a header flag set by `!` holds for the `||` cell and is reset by `|`. -/
example : MwVerif.Cells.cells false [.col (some true), .other 1, .col none, .other 2, .col (some false), .other 3]
    = [.cell true [] [.other 1], .cell true [] [.other 2], .cell false [] [.other 3]] := by
  simp [MwVerif.Cells.cells, MwVerif.Cells.mkCell, MwVerif.Cells.afterCell, MwVerif.Cells.inCell, MwVerif.Cells.Tok.isStart,
    MwVerif.Cells.Tok.isEnd, MwVerif.Cells.splitAttrs]

/-- **C02 (pairing of table markers).**  `TableParser.run` pairs `{|`/`<table>` with `|}`/`</table>` like brackets (an end
marker without an open table stays, tables open at the end are closed there): every other token ends up exactly once, in
order, inside the tables the markers put around it — for every token sequence, balanced or not. -/
theorem c02_tables_lossless (ts : List MwVerif.Tables.Tok) :
    MwVerif.Tables.leavesL (MwVerif.Tables.parse ts) = MwVerif.Tables.tokLeaves ts :=
  MwVerif.Tables.parse_leaves ts

/-- `x {| y {| z |} |} |} {| w`: nesting, a stray end marker, a table closed by the end of the input. -/
example : MwVerif.Tables.parse [.other 0, .topen, .other 1, .topen, .other 2, .tclose, .tclose, .tclose, .topen, .other 3]
    = [.leaf 0, .table [.leaf 1, .table [.leaf 2]], .looseClose, .table [.leaf 3]] := by rfl
