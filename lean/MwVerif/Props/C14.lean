import MwVerif.Lemmas.Archive.Stream
import MwVerif.Lemmas.Archive.Index
import MwVerif.Lemmas.Archive.FsEscape

/-!
# C14 — what is written into a collection archive is what is read back

Theorems over `Model/Archive.lean`: the record stream (`revisions-1.txt`), the writer's
de-duplication, the index the reader builds and the lookups by revision id, by title
(newest revision, for every write order) and through `redirects.json`.
-/
namespace MwVerif.Archive
open MwVerif.Qs

/-- **C14 (stream round trip).**  For records whose meta line has no newline and whose text,
with a newline in front, does not contain the separator (i.e. the text neither contains
`"\n\x0c --page-- "` nor starts with `"\x0c --page-- "`), reading what was written gives back
exactly the records, in order: an occurrence of the separator cannot straddle a record
boundary because the separator has no border. -/
theorem c14_stream_roundtrip (rs : List (Str × Str)) (h : ∀ r ∈ rs, BodyOk r.1 r.2) :
    readStream (writeStream rs) = some rs := by
  unfold readStream splitOn
  rw [splitAux_writeStream rs [] h]
  cases rs with
  | nil => rfl
  | cons r rs' =>
    simp only [List.reverse_nil, List.drop_succ_cons, List.drop_zero]
    exact mapM_splitLine_bodies (r :: rs') (fun x hx => (h x hx).1)

/-! ### the writer's de-duplication -/

/-- no two records with the same (present) revision id. -/
def DistinctRevids (rs : List Rec) : Prop :=
  rs.Pairwise (fun a b => a.revid = none ∨ a.revid ≠ b.revid)

theorem writePages_sub : ∀ (seen : List Nat) (rs : List Rec) (r : Rec),
    r ∈ writePages seen rs → r ∈ rs ∧ ∀ v, r.revid = some v → v ∉ seen
  | _, [], r, h => by simp [writePages] at h
  | seen, x :: xs, r, h => by
    unfold writePages at h
    cases hx : x.revid with
    | none =>
      simp only [hx] at h
      rcases List.mem_cons.1 h with rfl | h
      · exact ⟨by simp, fun v hv => by rw [hx] at hv; cases hv⟩
      · obtain ⟨a, b⟩ := writePages_sub seen xs r h
        exact ⟨by simp [a], b⟩
    | some v =>
      simp only [hx] at h
      split at h
      · obtain ⟨a, b⟩ := writePages_sub seen xs r h
        exact ⟨by simp [a], b⟩
      · rename_i hns
        rcases List.mem_cons.1 h with rfl | h
        · refine ⟨by simp, fun w hw => ?_⟩
          rw [hx] at hw; injection hw with hw; subst hw
          simpa using hns
        · obtain ⟨a, b⟩ := writePages_sub (v :: seen) xs r h
          exact ⟨by simp [a], fun w hw hm => b w hw (by simp [hm])⟩

/-- **C14 (write side).**  `write_pages` writes every revision id at most once (the first
time it sees it) and never invents a record. -/
theorem c14_write_distinct : ∀ (seen : List Nat) (rs : List Rec), DistinctRevids (writePages seen rs)
  | _, [] => by simp [writePages, DistinctRevids]
  | seen, x :: xs => by
    unfold writePages
    cases hx : x.revid with
    | none =>
      simp only []
      exact List.pairwise_cons.2 ⟨fun b _ => Or.inl hx, c14_write_distinct seen xs⟩
    | some v =>
      simp only []
      split
      · exact c14_write_distinct seen xs
      · refine List.pairwise_cons.2 ⟨?_, c14_write_distinct (v :: seen) xs⟩
        intro b hb
        right
        intro e
        have := (writePages_sub (v :: seen) xs b hb).2 v (by rw [← e, hx])
        simp at this

theorem c14_write_subset (rs : List Rec) : ∀ r ∈ writePages [] rs, r ∈ rs :=
  fun r h => (writePages_sub [] rs r h).1

/-! ### lookups -/

theorem distinct_unique {rs : List Rec} (hd : DistinctRevids rs) {a b : Rec} (ha : a ∈ rs) (hb : b ∈ rs)
    {v : Nat} (hav : a.revid = some v) (hbv : b.revid = some v) : a = b := by
  induction rs with
  | nil => simp at ha
  | cons x xs ih =>
    obtain ⟨hx, hxs⟩ := List.pairwise_cons.1 hd
    rcases List.mem_cons.1 ha with rfl | ha' <;> rcases List.mem_cons.1 hb with rfl | hb'
    · rfl
    · rcases hx b hb' with h | h
      · rw [hav] at h; cases h
      · exact absurd (by rw [hav, hbv]) h
    · rcases hx a ha' with h | h
      · rw [hbv] at h; cases h
      · exact absurd (by rw [hav, hbv]) h
    · exact ih hxs ha' hb'

/-- **C14 (by revision id).**  A record written under a revision id is found under it. -/
theorem c14_lookup_by_revid {rs : List Rec} (hd : DistinctRevids rs) {r : Rec} (hr : r ∈ rs) {v : Nat}
    (hv : r.revid = some v) : lookupRevid (buildIndex rs) v = some r := by
  obtain ⟨h1, h2, _, _, _⟩ := indexFirst_spec rs
  unfold lookupRevid buildIndex
  simp only []
  have := h2 r hr v hv
  cases hg : dictGet (indexFirst rs).byRevid v with
  | none => rw [hg] at this; cases this
  | some e =>
    have hm := dictGet_some_mem hg
    obtain ⟨a, b⟩ := h1 _ hm
    have : e = r := distinct_unique hd a hr b hv
    rw [this]

/-- **C14 (by title: the newest revision, whatever the write order).**  If the title has no
revision-less page, the page found under the title is a record of that title carrying the
largest revision id stored for the title. -/
theorem c14_lookup_by_title_newest {rs : List Rec} (hd : DistinctRevids rs) (t : Nat)
    (hnr : ∀ r ∈ rs, r.title = t → r.revid ≠ none) :
    (∀ r, lookupTitle (buildIndex rs) t = some r →
      r ∈ rs ∧ r.title = t ∧ ∃ v, r.revid = some v ∧
        ∀ r' ∈ rs, r'.title = t → ∀ v', r'.revid = some v' → v' ≤ v) ∧
    ((∃ r' ∈ rs, r'.title = t) → (lookupTitle (buildIndex rs) t).isSome) := by
  obtain ⟨h1, h2, _, h4, _⟩ := indexFirst_spec rs
  have hnone : dictGet (indexFirst rs).byTitle t = none := by
    cases hg : dictGet (indexFirst rs).byTitle t with
    | none => rfl
    | some r0 =>
      obtain ⟨a, b, c⟩ := h4 _ (dictGet_some_mem hg)
      exact absurd b (hnr r0 a c)
  have hspec := fillTitles_spec (sortDesc (indexFirst rs).byRevid) (indexFirst rs).byTitle t
  rw [hnone] at hspec
  simp only [] at hspec
  have hentry : ∀ r' ∈ rs, ∀ v', r'.revid = some v' → (v', r') ∈ sortDesc (indexFirst rs).byRevid := by
    intro r' hr' v' hv'
    have := h2 r' hr' v' hv'
    cases hg : dictGet (indexFirst rs).byRevid v' with
    | none => rw [hg] at this; cases this
    | some e =>
      have hm := dictGet_some_mem hg
      obtain ⟨a, b⟩ := h1 _ hm
      have : e = r' := distinct_unique hd a hr' b hv'
      rw [this] at hm
      exact sortDesc_mem.2 hm
  constructor
  · intro r hr
    unfold lookupTitle buildIndex at hr
    simp only [] at hr
    rw [hspec] at hr
    cases hf : (sortDesc (indexFirst rs).byRevid).find? (fun e => e.2.title = t) with
    | none => rw [hf] at hr; cases hr
    | some e =>
      rw [hf] at hr
      simp only [Option.map_some, Option.some.injEq] at hr
      subst hr
      have hmem := sortDesc_mem.1 (List.mem_of_find?_eq_some hf)
      obtain ⟨a, b⟩ := h1 _ hmem
      have htitle : e.2.title = t := by simpa using List.find?_some hf
      refine ⟨a, htitle, e.1, b, ?_⟩
      intro r' hr' ht' v' hv'
      exact find_first_is_max (sortDesc_desc _) hf (v', r') (hentry r' hr' v' hv') ht'
  · rintro ⟨r', hr', ht'⟩
    cases hv : r'.revid with
    | none => exact absurd hv (hnr r' hr' ht')
    | some v' =>
      have hin := hentry r' hr' v' hv
      unfold lookupTitle buildIndex
      simp only []
      rw [hspec]
      cases hf : (sortDesc (indexFirst rs).byRevid).find? (fun e => e.2.title = t) with
      | some e => rfl
      | none =>
        have := List.find?_eq_none.1 hf (v', r') hin
        simp [ht'] at this

/-- **order independence**: two write orders of the same records give the same page under
the title. -/
theorem c14_title_lookup_perm {rs rs' : List Rec} (hp : rs.Perm rs') (hd : DistinctRevids rs)
    (hd' : DistinctRevids rs') (t : Nat) (hnr : ∀ r ∈ rs, r.title = t → r.revid ≠ none) :
    lookupTitle (buildIndex rs) t = lookupTitle (buildIndex rs') t := by
  have hnr' : ∀ r ∈ rs', r.title = t → r.revid ≠ none := fun r hr => hnr r (hp.mem_iff.2 hr)
  obtain ⟨a1, a2⟩ := c14_lookup_by_title_newest hd t hnr
  obtain ⟨b1, b2⟩ := c14_lookup_by_title_newest hd' t hnr'
  cases h1 : lookupTitle (buildIndex rs) t with
  | none =>
    cases h2 : lookupTitle (buildIndex rs') t with
    | none => rfl
    | some r' =>
      obtain ⟨m, tt, _⟩ := b1 r' h2
      have := a2 ⟨r', hp.mem_iff.2 m, tt⟩
      rw [h1] at this; cases this
  | some r =>
    obtain ⟨m, tt, v, hv, hmax⟩ := a1 r h1
    have := b2 ⟨r, hp.mem_iff.1 m, tt⟩
    cases h2 : lookupTitle (buildIndex rs') t with
    | none => rw [h2] at this; cases this
    | some r' =>
      obtain ⟨m', tt', v', hv', hmax'⟩ := b1 r' h2
      have e1 : v' ≤ v := hmax r' (hp.mem_iff.2 m') tt' v' hv'
      have e2 : v ≤ v' := hmax' r (hp.mem_iff.1 m) tt v hv
      have : v = v' := Nat.le_antisymm e2 e1
      subst this
      rw [distinct_unique hd m (hp.mem_iff.2 m') hv hv']

/-- **redirects recorded at write time resolve to their target page.** -/
theorem c14_redirect_resolves (ix : Index) (redirects : List (Nat × Nat)) (name target : Nat) (p : Rec)
    (hr : dictGet redirects name = some target) (hp : lookupTitle ix target = some p) :
    getPageByName ix redirects name = some p := by
  simp [getPageByName, hr, hp]

/-! ### file names of images: distinct canonical titles are kept apart -/

/-- a title in the canonical form the MediaWiki API returns, over the property's alphabet: no
underscore (the canonical form writes blanks), no blank-like character at either end, and every
ASCII character other than `~ / \` (those are escaped) is a blank or survives the final filter
`[^-\w.~]` (letters, digits, `-`, `.`).  Non-ASCII characters are unrestricted. -/
structure Canon (isWs isWord : Char → Bool) (s : Str) : Prop where
  noUnderscore : '_' ∉ s
  ascii : ∀ c ∈ s, c.toNat < 128 → c ≠ '~' → c = ' ' ∨ keep isWord c = true
  first : ∀ c, s.head? = some c → isWs c = false
  last : ∀ c, s.getLast? = some c → isWs c = false

theorem keep_blank {isWord : Char → Bool} (hu : isWord '_' = true) {x : Char} (h : x = ' ' ∨ keep isWord x = true) :
    keep isWord (blankToUnderscore x) = true := by
  unfold blankToUnderscore
  split
  · simp [keep, hu]
  · rename_i hne
    rcases h with h | h
    · exact absurd h hne
    · exact h

theorem fsEscape_canon {isWs isWord : Char → Bool} (hws : isWs '~' = false) (hu : isWord '_' = true)
    (hd : ∀ c : Char, c.isDigit = true → isWord c = true) {s : Str} (hs : Canon isWs isWord s) :
    fsEscape isWs isWord s = (s.flatMap enc).map blankToUnderscore := by
  rw [fsEscape_eq, stripWs_id]
  · apply filter_id
    intro y hy
    rw [List.mem_map] at hy
    obtain ⟨x, hx, rfl⟩ := hy
    rcases mem_flatMap_enc hx with ⟨hm, ha, ht⟩ | rfl | hdig
    · exact keep_blank hu (hs.ascii x hm ha ht)
    · exact keep_blank hu (Or.inr (by simp [keep]))
    · exact keep_blank hu (Or.inr (by simp [keep, hd x hdig]))
  · intro c hc
    rcases flatMap_enc_head s c hc with h | rfl
    · exact hs.first c h
    · exact hws
  · intro c hc
    rcases flatMap_enc_last s c hc with h | rfl
    · exact hs.last c h
    · exact hws

theorem underscore_not_mem_escape {s : Str} (h : '_' ∉ s) : '_' ∉ s.flatMap enc := by
  intro hm
  rcases mem_flatMap_enc hm with ⟨hm', _, _⟩ | h' | h'
  · exact h hm'
  · exact absurd h' (by decide)
  · rw [underscore_not_digit] at h'; cases h'

/-- **C14 (distinct titles are kept apart).**  `fs_escape` is injective on canonical titles: the
per-character escape (`~~`, `~<code point>~`) is a prefix code, blanks become underscores (which a
canonical title does not contain) and the strip and the final filter remove nothing.  The three
hypotheses on `isWs`/`isWord` are facts about Python's `str.isspace` and `\w` that the check
asserts on the running interpreter. -/
theorem c14_fs_escape_injective {isWs isWord : Char → Bool} (hws : isWs '~' = false) (hu : isWord '_' = true)
    (hd : ∀ c : Char, c.isDigit = true → isWord c = true) {s t : Str}
    (hs : Canon isWs isWord s) (ht : Canon isWs isWord t)
    (h : fsEscape isWs isWord s = fsEscape isWs isWord t) : s = t := by
  rw [fsEscape_canon hws hu hd hs, fsEscape_canon hws hu hd ht] at h
  exact flatMap_enc_inj
    (map_blank_inj (underscore_not_mem_escape hs.noUnderscore) (underscore_not_mem_escape ht.noUnderscore) h)

/-- the hypotheses are satisfiable by a title with a blank, a tilde and a non-ASCII letter. -/
example : Canon (fun c => c = ' ') (fun c => c.isAlphanum || c = '_') ['A', ' ', '~', 'é', '.', '1'] :=
  ⟨by decide, by decide, by decide, by decide⟩

/-- without the canonical form the claim is false: a blank and an underscore collide. -/
example : fsEscape (fun c => c = ' ') (fun c => c.isAlphanum || c = '_') ['a', ' ', 'b']
    = fsEscape (fun c => c = ' ') (fun c => c.isAlphanum || c = '_') ['a', '_', 'b'] := by decide

/-! ### Non-vacuity -/

/-- ordinary texts with `--page--`-like lines satisfy the hypothesis of the round trip. -/
example : BodyOk ['{', 'x', '}'] ['a', '\n', ' ', '-', '-', 'p', 'a', 'g'] := by
  refine ⟨by decide, ?_⟩
  intro h
  obtain ⟨p, q, hpq⟩ := h
  have hl := congrArg List.length hpq
  simp [sep] at hl
  omega

/-- revisions 5, 9, 7 of one title written in that order: the title finds revision 9. -/
example :
    let rs : List Rec := [⟨1, 0, some 5, 50⟩, ⟨1, 0, some 9, 90⟩, ⟨1, 0, some 7, 70⟩, ⟨2, 0, some 3, 30⟩]
    lookupTitle (buildIndex rs) 1 = some ⟨1, 0, some 9, 90⟩ ∧
    lookupRevid (buildIndex rs) 5 = some ⟨1, 0, some 5, 50⟩ ∧
    writePages [] (rs ++ [⟨1, 0, some 5, 51⟩]) = rs := by decide

end MwVerif.Archive
