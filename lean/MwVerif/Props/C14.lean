import MwVerif.Model.Archive

namespace MwVerif.Archive

/-- placeholder while the theorems are written. -/
theorem c14_sep_length : sep.length = 12 := by decide

end MwVerif.Archive
