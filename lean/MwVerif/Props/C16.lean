import MwVerif.Lemmas.Qs.Ops

/-!
# C16 — the job queue neither loses nor duplicates a job, under any interleaving

Theorems over `Model/Qs.lean`.  `Reach s` quantifies over *every* finite history of
operations from the empty server: any number of jobs, workers, channels; every interleaving
of add / pull / hub callbacks (one at a time or drained) / finish / kill / clock ticks /
disconnects / waits / info updates / watchdog runs / restarts; every choice among eligible
blocked workers (the `seed` op sets the choice tape).
-/
namespace MwVerif.Qs

/-- **C16 (no loss, no duplication).**  In every reachable state, every job that has been
accepted and is not finished is in exactly one place: its channel's queue, or in flight to
one blocked worker, or held by one worker. -/
theorem c16_no_loss_no_dup {s : St} (h : Reach s) (j : Serial) (hk : j < s.jobs.length)
    (hd : s.done j = false) :
    s.queued.count j + s.mailJobs.count j + s.runJobs.count j = 1 := by
  have := h.inv.2 j hk hd
  simpa [St.loc] using this

/-- a job is never in two places, finished or not, as long as it is unfinished; and an
unfinished job is never nowhere. Spelled out as the two halves of the statement. -/
theorem c16_not_lost {s : St} (h : Reach s) (j : Serial) (hk : j < s.jobs.length)
    (hd : s.done j = false) : j ∈ s.queued ∨ j ∈ s.mailJobs ∨ j ∈ s.runJobs := by
  have := c16_no_loss_no_dup h j hk hd
  by_cases h1 : j ∈ s.queued
  · exact Or.inl h1
  · by_cases h2 : j ∈ s.mailJobs
    · exact Or.inr (Or.inl h2)
    · right; right
      have e1 := List.count_eq_zero.2 h1
      have e2 := List.count_eq_zero.2 h2
      exact List.count_pos_iff.1 (by omega)

theorem c16_not_duplicated {s : St} (h : Reach s) (j : Serial) (hk : j < s.jobs.length)
    (hd : s.done j = false) :
    s.queued.count j ≤ 1 ∧ s.mailJobs.count j ≤ 1 ∧ s.runJobs.count j ≤ 1 ∧
    ¬ (j ∈ s.queued ∧ j ∈ s.runJobs) ∧ ¬ (j ∈ s.queued ∧ j ∈ s.mailJobs) ∧
    ¬ (j ∈ s.mailJobs ∧ j ∈ s.runJobs) := by
  have := c16_no_loss_no_dup h j hk hd
  refine ⟨by omega, by omega, by omega, ?_, ?_, ?_⟩
  · rintro ⟨a, b⟩
    have := List.count_pos_iff.2 a; have := List.count_pos_iff.2 b; omega
  · rintro ⟨a, b⟩
    have := List.count_pos_iff.2 a; have := List.count_pos_iff.2 b; omega
  · rintro ⟨a, b⟩
    have := List.count_pos_iff.2 a; have := List.count_pos_iff.2 b; omega

/-- every serial found in a queue, a mailbox or a worker's running set is a job the server
has accepted (no dangling reference), and an unfinished job is always reachable through its
id (so `finish`, `kill`, `info` and a restart can find it). -/
theorem c16_known {s : St} (h : Reach s) (j : Serial)
    (hm : j ∈ s.queued ∨ j ∈ s.mailJobs ∨ j ∈ s.runJobs) : j < s.jobs.length :=
  h.inv.1.locValid j hm

theorem c16_findable {s : St} (h : Reach s) (j : Serial) (hk : j < s.jobs.length)
    (hd : s.done j = false) : dictGet s.id2job (s.jid j) = some j :=
  h.inv.1.idOf j hk hd

theorem keyLt_iff (s : St) (a b : Nat) : s.keyLt a b = true ↔ (s.prio a < s.prio b ∨ (s.prio a = s.prio b ∧ a < b)) := by
  simp [St.keyLt]
theorem keyLt_asymm (s : St) (a b : Nat) (h : s.keyLt a b = true) : s.keyLt b a = false := by
  rw [keyLt_iff] at h
  have : ¬ (s.keyLt b a = true) := by rw [keyLt_iff]; omega
  simpa using this
theorem keyLt_ge_trans (s : St) (a b c : Nat) (h1 : s.keyLt a b = false) (h2 : s.keyLt b c = false) :
    s.keyLt a c = false := by
  have h1' : ¬ (s.keyLt a b = true) := by simp [h1]
  have h2' : ¬ (s.keyLt b c = true) := by simp [h2]
  rw [keyLt_iff] at h1' h2'
  have : ¬ (s.keyLt a c = true) := by rw [keyLt_iff]; omega
  simpa using this
theorem keyLt_total (s : St) (a b : Nat) : s.keyLt a b = true ∨ a = b ∨ s.keyLt b a = true := by
  rw [keyLt_iff, keyLt_iff]; omega

/-- `min(jobs)` over the heap heads: the result is a candidate and no candidate is smaller
(keys are `(priority, serial)`, lexicographic; distinct jobs have distinct keys). -/
theorem c16_popMin_spec (s : St) (l : List Nat) (j : Nat) (h : s.minKey l = some j) :
    j ∈ l ∧ ∀ k ∈ l, s.keyLt k j = false := by
  induction l generalizing j with
  | nil => simp [St.minKey] at h
  | cons a l ih =>
    unfold St.minKey at h
    cases hm : s.minKey l with
    | none =>
      simp only [hm] at h
      injection h with h; subst h
      have := minKey_none s l hm; subst this
      simp [St.keyLt]
    | some m =>
      simp only [hm] at h
      obtain ⟨hm1, hm2⟩ := ih m hm
      by_cases hlt : s.keyLt m a = true
      · simp only [hlt, if_true] at h
        injection h with h; subst h
        refine ⟨List.mem_cons_of_mem _ hm1, ?_⟩
        intro k hk
        rcases List.mem_cons.1 hk with rfl | hk
        · exact keyLt_asymm s _ _ hlt
        · exact hm2 k hk
      · have hlt' : s.keyLt m a = false := by simpa using hlt
        simp only [hlt] at h
        injection h with h; subst h
        refine ⟨by simp, ?_⟩
        intro k hk
        rcases List.mem_cons.1 hk with rfl | hk
        · simp [St.keyLt]
        · exact keyLt_ge_trans s _ _ _ (hm2 k hk) hlt'

/-! ### Non-vacuity: a concrete history with two jobs arriving while a worker is blocked, a
hand-off in flight when its receiver disconnects, and a timeout; the reached state has
unfinished jobs in a queue, in a mailbox and at a worker. -/

def exampleOps : List Op :=
  [.pull 1 [0], .pull 2 [], .add 0 0 none 50 1, .add 0 0 none 50 2, .add 1 1 (some 7) 500 3,
   .disconnect 1, .run, .pull 3 [1], .add 0 (-1) none 500 4, .tick 60, .pull 4 [0],
   .add 1 0 none 500 5, .pull 5 [0], .add 0 0 none 500 6]

example : Reach (runOps init exampleOps) := ⟨exampleOps, rfl⟩

example :
    let s := runOps init exampleOps
    s.jobs.length = 6 ∧ s.queued = [4] ∧ s.mailJobs = [5] ∧ s.runJobs = [1, 2, 3] ∧
      s.done 0 = true ∧ s.done 1 = true ∧ s.done 2 = false ∧ s.done 3 = false ∧
      s.done 4 = false ∧ s.done 5 = false := by
  decide

end MwVerif.Qs
