import MwVerif.Props.C16

/-!
# C18 — saving and restoring the queue preserves every job

`Op.restart` is `__setstate__ ∘ __getstate__` (stop the server, start it from the pickle); it
is an operation of the model like any other, so every theorem stated over `Reach` (C16, C17)
already holds for histories with restarts *at any position* and for every continuation.
The theorems below say what the restart step itself preserves.
-/
namespace MwVerif.Qs

/-- the job table, the id table and the serial counter survive a restart unchanged: finished
jobs keep result, error and info; ids are not reused (`jobs.length` is the counter). -/
theorem c18_jobs_preserved (s : St) :
    (restart s).jobs = s.jobs ∧ (restart s).id2job = s.id2job ∧ (restart s).now = s.now := ⟨rfl, rfl, rfl⟩

theorem c18_outcome_preserved (s : St) (j : Serial) :
    (restart s).job? j = s.job? j ∧ (restart s).done j = s.done j := ⟨rfl, rfl⟩

/-- after a restart no connection exists: nothing is in flight, held, awaited or pending. -/
theorem c18_no_connections (s : St) :
    (restart s).waiters = [] ∧ (restart s).mail = [] ∧ (restart s).running = [] ∧
    (restart s).jwait = [] ∧ (restart s).hubq = [] := ⟨rfl, rfl, rfl, rfl, rfl⟩

/-- **C18 (unfinished jobs are pullable again).**  After a restart at any point of any
history, every unfinished job — queued, in flight, or pulled by a worker that never finished
it — is queued exactly once. -/
theorem c18_undone_queued_once {s : St} (h : Reach s) (j : Serial) (hk : j < s.jobs.length)
    (hd : s.done j = false) : (restart s).queued.count j = 1 := by
  have hr : Reach (restart s) := by
    obtain ⟨ops, rfl⟩ := h
    exact ⟨ops ++ [.restart], by simp [runOps, step]⟩
  have := c16_no_loss_no_dup hr j hk hd
  simpa [St.mailJobs, St.runJobs, restart] using this

/-- ... and only unfinished, known jobs are queued. -/
theorem c18_queued_are_undone (s : St) (j : Serial) (h : j ∈ (restart s).queued) :
    s.done j = false ∧ j ∈ s.id2job.map (·.2) := by
  simp only [restart, List.mem_filter] at h
  exact ⟨by simpa using h.2, h.1⟩

/-- same priority/FIFO order: a pull after the restart returns the `(priority, serial)`
minimum of the unfinished jobs on the requested channels — keys are part of the saved jobs. -/
theorem c18_pull_order (s : St) (w : Wid) (chans : List Chan) (j : Serial)
    (h : (pullCore (restart s) w chans).2 = [.pulled w j]) :
    s.done j = false ∧ eligible chans (s.chan j) = true ∧
    ∀ k ∈ (restart s).queued, eligible chans (s.chan k) = true → s.keyLt k j = false := by
  unfold pullCore at h
  simp only [] at h
  split at h
  · rename_i j' hj'
    simp only [List.cons.injEq, Out.pulled.injEq, and_true, true_and] at h
    subst h
    obtain ⟨hmem, hmin⟩ := c16_popMin_spec _ _ _ hj'
    simp only [List.mem_filter] at hmem
    have hq := preenAll_queued_mem hmem.1
    refine ⟨hq.2, hmem.2, ?_⟩
    intro k hk he
    apply hmin k
    simp only [List.mem_filter]
    refine ⟨?_, he⟩
    have := c18_queued_are_undone s k hk
    simp only [preenAll, List.mem_filter]
    refine ⟨hk, ?_⟩
    show (!(restart s).done k) = true
    have e : (restart s).done k = s.done k := rfl
    rw [e, this.1]; rfl
  · simp at h

/-- still subject to their timeout: the absolute deadline is part of the saved job and the
clock tick treats restored jobs like any other. -/
theorem c18_timeouts_still_apply (s : St) (j : Serial) :
    (restart s).timeoutOf j = s.timeoutOf j := rfl

theorem dropWhile_all {α : Type} (p : α → Bool) (l : List α) (h : ∀ x ∈ l, p x = true) :
    l.dropWhile p = [] := by
  induction l with
  | nil => rfl
  | cons a l ih =>
    simp only [List.dropWhile, h a (by simp)]
    exact ih (fun x hx => h x (by simp [hx]))

/-- a client waiting on a restored finished job is released at once. -/
theorem c18_wait_released_if_done (s : St) (w : Wid) (ids : List JobId) (js : List Serial)
    (hb : (restart s).busy w = false) (hr : resolveIds (restart s) ids = some js)
    (hd : ∀ j ∈ js, s.done j = true) :
    step (restart s) (.wait w ids) = (restart s, [.waited w js]) := by
  simp only [step, hb, hr, Bool.false_eq_true, if_false]
  have : js.dropWhile (fun j => (restart s).done j) = [] :=
    dropWhile_all _ _ (fun j hj => hd j hj)
  rw [this]

/-- non-vacuity: restart in the middle of the C16 example history. -/
example :
    let s := restart (runOps init exampleOps)
    s.queued = [2, 3, 4, 5] ∧ s.mail = [] ∧ s.running = [] ∧ s.done 0 = true ∧ s.done 1 = true := by
  decide

end MwVerif.Qs
