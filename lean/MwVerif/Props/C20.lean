import MwVerif.Model.Fs

/-!
# C20 — output files appear atomically: a crash never leaves a partial file

Theorems over `Model/Fs.lean`.  The quantifier over crash points is discharged for every
recorded trace at once: if the trace of a producer satisfies the decidable discipline
`publishes`, then after *every* prefix of it (the process killed at that point) the published
path is absent or a complete file.  Injected faults are `Op.fail` markers in the trace.
-/
namespace MwVerif.Fs

theorem find_filter_ne (l : List (Path × FileState)) (p q : Path) (h : q ≠ p) :
    (l.filter (fun e => e.1 ≠ p)).find? (fun e => e.1 = q) = l.find? (fun e => e.1 = q) := by
  induction l with
  | nil => rfl
  | cons e l ih =>
    by_cases he : e.1 = p
    · have hq : ¬ e.1 = q := by rw [he]; exact fun x => h x.symm
      have h1 : (e :: l).filter (fun e => decide (e.1 ≠ p)) = l.filter (fun e => decide (e.1 ≠ p)) := by
        rw [List.filter_cons]; simp [he]
      rw [h1, ih, List.find?_cons]; simp [hq]
    · have h1 : (e :: l).filter (fun e => decide (e.1 ≠ p)) = e :: l.filter (fun e => decide (e.1 ≠ p)) := by
        rw [List.filter_cons]; simp [he]
      rw [h1, List.find?_cons, List.find?_cons, ih]

theorem find_filter_same (l : List (Path × FileState)) (q : Path) :
    (l.filter (fun e => e.1 ≠ q)).find? (fun e => e.1 = q) = none := by
  rw [List.find?_eq_none]
  intro e he
  have := (List.mem_filter.1 he).2
  simpa using this

theorem get_set (fs : Fs) (p q : Path) (v : Option FileState) :
    (fs.set p v).get q = if q = p then v else fs.get q := by
  unfold Fs.set Fs.get
  by_cases h : q = p
  · subst h
    cases v with
    | none => simp only [if_true]; rw [find_filter_same]; rfl
    | some x => simp only [if_true, List.find?_cons]; simp
  · simp only [h, if_false]
    cases v with
    | none => simp only []; rw [find_filter_ne _ _ _ h]
    | some x =>
      have hpq : ¬ p = q := fun x => h x.symm
      simp only [List.find?_cons]
      have : decide ((p, x).1 = q) = false := by simpa using hpq
      rw [this]
      simp only []
      rw [find_filter_ne _ _ _ h]

theorem get_faulted (fs : Fs) (b : Bool) (p : Path) : Fs.get { fs with faulted := b } p = fs.get p := rfl
theorem get_version (fs : Fs) (n : Nat) (p : Path) : Fs.get { fs with nextVersion := n } p = fs.get p := rfl

/-- one operation that respects the discipline keeps the published path absent-or-complete. -/
theorem step_ok (final : Path) (fs : Fs) (op : Op) (h : okAt fs final)
    (hc : publishesFrom final fs [op] = true) : okAt (stepOp fs op) final := by
  simp only [publishesFrom, Bool.and_true] at hc
  cases op with
  | creat p =>
    have hp : ¬ final = p := by intro e; subst e; simp at hc
    simp only [stepOp, okAt, get_faulted, get_set, hp, if_false]; exact h
  | write p =>
    have hp : ¬ final = p := by intro e; subst e; simp at hc
    simp only [stepOp, okAt, get_set, hp, if_false]; exact h
  | close p =>
    simp only [stepOp, closeOp]
    cases hg : fs.get p with
    | none => exact h
    | some st =>
      cases st with
      | complete v => exact h
      | partialFile =>
        simp only []
        by_cases hf : fs.faulted = true
        · simp only [hf, if_true]; exact h
        · have hf' : fs.faulted = false := by simpa using hf
          simp only [hf', Bool.false_eq_true, if_false]
          have hget : ∀ q, Fs.get { (fs.set p (some (.complete fs.nextVersion))) with
              nextVersion := fs.nextVersion + 1 } q = (fs.set p (some (.complete fs.nextVersion))).get q :=
            fun _ => rfl
          simp only [okAt, hget, get_set]
          by_cases hp : final = p
          · simp only [hp, if_true]; exact Or.inr ⟨_, rfl⟩
          · simp only [hp, if_false]; exact h
  | rename a b =>
    simp only [stepOp, renameOp]
    cases hg : fs.get a with
    | none => exact h
    | some x =>
      simp only [okAt, get_set]
      by_cases hb : b = final
      · subst hb
        simp only [if_true] at hc ⊢
        rw [hg] at hc
        cases x with
        | partialFile => simp at hc
        | complete v => exact Or.inr ⟨v, rfl⟩
      · have hb' : ¬ final = b := fun e => hb e.symm
        simp only [hb, if_false, bne_iff_ne] at hc
        have ha : ¬ final = a := fun e => hc e.symm
        simp only [hb', ha, if_false]; exact h
  | unlink p =>
    simp only [stepOp, okAt, get_set]
    by_cases hp : final = p
    · simp [hp]
    · simp only [hp, if_false]; exact h
  | fail => exact h

theorem publishesFrom_cons (final : Path) (fs : Fs) (op : Op) (rest : List Op)
    (h : publishesFrom final fs (op :: rest) = true) :
    publishesFrom final fs [op] = true ∧ publishesFrom final (stepOp fs op) rest = true := by
  simp only [publishesFrom, Bool.and_eq_true, Bool.and_true] at h ⊢
  exact h

/-- **C20 (every crash point).**  If a producer's trace follows the discipline, then whatever
prefix of it has been executed when the process is killed, the published path is absent or a
complete file — never a truncated one. -/
theorem c20_prefix_safe (final : Path) : ∀ (tr : List Op) (fs0 : Fs),
    publishes final tr fs0 = true → okAt fs0 final → ∀ k, okAt (run (tr.take k) fs0) final
  | [], fs0, _, h0, k => by simpa [run] using h0
  | op :: rest, fs0, hp, h0, 0 => by simpa [run] using h0
  | op :: rest, fs0, hp, h0, k + 1 => by
    obtain ⟨h1, h2⟩ := publishesFrom_cons final fs0 op rest hp
    simp only [List.take_succ_cons, run, List.foldl_cons]
    exact c20_prefix_safe final rest (stepOp fs0 op) h2 (step_ok final fs0 op h0 h1) k

/-- **C20 (what gets published).**  The published path only ever changes by receiving a file
that was created, written and closed without a fault: in particular after a fault (`fail`)
and until the next fresh `creat`, nothing can be published. -/
theorem c20_no_publish_after_fault (fs : Fs) (p : Path) (hf : fs.faulted = true)
    (hp : fs.get p = some .partialFile) : (stepOp fs (.close p)).get p = some .partialFile := by
  simp [stepOp, closeOp, hp, hf]

/-- the complete trace publishes a complete file when it ends with the rename. -/
theorem c20_final_complete (final tmp : Path) (fs : Fs) (v : Nat)
    (h : fs.get tmp = some (.complete v)) :
    (stepOp fs (.rename tmp final)).get final = some (.complete v) := by
  simp [stepOp, renameOp, h, get_set]

/-! ### Non-vacuity: the shape of every producer's trace, and a trace that breaks the rule -/

example : publishes 0 [.creat 1, .write 1, .write 1, .close 1, .rename 1 0] {} = true := by decide
example : publishes 0 [.creat 1, .write 1, .fail, .close 1, .unlink 1] {} = true := by decide
example : publishes 0 [.creat 1, .write 1, .fail, .close 1, .rename 1 0] {} = false := by decide
example : publishes 0 [.creat 0, .write 0, .close 0] {} = false := by decide
example : publishes 0 [.creat 1, .write 1, .rename 1 0, .close 0] {} = false := by decide

end MwVerif.Fs
