-- root of the library: everything `./check --setup` builds up front
import MwVerif.Props.C10
import MwVerif.Props.C12
import MwVerif.Props.C13
import MwVerif.Props.C14
import MwVerif.Props.C15
import MwVerif.Props.C16
import MwVerif.Props.C17
import MwVerif.Props.C18
import MwVerif.Props.C19
import MwVerif.Props.C20
import MwVerif.Gen.SiteWF
