import MwVerif.Model.Path
