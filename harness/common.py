"""Common machinery of the mwlib verification harness (see DESIGN.md §1-§4).

Verdict protocol (identical for all checks):
  exit 0  property held on everything explored, all theorems check, model == code
  exit 1  + line `VIOLATION property=<id> replay=<path>[ no-failing-input-found]`
  exit 2  harness error / timeout (never a VIOLATION line)
"""
from __future__ import annotations

import fcntl
import hashlib
import json
import os
import random
import re
import shutil
import subprocess
import sys
import time
import traceback
from pathlib import Path

ROOT = Path(__file__).resolve().parent.parent
REPO = Path(os.environ.get("MWLIB_REPO", "/repo"))
LEAN = ROOT / "lean"
BUILD = ROOT / ".build"
EVIDENCE = ROOT / "evidence"
REPLAYS = ROOT / "replays"
CORPUS = ROOT / "corpus"
KNOWN = ROOT / "known_findings.txt"

ALLOWED_AXIOMS = {"propext", "Classical.choice", "Quot.sound"}
FORBIDDEN = re.compile(
    r"\bsorry\b|\badmit\b|^\s*axiom\s|native_decide|bv_decide|implemented_by|\bunsafe\s|maxHeartbeats\s+0"
)


class HarnessError(Exception):
    pass


def env_clean():
    e = dict(os.environ)
    e.pop("PYTHONPATH", None)
    return e


def run(cmd, cwd=None, timeout=None, input=None):
    p = subprocess.run(
        cmd, cwd=cwd, timeout=timeout, input=input, capture_output=True, text=True, env=env_clean()
    )
    out = "\n".join(l for l in (p.stdout + p.stderr).splitlines() if "WARNING" not in l or "conda" not in l.lower())
    return p.returncode, out


# --------------------------------------------------------------------------- Lean


class LeanResult:
    def __init__(self):
        self.ok = True
        self.failed_targets: list[str] = []
        self.log = ""
        self.theorems: dict[str, list[str]] = {}  # name -> axioms
        self.bad_axioms: dict[str, list[str]] = {}
        self.forbidden_hits: list[str] = []
        self.checker_cmd = ""
        self.leanchecker = None


def _strip_comments(src: str) -> str:
    # remove /- ... -/ (nested) and -- comments
    out = []
    i = 0
    depth = 0
    n = len(src)
    while i < n:
        if src.startswith("/-", i):
            depth += 1
            i += 2
        elif depth and src.startswith("-/", i):
            depth -= 1
            i += 2
        elif depth:
            if src[i] == "\n":
                out.append("\n")
            i += 1
        elif src.startswith("--", i):
            while i < n and src[i] != "\n":
                i += 1
        else:
            out.append(src[i])
            i += 1
    return "".join(out)


def lean_sources():
    return sorted(p for p in LEAN.rglob("*.lean") if ".lake" not in p.parts)


def grep_forbidden(files=None):
    hits = []
    for p in files or lean_sources():
        if "Audit" in p.parts:
            continue
        txt = _strip_comments(p.read_text())
        # string literals may mention the words (none do today); keep it strict
        for ln, line in enumerate(txt.splitlines(), 1):
            if FORBIDDEN.search(line):
                hits.append(f"{p.relative_to(LEAN)}:{ln}: {line.strip()}")
    return hits


def lake_lock():
    BUILD.mkdir(exist_ok=True)
    f = open(BUILD / "lean.lock", "w")
    fcntl.flock(f, fcntl.LOCK_EX)
    return f


def lake_build(targets, timeout=3000):
    """Build targets; returns (ok, log). Serialised across concurrent checks."""
    lock = lake_lock()
    try:
        rc, out = run(["lake", "build", *targets], cwd=LEAN, timeout=timeout)
        return rc == 0, out
    finally:
        lock.close()


AUDIT_TMPL = """import Lean
import {mod}
open Lean Elab Command

run_cmd do
  let env ← getEnv
  let some modIdx := env.getModuleIdx? `{mod} | throwError "no module"
  for (n, ci) in env.constants.map₁.toList do
    if env.getModuleIdxFor? n == some modIdx then
      if let .thmInfo _ := ci then
        if !n.isInternal then
          let ax ← Lean.collectAxioms n
          logInfo m!"AXIOMS {{n}} {{ax.toList}}"
"""


def lean_prove(prop_modules, tier="quick", extra_targets=("driver",)) -> LeanResult:
    """lake build the property modules (+driver), audit axioms of every theorem in them."""
    res = LeanResult()
    targets = list(prop_modules) + list(extra_targets)
    res.checker_cmd = "cd lean && lake build " + " ".join(targets) + " && lake env lean Audit/<module>.lean  (#print-axioms audit of every theorem)"
    ok, log = lake_build(targets)
    res.log = log
    if not ok:
        res.ok = False
        # find failing modules
        res.failed_targets = re.findall(r"^- (\S+)", log, flags=re.M) or ["<unknown>"]
        return res
    res.forbidden_hits = grep_forbidden()
    if res.forbidden_hits:
        res.ok = False
    (LEAN / "Audit").mkdir(exist_ok=True)
    for mod in prop_modules:
        f = LEAN / "Audit" / (mod.replace(".", "_") + ".lean")
        txt = AUDIT_TMPL.format(mod=mod)
        if not f.exists() or f.read_text() != txt:
            f.write_text(txt)
        rc, out = run(["lake", "env", "lean", str(f)], cwd=LEAN, timeout=1200)
        res.log += "\n" + out
        if rc != 0:
            res.ok = False
            res.failed_targets.append("audit:" + mod)
            continue
        for m in re.finditer(r"AXIOMS (\S+) \[(.*?)\]", out):
            name = m.group(1)
            last = name.split(".")[-1]
            if re.match(r"(eq_\d+|eq_def|congr_simp|match_\d+|proof_\d+|induct.*|fun_cases.*)$", last):
                continue
            axs = [a.strip() for a in m.group(2).split(",") if a.strip()]
            res.theorems[name] = axs
            bad = [a for a in axs if a not in ALLOWED_AXIOMS]
            if bad:
                res.bad_axioms[name] = bad
                res.ok = False
    if tier == "thorough" and res.ok:
        rc, out = run(["lake", "env", "leanchecker", *prop_modules], cwd=LEAN, timeout=3000)
        res.leanchecker = rc == 0
        res.checker_cmd += " && lake env leanchecker " + " ".join(prop_modules)
        if rc != 0:
            res.ok = False
            res.failed_targets.append("leanchecker")
            res.log += "\n" + out
    return res


class Driver:
    """The compiled Lean model driver behind the line protocol (batch mode)."""

    def __init__(self, mode):
        self.mode = mode
        self.exe = LEAN / ".lake" / "build" / "bin" / "driver"
        if not self.exe.exists():
            raise HarnessError("driver executable missing (lake build driver failed?)")

    def ask(self, lines, timeout=3000):
        if not lines:
            return []
        data = "\n".join(lines) + "\n"
        p = subprocess.run([str(self.exe), self.mode], input=data, capture_output=True, text=True, timeout=timeout)
        if p.returncode != 0:
            raise HarnessError(f"driver {self.mode} exited {p.returncode}: {p.stderr[:500]}")
        out = p.stdout.split("\n")
        if out and out[-1] == "":
            out.pop()
        if len(out) != len(lines):
            raise HarnessError(f"driver {self.mode}: {len(lines)} requests, {len(out)} replies")
        return out


def enc(s: str) -> str:
    return " ".join(str(ord(c)) for c in s)


def dec(f: str) -> str:
    return "".join(chr(int(t)) for t in f.split())


# --------------------------------------------------------------------------- findings


def known_findings(prop):
    """open: lines of known_findings.txt for this property -> list of (sig(dict), text)."""
    res = []
    if not KNOWN.exists():
        return res
    for line in KNOWN.read_text().splitlines():
        line = line.strip()
        if not line.startswith("open:"):
            continue
        m = re.match(r"open:\s+property=(\S+)\s+sig=(\{.*?\})\s+(.*)$", line)
        if m and m.group(1) == prop:
            res.append((json.loads(m.group(2)), m.group(3)))
    return res


# --------------------------------------------------------------------------- check context


class Check:
    def __init__(self, prop, tier, seed, level, replay=None):
        self.prop = prop
        self.tier = tier
        self.seed = seed
        self.level = level
        self.replay = replay
        self.t0 = time.time()
        self.rng = random.Random(seed)
        self.coverage: dict = {}
        self.assumptions: list[str] = []
        self.violations = 0
        self.known_hits: dict[str, int] = {}
        self.n_replay = 0
        self.lines: list[str] = []
        self.scratch = BUILD / f"run-{os.getpid()}"
        if REPLAYS.exists() and not replay:
            for f in REPLAYS.glob(f"{prop}-{seed}-*.json"):
                try:
                    f.unlink()
                except OSError:
                    pass

    # -- scratch
    def mkscratch(self):
        self.scratch.mkdir(parents=True, exist_ok=True)
        return self.scratch

    def cleanup(self):
        shutil.rmtree(self.scratch, ignore_errors=True)

    # -- reporting
    def say(self, msg):
        print(msg, flush=True)

    def violation(self, what: str, replay: dict, sig: dict | None = None, no_input=False):
        """Report a violation unless its signature is an `open:` known finding."""
        if sig is not None:
            for ksig, text in known_findings(self.prop):
                if all(sig.get(k) == v for k, v in ksig.items()):
                    key = json.dumps(ksig, sort_keys=True)
                    if key not in self.known_hits:
                        self.say(f"KNOWN-FINDING: property={self.prop} {text}")
                    self.known_hits[key] = self.known_hits.get(key, 0) + 1
                    return False
        self.violations += 1
        self.n_replay += 1
        REPLAYS.mkdir(exist_ok=True)
        path = REPLAYS / f"{self.prop}-{self.seed}-{self.n_replay}.json"
        replay = dict(replay)
        replay.setdefault("property", self.prop)
        replay.setdefault("what", what)
        replay.setdefault("tier", self.tier)
        replay.setdefault("seed", self.seed)
        replay.setdefault("rerun", f"./check {self.prop} --replay {path.relative_to(ROOT)}")
        path.write_text(json.dumps(replay, indent=1, ensure_ascii=True, default=str))
        tail = " no-failing-input-found" if no_input else ""
        self.say(f"# {what}")
        self.say(f"VIOLATION property={self.prop} replay={path.relative_to(ROOT)}{tail}")
        return True

    def write_evidence(self):
        EVIDENCE.mkdir(exist_ok=True)
        ev = {
            "property_id": self.prop,
            "tier": self.tier,
            "seed": self.seed,
            "level": self.level,
            "coverage": self.coverage,
            "assumptions": self.assumptions,
            "wall_s": round(time.time() - self.t0, 2),
            "violations": self.violations,
        }
        if self.known_hits:
            ev["coverage"]["known_findings_hit"] = self.known_hits
        (EVIDENCE / f"{self.prop}.json").write_text(json.dumps(ev, indent=1, ensure_ascii=True, default=str))

    def proof_coverage(self, res: LeanResult, trusted):
        ob = len(res.theorems)
        dis = sum(1 for n in res.theorems if n not in res.bad_axioms)
        self.coverage.update(
            {
                "obligations": ob,
                "discharged": dis if res.ok or not res.failed_targets else 0,
                "checker_cmd": res.checker_cmd,
                "trusted_base": trusted,
                "theorems": {n: a for n, a in sorted(res.theorems.items())},
            }
        )
        if res.leanchecker is not None:
            self.coverage["leanchecker_ok"] = res.leanchecker


def git_tree_state():
    try:
        rc, out = run(["git", "-C", str(REPO), "rev-parse", "HEAD"])
        head = out.strip().splitlines()[-1]
        rc, out = run(["git", "-C", str(REPO), "status", "--porcelain", "--untracked-files=no"])
        return {"head": head, "dirty_files": [l[3:] for l in out.splitlines() if l.strip()]}
    except Exception:
        return {}


def shard(items, n):
    return [items[i::n] for i in range(n)]
