"""Rebuild /repo's compiled extension modules from the *working tree* into /verif/.build/ext/<hash>/
and load them in place of the installed ones, so that an edit to a .cc/.pyx source is what the
checks run (nothing is written into /repo)."""
from __future__ import annotations

import hashlib
import importlib.machinery
import importlib.util
import subprocess
import sys
import sysconfig
from pathlib import Path

from . import common

EXT = common.BUILD / "ext"
SUFFIX = importlib.machinery.EXTENSION_SUFFIXES[0]

MODULES = {
    "mwlib.parser.token._uscan": ("src/mwlib/parser/token/_uscan.cc", "c++"),
    "mwlib.parser.refine._core": ("src/mwlib/parser/refine/_core.pyx", "cython"),
    "mwlib.parser.templ.node": ("src/mwlib/parser/templ/node.pyx", "cython"),
    "mwlib.parser.templ.nodes": ("src/mwlib/parser/templ/nodes.pyx", "cython"),
    "mwlib.parser.templ.evaluate": ("src/mwlib/parser/templ/evaluate.pyx", "cython"),
}


def _build(modname):
    rel, kind = MODULES[modname]
    src = common.REPO / rel
    data = src.read_bytes()
    # .pxd next to a .pyx takes part in the build
    pxd = src.with_suffix(".pxd")
    if pxd.exists():
        data += pxd.read_bytes()
    h = hashlib.sha256(data).hexdigest()[:16]
    outdir = EXT / h
    out = outdir / (modname.split(".")[-1] + SUFFIX)
    if out.exists():
        return out
    outdir.mkdir(parents=True, exist_ok=True)
    inc = sysconfig.get_paths()["include"]
    if kind == "c++":
        cmd = ["g++", "-shared", "-fPIC", "-O1", f"-I{inc}", str(src), "-o", str(out)]
    else:
        csrc = outdir / (src.stem + ".c")
        r = subprocess.run([sys.executable, "-m", "cython", "-3", str(src), "-o", str(csrc)], capture_output=True, text=True)
        if r.returncode != 0:
            raise common.HarnessError(f"cython failed for {rel}: {r.stderr[-800:]}")
        cmd = ["gcc", "-shared", "-fPIC", "-O1", f"-I{inc}", str(csrc), "-o", str(out)]
    r = subprocess.run(cmd, capture_output=True, text=True)
    if r.returncode != 0:
        raise common.HarnessError(f"compiling {rel} failed: {r.stderr[-800:]}")
    return out


def load(modname):
    """build (if needed) and import the extension under its real name; returns the module."""
    path = _build(modname)
    spec = importlib.util.spec_from_file_location(modname, str(path))
    mod = importlib.util.module_from_spec(spec)
    spec.loader.exec_module(mod)
    sys.modules[modname] = mod
    parent = sys.modules.get(modname.rsplit(".", 1)[0])
    if parent is not None:
        setattr(parent, modname.rsplit(".", 1)[1], mod)
    return mod


def use_working_tree_scanner():
    """make utoken.scan use _uscan compiled from the working tree's _uscan.cc."""
    mod = load("mwlib.parser.token._uscan")
    from mwlib.parser.token import utoken

    utoken._mwscan = mod
    return mod
