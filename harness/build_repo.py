"""Rebuild /repo's compiled extension modules from the *working tree* into /verif/.build/ext/<hash>/
and load them in place of the installed ones, so that an edit to a .cc/.pyx source is what the
checks run (nothing is written into /repo)."""
from __future__ import annotations

import hashlib
import importlib.machinery
import importlib.util
import subprocess
import sys
import sysconfig
from pathlib import Path

from . import common

EXT = common.BUILD / "ext"
SUFFIX = importlib.machinery.EXTENSION_SUFFIXES[0]

MODULES = {
    "mwlib.parser.token._uscan": ("src/mwlib/parser/token/_uscan.cc", "c++"),
    "mwlib.parser.refine._core": ("src/mwlib/parser/refine/_core.pyx", "cython"),
    "mwlib.parser.templ.node": ("src/mwlib/parser/templ/node.pyx", "cython"),
    "mwlib.parser.templ.nodes": ("src/mwlib/parser/templ/nodes.pyx", "cython"),
    "mwlib.parser.templ.evaluate": ("src/mwlib/parser/templ/evaluate.pyx", "cython"),
}


def _build(modname):
    rel, kind = MODULES[modname]
    src = common.REPO / rel
    data = src.read_bytes()
    # .pxd next to a .pyx takes part in the build
    pxd = src.with_suffix(".pxd")
    if pxd.exists():
        data += pxd.read_bytes()
    h = hashlib.sha256(data + b"|directives-v3").hexdigest()[:16]
    outdir = EXT / h
    out = outdir / (modname.split(".")[-1] + SUFFIX)
    if out.exists():
        return out
    outdir.mkdir(parents=True, exist_ok=True)
    inc = sysconfig.get_paths()["include"]
    import os

    tmp = outdir / f".{os.getpid()}.{out.name}"
    if kind == "c++":
        cmd = ["g++", "-shared", "-fPIC", "-O1", f"-I{inc}", str(src), "-o", str(tmp)]
    else:
        csrc = outdir / f".{os.getpid()}.{src.stem}.c"
        # the same compiler directives as /repo/setup.py
        r = subprocess.run([sys.executable, "-m", "cython", "-3", "-X", "boundscheck=False", "-X", "wraparound=False",
                            str(src), "-o", str(csrc)], capture_output=True, text=True)
        if r.returncode != 0:
            raise common.HarnessError(f"cython failed for {rel}: {r.stderr[-800:]}")
        # cython's own diagnostics about indexing that is undefined under these directives
        warn = [ln.strip() for ln in r.stderr.splitlines() if "is undefined" in ln or "out of bounds" in ln]
        (outdir / (src.stem + ".warnings")).write_text("\n".join(warn))
        cmd = ["gcc", "-shared", "-fPIC", "-O1", "-w", f"-I{inc}", str(csrc), "-o", str(tmp)]
    r = subprocess.run(cmd, capture_output=True, text=True)
    if r.returncode != 0:
        raise common.HarnessError(f"compiling {rel} failed: {r.stderr[-800:]}")
    os.replace(tmp, out)           # atomic: concurrent checks may build the same module
    if kind != "c++":
        try:
            csrc.unlink()
        except OSError:
            pass
    return out


def cython_warnings():
    """cython's 'negative indices ... undefined' style diagnostics for the working tree's .pyx
    files under setup.py's directives (file:line: text)."""
    res = []
    for m, (rel, kind) in MODULES.items():
        if kind != "cython":
            continue
        out = _build(m)
        w = out.parent / (Path(rel).stem + ".warnings")
        if not w.exists():                      # built by an older harness: rebuild to learn them
            out.unlink()
            out = _build(m)
        for ln in w.read_text().splitlines():
            if ln:
                res.append(ln.replace(str(common.REPO) + "/", ""))
    return res


def load(modname):
    """build (if needed) and import the extension under its real name; returns the module."""
    path = _build(modname)
    spec = importlib.util.spec_from_file_location(modname, str(path))
    mod = importlib.util.module_from_spec(spec)
    sys.modules[modname] = mod          # before exec: circular imports must resolve to this copy
    try:
        spec.loader.exec_module(mod)
    except BaseException:
        sys.modules.pop(modname, None)
        raise
    parent = sys.modules.get(modname.rsplit(".", 1)[0])
    if parent is not None:
        setattr(parent, modname.rsplit(".", 1)[1], mod)
    return mod


class _OverlayFinder:
    """meta-path finder: the compiled modules come from /verif/.build/ext (built from the
    working tree), everything else from the normal path."""

    def __init__(self, paths):
        self.paths = paths

    def find_spec(self, fullname, path=None, target=None):
        p = self.paths.get(fullname)
        if p is None:
            return None
        return importlib.util.spec_from_file_location(fullname, str(p))


def overlay_all():
    """make every compiled module come from the working tree's sources. Must run before
    anything imports them (call it first in a fresh process)."""
    paths = {}
    for m in MODULES:
        if m in sys.modules and not str(getattr(sys.modules[m], "__file__", "")).startswith(str(EXT)):
            raise common.HarnessError(f"{m} was imported before the working-tree overlay was installed")
        paths[m] = _build(m)
    if not any(isinstance(f, _OverlayFinder) for f in sys.meta_path):
        sys.meta_path.insert(0, _OverlayFinder(paths))
    return {m: str(p) for m, p in paths.items()}


def use_working_tree_scanner():
    """make utoken.scan use _uscan compiled from the working tree's _uscan.cc."""
    overlay_all()
    from mwlib.parser.token import utoken

    assert str(utoken._mwscan.__file__).startswith(str(EXT)), utoken._mwscan.__file__
    return utoken._mwscan
