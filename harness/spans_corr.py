"""rltables.check_spans on synthetic tables vs lean/MwVerif/Model/Spans.lean (driver mode `spans`)."""
from __future__ import annotations

import itertools
import random
from collections import Counter


def worker(items, extra, progress):
    import logging

    from . import build_repo

    build_repo.overlay_all()
    logging.disable(logging.WARNING)
    from mwlib.parser import advtree
    from mwlib.writers.rl import rltables

    from .common import Driver

    reqs, meta, viol, hist = [], [], [], Counter()
    for i, it in enumerate(items):
        progress(i)
        if isinstance(it, int):
            rng = random.Random(it)
            spec = [[(rng.choice([1, 1, 1, 2, 3, 4]), rng.choice([1, 1, 1, 2, 3, 6])) for _ in range(rng.randint(1, 5))]
                    for _ in range(rng.randint(1, 5))]
        else:
            spec = [list(r) for r in it]
        t = advtree.Table()
        k = 0
        for row in spec:
            r = advtree.Row()
            for cs, rs in row:
                c = advtree.Cell()
                k += 1
                c._vid = k
                c.attributes["colspan"] = cs
                c.attributes["rowspan"] = rs
                r.append_child(c)
            t.append_child(r)
        ids = iter(range(1, 10 ** 6))
        req = "spans " + " / ".join(" ".join("%d,%d,%d" % (cs, rs, next(ids)) for cs, rs in row) for row in spec)
        try:
            rltables.check_spans(t)
        except Exception as e:  # noqa: BLE001
            viol.append({"why": f"check_spans raised {type(e).__name__}: {e}", "text": req})
            continue
        rows = [[(c.colspan, c.rowspan, getattr(c, "_vid", 0)) for c in r.children] for r in t.children]
        real = " / ".join(" ".join("%d,%d,%d" % c for c in r) for r in rows)
        # the two theorems, on the real result: content cells kept in order, all rows equally long
        if [[v for _, _, v in r if v] for r in rows] != [[v for v in range(a, b)] for a, b in _ranges(spec)]:
            viol.append({"why": "check_spans lost, duplicated or re-ordered a content cell", "text": req})
        if len({len(r) for r in rows}) > 1:
            viol.append({"why": "check_spans left rows of different length", "text": req})
        hist["tables"] += 1
        hist["rows-%d" % len(spec)] += 1
        reqs.append(req)
        meta.append((req, real))
    progress(len(items))
    diffs = []
    for (req, real), o in zip(meta, Driver("spans").ask(reqs)):
        if real.split() != o.split():
            diffs.append({"stream": "check_spans", "table": req, "impl": real, "model": o})
    return diffs, viol, dict(hist)


def _ranges(spec):
    a = 1
    for row in spec:
        yield a, a + len(row)
        a += len(row)


def all_items(tier, seed):
    cells = [(1, 1), (2, 1), (1, 2), (2, 2), (3, 3)]
    rows1 = [r for n in (1, 2) for r in itertools.product(cells, repeat=n)]
    items = [[r] for r in rows1] + [[a, b] for a in rows1 for b in rows1]
    if tier == "thorough":
        small = [r for n in (1, 2) for r in itertools.product(cells[:4], repeat=n)]
        items += [[a, b, c] for a in small for b in small for c in small]
    n = 30000 if tier == "thorough" else 4000
    items += [seed * 10_000_000 + 9_300_000 + i for i in range(n)]
    return items
