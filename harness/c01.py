"""C01 — parsing is total: any wikitext yields an article tree, never an exception.

L1  lean/MwVerif/Props/C01.lean: the scanner stage is total and tiles every input (C10's theorem over
    the model of _uscan.cc); entity resolution is total for every entity lexeme (any digit string)
L2  correspondence: Model.resolve vs util.resolve_entity on entity lexemes incl. out-of-range and huge
    numbers; the scanner model is tied by C10's correspondence
L3  oracle on the real parser (the refinement passes are not modelled): parse_string on strings over the
    full wikitext alphabet, with and without a wiki database supplying templates, in every bundled
    language: returns an Article, no exception; CPU time at sizes n, 2n, 4n of repeated adversarial
    patterns grows at most cubically.
"""
from __future__ import annotations

import json
import random
import time
from collections import Counter

from . import common

LEVEL = "other"
PROP_MODULES = ["MwVerif.Props.C01"]
LANGS = ["de", "en", "es", "fr", "it", "ja", "nl", "no", "pl", "pt", "simple", "sv"]

ENT = ["&#99999999999;", "&#1114111;", "&#1114112;", "&#x110000;", "&#xD800;", "&#0;", "&#00065;", "&#x0;", "&#xFFFFFFFFFFFFFFFFFFFF;",
       "&#18446744073709551616;", "&amp;", "&nosuch;", "&#;", "&#x;", "&;", "&#-5;", "&#+5;", "&#1_0;", "&#١٢;", "&Amp;", "&lt", "&#65"]

PATTERNS = ["'''", "''", "[[", "]]", "[[a|", "{{", "}}", "{{{", "{|", "\n|-\n|", "|}", "\n*", "\n#", "\n:", "\n;", "<ref>", "</ref>", "<b>", "<i>",
            "<div>", "<table><tr><td>", "<span>", "==", "\n==\n", "[http://a.b ", "<nowiki>", "<pre>", "<math>", "&#99999999999;", "'''''",
            "''' ''", "<ref name=a>", "\n ", "<br/>", "{{echo|", "[[File:a.png|", "<gallery>", "<sup>", "\n{|\n|", "<!--", "~~~~", "<li>", "<ol><li>",
            "<center>", "<blockquote>", "\n----\n", "<s><u><i><b>", "<font>", "\x7fUNIQ-", "<td>", "<th>", "<tr>", "<caption>", "|+", "!!", "||"]


def fuzz(rng):
    from . import clean_common as cc

    k = rng.random()
    if k < 0.6:
        return cc.fuzz_text(rng, rng.randint(2, 60))
    if k < 0.8:
        return cc.trigger_doc(rng)
    if k < 0.9:
        # deep nesting up to 40
        opener, closer = rng.choice([("[[a|", "]]"), ("{{echo|", "}}"), ("<div>", "</div>"), ("'''", "'''"), ("\n" + "*", ""), ("{|\n|", "\n|}"),
                                     ("<ref>", "</ref>"), ("<b>", "</b>"), ("<table><tr><td>", "</td></tr></table>"), ("[", "]"), ("{{{", "}}}")])
        d = rng.randint(5, 40)
        if opener == "\n*":
            return "".join("\n" + "*" * i + " x" for i in range(1, d))
        return opener * d + "x" + closer * rng.randint(0, d)
    return "".join(rng.choice(ENT + ["a", " ", "\n", "&", ";", "#"]) for _ in range(rng.randint(1, 30)))


def make_db(rng, lang):
    from . import doc_common as dc
    from . import templ_common as tc

    pages = {"echo": "{{{1}}}", "t2": "{{{1|}}} {{echo|{{{2}}}}}", "loop": "{{loop}}", "tbl": "{|\n| {{{1}}}\n|}", "open": "{| \n| x", "bold": "'''{{{1}}}",
             "nl": "\n* {{{1}}}\n"}
    if rng.random() < 0.5:
        from . import clean_common as cc

        pages["rnd"] = cc.fuzz_text(rng, rng.randint(1, 12))
    db = tc.wiki_db(pages, lang)
    db.get_url = lambda *a, **k: None
    return db


def parse_once(text, lang, with_db, seed):
    from mwlib.parser import nodes
    from mwlib.parser.refine import uparser

    rng = random.Random(seed)
    t0 = time.process_time()
    try:
        if with_db:
            t = uparser.parse_string("Some title", text, wikidb=make_db(rng, lang))
        else:
            t = uparser.parse_string("Some title", text, lang=lang)
    except RecursionError:
        return "recursion-error", "RecursionError (markup nesting beyond the interpreter stack)", time.process_time() - t0
    except Exception as e:  # noqa: BLE001
        return "exception", f"{type(e).__name__}: {str(e)[:200]}", time.process_time() - t0
    dt = time.process_time() - t0
    if not isinstance(t, nodes.Article):
        return "not-an-article", type(t).__name__, dt
    return "ok", "", dt


def gen_case(seed):
    rng = random.Random(seed)
    text = fuzz(rng)
    if rng.random() < 0.2:
        text = text.replace("word", "{{" + rng.choice(["echo|a", "t2|a|b", "loop", "tbl|x", "open", "bold|y", "nl|z", "rnd", "missing"]) + "}}")
    return text, rng.choice(LANGS), rng.random() < 0.7


def parse_worker(items, extra, progress):
    import contextlib
    import io
    import logging

    from . import build_repo

    build_repo.overlay_all()
    logging.disable(logging.WARNING)
    bad, hist = [], Counter()
    tmax = 0.0
    for i, seed in enumerate(items):
        if i % 32 == 0 and progress.stop_requested():
            break
        progress(i)
        text, lang, with_db = gen_case(seed)
        with contextlib.redirect_stdout(io.StringIO()), contextlib.redirect_stderr(io.StringIO()):
            st, detail, dt = parse_once(text, lang, with_db, seed)
        hist[st] += 1
        hist["lang-" + lang] += 1
        tmax = max(tmax, dt)
        if st not in ("ok",):
            bad.append({"seed": seed, "text": text, "lang": lang, "with_db": with_db, "why": st + ": " + detail})
        elif dt > 10.0:
            bad.append({"seed": seed, "text": text, "lang": lang, "with_db": with_db, "why": f"took {dt:.1f} s of CPU for {len(text)} characters"})
    return bad, dict(hist), tmax


def growth_worker(items, extra, progress):
    """CPU time at n, 2n, 4n repetitions of a pattern (or of a pair of patterns)."""
    import contextlib
    import io
    import logging

    from . import build_repo

    build_repo.overlay_all()
    logging.disable(logging.WARNING)
    bad, rows = [], []
    for i, (pat, n) in enumerate(items):
        progress(i)
        ts = []
        for m in (n, 2 * n, 4 * n):
            text = pat * m
            with contextlib.redirect_stdout(io.StringIO()), contextlib.redirect_stderr(io.StringIO()):
                st, detail, dt = parse_once(text, "en", True, 1)
            ts.append(dt)
            if st == "exception":
                bad.append({"text_pattern": pat, "repeat": m, "text": text if len(text) < 3000 else None, "why": "exception: " + detail})
                break
        rows.append((pat, n, ts))
        if len(ts) == 3 and ts[2] > 3.0 and ts[0] > 0 and ts[2] / max(ts[0], 1e-3) > 4 ** 3 * 2:
            bad.append({"text_pattern": pat, "repeat": 4 * n, "why": f"CPU time grows faster than cubically: {ts[0]:.2f} s, {ts[1]:.2f} s, {ts[2]:.2f} s at {n}, {2*n}, {4*n} repetitions"})
        # no absolute limit: the property asks for polynomial growth, and `<pre><tr>` x n is (honestly) cubic
    return bad, rows


def entity_corr():
    from mwlib.parser.refine import util

    from .common import Driver, enc

    rng = random.Random(5)
    ents = list(ENT)
    for _ in range(3000):
        k = rng.random()
        if k < 0.4:
            ents.append("&#" + "".join(rng.choice("0123456789") for _ in range(rng.randint(1, 25))) + ";")
        elif k < 0.7:
            ents.append("&#" + rng.choice("xX") + "".join(rng.choice("0123456789abcdefABCDEF") for _ in range(rng.randint(1, 20))) + ";")
        else:
            import html.entities

            ents.append("&" + rng.choice(list(html.entities.name2codepoint) + ["nosuch", "AMP", "x1"]) + ";")
    # lexemes of the scanner's entity rule only (the model covers those)
    import re

    lex = [e for e in ents if re.fullmatch(r"&[a-zA-Z0-9]+;|&#[xX][0-9a-fA-F]+;|&#[0-9]+;", e)]
    outs = Driver("entity").ask(["ent " + enc(e) for e in lex])
    diffs, viol = [], []
    for e, o in zip(lex, outs):
        try:
            r = util.resolve_entity(e)
        except Exception as ex:  # noqa: BLE001
            viol.append({"why": f"resolve_entity raised {type(ex).__name__}: {ex}", "text": e})
            continue
        want = "keep" if r == e else "cp %d" % ord(r) if len(r) == 1 else "other"
        if want != o:
            diffs.append({"entity": e, "impl": want, "model": o})
    # any string the regex path can hand over must not raise either
    for e in ents:
        try:
            util.replace_html_entities("a" + e + "b")
        except Exception as ex:  # noqa: BLE001
            viol.append({"why": f"replace_html_entities raised {type(ex).__name__}: {ex}", "text": e})
    return len(lex), diffs, viol


def style_corr():
    """State.get_next vs Model.getNext for every (apocount, bold, italic, count); compute_path on random run
    lengths: one state per run, never more than 32 candidates alive (observed through a wrapper)."""
    from mwlib.parser import styleanalyzer as sa

    from .common import Driver

    reqs, want = [], []
    for apo in range(0, 4):
        for b in (0, 1):
            for i in (0, 1):
                for c in range(2, 12):
                    st = sa.State(apocount=apo, is_bold=bool(b), is_italic=bool(i), previous=None)
                    res = st.get_next(c)
                    reqs.append(f"next {apo} {b} {i} {c}")
                    want.append(" ".join(f"{x.apocount},{int(x.is_bold)},{int(x.is_italic)}" for x in res))
                    for x in res:
                        if x.previous is not st:
                            want[-1] += " BAD-PREVIOUS"
    outs = Driver("style").ask(reqs)
    diffs = [{"request": r, "impl": w, "model": o} for r, w, o in zip(reqs, want, outs) if w != o]
    viol = []
    rng = random.Random(11)
    orig_sort = sa.sort_states
    seen_max = [0]

    def spy(states):
        seen_max[0] = max(seen_max[0], len(states))
        return orig_sort(states)

    sa.sort_states = spy
    try:
        for _ in range(400):
            counts = [rng.choice([2, 2, 3, 3, 4, 5, 5, 6, 7, 9]) for _ in range(rng.randint(1, 40))]
            try:
                path = sa.compute_path(counts)
            except Exception as e:  # noqa: BLE001
                viol.append({"why": f"compute_path raised {type(e).__name__}: {e}", "text": " x ".join("'" * c for c in counts)})
                continue
            if len(path) != len(counts):
                viol.append({"why": "compute_path returned a path of the wrong length", "text": str(counts)})
        if seen_max[0] > 192:
            viol.append({"why": f"{seen_max[0]} candidate states were sorted in one iteration (bound: 192)", "text": ""})
    finally:
        sa.sort_states = orig_sort
    return len(reqs), diffs, viol, seen_max[0]


def replay(chk, data):
    from . import build_repo

    build_repo.overlay_all()
    if "text" in data and data["text"] is not None:
        st, detail, dt = parse_once(data["text"], data.get("lang", "en"), data.get("with_db", True), data.get("seed", 1))
        chk.say(f"replay: {st} {detail} ({dt:.2f} s)")
        if st != "ok":
            chk.violation("C01 violated: " + st + ": " + detail, data)
        return
    if "text_pattern" in data:
        st, detail, dt = parse_once(data["text_pattern"] * data["repeat"], "en", True, 1)
        chk.say(f"replay: {st} {detail} ({dt:.2f} s)")
        if st != "ok" or dt > 60:
            chk.violation("C01 violated: " + st + ": " + detail, data)
        return
    chk.say("replay: nothing to run for this file")


def run(chk: common.Check):
    from . import build_repo, gen_tables, guard

    build_repo.overlay_all()
    if chk.replay:
        replay(chk, json.load(open(chk.replay)))
        return
    tier = chk.tier
    gen_tables.gen_c01()
    res = common.lean_prove(PROP_MODULES, tier)
    trusted = [
        "Lean 4 kernel; axioms propext, Quot.sound, Classical.choice only (audited per theorem on this run)",
        "scanner model (C10: Model/Scan.lean + ScanRules.lean, tied to the compiled _uscan.cc by C10's exhaustive correspondence), "
        "entity model (Model/Entity.lean) and apostrophe-analysis model (Model/Style.lean: State.get_next, the candidate loop with "
        "the id()-dependent tie-break as an arbitrary selection), tied by correspondence here; generated table html.entities.name2codepoint",
        "NOT modelled: the ~20 refinement passes (sections, links, lists, paragraphs, tables, tags, styles), compat class conversion, "
        "tag extensions, the template expander (C03): for them the check is the no-exception / Article / CPU-growth oracle on the real "
        "parser over the generated input space, each call in a guarded child process",
        "CPU growth is judged on process time at n, 2n, 4n with an absolute floor of 3 s (no alarm on small timings)",
    ]
    chk.proof_coverage(res, trusted)
    nlex, ediffs, eviol = entity_corr()
    nsty, sdiffs, sviol, smax = style_corr()
    ediffs += sdiffs
    eviol += sviol
    nlex += nsty
    chk.coverage["style_max_candidates_sorted"] = smax
    scratch = str(chk.mkscratch())
    n = 40000 if tier == "thorough" else 5000
    items = [chk.seed * 10_000_000 + 8_000_000 + i for i in range(n)]
    corpus = common.ROOT / "corpus" / "C01" / "known.json"
    r1, c1 = guard.guarded_run(scratch, "harness.c01:parse_worker", items, nproc=16, hard_timeout=120,
                               stop_when=lambda r, c: len(c) >= 2 or sum(len(x[0]) for x in r) >= 6)
    bad, hist, tmax = [], Counter(), 0.0
    for b, h, tm in r1:
        bad += b
        hist.update(h)
        tmax = max(tmax, tm)
    for item, kind, detail in c1:
        text, lang, with_db = gen_case(item) if item is not None else (None, None, None)
        bad.append({"seed": item, "text": text, "lang": lang, "with_db": with_db, "why": f"{kind}: {detail}"})
    if corpus.exists():
        for e in json.load(open(corpus)):
            st, detail, dt = parse_once(e["text"], e.get("lang", "en"), True, 1)
            if st != "ok":
                bad.append({"text": e["text"], "lang": e.get("lang", "en"), "with_db": True, "why": st + ": " + detail})
    base_n = 250 if tier == "thorough" else 150
    rng = chk.rng
    pats = list(PATTERNS) + [a + b for a in rng.sample(PATTERNS, 12) for b in rng.sample(PATTERNS, 4)]
    gitems = [(p, base_n) for p in pats]
    r2, c2 = guard.guarded_run(scratch, "harness.c01:growth_worker", gitems, nproc=16, hard_timeout=300, min_shard=4)
    rows = []
    for b, rw in r2:
        bad += b
        rows += rw
    for item, kind, detail in c2:
        bad.append({"text_pattern": item[0] if item else None, "repeat": 4 * base_n, "why": f"{kind}: {detail} while parsing repetitions of the pattern"})
    worst = sorted(rows, key=lambda r: -max(r[2]))[:5]
    chk.coverage.update({
        "evaluations": n + 3 * len(gitems) + nlex,
        "distinct_nontrivial": hist.get("ok", 0),
        "rule": "strings over ~150 wikitext lexemes (all scanner tokens, HTML-ish and extension tags, entities incl. out-of-range numeric ones, "
                "control and non-BMP characters) and the attribute triggers; trigger documents; nesting of one construct up to depth 40; entity "
                "soups; 20% with template calls; parsed in one of the 12 bundled languages, 70% with a wiki database supplying templates "
                "(echo, nested, self-including, table-opening, random). growth: each of the adversarial patterns and sampled pairs repeated "
                f"{base_n}, {2*base_n}, {4*base_n} times. non-trivial = parses that returned an Article",
        "histogram": dict(hist),
        "max_cpu_seconds_one_parse": round(tmax, 2),
        "growth_worst": [(p, n0, [round(x, 2) for x in ts]) for p, n0, ts in worst],
        "traces_validated_against_impl": nlex,
        "correspondence_differences": len(ediffs),
    })
    chk.assumptions += ["markup nesting depth up to 40 (deeper nesting exhausts the interpreter stack by construction; the property excludes it)"]
    viol = eviol + bad
    seen = set()
    for v in viol:
        k = v["why"][:40]
        if k in seen or len(seen) >= 3:
            continue
        seen.add(k)
        chk.violation("C01 violated: " + v["why"] + " on " + repr(v.get("text", v.get("text_pattern")))[:160], v, sig={"why": v["why"][:40]})
    if viol:
        return
    broken = []
    if not res.ok:
        broken.append({"kind": "lean", "failed": res.failed_targets, "bad_axioms": res.bad_axioms, "forbidden": res.forbidden_hits,
                       "log_tail": res.log[-1500:]})
    if ediffs:
        broken.append({"kind": "correspondence", "count": len(ediffs), "first": ediffs[0]})
    if broken:
        chk.violation("C01 is no longer shown to hold: " + ", ".join(b["kind"] for b in broken)
                      + " broke; parsing the generated input space raised nothing",
                      {"broken": broken, "theorems": PROP_MODULES}, no_input=True)
