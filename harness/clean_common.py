"""Shared by C05 / C06 / C07: drive every tree-cleaning pass directly (the cleaner's own catch-all
would hide a crashing pass) over parsed documents and markup fuzz with the attribute triggers that
switch individual passes on; validate the tree after the advanced-tree build and after every pass."""
from __future__ import annotations

import random
import time

from . import doc_common as dc

LEXEMES = ["''", "'''", "[[", "]]", "[[File:a.png|thumb|cap]]", "[[Image:b.jpg]]", "[[Category:X]]", "[[de:Y]]", "{{", "}}", "|", "=", "==", "===",
           "\n", "\n\n", " ", "*", "#", ":", ";", "----", "{|", "|}", "|-", "||", "!", "!!", "|+", "<b>", "</b>", "<i>", "</i>", "<br/>", "<br>",
           "<ref>", "</ref>", "<ref name=a>", "<ref name=a/>", "<references/>", "<div>", "</div>", "<span>", "</span>", "<center>", "</center>",
           "<table>", "</table>", "<tr>", "<td>", "</td>", "</tr>", "<th>", "<ul>", "<li>", "</li>", "</ul>", "<ol>", "<dl>", "<dt>", "<dd>", "<p>", "</p>",
           "<pre>", "</pre>", "<nowiki>", "</nowiki>", "<math>x</math>", "<gallery>\nFile:a.png|c\n</gallery>", "<blockquote>", "</blockquote>",
           "<sup>", "</sup>", "<sub>", "<small>", "<big>", "<s>", "<u>", "<code>", "<tt>", "<cite>", "<var>", "<poem>a\nb</poem>",
           "<source>x</source>", "<timeline>x</timeline>", "<imagemap>\nFile:a.png\n</imagemap>", "&amp;", "&#99999999999;", "&nbsp;", "http://x.org/y",
           "[http://x.org z]", "~~~~", "__TOC__", "__NOTOC__", "word", "Another", "x", "See also", "1", "\t", "<!-- c -->", "{{{1}}}", "{{echo|a}}",
           "<h2>", "</h2>", "<hr>", "<font color=red>", "</font>", "<strike>", "<del>", "<ins>", "<abbr title=t>", "</abbr>", "<caption>", "‎",
           "\U0001f600", "\x00", "\x0b", "<index>", "<ruby>", "<rb>", "<rt>", "<rp>"]

TRIGGERS = ['<div style="overflow:auto; height:300px">', '{| style="overflow:auto; height:200px"', '<table style="overflow:auto;height:150px">',
            '| style="overflow:auto; height:120px" |', '<div style="overflow:auto">', '<div style="overflow: auto; width:100px">', '<div id="region_list">', '<div class="noprint">',
            '<span class="noprint">', '<table class="navbox">', '<div style="position:absolute; left:3px">', '<div style="display:none">',
            '<table style="overflow:auto">', '{| style="overflow:auto"', '{| class="infobox"', '{| class="metadata"', '{| width="100%"',
            '<div class="thumb tright">', '<div class="editlink">', '<span class="editsection">', '<div class="only-in-print">',
            '<table class="wikitable" style="width:900px">', '| colspan="3" |', '| rowspan="2" |', '| colspan="-1" |', '| colspan="x" |',
            '| colspan="99999" |', '| style="width:50%" |', '<div style="clear:both">', '<div class="references-small">', '<sup class="reference">',
            '<ref group="n">', '<references group="n"/>', '[[File:BSicon_x.svg]]', '[[File:sound.ogg]]', '<div dir="rtl">', '{| class="toccolours"',
            '<div class="dablink">', '<div class="notice">', '<span style="font-size:200%">', '<div style="float:right">', '<center>', '<div align="center">']


def fuzz_text(rng: random.Random, n=None):
    k = n or rng.randint(3, 40)
    parts = []
    for _ in range(k):
        x = rng.random()
        if x < 0.12:
            parts.append(rng.choice(TRIGGERS))
        elif x < 0.2:
            parts.append("\n" + rng.choice(["*", "#", ":", ";", "{|", "|-", "|", "!", "|}", "==", " "]))
        else:
            parts.append(rng.choice(LEXEMES))
    return "".join(parts)


def trigger_doc(rng: random.Random):
    """a well-formed document with attribute triggers attached to its tables/divs (C06's directed inputs)."""
    g = dc.Gen(rng)
    d = g.doc()
    text = dc.Render(rng).doc(d)
    lines = text.split("\n")
    out = []
    for ln in lines:
        if ln.startswith("{|") and rng.random() < 0.7:
            ln = rng.choice([t for t in TRIGGERS if t.startswith("{|")])
        if ln.startswith("| ") and rng.random() < 0.15:
            ln = rng.choice([t for t in TRIGGERS if t.startswith("| ")]) + ln[1:]
        out.append(ln)
        if rng.random() < 0.08:
            t = rng.choice([t for t in TRIGGERS if t.startswith("<div") or t.startswith("<span") or t.startswith("<table")])
            tag = t[1:t.index(" ")] if " " in t else t[1:-1]
            out.append(t)
            out.append(rng.choice(["inner wqx", "{|\n| a || b\n|-\n| c || d\n|}", "* li", "<ref name=r>rr</ref> <ref name=r/>", "[[File:a.png|thumb|cap wqy]]"]))
            out.append("</%s>" % tag)
    return "\n".join(out)


def passes():
    from mwlib.parser.treecleaner import TreeCleaner

    return list(TreeCleaner.cleaner_methods)


def build(text, db=None):
    from mwlib.parser import advtree

    t = dc.parse(text, db)
    advtree.build_advanced_tree(t)
    return t


def run_passes(tree, on_pass=None, rtl=False):
    """every pass in the documented order, called directly. -> list of (pass, kind, detail) problems.
    on_pass(name, tree) is called after each pass (validation hooks)."""
    from mwlib.parser.treecleaner import TreeCleaner

    tc = TreeCleaner(tree, save_reports=False, rtl=rtl)
    problems = []
    for name in TreeCleaner.cleaner_methods:
        fn = getattr(tc, name)
        t0 = time.process_time()
        try:
            fn(tree)
        except RecursionError:
            problems.append((name, "raised", "RecursionError"))
        except Exception as e:  # noqa: BLE001
            problems.append((name, "raised", f"{type(e).__name__}: {str(e)[:160]}"))
        dt = time.process_time() - t0
        if dt > 5.0:
            problems.append((name, "slow", f"{dt:.1f} s of CPU"))
        if on_pass is not None:
            why = on_pass(name, tree)
            if why:
                problems.append((name, "invalid-tree", why))
                break
    return problems
