"""Shared by C05 / C06 / C07: drive every tree-cleaning pass directly (the cleaner's own catch-all
would hide a crashing pass) over parsed documents and markup fuzz with the attribute triggers that
switch individual passes on; validate the tree after the advanced-tree build and after every pass."""
from __future__ import annotations

import random
import time

from . import doc_common as dc

LEXEMES = ["''", "'''", "[[", "]]", "[[File:a.png|thumb|cap]]", "[[Image:b.jpg]]", "[[Category:X]]", "[[de:Y]]", "{{", "}}", "|", "=", "==", "===",
           "\n", "\n\n", " ", "*", "#", ":", ";", "----", "{|", "|}", "|-", "||", "!", "!!", "|+", "<b>", "</b>", "<i>", "</i>", "<br/>", "<br>",
           "<ref>", "</ref>", "<ref name=a>", "<ref name=a/>", "<references/>", "<div>", "</div>", "<span>", "</span>", "<center>", "</center>",
           "<table>", "</table>", "<tr>", "<td>", "</td>", "</tr>", "<th>", "<ul>", "<li>", "</li>", "</ul>", "<ol>", "<dl>", "<dt>", "<dd>", "<p>", "</p>",
           "<pre>", "</pre>", "<nowiki>", "</nowiki>", "<math>x</math>", "<gallery>\nFile:a.png|c\n</gallery>", "<blockquote>", "</blockquote>",
           "<sup>", "</sup>", "<sub>", "<small>", "<big>", "<s>", "<u>", "<code>", "<tt>", "<cite>", "<var>", "<poem>a\nb</poem>",
           "<source>x</source>", "<timeline>x</timeline>", "<imagemap>\nFile:a.png\n</imagemap>", "&amp;", "&#99999999999;", "&nbsp;", "http://x.org/y",
           "[http://x.org z]", "~~~~", "__TOC__", "__NOTOC__", "word", "Another", "x", "See also", "1", "\t", "<!-- c -->", "{{{1}}}", "{{echo|a}}",
           "<h2>", "</h2>", "<hr>", "<font color=red>", "</font>", "<strike>", "<del>", "<ins>", "<abbr title=t>", "</abbr>", "<caption>", "‎",
           "\U0001f600", "\x00", "\x0b", "<index>", "<ruby>", "<rb>", "<rt>", "<rp>"]

TRIGGERS = ['<div style="overflow:auto; height:300px">', '{| style="overflow:auto; height:200px"', '<table style="overflow:auto;height:150px">',
            '| style="overflow:auto; height:120px" |', '<div style="overflow:auto">', '<div style="overflow: auto; width:100px">', '<div id="region_list">', '<div class="noprint">',
            '<span class="noprint">', '<table class="navbox">', '<div style="position:absolute; left:3px">', '<div style="display:none">',
            '<table style="overflow:auto">', '{| style="overflow:auto"', '{| class="infobox"', '{| class="metadata"', '{| width="100%"',
            '<div class="thumb tright">', '<div class="editlink">', '<span class="editsection">', '<div class="only-in-print">',
            '<table class="wikitable" style="width:900px">', '| colspan="3" |', '| rowspan="2" |', '| colspan="-1" |', '| colspan="x" |',
            '| colspan="99999" |', '| style="width:50%" |', '<div style="clear:both">', '<div class="references-small">', '<sup class="reference">',
            '<ref group="n">', '<references group="n"/>', '[[File:BSicon_x.svg]]', '[[File:sound.ogg]]', '<div dir="rtl">', '{| class="toccolours"',
            '<div class="dablink">', '<div class="notice">', '<span style="font-size:200%">', '<div style="float:right">', '<center>', '<div align="center">']


# every place a scroll box can be written x every way a length can be written (unit, sign, zero, junk)
LENGTHS = ["300px", "80%", "100%", "2em", "12pt", "0%", "0", "auto", "1e3px", "-5px", "50", "3.5em", ".5%", "10ex", "2cm", "%", "px"]
TRIGGERS += [form % ("overflow:auto; height:" + ln) for ln in LENGTHS
             for form in ('<div style="%s">', '{| style="%s"', '| style="%s" |', '<span style="%s">')]
TRIGGERS += ['<div style="overflow:AUTO; HEIGHT:50%">', '<div style="height:75%; overflow: auto;">', '<table style="width:80%; height:40%; overflow:auto">',
             '<div style="font-size:80%">', '<div style="width:50%; margin-left:10%">', '<span style="font-size:2em; line-height:150%">']


ATTR_NAMES = ["style", "class", "id", "colspan", "rowspan", "width", "height", "align", "name", "group", "lang", "dir", "title", "border",
              "cellpadding", "bgcolor", "valign", "span", "start", "type", "value", "clear", "color", "size", "face", "nowrap"]
ATTR_VALUES = ["x", "", "2", "0", "-1", "mp-upper", "99999", "1e3", "50%", "100px", "3em", "red", "#fff", "a b", "a:b", "a:b:c", "x::y", ":", ";", ";;:",
               "color:red", "color:red;", "width:50%; height:300px", "background:url(http://x.org/a.png)", "filter:progid:DXImageTransform.M(s=1)",
               "overflow:auto; height:200px", "overflow:auto; height:80%", "height:50%", "display:none", "position:absolute", "font-size:200%", "float:right", "text-align:center",
               "border:1px solid #aaa", "width:900px", "COLOR:RED", "color : red ; ; width", "margin:0 auto", "a=b", "'", "<", ">", "&amp;", "é",
               "noprint", "infobox", "navbox", "wikitable sortable", "region_list", "references-small", "rtl", "ltr", "center", "left", "top"]


def source_words():
    """every identifier-like string constant of the cleaner's sources (class names, ids, style values the passes compare
    against): regenerated from the working tree, so a newly keyed trigger is exercised without editing this file."""
    global _SOURCE_WORDS
    if _SOURCE_WORDS is None:
        import ast
        import os
        import re

        import mwlib.parser.treecleaner as tcm

        base = os.path.dirname(os.path.dirname(tcm.__file__))
        vals = set()
        for rel in ("parser/treecleaner.py", "parser/treecleanerhelper.py", "rendering/styleutils.py", "rendering/miscutils.py", "parser/advtree.py"):
            try:
                tree = ast.parse(open(os.path.join(base, rel)).read())
            except OSError:
                continue
            for n in ast.walk(tree):
                if isinstance(n, ast.Constant) and isinstance(n.value, str) and re.fullmatch(r"[A-Za-z][\w-]{2,30}( [a-z]+){0,2}", n.value):
                    vals.add(n.value)
        _SOURCE_WORDS = sorted(vals)
    return _SOURCE_WORDS


_SOURCE_WORDS = None

# tables inside image captions (directly and inside a wrapper), nested tables with captions: containers in odd places
NESTED = ["[[File:x.jpg|thumb|foo {|\n| a || b\n|} bar]]", "[[File:x.jpg|thumb|foo <div><table><tr><td>a</td><td>b</td></tr></table></div> bar]]",
          "[[File:x.jpg|thumb|foo <center><table><tr><td>a</td></tr></table></center>]]",
          "[[File:x.jpg|thumb|<ul><li>x <table><tr><td>a</td></tr></table></li></ul>]]", "[[File:x.jpg|thumb|<blockquote>{|\n| q\n|}</blockquote>]]",
          "{|\n|+ outer\n| {|\n|+ inner\n| c || d\n|}\n| e\n|}", "<ref>{|\n| r1 || r2\n|}</ref>", "* item {|\n| l1 || l2\n|}",
          "<gallery>\nFile:a.png|cap {|\n| g\n|}\n</gallery>", "; term {|\n| t1\n|}\n: desc",
          # one-cell container tables around a big table (more than 500 characters), around two, around a small one
          "{|\n|\n{|\n| " + " ".join("cw%d" % i for i in range(120)) + " || x\n|-\n| c || d\n|}\n|}",
          "{|\n|\n{|\n| " + " ".join("cv%d" % i for i in range(70)) + "\n|}\n{|\n| " + " ".join("cu%d" % i for i in range(70)) + "\n|}\n|}",
          "{|\n|+ cap\n|\n{|\n| small || table\n|}\n|}"]


def attr_lexeme(rng: random.Random):
    """an opening tag / table line with 1-3 attributes: names in any case, values quoted any way."""
    attrs = []
    for _ in range(rng.randint(1, 3)):
        name = rng.choice(ATTR_NAMES)
        c = rng.random()
        if c < 0.2:
            name = name.upper()
        elif c < 0.35:
            name = name.capitalize()
        elif c < 0.45:
            name = name[:3] + name[3:].capitalize()
        v = rng.choice(ATTR_VALUES) if rng.random() < 0.7 else rng.choice(source_words())
        q = rng.choice(['"%s"', '"%s"', "'%s'", "%s"])
        attrs.append(name + rng.choice(["=", " = ", "="]) + q % v)
    a = " ".join(attrs)
    form = rng.choice(["<div %s>", "<span %s>", "<table %s>", "<td %s>", "<tr %s>", "<th %s>", "<ref %s>", "<p %s>", "<ul %s>", "<li %s>", "<font %s>",
                       "\n{| %s\n", "\n|- %s\n", "\n| %s |", "\n! %s |", "|| %s |", "<ol %s>", "<pre %s>", "<source %s>", "<gallery %s>", "<br %s/>",
                       "<center %s>", "<blockquote %s>", "<h2 %s>", "<caption %s>", "<hr %s>", "<references %s/>"])
    return form % a


LEXEMES += NESTED + ['{| class="mp-upper"', '| colspan="0" |', '[[File:x.jpg|thumb|', '<table>', '</table>', '<tr>', '<td>', '</td>', '</tr>']


def fuzz_text(rng: random.Random, n=None):
    k = n or rng.randint(3, 40)
    parts = []
    for _ in range(k):
        x = rng.random()
        if x < 0.08:
            parts.append(attr_lexeme(rng))
        elif x < 0.16:
            parts.append(rng.choice(TRIGGERS))
        elif x < 0.2:
            parts.append("\n" + rng.choice(["*", "#", ":", ";", "{|", "|-", "|", "!", "|}", "==", " "]))
        else:
            parts.append(rng.choice(LEXEMES))
    return "".join(parts)


def trigger_doc(rng: random.Random):
    """a well-formed document with attribute triggers attached to its tables/divs (C06's directed inputs)."""
    g = dc.Gen(rng)
    d = g.doc()
    text = dc.Render(rng).doc(d)
    lines = text.split("\n")
    out = []
    for ln in lines:
        if ln.startswith("{|") and rng.random() < 0.7:
            ln = rng.choice([t for t in TRIGGERS if t.startswith("{|")]) if rng.random() < 0.6 else "{| " + attr_lexeme(rng).split(" ", 1)[-1].rstrip(">|/\n ").replace("\n", "")
        if ln.startswith("| ") and rng.random() < 0.15:
            ln = rng.choice([t for t in TRIGGERS if t.startswith("| ")]) + ln[1:]
        out.append(ln)
        if rng.random() < 0.05:
            out.append(attr_lexeme(rng).strip("\n") + " attr wqa")
        if rng.random() < 0.04:
            out.append(rng.choice(NESTED))
        if ln.startswith("{|") and rng.random() < 0.25:       # the table keyed by a class/id the cleaner knows, not first in the article
            out[-1] = "{| %s=\"%s\"" % (rng.choice(["class", "id"]), rng.choice(source_words()))
        if ln.startswith("| ") and rng.random() < 0.06:
            out[-1] = '| colspan="%s" |%s' % (rng.choice(["0", "-1", "x", "2", "99999", ""]), ln[1:])
        if rng.random() < 0.08:
            t = rng.choice([t for t in TRIGGERS if t.startswith("<div") or t.startswith("<span") or t.startswith("<table")])
            tag = t[1:t.index(" ")] if " " in t else t[1:-1]
            out.append(t)
            out.append(rng.choice(["inner wqx", "{|\n| a || b\n|-\n| c || d\n|}", "* li", "<ref name=r>rr</ref> <ref name=r/>", "[[File:a.png|thumb|cap wqy]]"]))
            out.append("</%s>" % tag)
    return "\n".join(out)


def passes():
    from mwlib.parser.treecleaner import TreeCleaner

    return list(TreeCleaner.cleaner_methods)


def build(text, db=None):
    from mwlib.parser import advtree

    t = dc.parse(text, db)
    advtree.build_advanced_tree(t)
    return t


def run_passes(tree, on_pass=None, rtl=False):
    """every pass in the documented order, called directly. -> list of (pass, kind, detail) problems.
    on_pass(name, tree) is called after each pass (validation hooks)."""
    from mwlib.parser.treecleaner import TreeCleaner

    tc = TreeCleaner(tree, save_reports=False, rtl=rtl)
    problems = []
    for name in TreeCleaner.cleaner_methods:
        fn = getattr(tc, name)
        t0 = time.process_time()
        try:
            fn(tree)
        except RecursionError:
            problems.append((name, "raised", "RecursionError"))
        except Exception as e:  # noqa: BLE001
            problems.append((name, "raised", f"{type(e).__name__}: {str(e)[:160]}"))
        dt = time.process_time() - t0
        if dt > 5.0:
            problems.append((name, "slow", f"{dt:.1f} s of CPU"))
        if on_pass is not None:
            why = on_pass(name, tree)
            if why:
                problems.append((name, "invalid-tree", why))
                break
    return problems
