"""C15 — extraction never writes outside the destination.

L1  lean/MwVerif/Props/C15.lean   (theorems over Model/Path.lean)
L2  correspondence: Model.Path.{normpath,join,dirname,destOf,extractTarget,extractAll}
    vs os.path / mwlib.core.nuwiki.extractall run for real in a sandbox directory
L3  oracle: file-system diff around the real extractall (+ a guard on open/makedirs that
    refuses, and records, anything outside the sandbox)
"""
from __future__ import annotations

import builtins
import io
import itertools
import os
import zipfile
from collections import Counter

from . import common
from .common import Driver, enc, dec

LEVEL = "proof"
PROP_MODULES = ["MwVerif.Props.C15"]

TRUSTED = [
    "Lean 4 kernel; axioms propext, Quot.sound, Classical.choice only (audited per theorem on this run)",
    "hand-written model lean/MwVerif/Model/Path.lean of posixpath.normpath/join/dirname and nuwiki.extract_member/extractall, tied to /repo by the correspondence below",
    "the OS creates a file at the lexical path (no symlinks inside the fresh sandbox); zipfile returns member.filename as stored (checked at run time)",
    "harness/c15.py (generator, sandbox, file-system diff, open/makedirs guard)",
]


class Guard:
    """Wraps builtins.open / os.makedirs / os.mkdir while the real extractall runs: any
    write outside `root` is refused and recorded (so a broken tree cannot damage the box)."""

    def __init__(self, root):
        self.root = os.path.realpath(root) + os.sep
        self.hits = []

    def _inside(self, p):
        try:
            rp = os.path.realpath(os.fspath(p))
        except Exception:
            return True
        return (rp + os.sep).startswith(self.root)

    def __enter__(self):
        self._open, self._makedirs, self._mkdir = builtins.open, os.makedirs, os.mkdir
        g = self

        def gopen(file, mode="r", *a, **k):
            if isinstance(file, (str, bytes, os.PathLike)) and any(c in mode for c in "wax+") and not g._inside(file):
                g.hits.append(("open", os.fspath(file)))
                raise PermissionError(f"verif guard: write outside sandbox refused: {file!r}")
            return g._open(file, mode, *a, **k)

        def gmakedirs(name, *a, **k):
            if not g._inside(name):
                g.hits.append(("makedirs", os.fspath(name)))
                raise PermissionError(f"verif guard: makedirs outside sandbox refused: {name!r}")
            return g._makedirs(name, *a, **k)

        def gmkdir(name, *a, **k):
            if not g._inside(name):
                g.hits.append(("mkdir", os.fspath(name)))
                raise PermissionError(f"verif guard: mkdir outside sandbox refused: {name!r}")
            return g._mkdir(name, *a, **k)

        builtins.open, os.makedirs, os.mkdir = gopen, gmakedirs, gmkdir
        return self

    def __exit__(self, *a):
        builtins.open, os.makedirs, os.mkdir = self._open, self._makedirs, self._mkdir


def make_zip(names):
    import warnings

    warnings.simplefilter("ignore", UserWarning)
    bio = io.BytesIO()
    with zipfile.ZipFile(bio, "w") as zf:
        for i, n in enumerate(names):
            zf.writestr(zipfile.ZipInfo(n), b"x%d" % i)
    bio.seek(0)
    return zipfile.ZipFile(bio)


def snapshot(root):
    files, dirs = set(), set()
    for d, ds, fs in os.walk(root):
        for x in ds:
            dirs.add(os.path.join(d, x))
        for x in fs:
            files.add(os.path.join(d, x))
    return files, dirs


class Sandbox:
    """<scratch>/sb/l1/l2/l3/l4/l5/<dstname>  — deep enough that 5 parent references from
    the destination stay inside <scratch>/sb."""

    DSTNAME = "dst"

    def __init__(self, scratch):
        self.root = os.path.join(str(scratch), "sb")
        self.parent = os.path.join(self.root, "l1", "l2", "l3", "l4", "l5")
        self.dst = os.path.join(self.parent, self.DSTNAME)
        self.reset()

    def reset(self):
        import shutil

        shutil.rmtree(self.root, ignore_errors=True)
        os.makedirs(self.dst)
        self.base = snapshot(self.root)

    def created(self):
        f, d = snapshot(self.root)
        return f - self.base[0], d - self.base[1]

    def clean(self):
        import shutil

        f, d = self.created()
        for x in f:
            try:
                os.unlink(x)
            except OSError:
                pass
        for x in sorted(d, key=len, reverse=True):
            shutil.rmtree(x, ignore_errors=True)


def run_real(sb: Sandbox, dst_arg: str, names: list[str], cwd: str):
    """Run the real extractall. Returns dict(exc, files, dirs, guard_hits, names_as_stored)."""
    from mwlib.core import nuwiki

    zf = make_zip(names)
    stored = [zi.filename for zi in zf.infolist()]
    old = os.getcwd()
    os.chdir(cwd)
    exc = None
    try:
        with Guard(sb.root) as g:
            try:
                nuwiki.extractall(zf, dst_arg)
            except Exception as e:  # noqa: BLE001 - the kind of exception is an observable
                exc = type(e).__name__
    finally:
        os.chdir(old)
    files, dirs = sb.created()
    return {"exc": exc, "files": files, "dirs": dirs, "guard": list(g.hits), "stored": stored}


def gen_names(depth, dstname, absroots):
    comps = ["..", ".", "", "a", dstname, dstname + "x"]
    for d in range(1, depth + 1):
        for seq in itertools.product(comps, repeat=d):
            for sep in ("/", "\\"):
                rel = sep.join(seq)
                yield rel
                for root in absroots:
                    yield root + rel


def oracle(sb, r, dstreal):
    """Property oracle on the implementation alone. Returns a description or None."""
    pre = dstreal + os.sep
    outside = [p for p in sorted(r["files"] | r["dirs"]) if not p.startswith(pre)]
    if r["guard"]:
        return f"write outside the sandbox attempted: {r['guard'][:3]}"
    if outside:
        return f"created outside the destination: {outside[:3]}"
    return None


def replay(chk: common.Check, obj):
    """Re-run one recorded archive against the current tree."""
    sb = Sandbox(chk.mkscratch())
    old = obj.get("sandbox_root", sb.root)
    fix = lambda s: s.replace(old, sb.root)
    names = [fix(n) for n in obj["names"]]
    r = run_real(sb, fix(obj["dst"]), names, fix(obj["cwd"]))
    why = oracle(sb, r, os.path.realpath(sb.dst))
    chk.coverage.update({"evaluations": 1, "distinct_nontrivial": 1, "samples": [names], "explanation": "replay of one archive"})
    print("replay:", names, "->", r["exc"], sorted(r["files"]), sorted(r["dirs"]))
    if why:
        chk.violation(why, {"kind": "impl-oracle", "names": names, "dst": fix(obj["dst"]), "cwd": fix(obj["cwd"]), "why": why, "sandbox_root": sb.root},
                      sig={"kind": "outside"})


def run(chk: common.Check):
    if chk.replay:
        import json

        obj = json.load(open(chk.replay))
        if obj.get("kind") == "impl-oracle":
            return replay(chk, obj)
        print("replay file names a broken proof/correspondence; re-running the full check")
    tier = chk.tier
    res = common.lean_prove(PROP_MODULES, tier)
    chk.proof_coverage(res, TRUSTED)
    sb = Sandbox(chk.mkscratch())
    dstreal = os.path.realpath(sb.dst)
    drv = Driver("c15") if (common.LEAN / ".lake/build/bin/driver").exists() else None

    depth = 5 if tier == "thorough" else 4
    absroots = ["/", os.path.dirname(dstreal) + "/", dstreal + "/", dstreal + "x/", "//", "/../"]
    names = list(dict.fromkeys(gen_names(depth, Sandbox.DSTNAME, absroots)))
    # directory members and a few unusual ones
    rng = chk.rng
    extra = []
    for n in rng.sample(names, min(len(names), 3000)):
        extra.append(n + "/")
    extra += ["", "/", "a\x00b/../../x", "é/../../z", "a//b", "./a/./b/", "a/b/../../../" + Sandbox.DSTNAME + "/c",
              "../" + Sandbox.DSTNAME + "/ok", "../" + Sandbox.DSTNAME + "x/evil", "..\\..\\evil", "a\\..\\..\\b"]
    names += extra

    hist = Counter()
    mism = []           # correspondence differences
    oracle_viol = []
    evaluations = 0

    # ---- stream 1: pure functions normpath / join / dirname --------------------------
    pure = []
    for n in names:
        pure.append(("normpath", [n]))
        pure.append(("join", [dstreal + "/", n]))
        pure.append(("dirname", [n]))
    pure += [("normpath", [os.path.join(dstreal + "/", n)]) for n in names[:20000]]
    if drv:
        outs = drv.ask([f"{c} " + ";".join(enc(a) for a in args) for c, args in pure])
        for (c, args), o in zip(pure, outs):
            real = getattr(os.path, c)(*args)
            evaluations += 1
            if dec(o) != real:
                mism.append({"stream": "pure", "fn": c, "args": args, "model": dec(o), "impl": real})

    # ---- stream 2: single-member archives, every name, destination variants -------------
    dst_variants = [
        (sb.dst, sb.root, "abs"),
        (sb.dst + "/", sb.root, "abs-trailing"),
        (os.path.join("l1", "l2", "l3", "l4", "l5", Sandbox.DSTNAME), sb.root, "relative"),
        (os.path.join(sb.parent, "q", "..", ".", Sandbox.DSTNAME) + "//", sb.root, "unnormalised"),
    ]
    reqs, meta = [], []
    accepted_nontrivial = set()
    for n in names:
        if "\x00" in n:
            continue
        vi = 0 if tier == "quick" and len(n) > 0 and hash(n) % 4 else None
        variants = dst_variants if vi is None else dst_variants[:1]
        for dst_arg, cwd, label in variants:
            r = run_real(sb, dst_arg, [n], cwd)
            evaluations += 1
            stored = r["stored"][0]
            if stored != n:
                hist["zip-renamed"] += 1
            why = oracle(sb, r, dstreal)
            if why:
                oracle_viol.append({"dst": dst_arg, "cwd": cwd, "names": [n], "why": why})
            hist["exc:" + str(r["exc"])] += 1
            hist["dst:" + label] += 1
            reqs.append("dest " + enc(os.path.realpath(cwd)) + ";" + enc(dst_arg))
            reqs.append("all " + enc(dstreal + "/") + ";" + enc(stored))
            meta.append((dst_arg, cwd, n, stored, r))
            if r["files"] or r["dirs"]:
                accepted_nontrivial.add(stored)
            sb.clean()
    # ---- stream 3: multi-member archives (prefix-until-first-reject) -------------------
    nseq = 3000 if tier == "thorough" else 600
    pool = [n for n in names if "\x00" not in n]
    goodish = [n for n in pool if ".." not in n and not n.startswith("/")] or pool
    for _ in range(nseq):
        k = rng.randint(2, 5)
        seq = [rng.choice(goodish) if rng.random() < 0.7 else rng.choice(pool) for _ in range(k)]
        dst_arg, cwd, label = rng.choice(dst_variants)
        r = run_real(sb, dst_arg, seq, cwd)
        evaluations += 1
        why = oracle(sb, r, dstreal)
        if why:
            oracle_viol.append({"dst": dst_arg, "cwd": cwd, "names": seq, "why": why})
        hist["seq-exc:" + str(r["exc"])] += 1
        reqs.append("dest " + enc(os.path.realpath(cwd)) + ";" + enc(dst_arg))
        reqs.append("all " + ";".join([enc(dstreal + "/")] + [enc(s) for s in r["stored"]]))
        meta.append((dst_arg, cwd, seq, r["stored"], r))
        sb.clean()

    traces = 0
    if drv:
        outs = drv.ask(reqs)
        for i, (dst_arg, cwd, n, stored, r) in enumerate(meta):
            o_dest, o_all = outs[2 * i], outs[2 * i + 1]
            traces += 1
            d = {"stream": "extract", "dst": dst_arg, "cwd": cwd, "names": n}
            if dec(o_dest) != dstreal + "/":
                mism.append({**d, "what": "destination", "model": dec(o_dest), "impl": dstreal + "/"})
                continue
            m = parse_all(o_all)
            impl_rej = r["exc"] is not None
            # a file member whose target is an existing directory raises IsADirectoryError in
            # the real code *after* the containment decision; the model has no file system.
            if r["exc"] in ("IsADirectoryError", "NotADirectoryError", "FileExistsError"):
                hist["fs-conflict"] += 1
                if not r["files"] <= set(m["files"]):
                    mism.append({**d, "what": "files(fs-conflict)", "model": sorted(set(m["files"])), "impl": sorted(r["files"])})
                continue
            if m["rejected"] != impl_rej:
                mism.append({**d, "what": "accept/reject", "model": m["rejected"], "impl": r["exc"]})
                continue
            if set(m["files"]) != r["files"]:
                mism.append({**d, "what": "files", "model": sorted(set(m["files"])), "impl": sorted(r["files"])})
                continue
            need = {x for x in m["dirs"] if x.startswith(dstreal + "/")}
            if not need <= r["dirs"] | {dstreal}:
                mism.append({**d, "what": "dirs", "model": sorted(need), "impl": sorted(r["dirs"])})

    # ---------------------------------------------------------------- verdict
    chk.coverage.update(
        {
            "evaluations": evaluations,
            "distinct_nontrivial": len(accepted_nontrivial),
            "rule": f"member names = all sequences of depth<={depth} over ['..','.','','a',dst,dst+'x'] x separators '/' and '\\\\' x "
            "{relative, absolute at /, at the destination's parent, inside the destination, at the sibling dst+'x', '//', '/../'} "
            "+ directory members + unusual names; 4 destination spellings; multi-member random archives. "
            "non-trivial = distinct stored names that the real code accepted and that created something",
            "exhaustive": True,
            "traces_validated_against_impl": traces,
            "correspondence_differences": len(mism),
            "oracle_violations": len(oracle_viol),
            "histogram": dict(hist),
            "samples": [
                {"names": m[2], "dst": m[0], "exc": m[4]["exc"], "files": sorted(m[4]["files"])[:3]}
                for m in (meta[:2] + meta[len(meta) // 2 : len(meta) // 2 + 2] + meta[-2:])
            ],
        }
    )
    chk.assumptions += [
        "no symlinks inside the sandbox; POSIX path semantics",
        "names containing NUL are cut by zipfile before they reach the code (kept out of the extraction stream)",
    ]
    for v in oracle_viol[:1]:
        v = {**v, "sandbox_root": sb.root}
        chk.violation("extractall created (or tried to create) something outside the destination: " + v["why"],
                      {"kind": "impl-oracle", **v}, sig={"kind": "outside"})
    if oracle_viol:
        return
    broken = []
    if not res.ok:
        broken.append({"kind": "lean", "failed": res.failed_targets, "bad_axioms": res.bad_axioms,
                       "forbidden": res.forbidden_hits, "log_tail": res.log[-1500:]})
    if mism:
        broken.append({"kind": "correspondence", "first": mism[0], "count": len(mism)})
    if drv is None:
        broken.append({"kind": "driver-missing"})
    if broken:
        # the extended search *is* the exhaustive enumeration above (all of it ran through the oracle)
        chk.violation(
            "C15 is no longer shown to hold: " + ", ".join(b["kind"] for b in broken)
            + " broke; the file-system oracle found no escaping write on the enumeration",
            {"broken": broken, "theorems": PROP_MODULES, "searched": evaluations}, no_input=True)


def parse_all(o):
    # "<accepted|rejected> files=a;b dirs=c;d"
    head, rest = o.split(" files=", 1)
    fs, ds = rest.split(" dirs=", 1)
    return {
        "rejected": head == "rejected",
        "files": [dec(x) for x in fs.split(";") if x.strip()] if fs.strip() else [],
        "dirs": [dec(x) for x in ds.split(";") if x.strip()] if ds.strip() else [],
    }
