"""Scripted, deterministic execution of the real queue server (qs.jobs.workq + QPlugin) under
real gevent, mirroring rpcserver.handle_client: one greenlet per connection, `shutdown()` in
its `finally`, a disconnect = Greenlet.kill(block=False).

What the harness controls (all harness-side, nothing in /repo):
* qs.jobs.time   -> fake clock
* qs.jobs.random -> scripted chooser reading the tape
* qs.jobs.event  -> subclasses of gevent's AsyncResult/Event (so their notifier callbacks
                    can be recognised)
* hub.loop       -> a proxy whose run_callback *withholds* exactly three kinds of callbacks
                    (AsyncResult notifier, Event notifier, kill of a connection greenlet) in a
                    FIFO that the ops `run` / `runone` release in order.  Everything else (the
                    harness's own switching) passes through to the real loop.
"""
from __future__ import annotations

import logging
import os
import pickle
import types

import gevent
import gevent.event
import gevent.hub
from gevent.greenlet import _kill

import qs.jobs as qjobs
import qs.qserve as qserve

logging.getLogger("qs").setLevel(logging.CRITICAL)
for _n in list(logging.root.manager.loggerDict):
    if "qs" in _n or "qserve" in _n:
        logging.getLogger(_n).setLevel(logging.CRITICAL)
try:
    from qs.log import root_logger

    root_logger.setLevel(logging.CRITICAL)
except Exception:  # pragma: no cover
    pass


class QAsyncResult(gevent.event.AsyncResult):
    def __init__(self, *a, **k):
        super().__init__(*a, **k)
        self.owner = getattr(gevent.getcurrent(), "wid", None)


class QEvent(gevent.event.Event):
    pass


class _Handle:
    def __init__(self, func, args):
        self.func, self.args = func, args

    def stop(self):
        self.args = None

    close = stop

    @property
    def pending(self):
        return self.args is not None

    def __bool__(self):
        return self.args is not None


class _LoopProxy:
    def __init__(self, real):
        object.__setattr__(self, "_real", real)
        object.__setattr__(self, "captured", [])
        object.__setattr__(self, "capture", True)

    def __getattr__(self, n):
        return getattr(self._real, n)

    def __setattr__(self, n, v):
        if n in ("capture", "captured"):
            object.__setattr__(self, n, v)
        else:
            setattr(self._real, n, v)

    def run_callback(self, func, *args):
        if self.capture:
            tgt = getattr(func, "__self__", None)
            if isinstance(tgt, (QAsyncResult, QEvent)) or (func is _kill and getattr(args[0], "is_conn", False)):
                h = _Handle(func, args)
                self.captured.append(h)
                return h
        return self._real.run_callback(func, *args)


SIM = None
_PROXY = None


def _install():
    global _PROXY
    if _PROXY is None:
        hub = gevent.get_hub()
        _PROXY = _LoopProxy(hub.loop)
        hub.loop = _PROXY
        shim = types.SimpleNamespace(AsyncResult=QAsyncResult, Event=QEvent)
        qjobs.event = shim
    return _PROXY


def settle(n=2):
    for _ in range(n):
        gevent.sleep(0)


class Conn:
    def __init__(self, sim, wid):
        self.sim, self.wid = sim, wid
        self.handler = sim.Handler()
        self.state = "idle"
        self.cmdname = None
        self.alive = True
        self.dying = False
        self.mbox = None
        self.g = gevent.Greenlet(self._loop)
        self.g.is_conn = True
        self.g.wid = wid
        self.g.start()
        settle(1)

    def _loop(self):
        try:
            while True:
                self.mbox = gevent.event.AsyncResult()
                name, fn = self.mbox.get()
                self.state, self.cmdname = "busy", name
                self.sim.current = self.wid
                try:
                    r = ("ret", name, fn(self.handler))
                except gevent.GreenletExit:
                    raise
                except Exception as e:  # noqa: BLE001 - rpcserver turns it into an error reply
                    r = ("err", name, type(e).__name__)
                self.state, self.cmdname = "idle", None
                self.sim.outs.append((self.wid, r))
        finally:
            self.alive = False
            self.sim.current = self.wid
            if not self.sim.abandoned(self):
                self.handler.shutdown()

    def call(self, name, fn):
        self.mbox.set((name, fn))
        settle(2)


IDMAP: dict = {}      # model id (e.g. "n2") -> real job id string; set by the C19 check
IDINV: dict = {}
RESENC = None          # int -> result object (C19: the result dictionaries of decodeResult)
RESDEC = None


def fmt_id(i):
    if isinstance(i, int):
        return f"#{i}"
    return IDINV.get(i, str(i))


def fmt_err(e):
    if e is None:
        return "none"
    if e in ("timeout", "killed"):
        return e
    if e == "":
        return "s0"
    return "s" + str(e)[1:]


def fmt_job(j):
    info = ",".join(f"{k}:{v}" for k, v in j.info.items())
    res = "-" if j.result is None else str(RESDEC(j.result) if RESDEC else j.result)
    dl = "-" if j.deadline is None else str(j.deadline)
    return (
        f"{fmt_id(j.jobid)}>{j.serial}/{j.channel}/{j.priority}/{j.payload}/{j.timeout}/"
        f"{1 if j.done else 0}/{fmt_err(j.error)}/{res}/{info}/{j.ttl}/{dl}"
    )


def parse_id(s):
    return int(s[1:]) if s.startswith("#") else IDMAP.get(s, s)


def parse_err(s):
    if s == "none":
        return None
    if s in ("timeout", "killed"):
        return s
    if s == "s0":
        return ""
    return "e" + s[1:]


class Sim:
    """One history against the real code."""

    def __init__(self):
        global SIM
        self.proxy = _install()
        self.proxy.captured.clear()
        SIM = self
        self.clock = 1000
        self.tape = []
        self.outs = []
        self.current = None
        self.conns: dict[int, Conn] = {}
        self.incarnation = 0
        self.old_conns = []
        sim = self
        qjobs.time = types.SimpleNamespace(time=lambda: sim.clock)

        def choice(alts):
            c = sim.tape.pop(0) if sim.tape else 0
            return alts[c % len(alts)]

        qjobs.random = types.SimpleNamespace(choice=choice)
        self.db = qserve.db()
        self._mk_handler()
        self.all_jobs = []  # every job object ever created (for the oracle)
        self._orig_pushjob = None

    def _mk_handler(self):
        wq = self.db.workq
        self.Handler = type("Handler", (qserve.QPlugin,), {"workq": wq, "db": self.db})

    def abandoned(self, conn):
        return conn in self.old_conns

    @property
    def workq(self):
        return self.db.workq

    def conn(self, wid):
        c = self.conns.get(wid)
        if c is None:
            c = self.conns[wid] = Conn(self, wid)
        return c

    def busy(self, wid):
        c = self.conns.get(wid)
        if c is None:
            return False
        return (not c.alive) or c.dying or c.state != "idle"

    # ------------------------------------------------------------------ ops
    def op(self, line: str) -> str:
        """Execute one op line; returns the canonical reply line (same format as the Lean driver)."""
        t = line.split()
        self.outs = []
        name = t[0]
        out = []
        lst = lambda s: [] if s in ("-", "") else s.split(",")
        if name == "add":
            ch, prio, jid, timeout, payload = int(t[1]), int(t[2]), t[3], int(t[4]), int(t[5])
            r = self.workq.push(channel=ch, payload=payload, priority=prio, jobid=None if jid == "-" else parse_id(jid), timeout=timeout)
            out.append("id=" + fmt_id(r))
        elif name == "pull":
            w, chans = int(t[1]), [int(x) for x in lst(t[2])]
            if self.busy(w):
                out.append("busy")
            else:
                c = self.conn(w)
                c.call("pull", lambda h: h.rpc_qpull(chans))
                if c.state == "busy":
                    out.append(f"blocked:{w}")
        elif name in ("run", "runone"):
            cap = self.proxy.captured
            while cap:
                h = cap.pop(0)
                if h.args is not None:
                    self.proxy._real.run_callback(h.func, *h.args)
                    settle(2)
                if name == "runone":
                    break
        elif name == "finish":
            w, jid, res, err = int(t[1]), parse_id(t[2]), t[3], parse_err(t[4])
            if self.busy(w):
                out.append("busy")
            else:
                rv = None if res == "-" else (RESENC(int(res)) if RESENC else int(res))
                self.conn(w).call("finish", lambda h: h.rpc_qfinish(jid, result=rv, error=err))
        elif name == "kill":
            w, ids = int(t[1]), [parse_id(x) for x in lst(t[2])]
            if self.busy(w):
                out.append("busy")
            else:
                self.conn(w).call("kill", lambda h: h.rpc_qkill(ids))
        elif name == "tick":
            self.clock += int(t[1])
            self.workq.handletimeouts()
        elif name == "disconnect":
            w = int(t[1])
            c = self.conns.get(w)
            if c is not None and (c.dying or not c.alive):
                out.append("busy")
            else:
                c = self.conn(w)
                c.dying = True
                c.g.kill(block=False)
        elif name == "wait":
            w, ids = int(t[1]), [parse_id(x) for x in lst(t[2])]
            if self.busy(w):
                out.append("busy")
            else:
                c = self.conn(w)
                c.call("wait", lambda h: h.rpc_qwait(ids))
                if c.state == "busy":
                    out.append(f"blocked:{w}")
        elif name == "info":
            jid = parse_id(t[1])
            r = self.Handler().rpc_qinfo(jid)
            out.append("info:none" if r is None else "info:" + fmt_job(self.workq.id2job[jid]))
        elif name == "setinfo":
            jid = parse_id(t[1])
            kv = {int(k): int(v) for k, v in (x.split(":") for x in lst(t[2]))}
            try:
                self.Handler().rpc_qsetinfo(jid, kv)
                out.append("ok")
            except KeyError:
                out.append("keyerror")
        elif name == "watchdog":
            self.workq.dropdead()
        elif name == "restart":
            self.db = self._save_and_load(self.db)
            self.proxy.captured.clear()
            self.old_conns += list(self.conns.values())
            self.conns = {}
            self._mk_handler()
        elif name == "seed":
            self.tape = [int(x) for x in lst(t[1])]
        else:
            return "bad-op"
        for w, r in self.outs:
            kind, cmd, val = r
            if kind == "err":
                out.append("keyerror" if val == "KeyError" else "exc:" + val)
            elif cmd == "pull":
                out.append(f"pulled:{w}:{val['serial']}")
            elif cmd == "wait":
                out.append(f"waited:{w}:" + ",".join(str(x["serial"]) for x in val))
            elif cmd in ("finish", "kill"):
                out.append("ok")
        return " ".join(out) + " | " + self.snapshot()

    @staticmethod
    def _save_and_load(db):
        """the server's own way: qserve.Main.savedb() in the loop's finally, Main.loaddb() at the next start (a real file)."""
        import shutil
        import tempfile

        from qs import qserve

        d = tempfile.mkdtemp(prefix="qs-")
        try:
            m = qserve.Main.__new__(qserve.Main)
            m.data_dir = d
            m.qpath = os.path.join(d, "workq.pickle")
            m.db = db
            m.savedb()
            m2 = qserve.Main.__new__(qserve.Main)
            m2.data_dir = d
            m2.loaddb()
            return m2.db
        finally:
            shutil.rmtree(d, ignore_errors=True)

    # ------------------------------------------------------------------ observation
    def snapshot(self) -> str:
        wq = self.workq
        jobs = sorted(wq.id2job.values(), key=lambda j: j.serial)
        q = []
        for c in sorted(wq.channel2q):
            und = sorted(j.serial for j in wq.channel2q[c] if not j.done)
            if und:
                q.append(f"{c}:" + ",".join(map(str, und)))
        wt = ";".join(f"{ev.owner}:" + ",".join(map(str, ch)) for ch, ev in wq._waiters)
        run = []
        for w in sorted(self.conns):
            c = self.conns[w]
            if not c.alive:
                continue
            js = [j.serial for j in c.handler.running_jobs.values() if not j.done]
            if js:
                run.append(f"{w}:" + ",".join(map(str, js)))
        jw = ",".join(str(w) for w in sorted(self.conns) if self.conns[w].alive and self.conns[w].cmdname == "wait")
        cnt = []
        for c in sorted(wq._channel2count):
            d = wq._channel2count[c]
            cnt.append(f"{c}:{d['success']},{d['error']},{d['timeout']},{d['killed']}")
        return (
            f"now={self.clock} count={wq.count} jobs=[{';'.join(fmt_job(j) for j in jobs)}] "
            f"q=[{';'.join(q)}] wt=[{wt}] run=[{';'.join(run)}] jw=[{jw}] cnt=[{';'.join(cnt)}]"
        )

    def locations(self):
        """For the implementation-only oracle: where each unfinished known job is, from the
        queue's own structures and the live connections' running_jobs."""
        wq = self.workq
        loc = {}
        for c, heap in wq.channel2q.items():
            for j in heap:
                if not j.done:
                    loc.setdefault(j.serial, []).append(("queue", c))
        for w, c in self.conns.items():
            if c.alive:
                for j in c.handler.running_jobs.values():
                    if not j.done:
                        loc.setdefault(j.serial, []).append(("worker", w))
        return loc

    def close(self):
        """Free the greenlets of this history."""
        self.proxy.capture = False
        self.proxy.captured.clear()
        self.old_conns += list(self.conns.values())
        for c in self.old_conns:
            if c.alive:
                c.g.kill(block=False)
        settle(2)
        self.conns = {}
        self.old_conns = []
        self.proxy.capture = True
