"""C09 — opaque tags stay opaque: nowiki/pre/math/source/timeline bodies are never interpreted.

L1  lean/MwVerif/Props/C09.lean over Model/Uniq.lean (replace_tags as a left-to-right scanner with
    the comment and the tag alternative, marker format, replace_uniq)
L2  (a) translator Gen/TagNames.lean: tag names (built-ins + tagext registry), regex \\s code points,
        non-ASCII characters that match ASCII letters under re.I
    (b) correspondence: Model.replaceTags/replaceUniq vs Uniquifier on generated texts
L3  end-to-end oracle on the real parser: for tag x body x context, the tree of context[body] has the
    structure of context["Q"] and its text is that of context["Q"] with Q replaced by the body (entity-decoded
    for nowiki/pre); math/timeline/source captions equal the body.
"""
from __future__ import annotations

import html
import json
import random
import re
from collections import Counter

from . import common

LEVEL = "other"
PROP_MODULES = ["MwVerif.Props.C09"]

MARKUP = ["''", "'''", "[[", "]]", "{{", "}}", "{{{", "}}}", "|", "=", "==", "*", "#", ":", ";", "\n", " ", "<b>", "</b>", "<br/>",
          "<!--", "-->", "<ref>", "</ref>", "<nowiki>", "</nowiki>", "<pre>", "</pre>", "</source>", "</math>", "<math>", "&amp;", "&lt;",
          "&#65;", "&#x42;", "{|", "|}", "|-", "||", "!", "http://x.org/a", "----", "~~~~", "[http://y.org z]", "{{echo|w}}", "{{{1}}}",
          "foo", "Bar", "x", "1", "<div>", "</div>", "<i>", "</i>", "<s>", "__TOC__", "<gallery>", "</gallery>", "<timeline>", "<source>",
          "<syntaxhighlight>", "</syntaxhighlight>", "</timeline>", "<", ">", "/", "&", "<nowiki/>", "<references/>",
          "<noinclude>", "</noinclude>", "<includeonly>", "</includeonly>", "<onlyinclude>", "</onlyinclude>", "<noinclude/>", "<includeonly />"]

TAGS = ["nowiki", "pre", "math", "source", "syntaxhighlight", "timeline"]

CONTEXTS = {
    "top": "%s",
    "top-words": "aa %s bb",
    "list-item": "* aa %s bb",
    "numbered-item": "# aa %s",
    "table-cell": "{|\n| aa %s bb\n|}",
    "table-cell-2": "{|\n| aa || %s\n|-\n! cc !! %s\n|}",
    "bold": "'''aa %s bb'''",
    "italic-bold": "''aa '''%s''' bb''",
    "template-arg": "{{echo|aa %s bb}}",
    "template-named-arg": "{{echo|1=%s}}",
    "heading": "== aa %s ==\n\ntext",
    "definition": "; aa : %s",
    "link-caption": "[[Target|aa %s bb]]",
    "html-bold": "<b>aa %s</b>",
    # the same region reaches the tree more than once / another region of the same kind is handled first
    "template-arg-used-twice": "{{twice|aa %s bb}}",
    "template-named-arg-used-thrice": "{{thrice|x=%s}}",
    "after-ref-holding-the-same-kind": "<ref>rr %o</ref> zz %s",
    "inside-ref-after-the-same-kind": "%o zz <ref>rr %s</ref>",
    "tag-function-ref": "{{#tag:ref|aa %s bb}}",
    "twice-in-one-paragraph": "%s and %o and %s",
    # the source text of the region written out a second time as plain text
    "followed-by-its-source-in-nowiki": "%s zz %r",
    "preceded-by-its-source-in-nowiki": "%r zz %s",
}
OTHER = "qOtherq"
TIMES = {"template-arg-used-twice": 2, "template-named-arg-used-thrice": 3}      # how often the context shows its region


def closes_itself(tag, body):
    return re.search(r"</%s\s*>" % tag, body, re.I) is not None or "\x7f" in body


def closes_context(ctxname, body):
    """a context that is itself an opaque region (<ref>) ends at the first closing tag, also one inside the body (as in MediaWiki)."""
    return "ref" in ctxname and re.search(r"</ref", body, re.I) is not None


SPELL = {"<": ["&lt;", "&#60;", "&#x3c;"], ">": ["&gt;", "&#62;", "&#x3E;"], "&": ["&amp;", "&#38;"], "'": ["&#39;", "&#x27;"],
         "[": ["&#91;"], "{": ["&#123;"], "|": ["&#124;"], "=": ["&#61;"]}
INNER_NAMES = ["nowiki", "pre", "b", "ref", "math", "source", "gallery", "div", "NoWiki", "br", "noinclude", "includeonly", "onlyinclude"]


def respell(rng, body, p=0.5):
    """the same characters written as character references (some or all of the markup characters)."""
    return "".join(rng.choice(SPELL[ch]) if ch in SPELL and rng.random() < p else ch for ch in body)


def gen_body(rng):
    k = rng.randint(1, 6)
    body = "".join(rng.choice(MARKUP) for _ in range(k))
    if rng.random() < 0.25:
        body = respell(rng, body, rng.choice([0.3, 0.7, 1.0]))
    return body


def spelled_pairs():
    """<N>..</N> inside the body with its brackets written as references: every inner tag name, every spelling, mixed too."""
    out = []
    for n in INNER_NAMES:
        for lt, gt in [("&lt;", "&gt;"), ("&#60;", "&#62;"), ("&#x3c;", "&#x3E;"), ("&lt;", ">"), ("<", "&gt;")]:
            for inner in ["x", "''a''", "[[l]] {{t}}"]:
                out.append(f"{lt}{n}{gt}{inner}{lt}/{n}{gt}")
        out.append(f"&lt;{n}>x</{n}&gt;")
    return out


# ----------------------------------------------------------------------------- real side

def _db():
    from .templ_common import wiki_db

    db = wiki_db({"echo": "{{{1}}}", "twice": "{{{1}}} / {{{1}}}", "thrice": "{{{x}}}{{{x|}}} {{echo|{{{x}}}}}"})
    db.get_url = lambda *a, **k: None
    return db


def tree_sig(node, out, texts, payload):
    """structure signature (class names + tag names, pre-order) and the text leaves; `payload` collects the
    captions of Math/Timeline and the text under source TagNodes / PreFormatted separately."""
    from mwlib.parser import nodes as N

    name = type(node).__name__
    if isinstance(node, N.Text):
        texts.append(node.caption or "")
        out.append("T")
        return
    tag = getattr(node, "tagname", None) or ""
    out.append(name + ":" + str(tag))
    if name in ("Math", "Timeline"):
        payload.append((name, node.caption))
    for c in node.children:
        tree_sig(c, out, texts, payload)


def parse(text):
    from mwlib.parser.refine import uparser

    t = uparser.parse_string("T", text, wikidb=_db())
    out, texts, payload = [], [], []
    tree_sig(t, out, texts, payload)
    return out, texts, payload


def merge_T(sig):
    """adjacent text leaves are one text as far as the reader is concerned."""
    res = []
    for s in sig:
        if s == "T" and res and res[-1] == "T":
            continue
        res.append(s)
    return res


def decode_entities(s):
    """character references as wikitext has them: with their semicolon (html.unescape alone would also take '&#1' or '&#xBar')."""
    return re.sub(r"&(#[xX]?[0-9a-fA-F]+|[A-Za-z][A-Za-z0-9]*);", lambda m: html.unescape(m.group(0)), s)


def check_case(tag, body, ctxname):
    """-> None | description of the violation."""
    ctx = CONTEXTS[ctxname]
    if closes_context(ctxname, body):
        return None
    vl = " lang=x" if tag in ("source", "syntaxhighlight") else ""
    if "%r" in ctx and (tag == "nowiki" or "&" in body or re.search(r"</?nowiki", body, re.I)):
        return None                     # the copy must be one plain nowiki region showing exactly the source text
    mk = lambda b: (ctx.replace("%s", f"<{tag}{vl}>{b}</{tag}>").replace("%o", f"<{tag}{vl}>{OTHER}</{tag}>")  # noqa: E731
                    .replace("%r", f"<nowiki><{tag}{vl}>{b}</{tag}></nowiki>"))
    placeholder = "QZQ"
    try:
        s0, t0, p0 = parse(mk(placeholder))
        s1, t1, p1 = parse(mk(body))
    except Exception as e:  # noqa: BLE001
        return f"parser raised {type(e).__name__}: {e}"
    if tag in ("nowiki", "pre"):
        want = decode_entities(body)
    else:
        want = body
    n = TIMES.get(ctxname, ctx.count("%s"))
    copies = ctx.count("%r")            # nowiki copies of the region's source: they show the body as text
    if tag in ("math", "timeline"):
        caps0 = [c for _, c in p0]
        caps1 = [c for _, c in p1]
        if caps0.count(placeholder) != n:
            # every context carries every tag on the unchanged tree: a lost placeholder body is a lost body
            return f"the body {placeholder!r} did not reach the tree as the {tag} caption: {caps0!r}"
        if caps1.count(want) < n or len(caps1) != len(caps0):
            return f"{tag} caption(s) {caps1!r} are not the body {want!r}"
        if merge_T(s0) != merge_T(s1):
            return f"the body changed the structure around the {tag}: {merge_T(s1)} vs {merge_T(s0)}"
        if "".join(t0).replace(placeholder, body if copies else placeholder) != "".join(t1):
            return f"the body leaked into the surrounding text: {''.join(t1)!r} vs {''.join(t0)!r}"
        return None
    txt0, txt1 = "".join(t0), "".join(t1)
    if txt0.count(placeholder) != n + copies:
        return f"the body {placeholder!r} did not reach the tree verbatim: text {txt0!r}"
    if merge_T(s0) != merge_T(s1):
        return f"the body was interpreted: structure {merge_T(s1)} instead of {merge_T(s0)}"
    if txt1 != txt0.replace(placeholder, want):
        why = f"the body did not reach the tree verbatim: text {txt1!r} instead of {txt0.replace(placeholder, want)!r}"
        if tag == "pre" and txt1 == txt0.replace(placeholder, decode_entities(LITERAL_NOWIKI.sub(lambda m: m.group(1), body))):
            why = NOWIKI_DROPPED + why      # exactly the recorded finding: literal <nowiki>..</nowiki> pairs dropped, nothing else
        return why
    return None


LITERAL_NOWIKI = re.compile("<nowiki>(.*?)</nowiki>", re.I | re.S)
NOWIKI_DROPPED = "[literal nowiki pair dropped] "


def e2e_worker(items, extra, progress):
    import logging

    from . import build_repo

    build_repo.overlay_all()
    logging.disable(logging.WARNING)
    bad, hist = [], Counter()
    for i, (tag, body, ctx) in enumerate(items):
        if i % 64 == 0 and progress.stop_requested():
            break
        progress(i)
        why = check_case(tag, body, ctx)
        hist[tag + "/" + ctx] += 1
        if why:
            bad.append({"tag": tag, "body": body, "context": ctx, "why": why})
    return bad, dict(hist)


# ----------------------------------------------------------------------------- correspondence

ODD = ["ſ", "ı", "İ", "K", "\xa0", "\x1c", " ", "\t", "/", " /", "/ ", "\n ", "  \n"]


def gen_text(rng, names):
    parts = []
    for _ in range(rng.randint(1, 8)):
        k = rng.random()
        if k < 0.35:
            parts.append(rng.choice(MARKUP))
        elif k < 0.7:
            name = rng.choice(names) if rng.random() < 0.5 else rng.choice(TAGS + ["ref", "gallery", "time", "timeline", "pre", "do"])
            if rng.random() < 0.3:
                name = "".join(rng.choice([c.upper(), c]) for c in name)
            if rng.random() < 0.1:
                name = name.replace("s", "ſ", 1) if "s" in name and rng.random() < 0.5 else name.replace("i", rng.choice("ıİ"), 1).replace("k", "K", 1)
            vl = rng.choice(["", "", " a=b", " ", "\n x", "\xa0y", " a='>'", " a=b /", "/", " /", "x"])
            form = rng.random()
            if form < 0.2:
                parts.append("<" + name + vl + "/>")
            elif form < 0.8:
                close = name if rng.random() < 0.8 else name.upper()
                parts.append("<" + name + vl + ">" + gen_body(rng) + "</" + close + rng.choice(["", " ", "\n", "x"]) + ">")
            else:
                parts.append("<" + name + vl + ">" + gen_body(rng))
        elif k < 0.85:
            parts.append(rng.choice(["", "\n", "\n  ", " "]) + "<!--" + rng.choice(["", " c ", "-", "->", gen_body(rng)]) + rng.choice(["-->", "-->", "--", ""]) + rng.choice(["", "\n", "  \n", " "]))
        else:
            parts.append(rng.choice(ODD))
    return "".join(parts)


def corr_worker(items, extra, progress):
    from . import build_repo

    build_repo.overlay_all()
    from mwlib.utils.uniq import Uniquifier

    from .common import Driver, dec, enc

    names = extra["names"]
    reqs, meta = [], []
    hist = Counter()
    viol = []
    for i, seed in enumerate(items):
        progress(i)
        rng = random.Random(seed)
        text = gen_text(rng, names)
        if "\x7f" in text:
            continue
        u = Uniquifier()
        try:
            t = u.replace_tags(text)
            back = u.replace_uniq(t)
        except Exception as e:  # noqa: BLE001
            viol.append({"why": f"Uniquifier raised {type(e).__name__}: {e}", "text": text})
            continue
        recs = [(v["tagname"], v["inner"], v["vlist"], v["complete"]) for v in u.uniq2repl.values()]
        hist["regions-%d" % min(len(recs), 3)] += 1
        # round trip on the real code: every marker restored, nothing else touched
        if "\x7f" in back:
            viol.append({"why": "a marker was not restored: round trip loses the region", "text": text, "restored": back})
        reqs.append("rt " + enc(u.random_string) + ";" + enc(text))
        meta.append((text, t, back, recs))
    progress(len(items))
    outs = Driver("uniq").ask(reqs)
    diffs = []
    for (text, t, back, recs), o in zip(meta, outs):
        f = o.split(";")
        mt, mb = dec(f[0]), dec(f[1])
        mrecs = [tuple(dec(x) for x in r.split("|")) for r in f[2:]]
        if (mt, mb, mrecs) != (t, back, recs):
            diffs.append({"text": text, "impl": [t, back, recs], "model": [mt, mb, mrecs]})
    return diffs, viol, dict(hist)


# ----------------------------------------------------------------------------- main

def replay(chk, data):
    from . import build_repo

    build_repo.overlay_all()
    if "tag" in data:
        why = check_case(data["tag"], data["body"], data["context"])
        chk.say(f"replay: <{data['tag']}> body {data['body']!r} in {data['context']}: {why or 'holds'}")
        if why:
            chk.violation("C09 violated: " + why, data, sig={"tag": data["tag"], "kind": data.get("kind")})
        return
    if "text" in data:
        from mwlib.utils.uniq import Uniquifier

        u = Uniquifier()
        back = u.replace_uniq(u.replace_tags(data["text"]))
        chk.say(f"replay: {data['text']!r} -> {back!r}")
        if "\x7f" in back:
            chk.violation("C09 violated: a marker was not restored", data)
        return
    chk.say("replay: nothing to run for this file")


def classify(b):
    """signature of a violation for the known-findings file."""
    if b["tag"] == "pre" and b["why"].startswith(NOWIKI_DROPPED):
        return "pre-drops-nowiki-tags"
    return b["tag"] + ":" + b["context"]


def run(chk: common.Check):
    from . import build_repo, gen_tables, guard

    build_repo.overlay_all()
    if chk.replay:
        replay(chk, json.load(open(chk.replay)))
        return
    tier = chk.tier
    rng = chk.rng
    t = gen_tables.gen_c09()
    res = common.lean_prove(PROP_MODULES, tier)
    trusted = [
        "Lean 4 kernel; axioms propext, Quot.sound, Classical.choice only (audited per theorem on this run)",
        "hand-written model lean/MwVerif/Model/Uniq.lean of uniq.py: the verbose regex written out as the scanner it denotes "
        "(not a general regex engine), tied to /repo by correspondence",
        "translator: tag names, regex \\s code points and re.I fold exceptions (Gen/TagNames.lean, regenerated on this run)",
        "that the refinement passes, the template scanner and tag extensions never look inside a restored body is NOT a theorem: "
        "it is the end-to-end oracle over tag x body x context (real parser)",
        "harness/c09.py (generators, oracle); html.unescape as the reference for the entity lexemes used",
    ]
    chk.proof_coverage(res, trusted)
    scratch = str(chk.mkscratch())
    # correspondence
    nc = 40000 if tier == "thorough" else 4000
    items = [chk.seed * 10_000_000 + i for i in range(nc)]
    r1, c1 = guard.guarded_run(scratch, "harness.c09:corr_worker", items, extra={"names": t["names"]}, nproc=8, hard_timeout=60)
    diffs, viol, hist = [], [], Counter()
    for d, v, h in r1:
        diffs += d
        viol += v
        hist.update(h)
    # end to end
    ne = 40000 if tier == "thorough" else 5000
    cases = []
    corpus = common.ROOT / "corpus" / "C09" / "known.json"
    if corpus.exists():
        cases += [(e["tag"], e["body"], e["context"]) for e in json.load(open(corpus))]
    ctxs = list(CONTEXTS)
    # every single lexeme as a body, for every tag in every context (exhaustive), then random longer bodies
    for tag in TAGS:
        for lex in MARKUP:
            if not closes_itself(tag, lex):
                cases += [(tag, lex, c) for c in ctxs]
        for body in spelled_pairs():
            if not closes_itself(tag, body):
                cases += [(tag, body, c) for c in (ctxs if tag in ("pre", "nowiki") else ctxs[:3])]
    ne += len(cases)
    while len(cases) < ne:
        tag = rng.choice(TAGS)
        body = gen_body(rng)
        if closes_itself(tag, body) or (tag == "syntaxhighlight" and False):
            continue
        cases.append((tag, body, rng.choice(ctxs)))
    r2, c2 = guard.guarded_run(scratch, "harness.c09:e2e_worker", cases, nproc=16, hard_timeout=60)
    bad, ehist = [], Counter()
    for b, h in r2:
        bad += b
        ehist.update(h)
    for item, kind, detail in c1 + c2:
        viol.append({"why": f"{kind}: {detail}", "item": repr(item)[:300]})
    chk.coverage.update({
        "evaluations": nc + len(cases),
        "distinct_nontrivial": len({(a, b) for a, b, _ in cases}),
        "rule": "correspondence: texts of 1-8 parts over markup lexemes, registered tag names in mixed case and with the re.I-only "
                "spellings (ſ ı İ K), attribute lists incl. odd whitespace and trailing slashes, self-closing/closed/unclosed forms, "
                "comments with all whitespace variants. end-to-end: tag in {nowiki, pre, math, source, syntaxhighlight, timeline} x body of "
                f"1-6 lexemes from a {len(MARKUP)}-lexeme markup alphabet (bodies containing their own closing tag excluded) x {len(CONTEXTS)} "
                "contexts (top level, list item, table cell, bold, template argument, heading, definition, link caption, html bold). "
                "non-trivial = distinct (tag, body)",
        "traces_validated_against_impl": sum(v for k, v in hist.items() if k.startswith("regions")),
        "correspondence_differences": len(diffs),
        "correspondence_histogram": dict(hist),
        "e2e_cases_per_tag": {tg: sum(v for k, v in ehist.items() if k.startswith(tg + "/")) for tg in TAGS},
        "e2e_violations": len(bad),
        "tag_names": len(t["names"]),
    })
    for v in viol[:2]:
        chk.violation("C09 violated: " + v["why"], {"kind": "impl-oracle", **v}, sig={"kind": v["why"][:30]})
    seen = Counter()
    reported = 0
    for b in bad:
        k = classify(b)
        seen[k] += 1
        if seen[k] > 1 or reported >= 4:
            continue
        if chk.violation(f"C09 violated: <{b['tag']}> body {b['body']!r} in context {b['context']}: {b['why']}"[:400],
                         {"kind": k, **b}, sig={"tag": b["tag"], "kind": k}):
            reported += 1
    chk.coverage["e2e_violation_classes"] = dict(seen)
    if viol or chk.violations:
        return
    broken = []
    if not res.ok:
        broken.append({"kind": "lean", "failed": res.failed_targets, "bad_axioms": res.bad_axioms, "forbidden": res.forbidden_hits,
                       "log_tail": res.log[-1500:]})
    if diffs:
        broken.append({"kind": "correspondence", "count": len(diffs), "first": diffs[0]})
    if broken:
        chk.violation("C09 is no longer shown to hold: " + ", ".join(b["kind"] for b in broken)
                      + " broke; the round-trip and end-to-end oracles found no failing input",
                      {"broken": broken, "theorems": PROP_MODULES}, no_input=True)
