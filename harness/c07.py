"""C07 — cleaning is lossless for ordinary content.

L1  lean/MwVerif/Props/C07.lean over Model/Tree.lean: dissolving a textless wrapper and removing a
    textless subtree keep every visible word once and in reading order
L2  the tree model is tied to advtree's primitives by the C05 correspondence
L3  oracle on the real cleaner: for documents of the C02 grammar below the size heuristics and without
    removal triggers, after the complete pass sequence every word is there exactly once, in the same
    order, under the same section path, list nesting and reference; tables with >= 2 columns and
    >= 2 rows are still tables (their words still sit in cells).
"""
from __future__ import annotations

import json
import random
from collections import Counter

from . import common

LEVEL = "other"
PROP_MODULES = ["MwVerif.Props.C07"]


ROWSPLIT = "[row split interleaves the cells of a row] "


def row_split_explains(before, after):
    """True when the only change of the reading order is the one the row splitters (split_table_lists,
    split_big_table_cells) make by construction, at any table nesting level: the words of one original table row are
    permuted among themselves, every cell's own words staying in order (up to a split one level deeper), everything
    else in place."""
    path = {w: c.get("cellpath", ()) for w, c in before}
    wb, wa = [w for w, _ in before], [w for w, _ in after]

    def explains(xb, xa, level):
        if xb == xa:
            return True
        if sorted(xb) != sorted(xa):
            return False
        # row units of this level in the original order: (table number, row) for words in a table of this level, the word itself otherwise
        unit, table, last = {}, 0, None
        for w in xb:
            p = path[w]
            if len(p) <= level:
                if last is not None:
                    table += 1
                last = None
                unit[w] = ("word", w)
                continue
            ri = p[level][0]
            if last is not None and ri < last:
                table += 1
            last = ri
            unit[w] = ("row", table, ri)

        def collapse(ws):
            out = []
            for w in ws:
                if not out or out[-1] != unit[w]:
                    out.append(unit[w])
            return out

        if collapse(xb) != collapse(xa):
            return False
        for u in set(unit.values()):
            if u[0] != "row":
                continue
            cells = sorted({path[w][level][1] for w in xb if unit[w] == u})
            for ci in cells:
                cb = [w for w in xb if unit[w] == u and path[w][level][1] == ci]
                ca = [w for w in xa if unit[w] == u and path[w][level][1] == ci]
                if not explains(cb, ca, level + 1):
                    return False
        return True

    return explains(wb, wa, 0)


def check_text(text):
    """before/after oracle on a fixed wikitext (the corpus of known findings)."""
    import contextlib
    import io

    from . import clean_common as cc
    from . import doc_common as dc

    with contextlib.redirect_stdout(io.StringIO()), contextlib.redirect_stderr(io.StringIO()):
        t = cc.build(text)
        before = dc.read_tree(t)
        cc.run_passes(t)
    after = dc.read_tree(t)
    wb, wa = [w for w, _ in before], [w for w, _ in after]
    if wa != wb and sorted(wa) == sorted(wb):
        moved = [w for w, v in zip(wa, wb) if w != v][:4]
        return (ROWSPLIT if row_split_explains(before, after) else "") + f"the reading order changed: {moved} moved"
    if wa != wb:
        return "words lost or duplicated"
    return None


def check_doc(seed):
    """-> (None | why, text, stats)"""
    import contextlib
    import io

    from . import clean_common as cc
    from . import doc_common as dc

    rng = random.Random(seed)
    d = dc.Gen(rng).doc()
    text = dc.Render(rng).doc(d)
    with contextlib.redirect_stdout(io.StringIO()), contextlib.redirect_stderr(io.StringIO()):
        t = cc.build(text)
        before = dc.read_tree(t)
        probs = cc.run_passes(t)
    after = dc.read_tree(t)
    stats = {"words": len(before), "tables": text.count("{|"), "pass_problems": len(probs)}
    wb = [w for w, _ in before]
    wa = [w for w, _ in after]
    want = [w for w, _ in dc.denote(d)]
    if wb != want:
        return None, text, {**stats, "skipped-build-differs(C02)": 1}
    if len(set(wb)) != len(wb):
        return None, text, {**stats, "skipped-duplicate-words": 1}
    if wa != wb:
        lost = [w for w in wb if w not in wa]
        dup = sorted({w for w in wa if wa.count(w) > 1})
        if lost:
            return f"the words {lost[:4]} are gone after cleaning", text, stats
        if dup:
            return f"the words {dup[:4]} occur more than once after cleaning", text, stats
        return ((ROWSPLIT if row_split_explains(before, after) else "")
                + f"the reading order changed: {[w for w, v in zip(wa, wb) if w != v][:4]} moved"), text, stats
    fb = dict(before)
    for w, f in after:
        g = fb[w]
        for k, what in (("section", "section"), ("lists", "list-item nesting"), ("ref", "reference")):
            if f[k] != g[k]:
                return f"the word {w} changed its {what}: {g[k]} before, {f[k]} after", text, stats
        if g["cell"] is not None and f["cell"] is None and not g.get("caption"):
            return f"the word {w} was in a table cell {g['cell']} of a table with >= 2 columns and rows, and is in none after cleaning", text, stats
    return None, text, stats


def small_table_text(rng):
    """a table below 2 x 2 (one row or one column, with or without caption; a cell may hold a short list or a 2 x 2 table)
    between two paragraphs: such tables may be dissolved, their words and the order of the words stay."""
    n = [0]

    def w():
        n[0] += 1
        return "sw%dq" % n[0]

    if rng.random() < 0.1:
        # a 2 x 2 table of the class that the cleaner lays out column by column (split_table_to_columns), far enough from the start
        # of the article not to be taken for an infobox: the table goes and the order becomes column-wise by design, the words
        # (the caption's too) stay - only that is asked of this shape
        lines = [" ".join(w() for _ in range(45)), "", '{| class="mp-upper"']
        if rng.random() < 0.7:
            lines.append("|+ " + w())
        lines += ["| " + w() + " || " + w(), "|-", "| " + w() + " || " + w(), "|}", "", w(), ""]
        return "\n".join(lines)
    rows, cols = rng.choice([(1, 1), (1, 2), (1, 3), (2, 1), (3, 1), (1, 1), (2, 1)])
    container = rng.random() < 0.15         # a one-cell table that only wraps a 2 x 2 table (with or without a caption of its own)
    if container:
        rows, cols = 1, 1
    lines = [w(), "", "{|" + rng.choice(["", ' class="wikitable"', ' border="1"'])]
    if rng.random() < 0.6:
        lines.append("|+ " + w() + (" " + w() if rng.random() < 0.5 else ""))
    for r in range(rows):
        if r or rng.random() < 0.6:
            lines.append("|-")
        sep = "!" if r == 0 and rng.random() < 0.3 else "|"
        if rng.random() < 0.5 and not container:
            lines.append(sep + " " + (" " + sep + sep + " ").join(w() for _ in range(cols)))
        else:
            for _ in range(cols):
                k = 0.25 if container else rng.random()
                if k < 0.2:
                    lines += [sep, "* " + w(), "* " + w()]
                elif k < 0.3:
                    lines += [sep, "{|", "| " + w() + " || " + w(), "|-", "| " + w() + " || " + w(), "|}"]
                else:
                    lines.append(sep + " " + w())
    lines += ["|}", "", w(), ""]
    return "\n".join(lines)


def worker(items, extra, progress):
    import logging

    from . import build_repo

    build_repo.overlay_all()
    logging.disable(logging.WARNING)
    bad, hist = [], Counter()
    for i, seed in enumerate(items):
        if i % 32 == 0 and progress.stop_requested():
            break
        progress(i)
        try:
            if isinstance(seed, (tuple, list)):        # ("small", seed): a table below 2 x 2
                text = small_table_text(random.Random(seed[1]))
                why, stats = check_text(text), {"small-tables": 1}
                if why and 'class="mp-upper"' in text and "reading order changed" in why:
                    why = None      # column-wise order is what split_table_to_columns is for
            else:
                why, text, stats = check_doc(seed)
        except Exception as e:  # noqa: BLE001
            bad.append({"seed": seed, "text": "", "why": f"cleaning pipeline raised {type(e).__name__}: {e}"})
            continue
        hist["documents"] += 1
        for k, v in stats.items():
            hist[k] += v
        if why:
            bad.append({"seed": seed, "text": text, "why": why})
    return bad, dict(hist)


def unpack_case(rng, advtree, nodes, TreeCleaner):
    """a table (any mix of captions and rows of 0-2 cells) under an article, taken apart by the real
    `_wrap_or_append_cell_items` / `_replace_child_based_on_div_wrapper`.  -> (request line, real reply, None | violation text)"""
    wrap = rng.random() < 0.5
    art = advtree.Article()
    table = advtree.Table()
    art.append_child(table)
    k = [0]

    def leafs(parent, n):
        ids = []
        for _ in range(n):
            node = advtree.Text("w%d" % k[0]) if rng.random() < 0.6 else advtree.Paragraph()
            node._vid = k[0]
            ids.append(k[0])
            k[0] += 1
            parent.append_child(node)
        return ids

    spec = []
    for _ in range(rng.randint(0, 4)):
        if rng.random() < 0.3:
            cap = nodes.Caption()
            spec.append(("C", leafs(cap, rng.randint(0, 3))))
            table.append_child(cap)
        else:
            row = advtree.Row()
            cells = []
            for _ in range(rng.choice([1, 1, 1, 2, 0])):
                cell = advtree.Cell()
                cells.append(leafs(cell, rng.randint(0, 3)))
                row.append_child(cell)
            spec.append(("R", cells))
            table.append_child(row)
    fields = []
    for kind, x in spec:
        if kind == "C":
            fields.append("C " + " ".join(map(str, x)))
        else:
            fields.append("R")
            fields += ["c " + " ".join(map(str, c)) for c in x]
    req = "unpack %d;%s" % (wrap, ";".join(fields))
    tc = TreeCleaner(art, save_reports=False)
    divs, its = [], []
    tc._wrap_or_append_cell_items(table, wrap, divs, its)
    tc._replace_child_based_on_div_wrapper(wrap, art, table, divs, its)
    real = " ".join(("D( " + " ".join(str(x._vid) for x in ch.children) + " )") if type(ch).__name__ == "Div" else str(getattr(ch, "_vid", type(ch).__name__))
                    for ch in art.children)
    why = None
    flat = [i for kind, x in spec for i in (x if kind == "C" else [j for c in x for j in c])]
    got = []
    for ch in art.children:
        if ch.parent is not art:
            why = "a node that replaced the table has a parent link to something else"
        if type(ch).__name__ == "Div":
            for x in ch.children:
                got.append(getattr(x, "_vid", type(x).__name__))
                if x.parent is not ch:
                    why = "a child of a new Div has a parent link to something else"
        elif type(ch).__name__ in ("Row", "Cell", "Caption"):
            why = f"a {type(ch).__name__} is left outside any table"
        else:
            got.append(getattr(ch, "_vid", type(ch).__name__))
    if why is None and got != flat:
        why = f"the table's content {flat} became {got}"
    return req, real, why, spec


def columns_case(rng, advtree, nodes, TreeCleaner):
    """a table of captions and rows of 0-3 cells under an article, laid out column by column by the real
    `_remove_table_and_linearize_columns`.  -> (request line, real reply, None | violation text, spec)"""
    art = advtree.Article()
    table = advtree.Table()
    art.append_child(table)
    k = [0]

    def leafs(parent, n):
        ids = []
        for _ in range(n):
            node = advtree.Text("w%d" % k[0]) if rng.random() < 0.6 else advtree.Paragraph()
            node._vid = k[0]
            ids.append(k[0])
            k[0] += 1
            parent.append_child(node)
        return ids

    spec = []
    for _ in range(rng.randint(1, 4)):
        if rng.random() < 0.25:
            cap = nodes.Caption()
            spec.append(("C", leafs(cap, rng.randint(0, 3))))
            table.append_child(cap)
        else:
            row = advtree.Row()
            cells = []
            for _ in range(rng.choice([1, 2, 2, 3, 0])):
                cell = advtree.Cell()
                cells.append(leafs(cell, rng.randint(0, 3)))
                row.append_child(cell)
            spec.append(("R", cells))
            table.append_child(row)
    fields = []
    for kind, x in spec:
        if kind == "C":
            fields.append("C " + " ".join(map(str, x)))
        else:
            fields.append("R")
            fields += ["c " + " ".join(map(str, c)) for c in x]
    req = "columns %d;%s" % (table.numcols, ";".join(fields))
    TreeCleaner(art, save_reports=False)._remove_table_and_linearize_columns(table)
    got = [getattr(ch, "_vid", type(ch).__name__) for ch in art.children]
    real = " ".join(map(str, got))
    why = None
    flat = [i for kind, x in spec for i in (x if kind == "C" else [j for c in x for j in c])]
    if any(ch.parent is not art for ch in art.children):
        why = "a node that replaced the table has a parent link to something else"
    elif sorted(map(str, got)) != sorted(map(str, flat)):
        why = f"the table's content {flat} became {got}"
    return req, real, why, spec


def split_worker(items, extra, progress):
    """the real treecleanerhelper.split_row vs Model.splitRow: rows of 1-4 cells with 0-6 children of random estimated height."""
    import logging
    from fractions import Fraction
    from math import lcm

    from . import build_repo

    build_repo.overlay_all()
    logging.disable(logging.WARNING)
    from mwlib.parser import advtree, nodes
    from mwlib.parser import treecleanerhelper as th
    from mwlib.parser.treecleaner import TreeCleaner

    from .common import Driver

    params = TreeCleaner(nodes.Article(), save_reports=False).cell_splitter_params
    reqs, meta, viol, hist = [], [], [], Counter()
    for i, seed in enumerate(items):
        progress(i)
        if isinstance(seed, (tuple, list)):       # ("unpack", seed): a one-column table taken apart
            case, what = (columns_case, "split_table_to_columns (column by column)") if seed[0] == "columns" else \
                (unpack_case, "transform_single_col_tables (unpacking)")
            try:
                req, real, why, spec = case(random.Random(seed[1]), advtree, nodes, TreeCleaner)
            except Exception as e:  # noqa: BLE001
                viol.append({"why": f"{what} raised {type(e).__name__}: {e}", "text": repr(seed)})
                continue
            if why:
                viol.append({"why": what + ": " + why, "text": repr(spec)})
            hist["tables-unpacked" if seed[0] == "unpack" else "tables-laid-out-by-column"] += 1
            reqs.append(req)
            meta.append((spec, real))
            continue
        rng = random.Random(seed)
        row = advtree.Row()
        k = 0
        for _ in range(rng.randint(1, 4)):
            cell = advtree.Cell()
            for _ in range(rng.choice([0, 1, 1, 2, 3, 4, 6])):
                node = advtree.Paragraph() if rng.random() < 0.8 else advtree.Strong()
                node.append_child(advtree.Text("x" * rng.choice([0, 5, 40, 41, 300, 500, 560, 580, 600, 900, 2000])))
                node._vid = k
                k += 1
                cell.append_child(node)
            row.append_child(cell)
        advtree.Table().append_child(row)
        hs = [[Fraction(th.get_node_height(ch, params)) for ch in c.children] for c in row.children]
        den = lcm(*[h.denominator for c in hs for h in c], Fraction(params["maxCellHeight"]).denominator, 1)
        want = [[ch._vid for ch in c.children] for c in row.children]
        try:
            rows = th.split_row(row, params)
        except Exception as e:  # noqa: BLE001
            viol.append({"why": f"split_row raised {type(e).__name__}: {e}", "text": repr(want)})
            continue
        real = " / ".join(" | ".join(" ".join(str(ch._vid) for ch in c.children) for c in r.children) for r in rows)
        got = [[ch._vid for r in rows for ch in r.children[ci].children] for ci in range(len(want))] if rows else [[] for _ in want]
        if rows and got != want:
            viol.append({"why": f"split_row lost or re-ordered the children of a cell: {got} instead of {want}", "text": repr(want)})
        hist["rows-split"] += 1
        hist["new-rows-%d" % min(len(rows), 5)] += 1
        reqs.append("split %d;%s" % (int(Fraction(params["maxCellHeight"]) * den),
                                     ";".join(" ".join("%d:%d" % (int(h * den), v) for h, v in zip(hc, wc)) for hc, wc in zip(hs, want))))
        meta.append((want, real))
    progress(len(items))
    diffs = []
    for (want, real), o in zip(meta, Driver("splitrow").ask(reqs)):
        if real.split() != o.split():
            diffs.append({"stream": "unpack (one-column table)" if want and isinstance(want[0], tuple) else "split_row", "cells": want, "impl": real, "model": o})
    return diffs, viol, dict(hist)


def replay(chk, data):
    from . import build_repo

    build_repo.overlay_all()
    if "seed" not in data and data.get("text"):
        why = check_text(data["text"])
        chk.say(f"replay: {why or 'lossless'}")
        if why:
            chk.violation("C07 violated: " + why, data)
        return
    if "seed" in data:
        why, text, _ = check_doc(data["seed"])
        chk.say(f"replay: {why or 'lossless'}")
        if why:
            chk.violation("C07 violated: " + why, data)
        return
    chk.say("replay: nothing to run for this file")


def run(chk: common.Check):
    from . import build_repo, guard

    build_repo.overlay_all()
    if chk.replay:
        replay(chk, json.load(open(chk.replay)))
        return
    tier = chk.tier
    res = common.lean_prove(PROP_MODULES, tier)
    trusted = [
        "Lean 4 kernel; axioms propext, Quot.sound, Classical.choice only (audited per theorem on this run)",
        "tree model (Model/Tree.lean) tied to advtree's primitives by the C05 correspondence",
        "hand-written model lean/MwVerif/Model/SplitRow.lean of treecleanerhelper.split_row (heights abstract: get_node_height is run for real "
        "and its values, scaled to integers exactly, are given to the model), tied by correspondence on random rows",
        "hand-written model lean/MwVerif/Model/SingleCol.lean of how transform_single_col_tables takes a table apart (_wrap_or_append_cell_items, "
        "_replace_child_based_on_div_wrapper) and of how split_table_to_columns lays one out column by column "
        "(_remove_table_and_linearize_columns); the decisions WHETHER to do so are not modelled; tied by correspondence on random tables "
        "of captions and rows",
        "NOT a theorem: that each pass dissolves/removes only textless nodes and moves nodes without reordering text - checked by the "
        "word/ancestor oracle on the real cleaner over the document grammar",
        "harness/doc_common.py (generator, reader of sections/lists/references/cells), harness/clean_common.py (pass driver)",
    ]
    chk.proof_coverage(res, trusted)
    n = 20000 if tier == "thorough" else 2500
    items = [chk.seed * 10_000_000 + 7_000_000 + i for i in range(n)]
    items += [("small", chk.seed * 10_000_000 + 7_500_000 + i) for i in range(n // 4)]
    r, c = guard.guarded_run(str(chk.mkscratch()), "harness.c07:worker", items, nproc=16, hard_timeout=120,
                             stop_when=lambda r, c: len(c) >= 2 or sum(len(x[0]) for x in r) >= 6)
    bad, hist = [], Counter()
    for b, h in r:
        bad += b
        hist.update(h)
    for item, kind, detail in c:
        bad.append({"seed": item, "text": "", "why": f"{kind}: {detail}"})
    chk.coverage.update({
        "evaluations": n,
        "distinct_nontrivial": hist.get("documents", 0),
        "rule": "documents of the C02 grammar: intro blocks + 1-3 sections to depth 3 with body text, paragraphs, nested bullet/numbered "
                "lists, tables of 2-3 x 2-3 cells (below the 25-row / 15-column / 2500-character heuristics) with optional caption, styled and "
                "linked text, references, preformatted lines; every visible word unique; no removal trigger; plus tables below 2 x 2 (one row or "
                "one column, optional caption) between two paragraphs, words and word order only. Compared before/after the "
                "complete pass sequence: word order, section path, list nesting, reference, cell membership. non-trivial = documents",
        "histogram": dict(hist),
    })
    sitems = [chk.seed * 10_000_000 + 7_500_000 + i for i in range(20000 if tier == "thorough" else 3000)]
    sitems += [("unpack", chk.seed * 10_000_000 + 7_800_000 + i) for i in range(20000 if tier == "thorough" else 3000)]
    sitems += [("columns", chk.seed * 10_000_000 + 7_900_000 + i) for i in range(20000 if tier == "thorough" else 3000)]
    r3, c3 = guard.guarded_run(str(chk.mkscratch()), "harness.c07:split_worker", sitems, nproc=8, hard_timeout=120)
    sdiffs, shist = [], Counter()
    for d, v, h in r3:
        sdiffs += d
        shist.update(h)
        for x in v:
            bad.append({"text": x["text"], "why": x["why"]})
    for item, kind, detail in c3:
        bad.append({"seed": item, "text": "", "why": f"{kind}: {detail} (split_row)"})
    chk.coverage.update({"traces_validated_against_impl": shist.get("rows-split", 0) + shist.get("tables-unpacked", 0) + shist.get("tables-laid-out-by-column", 0), "correspondence_differences": len(sdiffs),
                         "split_row_histogram": dict(shist)})
    corpus = common.ROOT / "corpus" / "C07" / "known.json"
    if corpus.exists():
        for e in json.load(open(corpus)):
            why = check_text(e["text"])
            if why:
                bad.insert(0, {"text": e["text"], "why": why})
    seen = set()
    for b in bad:
        if b["why"].startswith(ROWSPLIT):
            chk.violation("C07 violated: " + b["why"], b, sig={"kind": "row-split-interleaves-cells"})
            continue
        k = b["why"][:25]
        if k in seen or len(seen) >= 3:
            continue
        seen.add(k)
        chk.violation("C07 violated: " + b["why"], b, sig={"why": b["why"][:25]})
    if chk.violations:
        return
    broken = []
    if not res.ok:
        broken.append({"kind": "lean", "failed": res.failed_targets, "bad_axioms": res.bad_axioms, "forbidden": res.forbidden_hits,
                       "log_tail": res.log[-1500:]})
    if sdiffs:
        broken.append({"kind": "correspondence(split_row)", "count": len(sdiffs), "first": sdiffs[0]})
    if broken:
        chk.violation("C07 is no longer shown to hold: " + ", ".join(b["kind"] for b in broken)
                      + " broke; the word/ancestor oracle found no lossy document",
                      {"broken": broken, "theorems": PROP_MODULES}, no_input=True)
