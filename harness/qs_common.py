"""Shared machinery of the queue-server checks (C16, C17, C18, C19).

history generation (online, against the real code) -> implementation oracles (per property)
-> the same op lines through the Lean model driver -> line-by-line comparison.
"""
from __future__ import annotations

import itertools
import json
import random
from collections import Counter

from . import common
from .common import Driver

# ----------------------------------------------------------------------------- oracles


class Oracle:
    """Property oracles stated on implementation observables only (return values, id2job,
    channel queues, running_jobs of live connections, getstats)."""

    def __init__(self, sim):
        self.sim = sim
        self.viol = []  # (prop, what)
        self.handouts = Counter()  # serial -> number of hand-outs observed
        self.allowed = Counter()  # serial -> number of re-enqueueings because the holder went away
        self.holder = {}  # serial -> wid
        self.outcome = {}  # serial -> (result, error) at the time it was first seen done
        self.jobs = {}  # serial -> job object (every job ever seen in id2job)
        self.count_base = Counter()  # channel -> done jobs at last restart
        self.restarted = False
        self.done_serials = {}

    def note_jobs(self):
        for j in self.sim.workq.id2job.values():
            self.jobs.setdefault(j.serial, j)

    def bad(self, prop, what):
        self.viol.append((prop, what))
        if self.restarted and prop in ("C16", "C17"):
            # what must still hold after a save/restore is C18's claim as well
            self.viol.append(("C18", what + " (after a save/restore)"))

    # -- before an op: things that need the pre-state
    def pre(self, line):
        t = line.split()
        wq = self.sim.workq
        self.pre_count = wq.count
        self.pre_ids = {k: v for k, v in wq.id2job.items()}
        self.pre_pull_expect = None
        if t[0] == "pull" and not self.sim.busy(int(t[1])):
            chans = [int(x) for x in t[2].split(",")] if t[2] not in ("-", "") else []
            cands = []
            for c, heap in wq.channel2q.items():
                if not chans or c in chans:
                    cands += [j for j in heap if not j.done]
            if cands:
                m = min(cands, key=lambda j: (j.priority, j.serial))
                self.pre_pull_expect = m.serial
            else:
                self.pre_pull_expect = "block"
            self.pre_pull_chans = chans
        if t[0] == "restart":
            self.pre_restart = {
                k: (j.serial, j.channel, j.priority, j.payload, j.timeout, j.done, j.error, j.result, dict(j.info), j.ttl, j.deadline)
                for k, j in wq.id2job.items()
            }
        if t[0] == "disconnect":
            pass

    # -- after an op
    def post(self, line, reply):
        t = line.split()
        sim = self.sim
        wq = sim.workq
        self.note_jobs()
        outs = reply.split(" | ")[0].split()
        if t[0] == "restart":
            self.holder.clear()
            self.restarted = True
        # hand-outs observed
        for o in outs:
            if o.startswith("pulled:"):
                _, w, s = o.split(":")
                w, s = int(w), int(s)
                j = self.jobs.get(s)
                self.handouts[s] += 1
                prev = self.holder.get(s)
                if prev is not None:
                    pc = sim.conns.get(prev)
                    if pc is not None and pc.alive:
                        self.bad("C16", f"job serial {s} handed to worker {w} while worker {prev}, which received it earlier, is still connected")
                    else:
                        self.allowed[s] += 1  # re-enqueued because its holder's connection dropped
                self.holder[s] = w
                if j is None:
                    self.bad("C16", f"worker {w} received unknown job serial {s}")
                    continue
                if j.done:
                    self.bad("C17", f"finished job {j.jobid!r} (serial {s}, error={j.error!r}) handed to worker {w}")
            if o.startswith("waited:"):
                _, w, ss = o.split(":")
                for s in ss.split(","):
                    if s and not self.jobs[int(s)].done:
                        self.bad("C17", f"wait returned to {w} although job serial {s} is not finished")
        # immediate pull: order / eligibility
        if t[0] == "pull" and self.pre_pull_expect is not None:
            got = [o for o in outs if o.startswith("pulled:")]
            if self.pre_pull_expect == "block":
                if got:
                    self.bad("C17", f"pull returned {got} although no eligible job was queued")
            else:
                if not got:
                    self.bad("C17", f"pull blocked although job serial {self.pre_pull_expect} was queued and eligible")
                elif int(got[0].split(":")[2]) != self.pre_pull_expect:
                    self.bad("C17", f"pull returned serial {got[0].split(':')[2]}, expected the (priority, age) minimum {self.pre_pull_expect}")
        if t[0] == "pull":
            self.chans_of = getattr(self, "chans_of", {})
            if not outs or outs[0] != "busy":
                self.chans_of[int(t[1])] = [int(x) for x in t[2].split(",")] if t[2] not in ("-", "") else []
        for o in outs:
            if o.startswith("pulled:"):
                _, w, s = o.split(":")
                j = self.jobs.get(int(s))
                # eligibility: channels of the pull that is being answered
                chans = getattr(self, "chans_of", {}).get(int(w))
                if j is not None and chans and j.channel not in chans:
                    self.bad("C17", f"worker {w} asked for channels {chans} and received a job of channel {j.channel}")
        if t[0] == "tick":
            # the timeout sweep has just run: whatever is past its deadline is finished now
            now = sim.clock
            for deadline, j in list(wq.timeoutq):        # (deadline, job) wherever it sits in the list
                if not j.done and deadline <= now:
                    self.bad("C18" if self.restarted else "C17",
                             f"job {j.jobid!r} (serial {j.serial}) is past its deadline ({deadline} <= {now}) and still unfinished after the timeout sweep"
                             + (" - a restored job is no longer subject to its timeout" if self.restarted else ""))
        if t[0] in ("finish", "kill") and outs and outs[0] == "ok":
            pass
        # finality
        for s, j in self.jobs.items():
            if j.done:
                oc = (j.result, j.error)
                if s in self.outcome:
                    if self.outcome[s] != oc:
                        self.bad("C17", f"outcome of finished job serial {s} changed from {self.outcome[s]} to {oc}")
                else:
                    self.outcome[s] = oc
            elif s in self.outcome:
                self.bad("C17", f"job serial {s} was finished and is unfinished again")
        # idempotent add
        if t[0] == "add" and t[3] != "-":
            from . import qsim as _q

            rid = _q.parse_id(t[3])
            old = self.pre_ids.get(rid)
            if old is not None and old.error != "killed":
                if wq.count != self.pre_count or wq.id2job.get(rid) is not old or outs[0] != "id=" + t[3]:
                    self.bad("C17", f"add under existing id {t[3]} created a second job / returned {outs[0]}")
        # locations (C16)
        quiescent = not sim.proxy.captured
        loc = sim.locations()
        for s, j in self.jobs.items():
            if j.done:
                continue
            n = len(loc.get(s, []))
            if n > 1:
                self.bad("C16", f"unfinished job serial {s} is in {n} places: {loc[s]}")
            if n == 0 and quiescent and t[0] != "disconnect":
                self.bad("C16", f"unfinished job {j.jobid!r} (serial {s}) is neither queued nor held by a live worker")
        # no unfinished job sits in a queue while a puller that asked for its channel is blocked
        for chans, ev in wq._waiters:
            for c, heap in wq.channel2q.items():
                if not chans or c in chans:
                    und = [j.serial for j in heap if not j.done]
                    if und:
                        self.bad("C17", f"job serial {min(und)} is queued on channel {c} while worker {getattr(ev, 'owner', '?')} is blocked waiting for channels {chans or 'any'}")
        # waiters released exactly when finished (at quiescent points)
        if quiescent:
            for w, c in sim.conns.items():
                if c.alive and c.cmdname == "wait" and not c.dying:
                    ids = getattr(c, "wait_ids", None)
                    if ids and all((i in wq.id2job and wq.id2job[i].done) for i in ids):
                        self.bad("C17", f"connection {w} still blocked in wait although all of {ids} are finished")
        # restart (C18)
        if t[0] == "restart":
            for s_, j in self.jobs.items():
                if j.done:
                    self.done_serials[s_] = j.channel
            self.count_base = Counter(self.done_serials.values())
            post = {
                k: (j.serial, j.channel, j.priority, j.payload, j.timeout, j.done, j.error, j.result, dict(j.info), j.ttl, j.deadline)
                for k, j in wq.id2job.items()
            }
            if post != self.pre_restart:
                diff = [k for k in set(post) | set(self.pre_restart) if post.get(k) != self.pre_restart.get(k)]
                self.bad("C18", f"jobs differ after save/restore: {diff[:3]}")
            if wq.count != self.pre_count:
                self.bad("C18", f"job counter {self.pre_count} became {wq.count} after save/restore (ids could be reused)")
            # rebind job objects (unpickled copies)
            self.jobs = {}
            self.note_jobs()
            for s, j in self.jobs.items():
                if j.done and not j.finish_event.is_set():
                    self.bad("C18", f"finished job serial {s} restored with an unset finish event (waiters would hang)")
            loc = sim.locations()
            for s, j in self.jobs.items():
                if not j.done and len([l for l in loc.get(s, []) if l[0] == "queue"]) != 1:
                    self.bad("C18", f"unfinished job serial {s} is not queued exactly once after restore: {loc.get(s)}")

        # counters (since the last restart)
        st = wq.getstats()["channel2stat"]
        for s_, j in self.jobs.items():
            if j.done:
                self.done_serials[s_] = j.channel
        done_by_chan = Counter(self.done_serials.values())
        for c in set(done_by_chan) | set(st):
            tot = sum(st.get(c, {}).values()) if c in st else 0
            if tot != done_by_chan[c] - self.count_base[c]:
                self.bad("C17", f"channel {c}: outcome counters add up to {tot}, finished jobs: {done_by_chan[c] - self.count_base[c]}")

# ----------------------------------------------------------------------------- generation


class Gen:
    """State-aware random history generator (looks at the simulation to stay mostly valid)."""

    def __init__(self, rng: random.Random, alphabet: str, nchan=2, max_jobs=6):
        self.rng = rng
        self.alpha = alphabet  # 'c16' | 'c17' | 'c18'
        self.nchan = nchan
        self.max_jobs = max_jobs
        self.next_w = 1
        self.live_w = []
        self.names = ["n1", "n2", "n3"]
        self.script = self.make_script() if alphabet in ("c17", "c18") and rng.random() < 0.3 else []

    def new_w(self):
        w = self.next_w
        self.next_w += 1
        self.live_w.append(w)
        return w

    def pick_w(self, sim, idle=True):
        self.live_w = [w for w in self.live_w if not (w in sim.conns and (not sim.conns[w].alive or sim.conns[w].dying))]
        cands = [w for w in self.live_w if not sim.busy(w)] if idle else list(self.live_w)
        if (not cands or self.rng.random() < 0.15) and len(self.live_w) < 4:
            return self.new_w()
        if not cands:
            return self.new_w()
        return self.rng.choice(cands)

    def some_id(self, sim, prefer_running_of=None):
        from .qsim import fmt_id

        wq = sim.workq
        r = self.rng
        if prefer_running_of is not None and r.random() < 0.75:
            c = sim.conns.get(prefer_running_of)
            if c and c.handler.running_jobs:
                k = r.choice(list(c.handler.running_jobs))
                return fmt_id(k)
        ids = list(wq.id2job)
        if ids and r.random() < 0.9:
            k = r.choice(ids)
            return fmt_id(k)
        return r.choice(["#99", "n9"])

    def make_script(self):
        """directed openings; the random generator takes over afterwards.
        fill-disturb-drain: several queued jobs of mixed priority in one channel, one of them killed / re-added under its id /
        timed out while queued, then the queue is drained (the order of the pulls is what the oracle judges).
        drop-newest-restart: the newest job finishes with an error, outlives its (capped) time to live, is dropped by the
        watchdog; then the server restarts and takes a new job."""
        r = self.rng
        ops = []
        if r.random() < 0.65:
            n = r.randint(3, 5)
            ids = []
            for i in range(n):
                jid = self.names[i] if i < 3 else "-"
                ids.append(jid)
                ops.append(f"add 0 {r.choice([0, 1, 2, -1, 0])} {jid} {r.choice([50, 120, 200])} {i}")
            for _ in range(r.randint(1, 2)):
                k = r.random()
                victim = r.choice([x for x in ids if x != "-"])
                if k < 0.5:
                    ops.append(f"kill 9 {victim}")
                    if r.random() < 0.8:
                        ops.append(f"add 0 {r.choice([0, 1, 2])} {victim} 120 7")
                elif k < 0.8:
                    ops.append(f"tick {r.choice([60, 130])}")
                else:
                    ops.append(f"add 0 {r.choice([0, 1])} {victim} 50 8")
            for i in range(n + 1):
                ops += [f"pull {20 + i} 0", "run"]
        else:
            ops += ["add 0 0 - 50 1", "add 0 0 - 50 2"]
            if r.random() < 0.5:
                ops.append("add 1 0 - 50 3")
            newest = 3 if len(ops) == 3 else 2
            ch = 1 if newest == 3 else 0
            ops += [f"pull 1 {ch}", "run"]
            if newest == 2:
                ops += ["pull 2 0", "run", f"finish 2 #{newest} - s1"]
            else:
                ops += [f"finish 1 #{newest} - s1"]
            ops += ["tick 40", "watchdog", "tick 40", "watchdog", "restart", "add 0 0 - 50 4", "pull 5 0,1", "run"]
        return ops

    def next(self, sim):
        r = self.rng
        wq = sim.workq
        if self.script:
            op = self.script.pop(0)
            if op == "restart":
                self.live_w = []
            return op
        weights = {
            "add": 5 if wq.count < self.max_jobs else 0.3,
            "pull": 5,
            "run": 4,
            "runone": 1.5,
            "finish": 3,
            "kill": 1.5,
            "tick": 1.5,
            "disconnect": 1.5,
            "seed": 0.7,
        }
        if self.alpha in ("c17", "c18", "c19"):
            weights.update({"wait": 1.5, "info": 0.7, "setinfo": 0.7, "watchdog": 0.5, "readd": 1.2})
        if self.alpha in ("c18",):
            weights.update({"restart": 1.5})
        elif self.alpha in ("c17",):
            weights.update({"restart": 0.3})
        ops = list(weights)
        op = r.choices(ops, [weights[o] for o in ops])[0]
        if op == "add":
            jid = "-" if r.random() < 0.6 else r.choice(self.names)
            return f"add {r.randrange(self.nchan)} {r.choice([0, 0, 1, -1])} {jid} {r.choice([50, 50, 120, 200])} {r.randrange(10)}"
        if op == "readd":
            from .qsim import fmt_id

            ids = [fmt_id(k) for k in wq.id2job if isinstance(k, str)]
            jid = r.choice(ids) if ids else r.choice(self.names)
            return f"add {r.randrange(self.nchan)} {r.choice([0, 1])} {jid} {r.choice([50, 120])} {r.randrange(10)}"
        if op == "pull":
            w = self.pick_w(sim)
            ch = r.choice(["0", "1", "-", "0,1", "1,0"]) if self.nchan == 2 else r.choice(["0", "-"])
            return f"pull {w} {ch}"
        if op in ("run", "runone", "watchdog", "restart"):
            if op == "restart":
                self.live_w = []
            return op
        if op == "finish":
            w = self.pick_w(sim)
            jid = self.some_id(sim, prefer_running_of=w)
            res = r.choice(["-", "1", "7"])
            err = r.choice(["none"] * 5 + ["s1", "s1", "s0", "killed", "timeout"])
            return f"finish {w} {jid} {res} {err}"
        if op == "kill":
            w = self.pick_w(sim)
            k = r.choice([1, 1, 2])
            return f"kill {w} " + ",".join(self.some_id(sim, prefer_running_of=w) for _ in range(k))
        if op == "tick":
            return f"tick {r.choice([10, 40, 60, 100])}"
        if op == "disconnect":
            if not self.live_w:
                return "run"
            w = r.choice(self.live_w)
            return f"disconnect {w}"
        if op == "seed":
            return "seed " + ",".join(str(r.randrange(4)) for _ in range(r.randint(1, 4)))
        if op == "wait":
            w = self.pick_w(sim)
            ids = list(dict.fromkeys(self.some_id(sim) for _ in range(r.choice([1, 1, 2]))))
            return f"wait {w} " + ",".join(ids)
        if op == "info":
            return f"info {self.some_id(sim)}"
        if op == "setinfo":
            return f"setinfo {self.some_id(sim)} {r.randrange(3)}:{r.randrange(5)}"
        return "run"


def run_history(sim_mod, lines_or_gen, nops=None):
    """Run one history on the real code. Returns (lines, replies, oracle)."""
    sim = sim_mod.Sim()
    orc = Oracle(sim)
    lines, replies = [], []
    try:
        it = lines_or_gen if isinstance(lines_or_gen, list) else None
        i = 0
        while True:
            if it is not None:
                if i >= len(it):
                    break
                line = it[i]
            else:
                if i >= nops:
                    break
                line = lines_or_gen.next(sim)
            i += 1
            orc.pre(line)
            t = line.split()
            if t[0] == "wait" and not sim.busy(int(t[1])):
                pass
            rep = sim.op(line)
            if t[0] == "wait" and rep.startswith("blocked:"):
                c = sim.conns.get(int(t[1]))
                if c is not None and c.cmdname == "wait":
                    c.wait_ids = [sim_mod.parse_id(x) for x in t[2].split(",") if x and x != "-"]
            lines.append(line)
            replies.append(rep)
            orc.post(line, rep)
    finally:
        sim.close()
    return lines, replies, orc


def model_replies(drv: Driver, histories):
    """histories: list of list of op lines -> list of list of reply lines from the Lean model."""
    req = []
    for h in histories:
        req.append("reset")
        req += h
    out = drv.ask(req)
    res, k = [], 0
    for h in histories:
        k += 1
        res.append(out[k : k + len(h)])
        k += len(h)
    return res


def compare(lines, impl, model):
    """first difference between implementation and model replies (model line has ' | inv=')."""
    for i, (l, a, b) in enumerate(zip(lines, impl, model)):
        b_core, _, inv = b.rpartition(" | inv=")
        if a.strip() != b_core.strip():
            return {"index": i, "op": l, "impl": a, "model": b_core}
        if inv.strip() != "1":
            return {"index": i, "op": l, "impl": a, "model": b_core, "model_invariant_false": True}
    return None


def shrink(sim_mod, lines, pred):
    """delta-debugging style minimisation of a failing history; pred(lines)->bool (still fails)."""
    cur = list(lines)
    n = 2
    while len(cur) >= 2:
        chunk = max(1, len(cur) // n)
        reduced = False
        for i in range(0, len(cur), chunk):
            cand = cur[:i] + cur[i + chunk :]
            if cand and pred(cand):
                cur = cand
                n = max(n - 1, 2)
                reduced = True
                break
        if not reduced:
            if chunk == 1:
                break
            n = min(n * 2, len(cur))
    return cur


# ----------------------------------------------------------------------------- exhaustive small histories


def small_alphabet(depth_alphabet="c16"):
    """The bounded alphabet of the property's quantifier (2 channels, 3 workers), with symmetry
    reduction done by the enumerator below."""
    ops = []
    for ch in (0, 1):
        for prio in (0, 1):
            ops.append(f"add {ch} {prio} - 50 0")
        ops.append(f"add {ch} 0 n1 50 0")
    for w in (1, 2, 3):
        for chans in ("0", "1", "-"):
            ops.append(f"pull {w} {chans}")
        ops.append(f"disconnect {w}")
        for jid in ("#1", "#2", "n1"):
            ops.append(f"finish {w} {jid} - none")
    ops.append("kill 9 #1")
    ops.append("kill 9 n1")
    ops.append("run")
    ops.append("tick 60")
    ops.append("seed 1")
    if depth_alphabet in ("c17", "c18"):
        ops += ["wait 8 #1", "wait 8 n1", "info #1", "finish 1 #1 - s1"]
    if depth_alphabet == "c18":
        ops.append("restart")
    return ops


def canonical_prefix_ok(hist):
    """symmetry reduction: workers appear in order 1,2,3; no op on a job id before it can exist;
    no two consecutive `run`; seed only before an add/disconnect-run that can use it."""
    seen_w = 0
    adds = 0
    named = False
    prev = None
    for op in hist:
        t = op.split()
        if t[0] in ("pull", "disconnect", "finish") :
            w = int(t[1])
            if w > seen_w + 1:
                return False
            seen_w = max(seen_w, w)
        if t[0] == "add":
            adds += 1
            if t[3] == "n1":
                named = True
        if t[0] in ("finish", "kill", "wait", "info"):
            jid = t[2] if t[0] in ("finish", "kill", "wait") else t[1]
            if jid.startswith("#") and int(jid[1:]) > adds:
                return False
            if jid == "n1" and not named:
                return False
        if t[0] == "run" and prev == "run":
            return False
        if t[0] == "seed" and prev is not None and prev.startswith("seed"):
            return False
        prev = t[0]
    return True


def enumerate_histories(alphabet, depth):
    ops = small_alphabet(alphabet)

    def rec(prefix):
        if prefix:
            yield list(prefix)
        if len(prefix) == depth:
            return
        for op in ops:
            prefix.append(op)
            if canonical_prefix_ok(prefix):
                yield from rec(prefix)
            prefix.pop()

    yield from rec([])


# ----------------------------------------------------------------------------- sharded execution


def _run_shard(args):
    """Worker process: run a shard of histories on the real code and on the model."""
    kind, payload, prop_alpha = args
    from . import qsim  # imported here: gevent state is per process

    drv = Driver("qs")
    hist = Counter()
    H, R, O = [], [], []
    if kind == "enum":
        for lines in payload:
            h, r, o = run_history(qsim, list(lines))
            H.append(h), R.append(r), O.append(o)
    else:
        seed, n, lo, hi = payload
        rng = random.Random(seed)
        for _ in range(n):
            g = Gen(rng, prop_alpha)
            h, r, o = run_history(qsim, g, rng.randint(lo, hi))
            H.append(h), R.append(r), O.append(o)
    M = model_replies(drv, H)
    diffs, viols = [], []
    nontrivial = set()
    nops = 0
    for h, r, m, o in zip(H, R, M, O):
        nops += len(h)
        for l in h:
            hist[l.split()[0]] += 1
        d = compare(h, r, m)
        if d and len(diffs) < 3:
            diffs.append({"history": h, **d})
        elif d:
            diffs.append(None)
        for p, what in o.viol[:2]:
            if len(viols) < 20:
                viols.append({"prop": p, "what": what, "history": h})
        outs = " ".join(x.split(" | ")[0] for x in r)
        if "pulled:" in outs:
            nontrivial.add(tuple(h))
            hist["histories-with-handout"] += 1
        if "blocked:" in outs:
            hist["histories-with-blocked"] += 1
        if "keyerror" in outs:
            hist["histories-with-keyerror"] += 1
        if "busy" in outs:
            hist["histories-with-busy"] += 1
    sample = [{"ops": H[i], "replies": [x.split(' | ')[0] for x in R[i]]} for i in (0, len(H) // 2) if H] if H else []
    return {
        "histories": len(H),
        "ops": nops,
        "hist": dict(hist),
        "ndiffs": len(diffs),
        "diffs": [d for d in diffs if d],
        "viols": viols,
        "nontrivial": len(nontrivial),
        "sample": sample[:2],
    }


def run_sharded(jobs, nproc=16):
    import multiprocessing as mp

    if not jobs:
        return []
    ctx = mp.get_context("spawn")
    with ctx.Pool(min(nproc, len(jobs))) as pool:
        return pool.map(_run_shard, jobs)


def minimise_violation(prop, history):
    """Shrink a history that makes the oracle report a violation of `prop`."""
    from . import qsim

    def pred(lines):
        try:
            _, _, o = run_history(qsim, list(lines))
        except Exception:
            return False
        return any(p == prop for p, _ in o.viol)

    if not pred(history):
        return history, None
    small = shrink(qsim, history, pred)
    _, _, o = run_history(qsim, list(small))
    what = next(w for p, w in o.viol if p == prop)
    return small, what


def minimise_diff(history):
    from . import qsim

    drv = Driver("qs")

    def pred(lines):
        try:
            h, r, _ = run_history(qsim, list(lines))
            m = model_replies(drv, [h])[0]
        except Exception:
            return False
        return compare(h, r, m) is not None

    if not pred(history):
        return history, None
    small = shrink(qsim, history, pred)
    h, r, _ = run_history(qsim, list(small))
    m = model_replies(drv, [h])[0]
    return small, compare(h, r, m)


QS_TRUSTED = [
    "Lean 4 kernel; axioms propext, Quot.sound, Classical.choice only (audited per theorem on this run)",
    "hand-written model lean/MwVerif/Model/Qs.lean of qs/jobs.py (job, workq), qs/qserve.py (QPlugin, pickling) and of the gevent behaviour they rely on "
    "(FIFO hub callbacks; AsyncResult/Event notification; Greenlet.kill) — tied to /repo by the correspondence run only",
    "heap internals abstracted: finished jobs lingering inside a heap are unobservable and dropped by the model's preen",
    "harness/qsim.py: scripted gevent (hub.loop proxy withholding notifier/kill callbacks), fake clock, scripted random.choice; harness/qs_common.py: generator, oracles",
    "not modelled: rpc_qdrop/waitjobs' drop branch, rpc_qprefixmatch, sockets/JSON framing of rpcserver, payloads other than small integers",
]


def qs_check(chk, prop, alpha, prop_modules, claims):
    """The C16/C17/C18 check body. `claims` = set of oracle tags that belong to this property."""
    import json as _json
    import os

    tier = chk.tier
    res = common.lean_prove(prop_modules, tier)
    chk.proof_coverage(res, QS_TRUSTED)
    nproc = min(16, os.cpu_count() or 4)

    if chk.replay:
        obj = _json.load(open(chk.replay))
        if "history" in obj:
            from . import qsim

            h, r, o = run_history(qsim, obj["history"])
            m = model_replies(Driver("qs"), [h])[0]
            for l, a, b in zip(h, r, m):
                print(">", l, "\n   impl :", a, "\n   model:", b)
            mine = [w for p, w in o.viol if p in claims]
            chk.coverage.update({"evaluations": 1, "distinct_nontrivial": 1, "samples": [h], "explanation": "replay"})
            if mine:
                chk.violation(mine[0], {"kind": "impl-oracle", "history": h}, sig={"kind": "oracle", "what": mine[0][:40]})
            return

    jobs = []
    # 1. corpus (past failures, hand-picked regressions) first
    corpus = []
    cdir = common.CORPUS / "qs"
    if cdir.exists():
        for f in sorted(cdir.glob("*.json")):
            corpus.append(_json.load(open(f))["history"])
    if corpus:
        jobs.append(("enum", corpus, alpha))
    # 2. exhaustive small histories over the property's bounded alphabet
    depth = 5 if tier == "thorough" else 4
    allh = [h for h in enumerate_histories(alpha, depth) if len(h) == depth]
    chunk = (len(allh) + nproc * 4 - 1) // (nproc * 4)
    for i in range(0, len(allh), chunk):
        jobs.append(("enum", allh[i : i + chunk], alpha))
    n_enum = len(allh)
    # 3. seeded random longer histories
    nrand = 60000 if tier == "thorough" else 6000
    per = nrand // (nproc * 2)
    for i in range(nproc * 2):
        jobs.append(("rand", (chk.seed * 1000003 + i, per, 8, 200 if tier == "thorough" else 60), alpha))
    results = run_sharded(jobs, nproc)

    tot = Counter()
    hist = Counter()
    diffs, viols, samples = [], [], []
    for r in results:
        tot["histories"] += r["histories"]
        tot["ops"] += r["ops"]
        tot["ndiffs"] += r["ndiffs"]
        tot["nontrivial"] += r["nontrivial"]
        hist.update(r["hist"])
        diffs += r["diffs"]
        viols += r["viols"]
        if len(samples) < 3:
            samples += r["sample"][:1]
    mine = [v for v in viols if v["prop"] in claims]
    other = [v for v in viols if v["prop"] not in claims]
    chk.coverage.update(
        {
            "evaluations": tot["histories"],
            "distinct_nontrivial": tot["nontrivial"],
            "rule": f"histories = corpus + ALL canonical histories of exactly {depth} ops over the bounded alphabet "
            f"(2 channels, 3 workers, job ids #1,#2,n1; symmetry-reduced; {n_enum} of them) + {nrand} seeded random histories "
            "(state-aware generator, 8..60/200 ops). non-trivial = distinct histories in which at least one job was handed to a worker",
            "exhaustive": True,
            "traces_validated_against_impl": tot["histories"],
            "operations_executed": tot["ops"],
            "correspondence_differences": tot["ndiffs"],
            "oracle_violations_this_property": len(mine),
            "oracle_violations_other_properties": len(other),
            "histogram": dict(hist),
            "samples": samples,
        }
    )
    chk.assumptions += [
        "cooperative scheduling: code between two gevent yields is atomic (as the property states)",
        "a connection sends one request at a time (rpcserver reads the next line only after replying)",
        "explicit job ids are strings; default ids are the serial numbers",
    ]
    reported = set()
    for v in mine:
        key = v["what"].split(" serial")[0][:50]
        if key in reported:
            continue
        reported.add(key)
        small, what = minimise_violation(v["prop"], v["history"])
        chk.violation(what or v["what"], {"kind": "impl-oracle", "history": small, "original_length": len(v["history"])},
                      sig={"kind": "oracle", "what": (what or v["what"])[:40]})
        if len(reported) >= 3:
            break
    if mine:
        return
    broken = []
    if not res.ok:
        broken.append({"kind": "lean", "failed": res.failed_targets, "bad_axioms": res.bad_axioms,
                       "forbidden": res.forbidden_hits, "log_tail": res.log[-1500:]})
    if tot["ndiffs"]:
        small, d = minimise_diff(diffs[0]["history"])
        broken.append({"kind": "correspondence", "count": tot["ndiffs"], "history": small, "first_difference": d})
    if broken:
        # extended search: 10x the random budget, oracle only
        ext = [("rand", (chk.seed * 7919 + 100 + i, per * 5, 8, 120), alpha) for i in range(nproc * 2)]
        found = None
        for r in run_sharded(ext, nproc):
            for v in r["viols"]:
                if v["prop"] in claims:
                    found = v
                    break
            if found:
                break
        if found:
            small, what = minimise_violation(found["prop"], found["history"])
            chk.violation(what or found["what"], {"kind": "impl-oracle", "history": small, "broken": broken},
                          sig={"kind": "oracle", "what": (what or found["what"])[:40]})
        else:
            chk.violation(
                f"{prop} is no longer shown to hold: " + ", ".join(b["kind"] for b in broken)
                + " broke; the implementation oracle found no failing history in the extended search",
                {"broken": broken, "theorems": prop_modules}, no_input=True)
