"""C08 — rendering is total and complete: every visible word reaches the output.

L1  lean/MwVerif/Props/C08.lean: generated obligations - every node class that occurs in cleaned trees of
    the document grammar has a writer method in the PDF writer (which drops unknown nodes with their
    children) and in the ODF writer; composed with C07's theorems on the tree model (what the cleaner
    hands to the writers still carries every word)
L2  translator: Gen/Writers.lean from the live writer classes and a corpus of cleaned trees
L3  end-to-end oracle on the real pipeline: collections of 1-4 documents of the C02 grammar, with and
    without chapters, with template calls resolved from the archive and images stored in the archive
    (thumbnail, inline, gallery, table cell; used several times with their own captions) are written with
    the real archive writer, zipped, opened with wiki.make_wiki and rendered without network through the
    writers' public entry points and through the single-article test mode: the PDF opens and its text
    contains every visible word; the ODF package's XML is well-formed, passes odflint and contains every word.
"""
from __future__ import annotations

import json
import os
import random
import shutil
import tempfile
from collections import Counter

from . import common

LEVEL = "other"
PROP_MODULES = ["MwVerif.Props.C08"]


def build_collection(seed, tmp):
    """-> (zip path, [(title, [words])], info)"""
    from mwlib.apps.buildzip import zip_dir
    from mwlib.core import metabook
    from mwlib.network.fetch import FsOutput
    from PIL import Image, ImageDraw

    from . import doc_common as dc

    rng = random.Random(seed)
    p = os.path.join(tmp, "nu")
    out = FsOutput(p)
    si = json.load(open(common.REPO / "src/mwlib/network/known_sites/siteinfo-en.json"))
    out.dump_json(nfo={"format": "nuwiki", "base_url": "http://x.invalid/w/", "script_extension": ".php"})
    out.write_siteinfo(si)
    narts = rng.choice([1, 1, 2, 3, 4])
    chapters = narts > 1 and rng.random() < 0.5
    nimg = rng.randint(0, 3)
    imgs = ["Pic%d.png" % i for i in range(nimg)]
    pages = {}
    words = []
    mb = metabook.Collection()
    mb.items = []
    mb.title = "Book wqbooktitle"
    g = dc.Gen(rng)
    capn = [0]

    def cap():
        capn[0] += 1
        return "wqcap%dz" % capn[0]

    target = mb
    for i in range(narts):
        d = g.doc()
        text = dc.Render(rng).doc(d)
        ws = [w for w, _ in dc.denote(d)]
        extra = []
        if rng.random() < 0.8:
            a, b = "wqt%da" % i, "wqt%db" % i
            extra.append("{{Tq|%s}} and {{Tq|%s}}" % (a, b))
            ws += ["tplword", a, "tplword", b]
        for im in imgs:
            k = rng.random()
            if k < 0.3:
                c = cap()
                extra.append("[[File:%s|thumb|%s]]" % (im, c))
                ws.append(c)
            elif k < 0.45:
                extra.append("inline [[File:%s|30px]] picture" % im)
                ws += ["inline", "picture"]
            elif k < 0.6:
                c1, c2 = cap(), cap()
                extra.append("<gallery>\nFile:%s|%s\nFile:%s|%s\n</gallery>" % (im, c1, rng.choice(imgs), c2))
                ws += [c1, c2]
            elif k < 0.75:
                c = cap()
                extra.append("{|\n| [[File:%s|thumb|%s]] || cellword\n|-\n| x1 || x2\n|}" % (im, c))
                ws += [c, "cellword", "x1", "x2"]
        text += "\n\n" + "\n\n".join(extra) + "\n"
        title = "Article wqa%d" % i
        pages[str(i)] = {"title": title, "ns": 0, "revisions": [{"*": text, "revid": 100 + i}]}
        words.append((title, ws, text))
        if chapters and i % 2 == 0:
            target = metabook.Chapter(title="Chapter wqch%d" % i, items=[])
            mb.items.append(target)
        if target is mb:
            mb.append_article(title)
        else:
            target.items.append(metabook.Article(title=title))
    pages["t"] = {"title": "Template:Tq", "ns": 10, "revisions": [{"*": "tplword ''{{{1}}}''", "revid": 99}]}
    for k, im in enumerate(imgs):
        pages["f%d" % k] = {"title": "File:" + im, "ns": 6, "revisions": [{"*": "description of %s" % im, "revid": 90 - k}]}
    out.write_pages({"pages": pages})
    for k, im in enumerate(imgs):
        img = Image.new("RGB", (120, 80), (200, 30 + 60 * k, 40))
        ImageDraw.Draw(img).rectangle([(10, 10), (60, 40)], fill=(0, 255, 0))
        img.save(out.get_imagepath("File:" + im))
        out.set_db_key("imageinfo", "File:" + im, {"url": "http://x.invalid/img/" + im, "descriptionurl": "http://x.invalid/wiki/File:" + im,
                                                   "width": 120, "height": 80, "thumburl": "http://x.invalid/img/t/" + im, "sha1": "s"})
    out.dump_json(metabook=mb)
    out.write_redirects({})
    out.close()
    z = zip_dir(p, os.path.join(tmp, "c.zip"))
    return z, words, {"articles": narts, "chapters": chapters, "images": nimg}


def pdf_text(fn):
    import pypdf

    r = pypdf.PdfReader(fn)
    return "\n".join(pg.extract_text() or "" for pg in r.pages), len(r.pages)


_LINT = {}


def odf_lint(fn):
    """odflint in process (as the repository's own test does). -> None | message"""
    import contextlib
    import io
    import sys

    exe = shutil.which("odflint") or "/venv/bin/odflint"
    if "mod" not in _LINT:
        mod = type(sys)("odflint")
        argv = sys.argv[:]
        try:
            del sys.argv[1:]
            with contextlib.suppress(SystemExit), contextlib.redirect_stderr(io.StringIO()), open(exe, "rb") as f:
                exec(compile(f.read(), exe, "exec"), mod.__dict__)  # noqa: S102
        finally:
            sys.argv[:] = argv
        _LINT["mod"] = mod
    buf = io.StringIO()
    with contextlib.redirect_stdout(buf), contextlib.redirect_stderr(buf):
        try:
            _LINT["mod"].lint(fn)
        except SystemExit:
            pass
        except Exception as e:  # noqa: BLE001
            return f"odflint raised {type(e).__name__}: {e}"
    # the repository's own test ignores this one ("odflint currently raises an error for mimetype"): it is about how
    # the zip library writes the first member, not about the document
    lines = [ln for ln in buf.getvalue().splitlines() if ln.strip() and "'mimetype' member must not have extra header info" not in ln]
    return "\n".join(lines) or None


def check_collection(seed):
    import contextlib
    import io
    import zipfile
    from xml.dom import minidom

    from mwlib.core import wiki
    from mwlib.utils.status import Status

    problems = []
    tmp = tempfile.mkdtemp(prefix="c08-", dir=str(common.BUILD))
    info = {}
    try:
        z, words, info = build_collection(seed, tmp)
        allwords = [w for _, ws, _ in words for w in ws] + [t.split()[-1] for t, _, _ in words]
        # --- PDF through the public entry point
        from mwlib.writers.rl.writer import writer as rlwriter

        env = wiki.make_wiki(z)
        fn = os.path.join(tmp, "out.pdf")
        buf = io.StringIO()
        try:
            with contextlib.redirect_stdout(buf), contextlib.redirect_stderr(buf):
                rlwriter(env, output=fn, status_callback=Status(None))
            txt, npages = pdf_text(fn)
            info["pdf_pages"] = npages
            flat = "".join(txt.split())      # a narrow table column breaks a word across lines: compare without white space
            missing = [w for w in allwords if w not in flat]
            if missing:
                problems.append(f"PDF: {len(missing)} of {len(allwords)} words are not in the book: {missing[:6]}")
        except Exception as e:  # noqa: BLE001
            problems.append(f"PDF writer raised {type(e).__name__}: {str(e)[:160]}")
        # --- ODF through the public entry point
        from mwlib.writers.odf.writer import writer as odfwriter

        env = wiki.make_wiki(z)
        fn2 = os.path.join(tmp, "out.odt")
        try:
            with contextlib.redirect_stdout(buf), contextlib.redirect_stderr(buf):
                odfwriter(env, output=fn2, status_callback=Status(None))
            zf = zipfile.ZipFile(fn2)
            xml = zf.read("content.xml").decode("utf-8")
            for member in ("content.xml", "styles.xml", "meta.xml", "META-INF/manifest.xml"):
                if member in zf.namelist():
                    minidom.parseString(zf.read(member))
            missing = [w for w in allwords if w not in xml]
            if missing:
                problems.append(f"ODF: {len(missing)} of {len(allwords)} words are not in content.xml: {missing[:6]}")
            lint = odf_lint(fn2)
            if lint:
                problems.append("ODF: odflint: " + lint[:200])
        except Exception as e:  # noqa: BLE001
            problems.append(f"ODF writer raised {type(e).__name__}: {str(e)[:160]}")
        # --- single-article test mode (first article)
        try:
            with contextlib.redirect_stdout(buf), contextlib.redirect_stderr(buf):
                t = test_mode_pdf(words[0][2], tmp)
            ws = words[0][1]
            flat = "".join(t.split())
            missing = [w for w in ws if w not in flat and not w.startswith("wqt") and w != "tplword"]
            if missing:
                problems.append(f"PDF (test mode): {len(missing)} of {len(ws)} words are not in the page: {missing[:6]}")
        except Exception as e:  # noqa: BLE001
            problems.append(f"PDF writer (test mode) raised {type(e).__name__}: {str(e)[:160]}")
        return problems, info
    finally:
        shutil.rmtree(tmp, ignore_errors=True)


def test_mode_pdf(text, tmp):
    """the single-article path of the repository's own writer tests (no archive, dummy image database)."""
    from PIL import Image
    from reportlab.lib.units import cm
    from reportlab.platypus.doctemplate import BaseDocTemplate, NextPageTemplate

    from mwlib.parser import advtree
    from mwlib.parser.refine import uparser
    from mwlib.parser.treecleaner import TreeCleaner
    from mwlib.writers.rl.pagetemplates import WikiPage
    from mwlib.writers.rl.writer import RlWriter

    class ImgDB:
        imageinfo = {}

        def __init__(self, basedir):
            self.basedir = basedir

        def get_contributors(self, name):
            return []

        def get_image_templates_and_args(self, name):
            return []

        def get_disk_path(self, name, size=None):
            fn = os.path.join(self.basedir, name.replace("/", "_").replace(":", "_"))
            if not os.path.exists(fn):
                Image.new("RGB", (100, 60), (10, 200, 30)).save(fn, "PNG")
            return fn

        def get_description_url(self, name):
            return None

        def get_url(self, name):
            return None

    tree = uparser.parse_string(title="Test", raw=text.replace("{{Tq|", "{{echo|"))
    advtree.build_advanced_tree(tree)
    TreeCleaner(tree).clean_all()
    rw = RlWriter(test_mode=True)
    rw.wikiTitle = "testwiki"
    rw.tmpdir = tmp
    rw.img_db = ImgDB(tmp)      # (the repository's own test helper still sets the pre-rename attribute imgDB)
    rw.license_checker.image_db = rw.img_db     # as writeBook does per article: without it every image is filtered out
    elements = rw.write(tree)
    fn = os.path.join(tmp, "test.pdf")
    margin = 2 * cm
    doc = BaseDocTemplate(fn, topMargin=margin, leftMargin=margin, rightMargin=margin, bottomMargin=margin)
    doc.addPageTemplates(WikiPage("Title"))
    elements.insert(0, NextPageTemplate("Title"))
    doc.build(elements)
    return pdf_text(fn)[0]


def worker(items, extra, progress):
    import logging

    logging.disable(logging.WARNING)
    os.environ["PATH"] = "/venv/bin:" + os.environ.get("PATH", "")
    from . import build_repo

    build_repo.overlay_all()
    from mwlib.utils import status as _status

    _status.Status.stdout = open(os.devnull, "w")       # progress lines would interleave with the check's own stdout
    bad, hist = [], Counter()
    for i, seed in enumerate(items):
        if i % 8 == 0 and progress.stop_requested():
            break
        progress(i)
        if isinstance(seed, dict):          # regression corpus: a fixed wikitext and the words that must reach the PDF
            tmp = tempfile.mkdtemp(prefix="c08-", dir=str(common.BUILD))
            try:
                txt = test_mode_pdf(seed["text"], tmp)
                txt = txt[0] if isinstance(txt, tuple) else txt
                flat = "".join(str(txt).split())
                missing = [w for w in seed["words"] if flat.count(w) < seed["text"].count(w)]
                if missing:
                    bad.append({"seed": None, "text": seed["text"], "why": f"PDF (test mode): the words {missing} of the regression corpus "
                                f"({seed['note']}) are not on the page as often as in the article"})
            except Exception as e:  # noqa: BLE001
                bad.append({"seed": None, "text": seed["text"], "why": f"pipeline raised {type(e).__name__}: {str(e)[:200]} on the regression corpus"})
            finally:
                shutil.rmtree(tmp, ignore_errors=True)
            hist["corpus-documents"] += 1
            continue
        try:
            problems, info = check_collection(seed)
        except Exception as e:  # noqa: BLE001
            problems, info = [f"pipeline raised {type(e).__name__}: {str(e)[:200]}"], {}
        hist["collections"] += 1
        hist["articles"] += info.get("articles", 0)
        hist["with-chapters"] += int(bool(info.get("chapters")))
        hist["images"] += info.get("images", 0)
        hist["pdf-pages"] += info.get("pdf_pages", 0)
        for p in problems[:2]:
            bad.append({"seed": seed, "why": p, **info})
    return bad, dict(hist)


class _NoProgress:
    def __call__(self, i):
        pass

    def stop_requested(self):
        return False


def replay(chk, data):
    import logging

    logging.disable(logging.WARNING)
    os.environ["PATH"] = "/venv/bin:" + os.environ.get("PATH", "")
    from . import build_repo

    build_repo.overlay_all()
    if data.get("text") and not data.get("seed"):
        bad, _ = worker([e for e in json.load(open(common.ROOT / "corpus" / "C08" / "regress.json")) if e["text"] == data["text"]]
                        or [{"text": data["text"], "words": data["text"].split(), "note": "replay"}], None, _NoProgress())
        chk.say(f"replay: {[b['why'] for b in bad] or 'every word reached the page'}")
        if bad:
            chk.violation("C08 violated: " + bad[0]["why"], data)
        return
    if data.get("seed") is not None:
        problems, info = check_collection(data["seed"])
        chk.say(f"replay: {problems[:2] or 'every word reached both outputs'}")
        if problems:
            chk.violation("C08 violated: " + problems[0], data)
        return
    chk.say("replay: nothing to run for this file")


def run(chk: common.Check):
    from . import build_repo, gen_tables, guard

    build_repo.overlay_all()
    if chk.replay:
        replay(chk, json.load(open(chk.replay)))
        return
    tier = chk.tier
    t = gen_tables.gen_c08()
    res = common.lean_prove(PROP_MODULES, tier)
    trusted = [
        "Lean 4 kernel; axioms propext, Quot.sound, Classical.choice only (audited per theorem on this run)",
        "translator: Gen/Writers.lean - node classes observed in cleaned trees of 200 generated documents (plus images/galleries) x "
        "hasattr(RlWriter, 'write'+class) / hasattr(ODFWriter, 'owrite'+class), regenerated on this run",
        "hand-written model lean/MwVerif/Model/Spans.lean of rltables.check_spans (filler cells for colspan/rowspan, clipping, padding; "
        "the SPAN style list is not modelled), tied by correspondence on every small table and random ones",
        "NOT modelled: the bodies of the ~120 writer methods, reportlab, odfpy, layout: checked end to end by rendering generated "
        "collections and reading the words back (pypdf text extraction; XML parse + odflint)",
        "fonts/images: rendering runs without network with the fonts present in the sandbox",
    ]
    chk.proof_coverage(res, trusted)
    n = 400 if tier == "thorough" else 48
    items = [chk.seed * 10_000_000 + 2_000_000 + i for i in range(n)]
    corpus = common.ROOT / "corpus" / "C08" / "regress.json"
    if corpus.exists():
        items = json.load(open(corpus)) + items
    r, c = guard.guarded_run(str(chk.mkscratch()), "harness.c08:worker", items, nproc=16, hard_timeout=300, min_shard=3,
                             stop_when=lambda r, c: len(c) >= 2 or sum(len(x[0]) for x in r) >= 6)
    bad, hist = [], Counter()
    for b, h in r:
        bad += b
        hist.update(h)
    for item, kind, detail in c:
        bad.append({"seed": item, "why": f"{kind}: {detail} while rendering"})
    # span normalisation of the PDF writer: the real check_spans vs the Lean model, on every small table and random ones
    from . import spans_corr

    sr, sc = guard.guarded_run(str(chk.mkscratch()), "harness.spans_corr:worker", spans_corr.all_items(tier, chk.seed), nproc=8, hard_timeout=120)
    sdiffs, shist = [], Counter()
    for d_, v_, h_ in sr:
        sdiffs += d_
        shist.update(h_)
        for x in v_:
            bad.append({"seed": None, "text": x["text"], "why": x["why"]})
    for item, kind, detail in sc:
        bad.append({"seed": None, "text": repr(item), "why": f"{kind}: {detail} (check_spans)"})
    chk.coverage.update({
        "traces_validated_against_impl": shist.get("tables", 0),
        "correspondence_differences": len(sdiffs),
        "check_spans_histogram": dict(shist),
        "evaluations": n,
        "distinct_nontrivial": hist.get("collections", 0),
        "rule": "collections of 1-4 documents of the C02 grammar (every section has body text), half of the multi-article ones with chapters, "
                "template calls ({{Tq|word}}) resolved from the archive, 0-3 PNG images stored in the archive and used as thumbnail with "
                "caption, inline, in a gallery and in a table cell, possibly several times with different captions; written with FsOutput, "
                "zipped, opened with wiki.make_wiki; rendered through writers.rl.writer.writer, writers.odf.writer.writer and the "
                "single-article test mode; all words unique. non-trivial = collections rendered",
        "histogram": dict(hist),
        "observed_classes": t["observed"],
    })
    seen = set()
    for b in bad:
        k = b["why"].split(":")[0] + b["why"][:22]
        if k in seen or len(seen) >= 3:
            continue
        seen.add(k)
        chk.violation("C08 violated: " + b["why"], b, sig={"kind": b["why"][:22]})
    if bad:
        return
    broken = []
    if not res.ok:
        broken.append({"kind": "lean", "failed": res.failed_targets, "missing": t.get("missing"), "bad_axioms": res.bad_axioms,
                       "forbidden": res.forbidden_hits, "log_tail": res.log[-1500:]})
    if sdiffs:
        broken.append({"kind": "correspondence(check_spans)", "count": len(sdiffs), "first": sdiffs[0]})
    if broken:
        chk.violation("C08 is no longer shown to hold: " + ", ".join(b["kind"] for b in broken) + " broke ("
                      + ", ".join(res.failed_targets or []) + "); rendering the generated collections lost no word",
                      {"broken": broken, "theorems": PROP_MODULES}, no_input=True)
