"""Documents of the well-formed grammar (C02, C05-C08): generator, wikitext renderer with spelling
variants, the structure each word's markup denotes, and a reader that recovers the same facts from a
parse tree (raw, advanced or cleaned)."""
from __future__ import annotations

import random

# ----------------------------------------------------------------------------- documents

STYLES = ["b", "i", "u", "s", "sup", "sub", "small", "big"]


class Gen:
    def __init__(self, rng: random.Random, max_depth=3, small_tables=False):
        self.rng = rng
        self.n = 0
        self.max_depth = max_depth
        self.small_tables = small_tables

    def word(self):
        self.n += 1
        return "wq%dz" % self.n

    def words(self, lo=1, hi=3):
        return [("w", self.word()) for _ in range(self.rng.randint(lo, hi))]

    def inlines(self, depth=2, allow_ref=True, allow_link=True, banned=()):
        """banned: styles already open - a style is not nested in itself (mwlib deliberately reads a repeated
        opening tag as the closing tag, a tolerance for a common typo; such markup is not well-formed)."""
        r = self.rng
        out = []
        if allow_link and r.random() < 0.06:            # nothing but unlabelled links
            for _ in range(r.randint(1, 2)):
                self.n += 1
                out.append(("link", "Tq%dz" % self.n, None))
            return out
        for _ in range(r.randint(1, 3)):
            k = r.random()
            if depth <= 0 or k < 0.45:
                out += self.words(1, 2)
            elif k < 0.65:
                st = r.choice([x for x in STYLES if x not in banned])
                out.append(("style", st, self.inlines(depth - 1, False, allow_link, tuple(banned) + (st,))))
            elif k < 0.78 and allow_link:
                if r.random() < 0.7:
                    out.append(("link", "Tg%d" % r.randint(1, 99), self.words(1, 2)))
                else:                                   # unlabelled: the target is the visible word, keep it unique
                    self.n += 1
                    out.append(("link", "Tq%dz" % self.n, None))
            elif k < 0.80 and allow_link:
                # a leading colon makes a visible link of what would otherwise be a language link, a category or an image
                pre = r.choice(["fr", "de", "es", "ja", "wikt", "commons", "Category", "Image", "File", "Talk", "User", "Help"])
                if pre in ("fr", "de", "es", "ja") and r.random() < 0.0:
                    pass
                out.append(("link", ":%s:Tk%d" % (pre, r.randint(1, 99)), self.words(1, 2)))
            elif k < 0.86 and allow_link:
                out.append(("ext", "http://ex%d.org/p" % r.randint(1, 9), self.words(1, 2)))
            elif k < 0.93 and allow_ref:
                if allow_link and r.random() < 0.3:      # a footnote that is nothing but a link (several of them look alike)
                    self.n += 1
                    out.append(("ref", [("link", "Tq%dz" % self.n, None)]))
                else:
                    out.append(("ref", self.inlines(depth - 1, False, allow_link, banned)))
            else:
                out += self.words(1, 1)
        return out

    def lst(self, depth, n=None):
        """an item may own several sub-lists (of different kinds: '** b' then '*# c')."""
        r = self.rng
        kind = r.choice(["ul", "ol"])
        items = []
        for _ in range(n or r.choice([1, 2, 3, 1, 2, 3, 6])):
            sub = None
            if depth > 0 and r.random() < 0.3:
                sub = [self.lst(depth - 1)]
                if r.random() < 0.35:
                    sub.append(self.lst(depth - 1))
                    if sub[1][1] == sub[0][1]:      # same kind twice would be one list
                        sub[1] = ("list", "ol" if sub[0][1] == "ul" else "ul", sub[1][2])
            items.append((self.inlines(1, allow_ref=False), sub))
        return ("list", kind, items)

    def table(self, depth):
        r = self.rng
        ncols = r.randint(2, 3)
        nrows = r.randint(2, 3)
        rows = []
        for ri in range(nrows):
            header = ri == 0 and r.random() < 0.6
            rows.append([(header, self.inlines(1, allow_ref=False)) for _ in range(ncols)])
        k = r.random()
        if k < 0.2:
            # a cell made of blocks: a list (1-8 items), several paragraphs, or both
            ri, ci = r.randrange(nrows), r.randrange(ncols)
            blocks = []
            for _ in range(r.randint(1, 2)):
                if depth > 0 and r.random() < 0.25:
                    blocks.append(self.table(0))          # a table nested in the cell (with its own caption now and then)
                else:
                    blocks.append(self.lst(0, r.choice([1, 2, 3, 6, 7, 8])) if r.random() < 0.6 else ("para", self.inlines(1, allow_ref=False)))
            rows[ri][ci] = (rows[ri][ci][0], {"blocks": blocks})
            if r.random() < 0.3:        # the whole row made of list cells
                rows[ri] = [(h, {"blocks": [self.lst(0, r.choice([2, 6, 7]))]}) for h, _ in rows[ri]]
        elif k < 0.27:
            # a tall cell (above the page-height heuristic of the cell splitter, below the property's 5000 characters),
            # last in its row; table < 2500 characters
            ri = r.randrange(nrows)
            paras = [("para", self.words(18, 28)) for _ in range(r.randint(4, 6))]
            rows[ri][-1] = (rows[ri][-1][0], {"blocks": paras})
        elif k < 0.33:
            ncols = 3
            rows = [[(False, self.inlines(1, allow_ref=False), 'colspan="2" rowspan="2"'), (False, self.inlines(1, allow_ref=False))],
                    [(False, self.inlines(1, allow_ref=False))],
                    [(False, self.inlines(1, allow_ref=False)) for _ in range(3)]]
        elif k < 0.37:
            ri = r.randrange(nrows)
            if len(rows[ri]) >= 2:      # a cell spanning two columns, its row one cell shorter
                rows[ri] = [(rows[ri][0][0], rows[ri][0][1], 'colspan="2"')] + rows[ri][2:] + ([rows[ri][1]] if ncols > 2 else [])
                rows[ri] = rows[ri][:ncols - 1]
        cap = self.words(1, 2) if r.random() < 0.3 else None
        return ("table", cap, rows)

    def dl(self):
        r = self.rng
        entries = []
        for _ in range(r.randint(1, 3)):
            entries.append((self.inlines(1, allow_ref=False), self.inlines(1, allow_ref=False), r.random() < 0.5))
        return ("dl", entries)

    def block(self, depth):
        r = self.rng
        k = r.random()
        if k < 0.03:
            # one italic span holding many bold spans, all on one line and all written with apostrophes
            n = r.choice([3, 9, 17, 18, 24, 40])
            return ("para", [("manybold", [(self.word(), self.word()) for _ in range(n)], self.word())])
        if k < 0.45:
            return ("para", self.inlines(2))
        if k < 0.52:
            return self.dl()
        if k < 0.72:
            return self.lst(1)
        if k < 0.9:
            return self.table(depth)
        # 1-5 consecutive space-indented lines; a line is plain words or carries inline markup after/before words
        return ("pre", [self.words(1, 3) if r.random() < 0.6 else self.words(1, 2) + self.inlines(1, allow_ref=False) + self.words(0, 1)
                        for _ in range(r.choice([1, 1, 2, 2, 3, 3, 4, 5]))])

    def section(self, level, depth):
        r = self.rng
        blocks = [("para", self.inlines(2))] + [self.block(depth) for _ in range(r.randint(0, 2))]
        subs = []
        if depth > 0 and level < 4:
            # sub-sections are usually one level deeper, sometimes two (a skipped level), in any order
            # (all sub-sections of one section on the same level: a deeper later one would belong to the earlier one)
            sub_level = min(level + r.choice([1, 1, 1, 2]), 6)
            subs = [self.section(sub_level, depth - 1) for _ in range(r.randint(0, 2))]
        return ("section", level, self.words(1, 2), blocks, subs)

    def doc(self):
        r = self.rng
        intro = [self.block(1) for _ in range(r.randint(0, 2))]
        secs = [self.section(2, self.max_depth - 1) for _ in range(r.randint(1, 3))]
        return ("doc", intro, secs)


# ----------------------------------------------------------------------------- rendering

def benign_attrs():
    """class/id values that are NOT documented removal triggers: ordinary classes, and near misses of the cleaner's own
    trigger lists (a trigger with a suffix, the single words and pairs of a multi-word match) read from the live cleaner."""
    global _BENIGN
    if _BENIGN is None:
        out = ["wikitable", "wikitable sortable", "toccolours", "plainlinks", "prettytable", "floatright", "vcard", "infobox vcard", "nowraplinks"]
        try:
            from mwlib.parser import nodes
            from mwlib.parser.treecleaner import TreeCleaner

            tc = TreeCleaner(nodes.Article(), save_reports=False)
            triggers = set(tc.no_display_classes) | set(tc.no_display_class_matches)
            for t in tc.no_display_classes[:6]:
                out += [t + "x", "x" + t]
            for m in tc.no_display_class_matches:
                ws = m.split()
                out += ws + [" ".join(ws[:2]), " ".join(ws[1:]), m + " x"]
            out = [o for o in out if o not in triggers and not (set(o.split()) & set(tc.no_display_classes))]
        except Exception:  # noqa: BLE001
            pass
        _BENIGN = out
    return _BENIGN


_BENIGN = None


class Render:
    """wikitext with equivalent spellings chosen at random (''' vs <b>, one cell per line vs ||, blank
    lines, trailing blanks)."""

    def __init__(self, rng, variants=True):
        self.rng = rng
        self.variants = variants

    def ch(self, *opts):
        return self.rng.choice(opts) if self.variants else opts[0]

    def inl(self, xs, quoted=False):
        """quoted: inside a quote-delimited style; nested bold/italic then use the HTML spelling (runs of
        five or six apostrophes are ambiguous, not "well-formed" in the property's sense)."""
        out = []
        for x in xs:
            k = x[0]
            if k == "w":
                out.append(x[1])
            elif k == "style":
                st = x[1]
                if st == "b":
                    form = self.ch("<b>%s</b>", "<strong>%s</strong>") if quoted else self.ch("'''%s'''", "<b>%s</b>", "<strong>%s</strong>")
                elif st == "i":
                    form = self.ch("<i>%s</i>", "<em>%s</em>") if quoted else self.ch("''%s''", "<i>%s</i>", "<em>%s</em>")
                else:
                    form = "<%s>%%s</%s>" % (st, st)
                out.append(form % self.inl(x[2], quoted or form.startswith("'")))
            elif k == "manybold":
                out.append("''" + " ".join("'''%s''' %s" % (b, y) for b, y in x[1]) + " " + x[2] + "''")
            elif k == "link":
                out.append("[[%s|%s]]" % (x[1], self.inl(x[2], quoted)) if x[2] is not None else "[[%s]]" % x[1])
            elif k == "ext":
                out.append("[%s %s]" % (x[1], self.inl(x[2], quoted)))
            elif k == "ref":
                out.append("<ref>%s</ref>" % self.inl(x[1], quoted))
        res = ""
        for i, part in enumerate(out):
            if i and not (part.startswith("''") and out[i - 1].endswith("''") and not part.startswith("''''")
                          and (out[i - 1].endswith("'''") != part.startswith("'''")) and self.ch(True, False)):
                res += " "
            res += part
        return res

    def lst(self, node, prefix=""):
        _, kind, items = node
        mark = prefix + ("*" if kind == "ul" else "#")
        lines = []
        for inl, sub in items:
            lines.append(mark + self.ch(" ", "") + self.inl(inl))
            for sb in sub or []:
                lines += self.lst(sb, mark)
        return lines

    def table(self, node):
        _, cap, rows = node
        lines = ["{|" + self.ch(' class="wikitable"', "", ' border="1"', ' class="%s"' % self.rng.choice(benign_attrs()),
                                ' id="%s"' % self.rng.choice(benign_attrs()).split()[0])]
        if cap is not None:
            lines.append("|+ " + self.inl(cap))
        for ri, row in enumerate(rows):
            if ri > 0 or self.ch(True, True, False):     # the row marker before the first row is optional
                lines.append("|-")
            header = row[0][0]
            sep = "!" if header else "|"
            blocky = any(isinstance(c[1], dict) or len(c) > 2 for c in row)
            if not blocky and self.ch(True, False):
                lines.append(sep + " " + (" " + sep + sep + " ").join(self.inl(c[1]) for c in row))
            else:
                for c in row:
                    if len(c) > 2:
                        lines.append(sep + " " + c[2] + " | " + self.inl(c[1]))
                        continue
                    if isinstance(c[1], dict):
                        lines.append(sep)
                        for bi, b in enumerate(c[1]["blocks"]):
                            if bi and b[0] == "para":
                                lines.append("")
                            lines += self.block(b)
                    else:
                        lines.append(sep + " " + self.inl(c[1]))
        lines.append("|}")
        return lines

    def block(self, b):
        k = b[0]
        if k == "para":
            if self.variants and self.rng.random() < 0.06:      # a paragraph inside a div/span with an ordinary class
                tag = self.rng.choice(["div", "span"])
                return ['<%s class="%s">%s</%s>' % (tag, self.rng.choice(benign_attrs()), self.inl(b[1]), tag)]
            return [self.inl(b[1])]
        if k == "list":
            return self.lst(b)
        if k == "dl":
            lines = []
            for term, desc, inline in b[1]:
                if inline:
                    lines.append(";" + self.ch(" ", "") + self.inl(term) + " : " + self.inl(desc))
                else:
                    lines.append(";" + self.ch(" ", "") + self.inl(term))
                    lines.append(":" + self.ch(" ", "") + self.inl(desc))
            return lines
        if k == "table":
            return self.table(b)
        if k == "pre":
            return [" " + self.inl(line) for line in b[1]]
        raise ValueError(k)

    def section(self, s):
        _, level, title, blocks, subs = s
        eq = "=" * level
        out = [eq + self.ch(" ", "") + self.inl(title) + self.ch(" ", "") + eq, ""]
        for bi, b in enumerate(blocks):
            nxt = blocks[bi + 1] if bi + 1 < len(blocks) else None
            tight = b[0] in ("list", "dl") and nxt is not None and self.ch(True, False, False) and (
                nxt[0] == "para" or (nxt[0] == "list" and b[0] == "list" and nxt[1] != b[1]))      # '* a' directly followed by '# b'
            out += self.block(b) + ([] if tight else [""] * self.ch(1, 1, 2))
        for sub in subs:
            out += self.section(sub)
        return out

    def doc(self, d):
        _, intro, secs = d
        out = []
        for b in intro:
            out += self.block(b) + [""]
        for s in secs:
            out += self.section(s)
        return "\n".join(out) + "\n"


# ----------------------------------------------------------------------------- denotation

def denote(d):
    """-> list of (word, facts) in reading order; facts = dict(section=(titles..), lists=(kinds..), cell=(r,c,header)|None,
    caption=bool, styles=frozenset, link=target|None, ext=url|None, ref=bool, pre=bool, heading=bool)."""
    out = []

    def inl(xs, ctx):
        for x in xs:
            k = x[0]
            if k == "w":
                out.append((x[1], dict(ctx)))
            elif k == "style":
                c = dict(ctx)
                c["styles"] = ctx["styles"] | {x[1]}
                inl(x[2], c)
            elif k == "manybold":
                ci = dict(ctx)
                ci["styles"] = ctx["styles"] | {"i"}
                cb = dict(ctx)
                cb["styles"] = ctx["styles"] | {"i", "b"}
                for b, y in x[1]:
                    out.append((b, dict(cb)))
                    out.append((y, dict(ci)))
                out.append((x[2], dict(ci)))
            elif k == "link":
                c = dict(ctx)
                c["link"] = x[1].lstrip(":")
                c["linkvis"] = True
                if x[2] is not None:
                    inl(x[2], c)
                else:
                    out.append((x[1], c))
            elif k == "ext":
                c = dict(ctx)
                c["ext"] = x[1]
                inl(x[2], c)
            elif k == "ref":
                c = dict(ctx)
                c["ref"] = True
                inl(x[1], c)

    def lst(node, ctx):
        _, kind, items = node
        c = dict(ctx)
        c["lists"] = ctx["lists"] + (kind,)
        for il, sub in items:
            inl(il, c)
            for sb in sub or []:
                lst(sb, c)

    def block(b, ctx):
        k = b[0]
        if k == "para":
            inl(b[1], ctx)
        elif k == "list":
            lst(b, ctx)
        elif k == "dl":
            for term, desc, _ in b[1]:
                c = dict(ctx)
                c["dl"] = "term"
                inl(term, c)
                c = dict(ctx)
                c["dl"] = "desc"
                inl(desc, c)
        elif k == "table":
            _, cap, rows = b
            if cap is not None:
                c = dict(ctx)
                c["caption"] = True
                inl(cap, c)
            for ri, row in enumerate(rows):
                for ci, cellspec in enumerate(row):
                    hdr, il = cellspec[0], cellspec[1]
                    c = dict(ctx)
                    c["cell"] = (ri, ci, hdr)
                    c["outer"] = ctx["outer"] or (ri, ci)       # the cell of the outermost table
                    c["cellpath"] = ctx["cellpath"] + ((ri, ci),)
                    if isinstance(il, dict):
                        for bl in il["blocks"]:
                            block(bl, c)
                    else:
                        inl(il, c)
        elif k == "pre":
            c = dict(ctx)
            c["pre"] = True
            for line in b[1]:
                inl(line, c)

    base = dict(section=(), lists=(), cell=None, caption=False, styles=frozenset(), link=None, ext=None, ref=False, pre=False,
                heading=False, dl=None, linkvis=None, outer=None, cellpath=())

    def section(s, ctx):
        _, level, title, blocks, subs = s
        c = dict(ctx)
        c["section"] = ctx["section"] + ((level, title[0][1]),)
        h = dict(c)
        h["heading"] = True
        inl(title, h)
        for b in blocks:
            block(b, c)
        for sub in subs:
            section(sub, c)

    _, intro, secs = d
    for b in intro:
        block(b, base)
    for s in secs:
        section(s, base)
    return out


# ----------------------------------------------------------------------------- reading trees

STYLE_OF = {"'''": "b", "''": "i", "b": "b", "strong": "b", "i": "i", "em": "i", "u": "u", "s": "s", "sup": "sup", "sub": "sub",
            "small": "small", "big": "big", "Strong": "b", "Emphasized": "i", "Underline": "u", "Strike": "s", "Sup": "sup", "Sub": "sub",
            "Small": "small", "Big": "big", "Overline": "overline", "Cite": "cite", "Code": "code", "Teletyped": "tt", "Var": "var"}


def read_tree(root):
    """the same facts recovered from a tree, in tree order. Section titles are identified by their first word."""
    out = []

    def title_word(sec):
        for n in sec.children[:1]:
            txt = text_of(n)
            ws = txt.split()
            return ws[0] if ws else ""
        return ""

    def text_of(n):
        name = type(n).__name__
        if name == "Text":
            return n.caption or ""
        if name in ("ArticleLink", "SpecialLink", "NamespaceLink", "InterwikiLink", "LangLink", "CategoryLink") and not n.children:
            return n.target or ""
        return "".join(text_of(c) for c in n.children)

    def walk(n, ctx, table_state):
        name = type(n).__name__
        c = ctx
        if name == "Text":
            for w in (n.caption or "").split():
                out.append((w, dict(ctx)))
            return
        if name == "Section":
            c = dict(ctx)
            c["section"] = ctx["section"] + ((getattr(n, "level", None), title_word(n)),)
            for i, ch in enumerate(n.children):
                if i == 0:
                    h = dict(c)
                    h["heading"] = True
                    walk(ch, h, table_state)
                else:
                    walk(ch, c, table_state)
            return
        if name == "ItemList":
            c = dict(ctx)
            c["lists"] = ctx["lists"] + ("ol" if getattr(n, "numbered", False) else "ul",)
        elif name == "Table":
            c = dict(ctx)
            ri = -1
            for ch in n.children:
                if type(ch).__name__ == "Row":
                    ri += 1
                    ci = -1
                    for cell in ch.children:
                        if type(cell).__name__ == "Cell":
                            ci += 1
                            cc = dict(c)
                            cc["cell"] = (ri, ci, bool(getattr(cell, "is_header", False)))
                            cc["outer"] = c.get("outer") or (ri, ci)
                            cc["cellpath"] = c.get("cellpath", ()) + ((ri, ci),)
                            for x in cell.children:
                                walk(x, cc, None)
                        else:
                            walk(cell, c, None)
                elif type(ch).__name__ == "Caption":
                    cc = dict(c)
                    cc["caption"] = True
                    for x in ch.children:
                        walk(x, cc, None)
                else:
                    walk(ch, c, None)
            return
        elif name == "DefinitionTerm" or (name == "Style" and getattr(n, "caption", "") == ";"):
            c = dict(ctx)
            c["dl"] = "term"
        elif name == "DefinitionDescription" or (name == "Style" and getattr(n, "caption", "") == ":"):
            c = dict(ctx)
            c["dl"] = "desc"
        elif name in ("Style",) or name in STYLE_OF:
            key = name if name in STYLE_OF and name != "Style" else (getattr(n, "caption", "") or "")
            st = STYLE_OF.get(key)
            if st is None and name == "Style":
                st = STYLE_OF.get(getattr(n, "tagname", "") or "")
            if st is not None:
                c = dict(ctx)
                c["styles"] = ctx["styles"] | {st}
        elif name in ("ArticleLink", "SpecialLink", "NamespaceLink", "InterwikiLink", "LangLink", "CategoryLink"):
            c = dict(ctx)
            c["link"] = (n.target or "").lstrip(":")
            c["linkvis"] = name not in ("LangLink", "CategoryLink")      # those two are not shown where they stand
            if not n.children:
                for w in (n.target or "").split():
                    out.append((w, dict(c)))
                return
        elif name in ("NamedURL", "URL"):
            c = dict(ctx)
            c["ext"] = n.caption
            if name == "URL" or not n.children:
                return
        elif name == "Reference" or (name == "TagNode" and getattr(n, "caption", "") == "ref"):
            c = dict(ctx)
            c["ref"] = True
        elif name == "PreFormatted":
            c = dict(ctx)
            c["pre"] = True
        for ch in n.children:
            walk(ch, c, table_state)

    base = dict(section=(), lists=(), cell=None, caption=False, styles=frozenset(), link=None, ext=None, ref=False, pre=False,
                heading=False, dl=None, linkvis=None, outer=None, cellpath=())
    walk(root, base, None)
    return out


def wiki_db(pages=None):
    from .templ_common import wiki_db as mk

    db = mk(pages or {})
    db.get_url = lambda *a, **k: None
    return db


def parse(text, db=None, title="T", lang=None):
    from mwlib.parser.refine import uparser

    kw = {}
    if lang:
        kw["lang"] = lang
    return uparser.parse_string(title, text, wikidb=db if db is not None else wiki_db(), **kw)


def validate(root):
    """C05's invariants on a real tree: every node once, parent links right, root without parent, no cycle,
    text leaves without children. -> None | description"""
    seen = {}
    stack = [(root, None)]
    if getattr(root, "parent", None) is not None:
        return f"the root {type(root).__name__} has a parent"
    n = 0
    while stack:
        node, parent = stack.pop()
        n += 1
        if n > 2_000_000:
            return "more than 2,000,000 nodes reachable: a cycle"
        if id(node) in seen:
            return f"{type(node).__name__} {getattr(node, 'caption', '')!r} is listed twice (under {type(seen[id(node)]).__name__ if seen[id(node)] is not None else None} and {type(parent).__name__})"
        seen[id(node)] = parent
        if parent is not None and getattr(node, "parent", None) is not parent:
            p = getattr(node, "parent", None)
            return (f"parent link of {type(node).__name__} {getattr(node, 'caption', '')!r} points to "
                    f"{type(p).__name__ if p is not None else None}, it is listed by {type(parent).__name__}")
        if type(node).__name__ == "Text" and node.children:
            return "a text leaf has children"
        for c in node.children:
            stack.append((c, node))
    return None


CONTRACT = {"Table": ("Row", "Caption"), "Row": ("Cell",), "ItemList": ("Item",)}
INSIDE = {"Cell": "Row", "Row": "Table", "Item": "ItemList"}


def contract(root):
    """the writers' structural contract after the full cleaning sequence. -> None | description"""
    stack = [root]
    while stack:
        node = stack.pop()
        name = type(node).__name__
        allowed = CONTRACT.get(name)
        for c in node.children:
            cn = type(c).__name__
            if allowed is not None and cn not in allowed:
                return f"{name} contains a {cn}"
            need = INSIDE.get(cn)
            if need is not None and name != need:
                return f"{cn} occurs inside {name}, not inside a {need}"
            stack.append(c)
    return None
