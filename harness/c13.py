"""C13 — metabooks round-trip through JSON and identify collections deterministically.

L1  lean/MwVerif/Props/C13.lean over Model/Metabook.lean (norm = dumps(loads(.), sort_keys))
L2  (a) translator: class defaults / type mapping by introspection -> Gen/MetabookTables.lean
    (b) correspondence: Model.norm vs myjson.dumps(myjson.loads(text), sort_keys=True) on
        generated JSON values (value level; the JSON text codec stays on the Python side)
L3  oracle: re-serialisation is a fixed point; collection id invariant under key order,
    whitespace, re-serialisation; differs when one field differs
"""
from __future__ import annotations

import contextlib
import io
import json
import random
from collections import Counter

from . import common, gen_tables
from .common import Driver

LEVEL = "proof"
PROP_MODULES = ["MwVerif.Props.C13"]


class Obj(list):
    """a JSON object as an ordered list of (key, value) pairs (duplicates allowed)."""


def to_text(v, rng=None):
    """serialise to JSON text ourselves: key order and duplicates as given, random whitespace."""
    ws = (lambda: rng.choice(["", " ", "\n", "  "])) if rng else (lambda: "")
    if isinstance(v, Obj):
        return "{" + ws() + ("," + ws()).join(json.dumps(k) + ws() + ":" + ws() + to_text(x, rng) for k, x in v) + ws() + "}"
    if isinstance(v, list):
        return "[" + ws() + ("," + ws()).join(to_text(x, rng) for x in v) + ws() + "]"
    return json.dumps(v)


def to_tokens(v, kcode, vcode):
    if v is None:
        return "n"
    if v is True:
        return "t"
    if v is False:
        return "f"
    if isinstance(v, int):
        return f"i{v}"
    if isinstance(v, str):
        return f"s{vcode(v)}"
    if isinstance(v, (Obj,)):
        return "{ " + " ".join(f"k{kcode(k)} {to_tokens(x, kcode, vcode)}" for k, x in v) + (" }" if v else "}")
    if isinstance(v, dict):
        items = sorted(v.items())
        return "{ " + " ".join(f"k{kcode(k)} {to_tokens(x, kcode, vcode)}" for k, x in items) + (" }" if items else "}")
    if isinstance(v, list):
        return "[ " + " ".join(to_tokens(x, kcode, vcode) for x in v) + (" ]" if v else "]")
    raise ValueError(repr(v))


class G:
    def __init__(self, rng, t):
        self.rng, self.keys, self.vals = rng, t["keys"], t["vals"]
        self.lows = [l for l, _, _ in t["classes"]]
        self.titles = [v for v in self.vals if v and v.lower() not in self.lows]

    def scalar(self):
        r = self.rng
        return r.choice([None, True, False, r.randrange(-3, 40), r.choice(self.titles), r.choice(self.vals)])

    def field_noise(self, o: Obj, klass):
        r = self.rng
        for _ in range(r.choice([0, 0, 1, 2, 3])):
            k = r.choice([k for k in self.keys if k not in ("type", "items")])
            v = r.choice([self.scalar(), None, [], [self.scalar()], Obj([("a", self.scalar())])])
            o.insert(r.randrange(len(o) + 1), (k, v))

    def typed(self, name, fields):
        r = self.rng
        spell = r.choice([v for v in self.vals if v.lower() == name.lower()] or [name])
        o = Obj([("type", spell)] + fields)
        r.shuffle(o)
        self.field_noise(o, name)
        if r.random() < 0.07:
            o.append(r.choice(list(o)))          # a duplicate key: the last one wins
        return o

    def article(self):
        r = self.rng
        f = [("title", r.choice(self.titles))]
        if r.random() < 0.5:
            f.append(("revision", r.choice(["12", None, r.randrange(1, 30)])))
        if r.random() < 0.3:
            f.append(("displaytitle" if "displaytitle" in self.keys else "title", r.choice(self.titles + [None])))
        if r.random() < 0.2:
            f.append(("content_type", r.choice([None, "text/x-wiki", "Foo"])))
        return self.typed("article", f)

    def chapter(self):
        r = self.rng
        return self.typed("chapter", [("title", r.choice(self.titles)), ("items", [self.article() for _ in range(r.randint(0, 3))])])

    def collection(self):
        r = self.rng
        items = [r.choice([self.article, self.article, self.chapter])() for _ in range(r.randint(0, 5))]
        f = [("items", items)]
        if r.random() < 0.5:
            f.append(("title", r.choice(self.titles + [None])))
        if r.random() < 0.3:
            f.append(("version", r.choice([1, 2, None])))
        if r.random() < 0.3:
            f.append(("licenses", [self.typed("license", [("title", "Foo")])]))
        if r.random() < 0.2:
            f.append(("wikis", [self.typed("wikiconf", []), self.typed("nosuch", [("a", 1)])]))
        return self.typed("collection", f)

    def any_value(self, depth=0):
        r = self.rng
        x = r.random()
        if depth > 3 or x < 0.35:
            return self.scalar()
        if x < 0.5:
            return [self.any_value(depth + 1) for _ in range(r.randint(0, 3))]
        if x < 0.7:
            o = Obj((r.choice([k for k in self.keys if k != "type"]), self.any_value(depth + 1)) for _ in range(r.randint(0, 4)))
            if o and r.random() < 0.4:
                o[0] = ("type", r.choice(self.vals))
            return o
        return r.choice([self.article, self.chapter, self.collection])()


def reser(text):
    from mwlib.utils import myjson

    with contextlib.redirect_stdout(io.StringIO()):
        return myjson.dumps(myjson.loads(text), sort_keys=True)


def coll_id(text, base_url="http://x/w/", script_extension=".php", login=""):
    from mwlib.core import nserve

    with contextlib.redirect_stdout(io.StringIO()):
        return nserve.make_collection_id({"metabook": text, "base_url": base_url, "script_extension": script_extension,
                                          "login_credentials": login, "writer": "rl"})


def mutate_one_field(rng, coll: Obj, g: G):
    """a copy that differs in exactly one meaningful field (or None if none applies)."""
    import copy

    c = copy.deepcopy(coll)
    items = next((v for k, v in c if k == "items" and isinstance(v, list)), None)
    arts = [x for x in (items or []) if isinstance(x, Obj) and any(k == "type" and str(v).lower() == "article" for k, v in x)]
    choice = rng.choice(["title", "revision", "order", "drop"])
    if choice == "order" and items and len(items) >= 2 and to_text(items[0]) != to_text(items[1]):
        items[0], items[1] = items[1], items[0]
        return c, "order of the first two items"
    if choice == "drop" and items:
        items.pop()
        return c, "last item removed"
    if arts:
        a = rng.choice(arts)
        if choice == "revision":
            a[:] = [(k, v) for k, v in a if k != "revision"] + [("revision", "99999")]
            return c, "revision of one article"
        old = [v for k, v in a if k == "title"]
        if old and isinstance(old[-1], str) and old[-1] and rng.random() < 0.5:
            # the smallest possible difference: one character more, less or other - a blank included
            t0 = old[-1]
            i = rng.randrange(len(t0) + 1)
            new = rng.choice([t0[:i] + " " + t0[i:], t0[:i] + "x" + t0[i:], t0.replace(" ", "", 1) if " " in t0 else t0 + " ", t0.swapcase() if t0.swapcase() != t0 else t0 + "x"])
            if new != t0:
                a[:] = [(k, v) for k, v in a if k != "title"] + [("title", new)]
                return c, f"title of one article ({t0!r} vs {new!r})"
        new = rng.choice([t for t in g.titles if not old or t != old[-1]])
        a[:] = [(k, v) for k, v in a if k != "title"] + [("title", new)]
        return c, "title of one article"
    return None, None


def object_roundtrips(hist):
    """-> violations of the object-level dumps/loads round trip, over every kind of metabook object."""
    viol = []
    # metabook objects themselves: every kind of object a metabook is made of comes back as that kind, with the same attributes
    # (the wire format names the class: {"type": "<ClassName>", ...}) - alone, and as the wikis/licenses/items of a collection
    import inspect

    from mwlib.core import metabook as mbmod
    from mwlib.utils import myjson as mj

    kinds = [k for k in vars(mbmod).values()
             if inspect.isclass(k) and issubclass(k, mbmod.MetabookObject) and k is not mbmod.MetabookObject]

    def same(a, b, path="metabook"):
        if isinstance(a, mbmod.MetabookObject) or isinstance(b, mbmod.MetabookObject):
            if type(a) is not type(b):
                return f"{path}: a {type(a).__name__} comes back as a {type(b).__name__}"
            ka = {k: v for k, v in a.__dict__.items() if v is not None and not k.startswith("_")}
            kb = {k: v for k, v in b.__dict__.items() if v is not None and not k.startswith("_")}
            if set(ka) != set(kb):
                return f"{path}: attributes {sorted(set(ka) ^ set(kb))} differ"
            for k in ka:
                w = same(ka[k], kb[k], f"{path}.{k}")
                if w:
                    return w
            return None
        if isinstance(a, list) and isinstance(b, list):
            if len(a) != len(b):
                return f"{path}: {len(a)} entries before, {len(b)} after"
            for j, (x, y) in enumerate(zip(a, b)):
                w = same(x, y, f"{path}[{j}]")
                if w:
                    return w
            return None
        return None if a == b and type(a) is type(b) else f"{path}: {a!r} before, {b!r} after"

    for k in kinds:
        hist["object-roundtrips"] += 1
        objs = [k(), k(title="T\u00e4 1", note=[1, "x"])]
        holder = mbmod.Collection(title="c")
        holder.wikis, holder.licenses, holder.items = [k(ident="a")], [k(name="l")], [mbmod.Chapter(title="ch", items=[k(title="t")])]
        objs.append(holder)
        for o in objs:
            try:
                text = mj.dumps(o)
                back = mj.loads(text)
                w = same(o, back)
            except Exception as e:  # noqa: BLE001
                text, w = repr(o), f"dumps/loads of a {k.__name__} raised {type(e).__name__}: {e}"
            if w:
                viol.append({"why": "a metabook object does not survive dumps/loads: " + w, "text": text})
    return viol


def replay(chk, data):
    """a recorded violation: the object-level round trips, and for a recorded text the fixed point and the identifier checks."""
    viol = object_roundtrips(Counter())
    text = data.get("text")
    if isinstance(text, str) and text.lstrip()[:1] in "{[":
        try:
            out = reser(text)
            if reser(out) != out:
                viol.append({"why": "re-serialising is not a fixed point", "text": text})
            if "variant" in data and coll_id(data["variant"]) != coll_id(text):
                viol.append({"why": "collection id differs between the recorded text and its variant", "text": text, "variant": data["variant"]})
            if "other" in data and coll_id(data["other"]) == coll_id(text):
                viol.append({"why": "collection id equal although the recorded metabooks differ", "text": text, "other": data["other"]})
        except Exception as e:  # noqa: BLE001
            viol.append({"why": f"loads/dumps raised {type(e).__name__}: {e}", "text": text})
    for v in viol[:2]:
        chk.violation("C13 violated: " + v["why"], {"kind": "impl-oracle", **v}, sig={"why": v["why"][:30]})
    if not viol:
        print("replay: the recorded metabook round-trips and keeps its identifier")


def run(chk: common.Check):
    if chk.replay:
        replay(chk, json.load(open(chk.replay)))
        return
    tier = chk.tier
    t = gen_tables.gen_c13()
    res = common.lean_prove(PROP_MODULES, tier)
    trusted = [
        "Lean 4 kernel; axioms propext, Quot.sound, Classical.choice only (audited per theorem on this run)",
        "hand-written model lean/MwVerif/Model/Metabook.lean of loads/dumps/object_hook/MetabookObject.__init__/_json, tied to /repo by correspondence",
        "translator: class defaults and the type-name mapping by introspection (Gen/MetabookTables.lean, regenerated on this run)",
        "Python's json text codec, sha256 (collision freedom) and repr() are outside the model",
        "harness/c13.py (generator, oracles)",
    ]
    chk.proof_coverage(res, trusted)
    rng = chk.rng
    g = G(rng, t)
    kcode = lambda k: t["keys"].index(k)
    vcode = lambda v: t["vals"].index(v)
    drv = Driver("c13")
    n = 20000 if tier == "thorough" else 3000
    hist = Counter()
    reqs, exps, texts = [], [], []
    viol, diffs = [], []
    for i in range(n):
        v = g.collection() if i % 3 == 0 else g.any_value()
        text = to_text(v, rng)
        try:
            out = reser(text)
        except Exception as e:  # noqa: BLE001
            hist["reser-exception:" + type(e).__name__] += 1
            viol.append({"why": f"loads/dumps raised {type(e).__name__}: {e}", "text": text})
            continue
        hist["top:" + (type(v).__name__)] += 1
        # fixed point
        out2 = reser(out)
        if out2 != out:
            viol.append({"why": "re-serialising is not a fixed point", "text": text, "first": out, "second": out2})
        reqs.append("norm " + to_tokens(v, kcode, vcode))
        exps.append(to_tokens(json.loads(out), kcode, vcode))
        texts.append(text)
    for r, e, tx, o in zip(reqs, exps, texts, drv.ask(reqs)):
        if o.split() != e.split():
            diffs.append({"text": tx, "model": o, "impl": e})
    viol += object_roundtrips(hist)
    # collection ids
    nid = 3000 if tier == "thorough" else 500
    idstats = Counter()
    for _ in range(nid):
        c = g.collection()
        text = to_text(c, rng)
        try:
            i0 = coll_id(text)
        except Exception as e:  # noqa: BLE001
            viol.append({"why": f"make_collection_id raised {type(e).__name__}: {e}", "text": text})
            continue
        # invariance: key order, whitespace, re-serialisation
        import copy

        def shuffled(v):
            if isinstance(v, Obj):
                seen = {}
                for k, x in v:       # keep last-wins semantics: drop shadowed duplicates first
                    seen[k] = x
                items = [(k, shuffled(x)) for k, x in seen.items()]
                rng.shuffle(items)
                return Obj(items)
            if isinstance(v, list):
                return [shuffled(x) for x in v]
            return v

        for variant, how in ((to_text(shuffled(c), rng), "key order / whitespace"), (reser(text), "re-serialisation"),
                             (reser(reser(text)), "re-serialisation twice")):
            idstats["invariance-checks"] += 1
            if coll_id(variant) != i0:
                viol.append({"why": f"collection id changes under {how}", "text": text, "variant": variant})
        # separation
        m, what = mutate_one_field(rng, c, g)
        if m is not None and reser(to_text(m)) != reser(text):
            idstats["separation-checks"] += 1
            if coll_id(to_text(m, rng)) == i0:
                viol.append({"why": f"collection id unchanged although {what} differs", "text": text, "other": to_text(m)})
        # the wiki URL: any difference in it is a different wiki (host, port, scheme, path, credentials, query, case)
        base = "http://x/w/"
        for other in ("http://y/w/", "http://x:8080/w/", "http://x:8081/w/", "https://x/w/", "http://x/wiki/", "http://x/w", "http://u:p@x/w/",
                      "http://x/w/?a=1", "http://X/w/", "//x/w/"):
            idstats["separation-checks"] += 1
            if coll_id(text, base_url=other) == i0:
                viol.append({"why": f"collection id unchanged although the wiki URL differs ({base!r} vs {other!r})", "text": text})
        if coll_id(text, base_url="http://x:8080/w/") == coll_id(text, base_url="http://x:8081/w/"):
            viol.append({"why": "collection id unchanged although the wiki URL differs (port 8080 vs 8081)", "text": text})
    chk.coverage.update({
        "evaluations": n + nid,
        "distinct_nontrivial": len(set(exps)),
        "rule": "values = collections (0..5 items, chapters with articles, optional fields present/absent/null, class names in any case, "
                "extra/private/duplicate keys, unknown types, licenses, wikiconfs) and arbitrary JSON values over the generated key/value universe, "
                "serialised with random key order and whitespace. non-trivial = distinct normal forms",
        "traces_validated_against_impl": len(reqs),
        "correspondence_differences": len(diffs),
        "oracle_violations": len(viol),
        "id_checks": dict(idstats),
        "histogram": dict(hist),
        "classes": [n for _, n, _ in t["classes"]],
        "samples": [texts[0][:300], texts[len(texts) // 2][:300]] if texts else [],
    })
    chk.assumptions += ["every 'type' value is a string and no key is 'self' (anything else is not a metabook)",
                        "sha256 truncated to 16 hex digits: separation holds up to hash collisions"]
    for v in viol[:2]:
        chk.violation("C13 violated: " + v["why"], {"kind": "impl-oracle", **v}, sig={"kind": v["why"][:40]})
    if viol:
        return
    broken = []
    if not res.ok:
        broken.append({"kind": "lean", "failed": res.failed_targets, "bad_axioms": res.bad_axioms, "forbidden": res.forbidden_hits, "log_tail": res.log[-1500:]})
    if diffs:
        broken.append({"kind": "correspondence", "count": len(diffs), "first": diffs[0]})
    if broken:
        chk.violation("C13 is no longer shown to hold: " + ", ".join(b["kind"] for b in broken)
                      + " broke; the fixed-point / id oracles found no failing metabook",
                      {"broken": broken, "theorems": PROP_MODULES}, no_input=True)
