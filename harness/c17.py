"""C17 — jobs go to eligible workers in priority/FIFO order; finished stays finished."""
from . import qs_common

LEVEL = "proof"


def run(chk):
    qs_common.qs_check(chk, "C17", "c17", ["MwVerif.Props.C17"], {"C17"})
