"""C16 — the job queue neither loses nor duplicates a job, under any interleaving."""
from . import qs_common

LEVEL = "proof"


def run(chk):
    qs_common.qs_check(chk, "C16", "c16", ["MwVerif.Props.C16"], {"C16"})
