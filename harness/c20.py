"""C20 — output files appear atomically: a crash never leaves a partial file.

L1  lean/MwVerif/Props/C20.lean over Model/Fs.lean: if a producer's trace satisfies the decidable
    discipline `publishes`, the published path is absent-or-complete after EVERY prefix.
L2  the producers are run for real under a tracer (wrapped open/os.*), with and without an
    injected ENOSPC at every operation; each recorded trace is judged by the Lean driver
    (`publishes`) and the per-prefix states the model predicts are compared with what a real
    kill at that operation leaves on disk.
L3  search: the producer runs in a forked child that is terminated with os._exit() (no buffers
    flushed, no handlers) just before operation k; the parent then reads the published path.
"""
from __future__ import annotations

import builtins
import errno
import io
import json
import os
import shutil
import sys
import time
import tempfile
import zipfile
from collections import Counter

from . import common
from .common import Driver

LEVEL = "other"
PROP_MODULES = ["MwVerif.Props.C20"]


class Crash(BaseException):
    pass


class Tracer:
    """records file operations below `root`; can raise ENOSPC at op `fault_at`, or _exit the
    process just before op `kill_at`."""

    def __init__(self, root, fault_at=None, kill_at=None):
        self.root = os.path.realpath(root) + os.sep
        self.ops = []           # (kind, path[, path2])
        self.fault_at, self.kill_at = fault_at, kill_at
        self.fd2path = {}

    def _in(self, p):
        try:
            return (os.path.realpath(os.fspath(p)) + os.sep).startswith(self.root) or os.path.realpath(os.fspath(p)).startswith(self.root)
        except Exception:
            return False

    def _op(self, kind, *paths):
        k = len(self.ops)
        if self.kill_at is not None and k == self.kill_at:
            os._exit(99)
        if self.fault_at is not None and k == self.fault_at:
            self.ops.append(("fail",))
            self.fault_at = None
            raise OSError(errno.ENOSPC, "No space left on device (injected)")
        self.ops.append((kind,) + tuple(os.path.realpath(p) for p in paths))

    def __enter__(self):
        t = self
        self._saved = (builtins.open, io.open, os.open, os.close, os.rename, os.replace, os.unlink, os.remove, os.fdopen)
        real_open = builtins.open

        class FileProxy:
            def __init__(self, f, path):
                object.__setattr__(self, "_f", f)
                object.__setattr__(self, "_path", path)
                object.__setattr__(self, "_closed", False)

            def __getattr__(self, n):
                return getattr(self._f, n)

            def __setattr__(self, n, v):
                setattr(self._f, n, v)

            def write(self, data):
                t._op("write", self._path)
                return self._f.write(data)

            def writelines(self, lines):
                t._op("write", self._path)
                return self._f.writelines(lines)

            def close(self):
                if not self._closed:
                    object.__setattr__(self, "_closed", True)
                    try:
                        t._op("close", self._path)
                    except OSError:
                        # a failing close still releases the descriptor
                        try:
                            self._f.close()
                        except Exception:
                            pass
                        raise
                return self._f.close()

            def __enter__(self):
                return self

            def __exit__(self, *a):
                self.close()
                return False

            def __iter__(self):
                return iter(self._f)

        def gopen(file, mode="r", *a, **k):
            if isinstance(file, int):
                path = t.fd2path.get(file)
                f = real_open(file, mode, *a, **k)
                if path and any(c in mode for c in "wax+"):
                    return FileProxy(f, path)
                return f
            if isinstance(file, (str, bytes, os.PathLike)) and any(c in mode for c in "wax+") and t._in(file):
                t._op("creat" if ("w" in mode or "x" in mode) else "write", file)
                return FileProxy(real_open(file, mode, *a, **k), os.path.realpath(os.fspath(file)))
            return real_open(file, mode, *a, **k)

        s_open, s_close, s_rename, s_replace, s_unlink = os.open, os.close, os.rename, os.replace, os.unlink

        def oopen(path, flags, *a, **k):
            if t._in(path) and flags & (os.O_WRONLY | os.O_RDWR | os.O_CREAT):
                t._op("creat", path)
                fd = s_open(path, flags, *a, **k)
                t.fd2path[fd] = os.path.realpath(path)
                return fd
            return s_open(path, flags, *a, **k)

        def oclose(fd):
            p = t.fd2path.pop(fd, None)
            if p:
                t._op("close", p)
            return s_close(fd)

        def orename(a, b, *x, **k):
            if t._in(a) or t._in(b):
                t._op("rename", a, b)
            return s_rename(a, b, *x, **k)

        def oreplace(a, b, *x, **k):
            if t._in(a) or t._in(b):
                t._op("rename", a, b)
            return s_replace(a, b, *x, **k)

        def ounlink(p, *x, **k):
            if t._in(p):
                t._op("unlink", p)
            return s_unlink(p, *x, **k)

        builtins.open = gopen
        io.open = gopen
        os.open, os.close, os.rename, os.replace, os.unlink, os.remove = oopen, oclose, orename, oreplace, ounlink, ounlink
        return self

    def __exit__(self, *a):
        (builtins.open, io.open, os.open, os.close, os.rename, os.replace, os.unlink, os.remove, os.fdopen) = self._saved


# ----------------------------------------------------------------------------- producers
# each: setup(dir) -> ctx ; run(ctx) performs the publication of ctx['final'] ; valid(path, ctx) -> which version


def p_status_setup(d):
    from mwlib.utils.status import Status

    final = os.path.join(d, "status.json")
    st = Status(filename=final)
    st(status="fetching", progress=10)       # previous version exists
    return {"final": final, "st": st, "old": json.load(open(final))}


def p_status_run(ctx):
    if ctx.get("long"):         # the run that will be killed leaves more behind than the next one writes
        ctx["st"](status="rendering", progress=54, article="A rather long article title " * 12)
        return
    ctx["st"](status="rendering", progress=55, article="Foo")


def p_status_valid(path, ctx):
    d = json.load(open(path))                # must parse
    if d == ctx["old"]:
        return "old"
    if d.get("status") == "rendering" and d.get("progress") is not None:
        return "new"
    raise ValueError(f"unexpected content {d!r}")


def _make_src(d):
    src = os.path.join(d, "src")
    os.makedirs(os.path.join(src, "images"))
    for i in range(3):
        with open(os.path.join(src, f"f{i}.txt"), "w") as f:
            f.write("x" * (1000 * (i + 1)))
    return src


def p_zip_setup(d):
    src = _make_src(d)
    out = os.path.join(d, "out")
    os.makedirs(out)
    final = os.path.join(out, "collection.zip")
    return {"final": final, "src": src, "old": None}


def p_zip_run(ctx):
    from mwlib.apps.buildzip import ZipCreator

    ZipCreator.create_zip(ctx["src"], ctx["final"])


def p_zip_valid(path, ctx):
    with zipfile.ZipFile(path) as z:
        if z.testzip() is not None:
            raise ValueError("corrupt member")
        names = sorted(z.namelist())
    if names != ["f0.txt", "f1.txt", "f2.txt"]:
        raise ValueError(f"incomplete zip: {names}")
    return "new"


def p_makezip_setup(d):
    ctx = p_zip_setup(d)
    with zipfile.ZipFile(ctx["final"], "w") as z:      # an older complete zip is already there
        z.writestr("old.txt", "old")
    ctx["old"] = "old"
    return ctx


def p_makezip_run(ctx):
    from mwlib.apps import buildzip

    def fake_make_nuwiki(fsdir, **kw):
        shutil.copytree(ctx["src"], fsdir)

    orig = buildzip.make_nuwiki
    buildzip.make_nuwiki = fake_make_nuwiki
    try:
        buildzip.make_zip(output=ctx["final"], wiki_options={}, metabook=None, status=lambda **k: None)
    finally:
        buildzip.make_nuwiki = orig


def p_makezip_valid(path, ctx):
    with zipfile.ZipFile(path) as z:
        if z.testzip() is not None:
            raise ValueError("corrupt member")
        names = sorted(z.namelist())
    if names == ["old.txt"]:
        return "old"
    if names == ["f0.txt", "f1.txt", "f2.txt"]:
        return "new"
    raise ValueError(f"incomplete zip: {names}")


PAYLOAD = [b"A" * 16384, b"B" * 5000, b"C" * 100, b"D" * 7]      # the last chunks are smaller than any file buffer: data is still buffered at close time


def p_download_setup(d):
    final = os.path.join(d, "images", "File:A.png")
    os.makedirs(os.path.dirname(final))
    return {"final": final, "temp": final + ".tmp", "old": None}


def p_download_run(ctx):
    from mwlib.network import transport

    class Resp:
        def raise_for_status(self):
            pass

        def iter_bytes(self, chunk_size=0):
            yield from PAYLOAD

        def __enter__(self):
            return self

        def __exit__(self, *a):
            return False

    class Client:
        def stream(self, method, url):
            return Resp()

    import logging

    class E(Exception):
        pass

    transport.download_with_retries(
        client=Client(), url="http://x.invalid/a.png", path=ctx["final"], temp_path=ctx["temp"],
        retry_policy=transport.build_download_retry_policy(0, 0.0, 1.0), http_status_error_cls=E,
        sleep_fn=lambda s: None, logger=logging.getLogger("c20"))


def p_download_valid(path, ctx):
    data = open(path, "rb").read()
    if data != b"".join(PAYLOAD):
        raise ValueError(f"truncated image: {len(data)} of {sum(map(len, PAYLOAD))} bytes")
    return "new"


_RENDER_ZIP = {}


def render_zip():
    """a real collection zip for mw-render, built once per run in a fresh interpreter: the process that forks the traced
    children must never have used sqlite or started threads itself (a lock held at fork time would be copied locked)."""
    if "zip" not in _RENDER_ZIP:
        import subprocess

        cdir = tempfile.mkdtemp(prefix="c20-coll-", dir=str(common.BUILD))
        code = ("import sys, contextlib, io; sys.path.insert(0, %r); from harness import build_repo; build_repo.overlay_all(); "
                "from harness import c08\n"
                "with contextlib.redirect_stdout(io.StringIO()), contextlib.redirect_stderr(io.StringIO()):\n"
                "    z = c08.build_collection(424242, %r)[0]\n"
                "print('ZIP=' + z)") % (str(common.ROOT), cdir)
        out = subprocess.run([sys.executable, "-c", code], capture_output=True, text=True, timeout=300, cwd=str(common.ROOT),
                             env={**os.environ, "PATH": "/venv/bin:" + os.environ.get("PATH", "")})
        z = [ln[4:] for ln in out.stdout.splitlines() if ln.startswith("ZIP=")]
        if not z or not os.path.exists(z[0]):
            raise RuntimeError("could not build the collection zip for the mw-render producer: " + out.stderr[-500:])
        _RENDER_ZIP["zip"] = z[0]
    return _RENDER_ZIP["zip"]


def p_render_setup(d):
    """mw-render (apps/render.py main): a real collection zip, the writer replaced by one that streams PAYLOAD to the path it is
    given - the publication protocol around the writer (mkstemp next to the output, writer, rename) is render.py's own."""
    zip_path = os.path.join(d, "c.zip")
    shutil.copy(render_zip(), zip_path)
    out = os.path.join(d, "out")
    os.makedirs(out)
    final = os.path.join(out, "book.pdf")
    with open(final, "wb") as f:            # an older complete rendering is already there
        f.write(b"OLD")
    return {"final": final, "zip": zip_path, "old": "old"}


def p_render_run(ctx):
    import contextlib
    import io

    from mwlib.apps import render

    def fake_writer(env, output, status_callback=None, **kw):
        assert env.wiki is not None and env.metabook is not None
        with open(output, "wb") as f:
            for chunk in PAYLOAD:
                f.write(chunk)

    fake_writer.content_type = "application/pdf"
    fake_writer.file_extension = "pdf"
    orig = render.load_writer
    render.load_writer = lambda name: fake_writer
    try:
        with contextlib.redirect_stdout(io.StringIO()), contextlib.redirect_stderr(io.StringIO()):
            render.main.main(args=["-c", ctx["zip"], "-o", ctx["final"], "-w", "rl"], standalone_mode=False)
    finally:
        render.load_writer = orig


def p_render_valid(path, ctx):
    data = open(path, "rb").read()
    if data == b"OLD":
        return "old"
    if data != b"".join(PAYLOAD):
        raise ValueError(f"truncated rendering: {len(data)} of {sum(map(len, PAYLOAD))} bytes")
    return "new"


CHILD_TIMEOUT = 120


PRODUCERS = {
    "render.main": (p_render_setup, p_render_run, p_render_valid),
    "status.dump": (p_status_setup, p_status_run, p_status_valid),
    "ZipCreator.create_zip": (p_zip_setup, p_zip_run, p_zip_valid),
    "buildzip.make_zip": (p_makezip_setup, p_makezip_run, p_makezip_valid),
    "transport.download_with_retries": (p_download_setup, p_download_run, p_download_valid),
}


def run_child(name, scratch, fault_at=None, kill_at=None, retry=False):
    """run one producer in a forked child under the tracer. Returns (ops, exit, final state).
    retry: the history 'crash, then run again': the killed run (in its long variant, if the producer has one) is followed
    by an undisturbed run in the same directory; the state returned is the one after the second run."""
    setup, runp, valid = PRODUCERS[name]
    d = tempfile.mkdtemp(dir=scratch)
    ctx = setup(d)
    if retry:
        ctx["long"] = True
    r, w = os.pipe()
    pid = os.fork()
    if pid == 0:
        os.close(r)
        code = 0
        tr = Tracer(d, fault_at=fault_at, kill_at=kill_at)
        try:
            with tr:
                try:
                    runp(ctx)
                except OSError as e:
                    code = 3
                except Exception as e:  # noqa: BLE001
                    code = 4
        finally:
            try:
                os.write(w, json.dumps({"ops": tr.ops, "code": code}).encode())
            finally:
                os._exit(code)
    os.close(w)
    data = b""
    import select

    deadline = time.time() + CHILD_TIMEOUT
    while True:
        left = deadline - time.time()
        ready = select.select([r], [], [], max(left, 0))[0] if left > 0 else []
        if not ready:
            os.kill(pid, 9)
            os.waitpid(pid, 0)
            os.close(r)
            shutil.rmtree(d, ignore_errors=True)
            raise common.HarnessError(f"the traced producer {name} (fault_at={fault_at}, kill_at={kill_at}) did not finish within "
                                      f"{CHILD_TIMEOUT} s: harness problem, not a verdict")
        chunk = os.read(r, 65536)
        if not chunk:
            break
        data += chunk
    os.close(r)
    _, status = os.waitpid(pid, 0)
    info = json.loads(data) if data else {"ops": None, "code": os.WEXITSTATUS(status)}
    if retry:
        ctx["long"] = False
        pid2 = os.fork()
        if pid2 == 0:
            code = 0
            try:
                runp(ctx)
            except BaseException:  # noqa: BLE001
                code = 5
            finally:
                os._exit(code)
        t_end = time.time() + CHILD_TIMEOUT
        while True:
            done, st2 = os.waitpid(pid2, os.WNOHANG)
            if done:
                break
            if time.time() > t_end:
                os.kill(pid2, 9)
                os.waitpid(pid2, 0)
                shutil.rmtree(d, ignore_errors=True)
                raise common.HarnessError(f"the second run of {name} after a kill at {kill_at} did not finish within {CHILD_TIMEOUT} s")
            time.sleep(0.01)
        info["retry_code"] = os.WEXITSTATUS(st2)
    final = ctx["final"]
    if not os.path.exists(final):
        state = "absent"
    else:
        try:
            state = valid(final, ctx)
        except Exception as e:  # noqa: BLE001
            state = "BROKEN: " + f"{type(e).__name__}: {e}"
    leftovers = []
    shutil.rmtree(d, ignore_errors=True)
    return info, state, ctx


def encode_trace(ops, final):
    paths = {}

    def pid(p):
        if p == os.path.realpath(final):
            return 0
        return paths.setdefault(p, len(paths) + 1)

    toks = []
    for op in ops:
        k = op[0]
        if k == "fail":
            toks.append("f")
        elif k == "creat":
            toks.append(f"c{pid(op[1])}")
        elif k == "write":
            toks.append(f"w{pid(op[1])}")
        elif k == "close":
            toks.append(f"x{pid(op[1])}")
        elif k == "unlink":
            toks.append(f"u{pid(op[1])}")
        elif k == "rename":
            toks.append(f"r{pid(op[1])},{pid(op[2])}")
    return toks


def run(chk: common.Check):
    import logging

    logging.disable(logging.ERROR)
    tier = chk.tier
    res = common.lean_prove(PROP_MODULES, tier)
    scratch = str(chk.mkscratch())
    drv = Driver("c20")
    hist = Counter()
    viol, broken_traces, diffs = [], [], []
    evaluations = 0
    samples = []
    traces = 0
    for name in PRODUCERS:
        info, state, ctx = run_child(name, scratch)
        ops = info["ops"]
        n = len(ops)
        hist[f"{name}:ops"] = n
        evaluations += 1
        if state not in ("new",):
            viol.append({"producer": name, "kill_at": None, "fault_at": None, "state": state, "why": "fault-free run did not publish a complete new file"})
        initial = "0=c" if ctx["old"] is not None else ""
        toks = encode_trace(ops, ctx["final"])
        out = drv.ask([f"pub 0;{initial};" + " ".join(toks)])[0].split()
        traces += 1
        samples.append({"producer": name, "trace": toks, "publishes": out[0]})
        if out[0] != "true":
            broken_traces.append({"producer": name, "trace": toks, "fault_at": None})
        predicted = out[1:]
        # real kills at every operation of the fault-free run
        for k in range(n + 1):
            if tier == "quick" and n > 40 and k % 3 and k < n - 5:
                continue
            _, st, _ = run_child(name, scratch, kill_at=k)
            evaluations += 1
            hist["kills"] += 1
            if st.startswith("BROKEN"):
                viol.append({"producer": name, "kill_at": k, "fault_at": None, "state": st,
                             "why": f"killed before operation {k} ({ops[k] if k < n else 'end'}): the published file is {st}"})
            # the history "killed there, then run again": the second run must publish a complete new file
            if tier == "thorough" or n <= 12 or k % 4 == 0 or k >= n - 3:
                info_r, st_r, _ = run_child(name, scratch, kill_at=k, retry=True)
                evaluations += 1
                hist["kill-then-rerun"] += 1
                if st_r != "new":
                    viol.append({"producer": name, "kill_at": k, "fault_at": None, "state": st_r,
                                 "why": f"killed before operation {k} ({ops[k] if k < n else 'end'}) and run again (exit {info_r.get('retry_code')}): "
                                        f"the published file is {st_r}, not the complete new version"})
            # the model's prediction for this prefix
            p = predicted[k] if k < len(predicted) else predicted[-1]
            want = {"absent": "absent", "old": "complete:0"}.get(st, "complete" if st == "new" else st)
            okp = (p == want) or (want == "complete" and p.startswith("complete:") and p != "complete:0")
            if not okp and not st.startswith("BROKEN"):
                diffs.append({"producer": name, "kill_at": k, "model": p, "disk": st})
        # injected ENOSPC at every operation: trace discipline + resulting state
        for j in range(n):
            if tier == "quick" and n > 40 and j % 3 and j < n - 5:
                continue
            info_f, st, ctx_f = run_child(name, scratch, fault_at=j)
            evaluations += 1
            hist["faults"] += 1
            hist[f"fault-exit:{info_f['code']}"] += 1
            if st.startswith("BROKEN"):
                viol.append({"producer": name, "kill_at": None, "fault_at": j, "state": st,
                             "why": f"ENOSPC at operation {j} ({ops[j]}): the published file is {st}"})
            toks_f = encode_trace(info_f["ops"], ctx_f["final"])
            o = drv.ask([f"pub 0;{initial};" + " ".join(toks_f)])[0].split()
            traces += 1
            if o[0] != "true":
                broken_traces.append({"producer": name, "trace": toks_f, "fault_at": j})
    chk.coverage.update({
        "explanation": "c20_prefix_safe is proved in Lean for every trace satisfying `publishes` (all crash points of that trace at once); "
                       "the traces are those recorded from the five producers, fault-free and with ENOSPC injected at each operation, and each is "
                       "judged by the Lean driver; in addition the producer is really killed (os._exit in a forked child, buffers lost) before each "
                       "operation and the published path is opened and parsed. Not proved: that other inputs of the producers yield traces of the same "
                       "shape (sampled), rename/replace atomicity and page-cache behaviour of the OS (assumed).",
        "obligations": len(res.theorems), "discharged": len([n for n in res.theorems if n not in res.bad_axioms]) if res.ok else 0,
        "checker_cmd": res.checker_cmd,
        "trusted_base": ["Lean 4 kernel", "Model/Fs.lean (file states: partial while open, complete after a fault-free close)",
                         "harness tracer: wrapped open/io.open/os.open/close/rename/replace/unlink (Python level; C-level writes would be invisible)",
                         "OS: rename/replace are atomic; a closed file is durable"],
        "evaluations": evaluations,
        "distinct_nontrivial": traces,
        "rule": "per producer: fault-free trace; a real kill before every operation; ENOSPC injected at every operation. non-trivial = traces judged by the Lean driver",
        "traces_validated_against_impl": traces,
        "correspondence_differences": len(diffs),
        "oracle_violations": len(viol),
        "traces_violating_discipline": len(broken_traces),
        "histogram": dict(hist),
        "theorems": {n: a for n, a in sorted(res.theorems.items())},
        "samples": samples,
    })
    chk.assumptions += ["render.py's protocol (mkstemp next to the output, writer, os.rename) is driven through mw-render's main with a real "
                        "collection zip and a writer that streams a fixed payload; the real writers' own file handling is not traced here "
                        "(they write to the temporary path they are given; C08 runs them end to end)"]
    for v in viol[:2]:
        chk.violation("a partial file was published: " + v["why"], {"kind": "impl-oracle", **v}, sig={"kind": "partial", "producer": v["producer"]})
    if viol:
        return
    broken = []
    if not res.ok:
        broken.append({"kind": "lean", "failed": res.failed_targets, "bad_axioms": res.bad_axioms, "forbidden": res.forbidden_hits, "log_tail": res.log[-1500:]})
    if broken_traces:
        broken.append({"kind": "trace violates the publishing discipline", "first": broken_traces[0], "count": len(broken_traces)})
    if diffs:
        broken.append({"kind": "correspondence(model state vs disk after kill)", "first": diffs[0], "count": len(diffs)})
    if broken:
        chk.violation("C20 is no longer shown to hold: " + ", ".join(b["kind"] for b in broken)
                      + "; no kill point or fault left a partial published file in the runs made",
                      {"broken": broken, "theorems": PROP_MODULES}, no_input=True)
