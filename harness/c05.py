"""C05 — document trees stay well-formed and meet the writers' structural contract.

L1  lean/MwVerif/Props/C05.lean over Model/Tree.lean: the re-parenting primitives keep every node once
L2  correspondence: random sequences of the real primitives (replace_child/dissolve, remove_child,
    move_to, append after detaching) on real advanced trees vs the model; real parent attributes vs
    the parents the model derives
L3  oracle on the real code: after build_advanced_tree and after EVERY cleaning pass (driven directly)
    the tree is proper (each node once, parent links, root, no cycle, text leaves); after the full
    sequence the writers' contract holds - over documents of the grammar, trigger documents and fuzz.
"""
from __future__ import annotations

import json
import random
from collections import Counter

from . import common

LEVEL = "other"
PROP_MODULES = ["MwVerif.Props.C05"]


def source_text(kind, seed):
    from . import clean_common as cc
    from . import doc_common as dc

    rng = random.Random(seed)
    if kind == "corpus":         # texts that failed once (corpus/C05/known.json), run first
        return json.load(open(common.ROOT / "corpus" / "C05" / "known.json"))[seed]
    if kind == "doc":
        return dc.Render(rng).doc(dc.Gen(rng).doc())
    if kind == "trig":
        return cc.trigger_doc(rng)
    return cc.fuzz_text(rng)


def tree_worker(items, extra, progress):
    import contextlib
    import io
    import logging

    from . import build_repo

    build_repo.overlay_all()
    logging.disable(logging.WARNING)
    from . import clean_common as cc
    from . import doc_common as dc

    bad, hist = [], Counter()
    for i, (kind, seed) in enumerate(items):
        if i % 32 == 0 and progress.stop_requested():
            break
        progress(i)
        text = source_text(kind, seed)
        hist["inputs-" + kind] += 1
        try:
            with contextlib.redirect_stdout(io.StringIO()):
                t = cc.build(text)
        except Exception as e:  # noqa: BLE001
            hist["parse-raised(C01)"] += 1
            continue
        why = dc.validate(t)
        if why:
            bad.append({"kind": kind, "seed": seed, "text": text, "stage": "build_advanced_tree", "why": why})
            continue
        with contextlib.redirect_stdout(io.StringIO()), contextlib.redirect_stderr(io.StringIO()):
            probs = cc.run_passes(t, on_pass=lambda name, tree: dc.validate(tree))
        hist["passes-run"] += len(cc.passes())
        inv = [p for p in probs if p[1] == "invalid-tree"]
        for p in inv:
            bad.append({"kind": kind, "seed": seed, "text": text, "stage": p[0], "why": p[2]})
        if probs:
            hist["pass-problem(C06)"] += len([p for p in probs if p[1] != "invalid-tree"])
        if not probs:
            c = dc.contract(t)
            if c:
                bad.append({"kind": kind, "seed": seed, "text": text, "stage": "after the full sequence", "why": "contract: " + c})
    return bad, dict(hist)


# ----------------------------------------------------------------------------- primitives correspondence

def kind_of(node):
    """the kinds of Model/Passes.lean: 1 Paragraph, 2 Section (isinstance, as the pass tests), 0 other."""
    from mwlib.parser import nodes

    if isinstance(node, nodes.Paragraph):
        return 1
    if isinstance(node, nodes.Section):
        return 2
    return 0


def ser(node, ids):
    return "%d:%d:%d" % (ids[id(node)], kind_of(node), len(node.children)) + "".join(" " + ser(c, ids) for c in node.children)


def prim_worker(items, extra, progress):
    import contextlib
    import io
    import logging

    from . import build_repo

    build_repo.overlay_all()
    logging.disable(logging.WARNING)
    from . import clean_common as cc
    from . import doc_common as dc
    from .common import Driver

    reqs, meta, viol = [], [], []
    hist = Counter()
    for i, seed in enumerate(items):
        progress(i)
        rng = random.Random(seed)
        text = dc.Render(rng).doc(dc.Gen(rng, max_depth=2).doc())
        with contextlib.redirect_stdout(io.StringIO()):
            t = cc.build(text)
        nodes = t.get_all_children()
        nodes = [t] + list(nodes)
        ids = {id(n): k for k, n in enumerate(nodes)}
        before = ser(t, ids)
        ops = []

        def subtree(n):
            return {id(n)} | {id(x) for x in n.get_all_children()}

        def live():
            return [t] + list(t.get_all_children())

        for _ in range(rng.randint(1, 6)):
            cur = live()
            cand = [n for n in cur if n is not t]
            if not cand:
                break
            x = rng.choice(cand)
            k = rng.random()
            if k < 0.3:
                x.parent.replace_child(x, x.children)
                ops.append("d%d" % ids[id(x)])
                hist["dissolve"] += 1
            elif k < 0.5:
                x.parent.remove_child(x)
                ops.append("r%d" % ids[id(x)])
                hist["remove"] += 1
            elif k < 0.58:
                # a paragraph put behind a section (what fix_paragraphs repairs), then one call or the whole pass
                from mwlib.parser import nodes as _n
                from mwlib.parser.treecleaner import TreeCleaner

                if any(isinstance(n, _n.Section) and not n.children for n in cur):
                    continue        # outside the pass's domain: the parser gives every section its caption child
                paras = [n for n in cand if isinstance(n, _n.Paragraph)]
                for para in rng.sample(paras, min(len(paras), rng.randint(1, 3))):
                    sub = subtree(para)
                    secs = [n for n in live() if isinstance(n, _n.Section) and n is not t and id(n) not in sub and n.children]
                    if not secs:
                        break
                    sec = rng.choice(secs)
                    para.move_to(sec)
                    ops.append("m%d,%d,0" % (ids[id(para)], ids[id(sec)]))
                    hist["move_to"] += 1
                if any(isinstance(n, _n.Section) and not n.children for n in live()):
                    continue
                tc = TreeCleaner(t, rtl=False)
                if rng.random() < 0.5:
                    if tc._fix_paragraphs(t):
                        hist["_fix_paragraphs moved a paragraph"] += 1
                    ops.append("p")
                    hist["_fix_paragraphs (one call)"] += 1
                else:
                    tc.fix_paragraphs(t)
                    ops.append("P")
                    hist["fix_paragraphs (pass)"] += 1
                    if tc._fix_paragraphs(t):
                        viol.append({"why": "fix_paragraphs returned before its fixed point", "text": text, "ops": ops})
            elif k < 0.8:
                sub = subtree(x)
                tg = [n for n in cand if id(n) not in sub]
                if not tg:
                    continue
                g = rng.choice(tg)
                before_flag = rng.random() < 0.5
                x.move_to(g, prefix=before_flag)
                ops.append("m%d,%d,%d" % (ids[id(x)], ids[id(g)], 1 if before_flag else 0))
                hist["move_to"] += 1
            else:
                sub = subtree(x)
                ps = [n for n in cur if id(n) not in sub and type(n).__name__ != "Text"]
                if not ps:
                    continue
                p = rng.choice(ps)
                x.parent.remove_child(x)
                p.append_child(x)
                ops.append("a%d,%d" % (ids[id(p)], ids[id(x)]))
                hist["append_child"] += 1
        why = dc.validate(t)
        if why:
            viol.append({"why": "a primitive within its precondition broke the tree: " + why, "text": text, "ops": ops})
            continue
        reqs.append("ops " + before + ";" + ";".join(ops))
        meta.append((text, ops, ser(t, ids)))
    progress(len(items))
    outs = Driver("tree").ask(reqs)
    diffs = []
    for (text, ops, after), o in zip(meta, outs):
        if o.split() != after.split():
            diffs.append({"text": text, "ops": ops, "impl": after, "model": o})
    return diffs, viol, dict(hist)


def replay(chk, data):
    import contextlib
    import io

    from . import build_repo

    build_repo.overlay_all()
    from . import clean_common as cc
    from . import doc_common as dc

    if "text" in data and "stage" in data:
        with contextlib.redirect_stdout(io.StringIO()):
            t = cc.build(data["text"])
        why = dc.validate(t)
        stage = "build_advanced_tree"
        if not why:
            with contextlib.redirect_stdout(io.StringIO()), contextlib.redirect_stderr(io.StringIO()):
                probs = cc.run_passes(t, on_pass=lambda name, tree: dc.validate(tree))
            inv = [p for p in probs if p[1] == "invalid-tree"]
            if inv:
                stage, why = inv[0][0], inv[0][2]
            elif not probs:
                why = dc.contract(t)
                stage = "after the full sequence"
        chk.say(f"replay: {why or 'tree is well-formed after every pass'}")
        if why:
            chk.violation(f"C05 violated after {stage}: {why}", data)
        return
    chk.say("replay: nothing to run for this file")


def run(chk: common.Check):
    from . import build_repo, guard

    build_repo.overlay_all()
    if chk.replay:
        replay(chk, json.load(open(chk.replay)))
        return
    tier = chk.tier
    res = common.lean_prove(PROP_MODULES, tier)
    trusted = [
        "Lean 4 kernel; axioms propext, Quot.sound, Classical.choice only (audited per theorem on this run)",
        "hand-written model lean/MwVerif/Model/Tree.lean of the advtree primitives (values with derived parents), tied by correspondence",
        "NOT a theorem: that each of the ~55 cleaning passes and the advanced-tree build use the primitives within their preconditions "
        "and never assign .children/.parent directly - checked by validating the real tree after every pass on the generated input space",
        "harness/doc_common.py (validator, contract), harness/clean_common.py (pass driver, triggers)",
    ]
    chk.proof_coverage(res, trusted)
    scratch = str(chk.mkscratch())
    n = 12000 if tier == "thorough" else 1500
    base = chk.seed * 10_000_000
    items = [("doc", base + i) for i in range(n)] + [("trig", base + n + i) for i in range(n)] + [("fuzz", base + 2 * n + i) for i in range(2 * n)]
    corpus = common.ROOT / "corpus" / "C05" / "known.json"
    if corpus.exists():
        items = [("corpus", i) for i in range(len(json.load(open(corpus))))] + items
    r1, c1 = guard.guarded_run(scratch, "harness.c05:tree_worker", items, nproc=16, hard_timeout=120,
                               stop_when=lambda r, c: len(c) >= 2 or sum(len(x[0]) for x in r) >= 6)
    bad, hist = [], Counter()
    for b, h in r1:
        bad += b
        hist.update(h)
    np_ = 6000 if tier == "thorough" else 800
    r2, c2 = guard.guarded_run(scratch, "harness.c05:prim_worker", [base + 5_000_000 + i for i in range(np_)], nproc=8, hard_timeout=120)
    diffs, viol = [], []
    for d, v, h in r2:
        diffs += d
        viol += v
        hist.update(h)
    for item, kind, detail in c1 + c2:
        viol.append({"why": f"{kind}: {detail}", "item": repr(item)})
    chk.coverage.update({
        "evaluations": len(items) + np_,
        "distinct_nontrivial": hist.get("passes-run", 0),
        "rule": "inputs: documents of the C02 grammar (sections, paragraphs, nested lists, tables, styles, links, references, pre) with "
                "spelling variants; the same with attribute triggers attached (overflow:auto+height, region_list, noprint, absolute "
                "positioning, colspans, navbox/infobox classes, nested tables, named references); markup fuzz over ~150 lexemes and "
                "the triggers. After the advanced-tree build and after each of the cleaning passes, called directly in the documented "
                "order, the tree is validated; after the whole sequence the contract. non-trivial = pass executions validated. "
                "primitives: 1-6 random operations per tree on real advanced trees vs the model",
        "traces_validated_against_impl": np_,
        "correspondence_differences": len(diffs),
        "histogram": dict(hist),
        "passes": len(__import__("harness.clean_common", fromlist=["x"]).passes()),
    })
    for v in viol[:2]:
        chk.violation("C05 violated: " + v["why"], {"kind": "impl-oracle", **v}, sig={"kind": v["why"][:30]})
    seen = set()
    for b in bad:
        k = (b["stage"], b["why"][:40])
        if k in seen or len(seen) >= 3:
            continue
        seen.add(k)
        chk.violation(f"C05 violated after {b['stage']}: {b['why']}", b, sig={"stage": b["stage"], "why": b["why"][:40]})
    if viol or bad:
        return
    broken = []
    if not res.ok:
        broken.append({"kind": "lean", "failed": res.failed_targets, "bad_axioms": res.bad_axioms, "forbidden": res.forbidden_hits,
                       "log_tail": res.log[-1500:]})
    if diffs:
        broken.append({"kind": "correspondence", "count": len(diffs), "first": diffs[0]})
    if broken:
        chk.violation("C05 is no longer shown to hold: " + ", ".join(b["kind"] for b in broken)
                      + " broke; validating every tree after every pass found no malformed tree",
                      {"broken": broken, "theorems": PROP_MODULES}, no_input=True)
