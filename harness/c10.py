"""C10 — tokenisation is lossless: tokens tile the input.

L1  lean/MwVerif/Props/C10.lean over Model/Scan.lean (+ Model/ScanRules.lean)
L2  correspondence: Model.scan vs utoken.scan running _uscan compiled from the working tree's
    _uscan.cc, on ALL sequences of <= 3 (thorough: <= 4) lexemes of a 50-lexeme alphabet and on
    random long strings; spans decide, token types are reported
L3  oracle: the tiling law on utoken.scan's output
"""
from __future__ import annotations

import itertools
import os
from collections import Counter

from . import build_repo, common
from .common import Driver, enc

LEVEL = "proof"
PROP_MODULES = ["MwVerif.Props.C10"]

LEXEMES = [
    "a", "Bc9", " ", "  ", "\t", "\n", "\n\n", "\n \n", "=", "==", "== ", "*", ":", ";", "#", "----", "-",
    "{|", "|}", "|-", "|", "!", "||", "!!", "|!", "|+", "''", "'''", "'", "[[", "]]", "[", "]",
    "http://a.b/c", "https://x", "[http://x", "//x.y", "[//x", "mailto:a@b.c", "[mailto:a@b", "irc://a", "news:a.Z_", "ftp://a",
    "&amp;", "&#x41;", "&#99999999999;", "&", "<br/>", "<b>", "</b>", "<", ">", "<!-- c -->", "<!--", "__TOC__", "_", "__",
    "\x7fUNIQ-ref-1-abc-QINU\x7f", "\x7f", "\x00", "", "\U0001d518", "é",
]


def tiling_violation(text, toks):
    """the property, on the scanner's output alone. Returns a description or None."""
    end = text.find("\x00")
    if end < 0:
        end = len(text)
    pos = 0
    for i, (ty, start, ln) in enumerate(toks):
        if ln <= 0:
            return f"token {i} is empty: {(ty, start, ln)}"
        if start < pos:
            return f"token {i} {(ty, start, ln)} overlaps the previous one (expected start >= {pos})"
        gap = text[pos:start]
        if any(c != "" for c in gap):
            return f"characters {gap!r} at {pos}..{start} are covered by no token"
        pos = start + ln
    if pos > end:
        return f"tokens run past the end / first NUL ({pos} > {end})"
    tail = text[pos:end]
    if any(c != "" for c in tail):
        return f"characters {tail!r} at {pos}..{end} are covered by no token"
    return None


def _shard(args):
    texts = args
    build_repo.use_working_tree_scanner()
    from mwlib.parser.token import utoken

    drv = Driver("c10")
    outs = drv.ask(["scan " + enc(t) for t in texts])
    span_diffs, type_diffs, viol = [], 0, []
    kinds = Counter()
    for t, o in zip(texts, outs):
        real = utoken.scan(t)
        for ty, _, _ in real:
            kinds[ty] += 1
        why = tiling_violation(t, real)
        if why and len(viol) < 3:
            viol.append({"text": t, "tokens": real, "why": why})
        model = [tuple(int(x) for x in p.split(",")) for p in o.split()] if o.strip() else []
        if [(s, l) for _, s, l in real] != [(s, l) for _, s, l in model]:
            if len(span_diffs) < 3:
                span_diffs.append({"text": t, "impl": real, "model": model})
            else:
                span_diffs.append(None)
        elif [x[0] for x in real] != [x[0] for x in model]:
            type_diffs += 1
    return {"n": len(texts), "span_diffs": len(span_diffs), "span_examples": [d for d in span_diffs if d],
            "type_diffs": type_diffs, "viol": viol, "kinds": dict(kinds)}


def re_source_fingerprint():
    """the rule part of _uscan.re, so that an edit to the .re (which cannot reach the compiled
    code without re2c) is at least reported as 'model may be stale'."""
    import hashlib

    src = (common.REPO / "src/mwlib/parser/token/_uscan.re").read_text()
    a = src.find("/*!re2c")
    return hashlib.sha256(src[a:src.find("PyObject *py_scan")].encode()).hexdigest()[:16]


KNOWN_RE_FINGERPRINT = "94b2f2d6871e37ba"


def run(chk: common.Check):
    tier = chk.tier
    res = common.lean_prove(PROP_MODULES, tier)
    trusted = [
        "Lean 4 kernel; axioms propext, Quot.sound, Classical.choice only (audited per theorem on this run)",
        "hand-written model lean/MwVerif/Model/Scan.lean + ScanRules.lean of the re2c scanner (regex engine by derivatives, "
        "longest match/first rule wins, found()/newline()/table mode/cursor rewinds), tied to the compiled _uscan.cc by correspondence",
        "_uscan.cc is compiled from the working tree by the harness (g++); re2c is not installed, so _uscan.re cannot be regenerated: "
        "its rule section is fingerprinted and a change is reported",
        "memory safety of the C++ (the 32 NUL sentinels) is not modelled",
    ]
    chk.proof_coverage(res, trusted)
    build_repo.use_working_tree_scanner()
    rng = chk.rng
    depth = 4 if tier == "thorough" else 3
    texts = []
    for d in range(1, depth + 1):
        if d == 4:
            core = LEXEMES[:40]           # 40^4 = 2.56M
            texts += ["".join(p) for p in itertools.product(core, repeat=4)]
        else:
            texts += ["".join(p) for p in itertools.product(LEXEMES, repeat=d)]
    texts = list(dict.fromkeys(texts))
    n_exh = len(texts)
    nrand = 60000 if tier == "thorough" else 6000
    for _ in range(nrand):
        texts.append("".join(rng.choice(LEXEMES) for _ in range(rng.randint(5, 60))))
    nproc = min(16, os.cpu_count() or 4)
    import multiprocessing as mp

    chunk = (len(texts) + nproc * 2 - 1) // (nproc * 2)
    with mp.get_context("spawn").Pool(nproc) as pool:
        results = pool.map(_shard, [texts[i:i + chunk] for i in range(0, len(texts), chunk)])
    span_diffs = sum(r["span_diffs"] for r in results)
    type_diffs = sum(r["type_diffs"] for r in results)
    examples = [e for r in results for e in r["span_examples"]]
    viol = [v for r in results for v in r["viol"]]
    kinds = Counter()
    for r in results:
        kinds.update(r["kinds"])
    fp = re_source_fingerprint()
    chk.coverage.update({
        "evaluations": len(texts),
        "distinct_nontrivial": n_exh,
        "exhaustive": True,
        "rule": f"ALL concatenations of 1..{min(depth, 3)} lexemes of a {len(LEXEMES)}-lexeme alphabet (every token kind, table markup, URLs, "
                "entities incl. out-of-range, UNIQ markers, NUL, U+EBAD, non-BMP)"
                + (", all 4-lexeme concatenations of the first 40" if depth == 4 else "")
                + f", plus {nrand} random strings of 5..60 lexemes. non-trivial = distinct exhaustive strings",
        "traces_validated_against_impl": len(texts),
        "span_differences": span_diffs,
        "type_only_differences": type_diffs,
        "oracle_violations": len(viol),
        "token_kinds_seen": {str(k): v for k, v in sorted(kinds.items())},
        "uscan_re_fingerprint": fp,
        "uscan_re_changed": fp != KNOWN_RE_FINGERPRINT,
        "samples": [texts[7], texts[n_exh // 2], texts[-1][:80]],
    })
    chk.assumptions += ["Python str without lone surrogates"]
    for v in viol[:1]:
        chk.violation("tokens do not tile the input: " + v["why"], {"kind": "impl-oracle", **v}, sig={"kind": "tiling"})
    if viol:
        return
    broken = []
    if not res.ok:
        broken.append({"kind": "lean", "failed": res.failed_targets, "bad_axioms": res.bad_axioms, "forbidden": res.forbidden_hits, "log_tail": res.log[-1500:]})
    if span_diffs:
        broken.append({"kind": "correspondence(spans)", "count": span_diffs, "first": examples[0] if examples else None})
    if fp != KNOWN_RE_FINGERPRINT:
        broken.append({"kind": "_uscan.re rule section changed (model transcribed from fingerprint %s)" % KNOWN_RE_FINGERPRINT, "now": fp})
    if broken:
        chk.violation("C10 is no longer shown to hold: " + ", ".join(b["kind"] for b in broken)
                      + " broke; the tiling oracle on utoken.scan found no failing input",
                      {"broken": broken, "theorems": PROP_MODULES}, no_input=True)
